#!/usr/bin/env python3
"""Regenerates /verif/MANIFEST.json from the table below (kept valid at all times)."""
import json, os, subprocess, sys

HERE = os.path.dirname(os.path.dirname(os.path.abspath(__file__)))

ENV = "GOFLAGS=-mod=mod GOPROXY=off GOSUMDB=off GOTOOLCHAIN=local GOWORK=off"

# id -> (technique, level text, level note, design ref)
CLAIMED = {
    "C12": ("lockset + guard-dominance + must-pass-through + def-use over go/ssa (custom checker) + baton-passing after cond.Wait + clamp bound followed into helpers (every return bounded by the limit parameter) + reachability of the running-set insertion under an assumed job state (caller/callee agreement on re-attach) + unit conversion before rounding (no float->int conversion multiplied by a constant afterwards) + backward slice of the usage measurement feeding the semaphore (own process excluded) + control independence of re-attach calls from earlier re-attach results (both arms of a tainted branch reach the same call sites) + endJob dominated by a state comparison + reachability between verdict, lock acquisition and removal (K12: no Lock() of the semaphore between Metadata.getState and delete(running))",
            "Structural necessary conditions decided exhaustively over the current source: lock discipline of the semaphore fields, "
            "capacity test dominates every grant in the same critical section, acquire/release pairing on all paths, clamp before acquire, "
            "wake-up after every release/resize, FIFO head-of-line, single acquisition order. All interleavings are covered at once because the rules "
            "are about which code may touch the counters under which lock, not about a run.",
            "Not decided: arithmetic of UpdateFreeUsed/UpdateSize arguments, run-loop progress. Trusts go/ssa, VTA call graph, sync.Mutex semantics.",
            "DESIGN.md §4 C12"),
}

CLAIMED.update({
    "C02": ("who-may-call (VTA call graph) + guard dominance with invalidation + path-sensitive all-elements-flag search + forward provenance over go/ssa + must-pass-through (raw reference pass) + runtime/scheduler agreement on merges without fork node + element-wise reference enumeration of the disabling conditions (FindRefs on every entry) + cache-invalidation pairing (a remembered scan position of the chunk list is cleared wherever the list is replaced) + reference identity (a comparison of two references' output paths is accompanied by one of their call ids) + every verdict of the disable classifier false after the reference arm (arm followed to the loop header, phis resolved) + order comparison of attempt ids (O9 = J8/R3c)",
            "Structural necessary conditions of the ordering decided for all programs and schedules at once, because they are facts about the scheduler's code: exact caller sets of the submission chain, "
            "phase guards in stepStage, the all-chunks-complete flag, the waiting rule of Node.getState, dependency sources (inputs, disabled condition, return bindings, fork roots) flowing into the prenode/postnode sets, preflight prenodes incl. recursion into sub-pipelines.",
            "Not decided: that FindRefs returns every reference (value-level recursion), state derivation from real files, job manager internals. Trusts go/ssa and the VTA call graph.",
            "DESIGN.md §4 C02"),
    "C03": ("guard dominance + must-pass-through + who-may-call over go/ssa; disjunctive at-most-once rule + may-alias fix-point over package syntax (shared Disable list never extended in place) + copy-on-write discipline of shared fork-id parts (pointer provenance: caller's part joined with a private copy, guard compares len(node.forks) with Fork.index, followed into helpers) + must-pass-through (zero-length ranges examined before any enabled verdict of Fork.disabled) + sibling agreement of the chunk-directory width at every creator of chunk objects + no store through a shared fork-id part parameter in the static enumeration + the arm for a narrowed null returns the narrowed value (no job for a null element) + fork count derives from len of a decoded value only + private copy of a shared fork-id part whenever the node has several forks + length guard on the constant index into the static fork list + Type stored on the split built for partly disabled outputs + isAlwaysDisabled consulted on every path of the stage resolver + guarded-comparison shape (X15: an ArrayLength() result compared with 0 behind len(Keys()) == 0 is an order comparison)",
            "Structural necessary conditions: at-most-once submission (flag test-and-set OR synchronous _jobinfo record before execJob), disabled test before any submission/completion, "
            "empty/null mapped collections reach writeDisable, zero-length range reports disabled, skip() only for preflights under SkipPreflight.",
            "Not decided: one fork per element/key (run-time counts), liveness (no job skipped). The at-most-once rule is a disjunction on purpose: removing one of the two redundant mechanisms keeps behaviour and must not alarm.",
            "DESIGN.md §4 C03"),
    "C06": ("guard dominance + must-pass-through + phi-web analysis + who-may-call over go/ssa (core, cmd/mrjob, cmd/mrp) + all-elements verdict followed through boolean-returning helpers (path-sensitive product search per helper, call sites as sites one level up) + verdict consistency (false after a recorded failure) + cache-invalidation pairing (must-pass-through) + coverage of failure-marker locations by the partial reset + must-pass-through under a re-established premise (a re-submitted split stores a fresh chunk list) + nil-test after decoding into a pointer field + may-reach of verifyDef on the preloaded-chunks edge + condition-implies-action for orphaned Running nodes + set-once guard dominance on the not-running timestamp + must-pass-through of the end-of-refresh pass on every non-error return of refreshState (loop entry counts) + must-pass-through of a parse before the chunk's outs become the join's + defer order (an exiting defer is not registered after another defer) in the stage adapter and mrjob",
            "Structural necessary conditions: failure markers take precedence in the state function; the monitor writes _complete only on success and always records a failure; the local job manager reports failed processes; "
            "every fork-level _complete is dominated by output validation; join only after all chunk outputs were read and verified; failed nodes release nobody; success exit status only from the completed-cleanup path.",
            "Not decided: error text naming the stage, retry classification regexes, the Python adapter, restart behaviour after the fault is removed.",
            "DESIGN.md §4 C06"),
})

CLAIMED.update({
    "C15": ("relation operand symmetry + field coverage (taint classes over go/ssa) + guard dominance on reattachToPipestance and Pipestance.Lock + all-elements-compared search + handler registration only for the lock owner + type name compared unless plain file (guard dominance on the accepting return) + reachability of struct-definition reads from EquivalentCall (interface calls expanded) + error-edge return values (no pipestance handed back when Lock failed) + guard dominance on every removal of the lock file (holder only) + who-may-rescan the pipestance-level metadata cache + writer/reader agreement on environment expansion of the invocation + memo-key completeness in the equivalence walk (an escape edge must continue the loop) + operand-shape rule on float comparisons (S13: no ordering comparison against a non-zero constant in FloatExp.equal's family)",
            "Structural necessary conditions: every comparison / nested relation call in the equivalence relations pairs a receiver-derived value with the same component of the argument (found the genuine self-comparison in Modifiers.EquivalentTo, now fixed); "
            "each semantic field is read on both sides; attachment is dominated by byte equality with the recorded file and by EquivalentCall; refusals unlock; the lock is written only when absent, after the handler is registered; mutating entry points are guarded by readOnly().",
            "Not decided: completeness (cosmetic edits are accepted), races between two simultaneous first starts, that the byte comparison of the invocation text refuses a merely reformatted invocation (observation only).",
            "DESIGN.md §4 C15"),
    "C18": ("table agreement (escape set extracted from SSA comparisons vs POSIX special set) + provenance with sanitizer + template scan + guard exclusion sets for verbatim copies + single-pass substitution (value derivation) through helper parameters and results + byte-wise predicate helpers folded per byte value + no search of substituted text with placeholder needles (derivation through Split/Join/elements) + escape set equal to (not only covering) what a POSIX shell un-escapes inside double quotes + the assembled script reaches file and stdin unmodified (direct value flow) + every return of shellSafeQuote built by the quoting function, or guarded by a constant word pattern whose character class (computed with regexp/syntax) is inert in sh + quoted-value placeholders outside quotes on the shell lines of every template",
            "Structural necessary conditions: the escape set of appendShellSafeQuote covers $ ` \" \\ (found the genuine missing back-tick, now fixed), values are wrapped in double quotes, every argv element / command / environment value reaches the script only through the quoting function, "
            "STDOUT/STDERR/JOB_WORKDIR/CMD parameters are quoted results, __MRO_CMD__ stands unquoted in command position in all templates.",
            "Not decided: invalid UTF-8 (octal extension), JOB_NAME/RESOURCES, directive parsers of each cluster. Oracle: POSIX XCU 2.2.3.",
            "DESIGN.md §4 C18"),
})

CLAIMED.update({
    "C04": ("deletion-site ownership table + who-may-call + guard dominance + backward string provenance + lockset (Fork.storageLock) over go/ssa + must-pass-through (alias completeness) + empty-path guard + sibling agreement of the type-less projection (recursion inside a range-over-map loop as inside the array loop) + provenance of the walked file's names (getLogicalFileNames on all paths) + every-path / every-iteration registration of the nil consumer for outputs and retains (entry point or Fork-method helper) + type-assertion guard on the struct-style lookup of the type-aware projection (thin wrappers followed to their delegate) + no raw-byte inspection beyond the first byte in getMaybeFileNames + unicode-escape allowance of the separator shortcut",
            "Structural necessary conditions decided for all interleavings at once: every os.Remove/RemoveAll of package core sits in a tabled function; files-path deleters are reachable only through partialVdrKill; a full kill needs Disabled or Complete with no waiting file post-node; "
            "consumers leave the waiting set only when seen Complete/Disabled and never the nil consumer; only files with a nil keep-alive set reach os.RemoveAll; chunk files only under Split(); top-level outputs and retains carry the nil consumer; cloned forks inherit the bookkeeping; the three maps are touched only under storageLock (constructor-phase exceptions tabled).",
            "Not decided: whether getLogicalFileNames/anyOverlap find every alias (file-system values); stages passing upstream paths through (excluded by the property).",
            "DESIGN.md §4 C04"),
    "C14": ("backward string provenance of removal targets + report/removal pairing + guard dominance over go/ssa (partial claim) + counted-once (entry leaves the cache) + containment-by-prefix needle ends with a separator + verdict agreement (no constant-false done result on a path that wrote the final report) + must-pass-through of the symlink check before every destructive callee of the per-fork sweep (or at all calls) + freshness of per-fork maps stored in a loop over forks + loop-variable dependence of the ancestor walk + O_NOFOLLOW (flag constant) on the root of util.Walk + nil-only guard on giving up in cacheParamFileMap + not-exist tolerance of the chunk temp sweep + kill-report reads dominated by storageLock.Lock + must-pass-through os.Lstat or parent==nil guard on every return of vdrCheckSymlink (W12)",
            "Structural necessary conditions: every path VDR removes originates from the stage's own metadata accessors or from file-cache keys produced by walking enumerateFiles(); no VDR across a symlinked ancestor; the slice reported is the slice removed, removal lies between recording and writing the report, inside a critical section; per-phase temp cleanup is state-guarded, flagged once and persisted.",
            "Partial: equality of Count/Size with bytes removed, completeness (no volatile file survives) and merge arithmetic are run-time values and not decided.",
            "DESIGN.md §4 C14"),
})

CLAIMED.update({
    "C05": ("must-pass-through ordering + guard dominance + who-may-call + interface-implementation enumeration over go/ssa (core, util, cmd/mrjob, cmd/mrp) + must-do (state re-derived after reset) + condition-implies-action (after an edge on which the restart condition holds every path to the entry point's return resets; verdict-returning helpers followed with the returned constants assumed) + condition-implies-action search with known facts (dominator-chain relations, loads of one access path) and with an assumed state value (contradicting edges pruned) + data dependence of the regenerated uniquifier on the previous one + loop-phase order (states derived only after every node loaded its metadata) + write-then-rename of the metadata archive + full reset renews the uniquifiers + sibling agreement of the chunk-directory width between first run and re-attach + condition-implies-action for orphaned Running nodes at re-attach + write-then-rename of extracted metadata files + ordering comparison in the uniquifier generator + must-pass-through of the submit command before the queue sentinel is removed (successful returns include the nil verdict of a helper) + chunk directories re-created by Fork.mkdirs + pipestance creation dominated by EnterCriticalSection + loop-body dominance (R15: the restartLocal call dominates every latch and exit of the loop over Fork.chunks)",
            "Crash-point enumeration is not static; decided instead are the ordering and ownership rules that make a crash at any point recoverable: durable-before-announced in the job monitor and in runJob, reset only of failed/orphaned work (never Complete), fresh uniquifier per attempt and stale notifications ignored, "
            "lock life-cycle and signal shutdown order, balanced critical sections that no HandleSignal enters and that enclose the multi-file updates.",
            "Not decided: equality of final outputs with an uninterrupted run, behaviour at each individual crash prefix, PID reuse. A lock leak on a non-signal error path of instantiatePipeline is outside the property's wording (handled signals) and reported as information in DESIGN.md.",
            "DESIGN.md §4 C05"),
})

CLAIMED.update({
    "C08": ("who-may-call + must-pass-through (deferred recover barrier) + guard dominance over go/ssa + include-graph acyclicity (guarded edge insertion) + may-be-nil propagation of the top-level call's nil *Pipeline + no per-node allocation sized by the remaining input + freshly filtered error lists (no return of the receiver slice from ErrorList.If) + non-negativity of Repeat counts (clamps, guards, or a width whose every origin - followed through parameters, results and phis - is an unconditional running maximum) + located errors from type registration + must-pass-through of a pipeline-cycle search before compilePipelineDecs succeeds + guard dominance of the call-mode panic by the null-source arm + self-comparison guard on every dependency insertion of directDepsMap (in the closure or at all of its calls)",
            "Parse stage only. Structural necessary conditions: every caller of the generated parser installs a recover barrier that turns any panic of lexer, grammar action or literal conversion into a located parse failure (found four crashing inputs, fixed by adding the barrier); "
            "lexer progress (non-empty tokens, cursor advances every iteration); bounded include recursion.",
            "Not decided: panics in the compile phase (counted as information), time/memory proportionality (RE2 linearity assumed), errors without position.",
            "DESIGN.md §4 C08"),
})

CLAIMED.update({
    "C09": ("table agreement between parse side (fields fed by unquote, computed by taint over the generated grammar actions) and format side (provenance with quoteString as sanitizer); escape-set extraction from quoteString vs the lexer's string regexp constant; must-pass-through field examination (every path of a node's format method reads each content field of a frozen table, predicate helpers expanded) + loop-exit rule on the wildcard while the compiler extends the binding list (premise re-established) + comment fields examined exactly once per format path + loop-index recurrence of the in-place topological sort (slot re-examined after a shift) + split operand comments printed + comment/scope-comment tests followed into helpers and accessors + load-before-clear and clear-after-hand-over of comment fields (must-pass-through) + bounded float->integer conversion in formatGB + multiple-preserving guard in roundUpTo + comments of an empty binding list printed + sign write on the negative edge of formatGB + raw hex byte appended only in the \\x arm of the string decoder + sign-bit test in the float formatter",
            "Structural necessary conditions: every AST string the parser obtains with unquote reaches formatted text only through quoteString (found raw emission of stage src and include paths, fixed); quoteString copies unescaped only bytes >= 0x20 other than quote/backslash; every escape it writes is lexed by the string rule and decoded by unquoteBytes.",
            "Not decided: idempotence, comment placement, number printing (%g, formatGB), topological order, include-expanded rendering.",
            "DESIGN.md §4 C09"),
})

CLAIMED.update({
    "C10": ("iteration-order analysis of every range-over-map loop reachable from the deterministic entry points (SSA loop bodies, effect classification, collect-then-sort recognition, call-effect fix-point over the VTA call graph) + self-validating triage table + positive examples + sibling agreement of key-order comparators + completeness of location comparisons in comparators of map-collected keys (closures and Less methods, accessors looked through) + scope extended to the text rendering of `mro graph` + comparator-indexes-the-sorted-slice (captured cells and receiver field paths resolved) + returns count as uses of an accumulator stored into an escaping cell + deep variance of freshly allocated return values (fields stored with loop-variant values) + scope extended to argument/output validation text + re-validated triage fact (returns of every visitor passed to WalkExp) + no goroutine in the compile drivers",
            "A structural necessary condition: Go's randomised map iteration is the only nondeterminism source in compile/format/resolve code (checked: no goroutine/clock/random there), so every map loop must have only order-insensitive effects, be collect-then-sort, or be triaged with a reason that the checker re-validates. "
            "Found 34 loops where map order reached error text, comment output or filtered JSON (18 distinct error texts in 60 compiles); fixed by sorted iteration.",
            "Not decided: order dependence through pointer identity, sort comparators that are not total orders, stability of topoSort. The 15 triage entries are the trusted part (each with a reason; 7 carry a machine-checked condition).",
            "DESIGN.md §4 C10"),
})

CLAIMED.update({
    "C11": ("table agreement between writer and parser constants (replacer pairs, regexp literal, Sprintf formats extracted from SSA; sample names assembled from the writer's constants are parsed by the reader's regexp) + provenance of map keys + guard dominance in the journal router + guard exclusion sets for verbatim key output (constant-needle searches; byte-wise predicates folded per byte value over the SSA of the loop body) + identity check of positional fork lookup (guard dominance on the returned element's own name) + adversarial name samples (call ids beginning with fork/chnk) + terminated name prefixes for removal by prefix + ordering comparison in the uniquifier generator + component-boundary rule for every strings.HasPrefix whose prefix derives from a node's qualified name + the encoder escapes its own escape character",
            "Structural necessary conditions: the journal-name encoder and the journal regexp agree, the uniquifier/chunk formats are what the regexp accepts, map keys reach id text only through url.PathEscape, Fork.fqname/path/id come only from the encoded id, stale attempts are ignored, a notification is applied only to the object the router resolved, fork lookup is bounds-checked and compares whole names.",
            "Not decided: injectivity of nested mixed array/map fork numbering (arithmetic on run-time lengths), collisions between -u<uniq> directories, that forks[i] carries id fork<i>.",
            "DESIGN.md §4 C11"),
})

CLAIMED.update({
    "C17": ("sibling agreement over all implementations of the Type interface (guard dominance) + operand symmetry (taint classes) + phi-flag analysis over go/ssa (partial claim) + guard exclusion sets for raw strings written into rebuilt JSON + all-elements product search (original returned only if no component changed) + type-level scan of decode destinations in validators/filters (no json.Number, no interface{}) + refusal backed by member-type assignability in StructType.IsAssignableFrom + every-iteration rule over StructType.Members in all IsAssignableFrom implementations + filtered result (not the input) returned after FilterJson at stage boundaries + array projection keeps remaining dimensions + memo-key completeness for skipped members + int arm of IsValidJson returns only decode results + text test before the float fallback of the int filter",
            "Structural necessary conditions: every IsValidJson / FilterJson implementation accepts null first and without effect; every IsAssignableFrom / CheckEqual pairs the same component of receiver and argument; JSON rebuilders keep the identity fast path and raise the 'different' flag whenever a component changed.",
            "Partial: idempotence, validity of the rebuilt JSON and int/float normalisation are value-level and not decided.",
            "DESIGN.md §4 C17"),
    "C07": ("operand symmetry over the assignability/equality relations + sibling agreement of the reference arm of every IsValidExpression implementation (guard dominance over go/ssa) (thin claim) + guard dominance with invalidation (map wrap, merge HasRef) + guard dominance in the function or at all calls (map unwrap only without array dimension) + phase-order typestate (no read of BindStms.Table reachable from the topological sort; premise re-established) + loop-index recurrence of the in-place topological sort + must-pass-through (KnownLength consulted between obtaining a merged source set and returning it) + type-argument derivation in every arm of SplitExp.FindTypedRefs + every-iteration rule over StructType.Members + memo-key completeness (a loop that skips members by a set lookup keys the set by what the skipped check depends on) + outer-dimension-first ordering of ArrayDim/MapDim dispatch + must-do of the binding's compile step before an expanded wildcard binding joins the list + must-pass-through of the unbound-parameter scan before BindStms.compile succeeds",
            "Two mechanisms, not the property's behaviour: assignability recurses on the right operands; a reference is accepted only after resolveType succeeded and the referenced type is assignable TO the receiver type, in every implementation of the interface.",
            "Thin: soundness of the whole relation, projection, map-call dimensions and error locations are not decided.",
            "DESIGN.md §4 C07"),
})

CLAIMED.update({
    "C19": ("field-coverage (which syntax fields the refactoring code reads, per entry point over the call graph incl. Apply methods of created edits, and per enumerating function) + sibling agreement of the expression walkers' type switches (thin claim) + whole-name-match lint + inferred key domains of the callable tables + name-space separation + live-identity check on edits + complete enumeration (no sub-slice of / early exit from loops over binding lists in the rename walkers) + visiting of every called pipeline in the unused-output search + wildcard bindings considered by renames + no identity comparison of declaration objects across separately compiled files + every iteration over the ASTs examines the top-level call + loop-phase separation of candidate population and top-call removal + memo-key completeness (sets spanning several ASTs keyed by declaration id, loops and recursive walks) + side effects sought at any depth (no narrowing to pipelines before the recursive call) + accumulation of the Apply verdict over the files of a pass (loop-carried phi feeds its own update) + element-keeping on every iteration of removeRefFromExp unless shouldRemoveExpCallRef holds",
            "Two mechanisms, not the behaviour: every place where a renamed or removed name can occur (call/modifier/return bindings, pipeline retains, top-level call) is visited by the refactoring that concerns it; every expression walker has an arm for each reference-bearing expression kind and recurses (or enumerates with FindRefs).",
            "Thin: that the edited program compiles, call-graph equality and rename round-trips are not decided.",
            "DESIGN.md §4 C19"),
})

CLAIMED.update({
    "C16": ("type-level scan of JSON decode destinations on the conversion path + writer/reader key agreement (constants and struct tags) + guard dominance + value derivation over go/ssa (thin claim) + type-switch-arm dominance of dimension adjustments (in the function or at every call, constant boolean arguments respected) + sortedness typestate for binary searches (a sort of the same value dominates every search) + backward slice of the recorded include (independent of the include chain) + separator test dominating every path-tail return of IncludeFilePath + guard classification of rune replacement in the string decoder (exact surrogate tests only) + surrogate pairs combined + type table initialised before GetCallable hands it out + language membership of JSON escapes in the tokenizer's string-rule constant (regexp evaluated on constant probes) + 2^53 bound on integer->float conversions in the float-literal parser + key-dependent type argument for object entries in convertToExp + uses of StringExp.Value in its JSON methods restricted to quoteString/len/comparisons",
            "Four structural necessary conditions: numbers are never decoded through interface{} or a float type on the conversion path (they stay text and are read by the MRO value parser, so large integers survive); "
            "the object key SplitExp.encodeJSON writes equals the JSON tag convertToExp reads; the split status of an argument is recorded on the *SplitExp edge and restored by wrapping under the split flag; "
            "the per-fork invocation is BuildCallSource of this fork's resolved inputs.",
            "Thin: equality of values after a round trip (struct/map decisions, float printing), escapes (C09), and that the recorded invocation compiles are not decided.",
            "DESIGN.md §4 C16 / §9"),
})

CLAIMED.update({
    "C13": ("write-site classification of the JSON buffer (constant / json.RawMessage by type / encoder result) with error-path exemption decided from the returns reachable after the write + must-pass-through (a value is written on every path that can return nil; every iteration of a separator-writing loop writes its element) + backward provenance of rename/symlink destinations + all-members rule on the duplicate out-name set of StructType.compile + leaf agreement between a link read and the directory its relative target is joined with + stat of the destination before a missing source is recorded as null + guard dominance of IsLegalUnixFilename over map keys joined into paths + every-iteration key collection + buffer-write provenance in the symlink arm (destination, not outs/ name) + element type keeps remaining dimensions + rewritten element (not the input) recorded after processStructOuts (thin claim) (strconv.Quote is not a JSON encoder) + monotone update of the struct's file kind (store dominated by a read of the current value) + every exit of moveOutFile (error exits too) has written into the buffer + constant-comparison inventory of the file-name gate (M16: IsLegalUnixFilename tests the name against the reserved names)",
            "Five structural necessary conditions: everything written into the rebuilt top-level _outs is JSON by construction (keys and moved paths go through json.Marshal; raw strings only on paths that end in a non-nil error); "
            "every path through a writer that can succeed has written a value; no iteration of a separator-writing loop skips its element; files are moved/linked to the path built from the member's GetOutFilename(); "
            "the compiler's duplicate out-name rejection looks up and records every member with a non-empty out filename, and the struct synthesised from each callable's outputs goes through it.",
            "Thin: file contents, existence of files, relative-symlink arithmetic, validity of the assembled JSON beyond these conditions, and the display output are not decided.",
            "DESIGN.md §4 C13"),
})

NOT_APPLICABLE = {
    "C01": "Equality of delivered argument values with the denotation of binding expressions quantifies over run-time JSON values and fork matching for all programs; no clause is a fact about the shape of the code, so any static rule would be a proxy, not a necessary condition.",
}

PENDING_REASON = "check not built yet in this revision (planned static rules are described in DESIGN.md §4); not claimed until the rule is armed and tested both ways"

ALL = ["C%02d" % i for i in range(1, 20)]


def main():
    checks = []
    for pid in ALL:
        if pid not in CLAIMED:
            continue
        tech, text, note, ref = CLAIMED[pid]
        checks.append({
            "property_id": pid,
            "quick_cmd": "/verif/bin/mrocheck -property %s -tier quick" % pid,
            "thorough_cmd": "/verif/bin/mrocheck -property %s -tier thorough" % pid,
            "evidence_file": "/verif/evidence/%s.json" % pid,
            "replay_cmd_template": "/verif/bin/mrocheck -property %s -replay {path}" % pid,
            "engine": "mrocheck",
            "level_claimed": {"category": "other", "text": text, "design_ref": ref},
            "level_note": note,
            "technique": "static analysis: " + tech,
        })
    na = []
    for pid in ALL:
        if pid in CLAIMED:
            continue
        na.append({"property_id": pid, "reason": NOT_APPLICABLE.get(pid, PENDING_REASON)})
    hooks_commits = []
    man = {
        "version": 1,
        "setup_cmd": "cd /verif/checker && %s go build -o /verif/bin/mrocheck ." % ENV,
        "hooks": {
            "guard": "verif",
            "enable": "no hooks: static analysis reads /repo's working tree as it is (go/packages over /repo on every run)",
            "baseline_off_cmd": "cd /repo && %s go test -vet=off -count=1 ./..." % ENV,
            "source_commits": hooks_commits,
            "add_only": True,
        },
        "engines": [{
            "name": "mrocheck",
            "path": "/verif/checker",
            "serves_properties": sorted(CLAIMED),
            "kind_free_text": "repository-specific static analyser over go/packages + go/ssa + VTA call graph: guard dominance, must-pass-through, who-may-call, lockset, iteration-order taint, operand symmetry, table agreement, provenance",
        }],
        "checks": checks,
        "not_applicable": na,
        "notes": "All verdicts are computed from /repo's current source without executing martian code. thorough = same obligations plus the overlay-mutant self-test of the checker (each mutant analysed in a child process). Known findings: /verif/known_findings.json.",
    }
    with open(os.path.join(HERE, "MANIFEST.json"), "w") as f:
        json.dump(man, f, indent=1)
        f.write("\n")
    try:
        import jsonschema
        jsonschema.validate(man, json.load(open("/root/.vp/MANIFEST.schema.json")))
        print("MANIFEST.json valid;", len(checks), "checks,", len(na), "not applicable")
    except ImportError:
        print("written (jsonschema not available for validation)")


if __name__ == "__main__":
    main()
