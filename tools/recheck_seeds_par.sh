#!/bin/bash
# recheck_seeds_par.sh [name...] : like recheck_seeds.sh, but each stored seeded change is applied to a
# scratch copy of /repo (outside /repo and /verif, removed afterwards) and the copies are analysed in
# parallel (default 4, override with JOBS=n); /repo itself is not touched.  Updates checks_that_fire
# and rules_that_fire in /verif/seeded/<name>/meta.json.
set -u
NAMES=${@:-$(ls /verif/seeded)}
SCR=$(mktemp -d /tmp/seedchk.XXXXXX)
one() {
  NAME=$1; SCR=$2
  D=$SCR/$NAME
  [ -f /verif/seeded/$NAME/patch.diff ] || return
  mkdir -p $D/repo $D/verif
  rsync -a --exclude .git /repo/ $D/repo/
  cp /verif/known_findings.json $D/verif/
  if ! (cd $D/repo && patch -p1 -s --no-backup-if-mismatch < /verif/seeded/$NAME/patch.diff >/dev/null 2>&1); then echo "$NAME: patch does not apply"; rm -rf $D; return; fi
  RES=""; DETAIL=""
  for P in $(/verif/bin/mrocheck -list); do
    O=$(GOMAXPROCS=4 /verif/bin/mrocheck -repo $D/repo -verif $D/verif -property $P 2>&1 | grep -v '^WARNING')
    if echo "$O" | grep -q '^VIOLATION\|^UNDECIDED'; then
      RES="$RES $P"
      DETAIL="$DETAIL$(echo "$O" | grep '^VIOLATION\|^UNDECIDED' | grep -v '^VIOLATION property' | cut -d' ' -f2 | tr '\n' ' ')"
    fi
  done
  rm -rf $D
  echo "$NAME: fired:${RES:- none}  rules: $DETAIL"
  python3 - "/verif/seeded/$NAME/meta.json" "$RES" "$DETAIL" <<'PY'
import json,sys
p,res,detail=sys.argv[1:4]
m=json.load(open(p))
m["checks_that_fire"]=res.split()
m["rules_that_fire"]=detail.split()
json.dump(m,open(p,"w"),indent=1)
PY
}
export -f one
printf '%s\n' $NAMES | xargs -P ${JOBS:-4} -I{} bash -c "one {} $SCR"
rm -rf $SCR
