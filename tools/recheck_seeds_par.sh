#!/bin/bash
# recheck_seeds_par.sh [name...] : like recheck_seeds.sh, but each stored seeded change is applied to a
# scratch copy of /repo (outside /repo and /verif, removed afterwards) and the copies are analysed in
# parallel (default 4, override with JOBS=n); /repo itself is not touched.  Updates checks_that_fire
# and rules_that_fire in /verif/seeded/<name>/meta.json.
set -u
NAMES=${@:-$(ls /verif/seeded)}
SCR=$(mktemp -d /tmp/seedchk.XXXXXX)
one() {
  NAME=$1; SCR=$2
  D=$SCR/$NAME
  [ -f /verif/seeded/$NAME/patch.diff ] || return
  mkdir -p $D/repo $D/verif $D/base $D/bverif
  # a seed whose lines were touched by later fix: commits carries "base_commit" in its meta.json: it
  # is applied to that commit, and only what it ADDS to the reports of that base tree counts
  BASE=$(python3 -c "import json;print(json.load(open('/verif/seeded/$NAME/meta.json')).get('base_commit',''))" 2>/dev/null)
  if [ -n "$BASE" ]; then
    git -C /repo archive $BASE | tar -x -C $D/repo
    git -C /repo archive $BASE | tar -x -C $D/base
    cp /verif/known_findings.json $D/bverif/
  else
    rsync -a --exclude .git /repo/ $D/repo/
  fi
  cp /verif/known_findings.json $D/verif/
  if ! (cd $D/repo && patch -p1 -s --no-backup-if-mismatch < /verif/seeded/$NAME/patch.diff >/dev/null 2>&1); then echo "$NAME: patch does not apply"; rm -rf $D; return; fi
  RES=""; DETAIL=""
  # a seed that applies but no longer type-checks (a later commit added a caller) needs a base_commit
  if GOMAXPROCS=4 /verif/bin/mrocheck -repo $D/repo -verif $D/verif -property C02 2>&1 | grep -q 'load failure'; then echo "$NAME: does not compile on this tree (give it a base_commit)"; rm -rf $D; return; fi
  for P in $(/verif/bin/mrocheck -list); do
    O=$(GOMAXPROCS=4 /verif/bin/mrocheck -repo $D/repo -verif $D/verif -property $P 2>&1 | grep -v '^WARNING' | grep '^VIOLATION\|^UNDECIDED' | grep -v '^VIOLATION property' | cut -d' ' -f1,2)
    if [ -n "$BASE" ]; then
      B=$(GOMAXPROCS=4 /verif/bin/mrocheck -repo $D/base -verif $D/bverif -property $P 2>&1 | grep '^VIOLATION\|^UNDECIDED' | grep -v '^VIOLATION property' | cut -d' ' -f1,2)
      O=$(comm -23 <(echo "$O" | sort -u) <(echo "$B" | sort -u))
    fi
    if echo "$O" | grep -q '^VIOLATION\|^UNDECIDED'; then
      RES="$RES $P"
      DETAIL="$DETAIL$(echo "$O" | grep '^VIOLATION\|^UNDECIDED' | cut -d' ' -f2 | tr '\n' ' ')"
    fi
  done
  rm -rf $D
  echo "$NAME: fired:${RES:- none}  rules: $DETAIL"
  python3 - "/verif/seeded/$NAME/meta.json" "$RES" "$DETAIL" <<'PY'
import json,sys
p,res,detail=sys.argv[1:4]
m=json.load(open(p))
m["checks_that_fire"]=res.split()
m["rules_that_fire"]=detail.split()
json.dump(m,open(p,"w"),indent=1)
PY
}
export -f one
printf '%s\n' $NAMES | xargs -P ${JOBS:-4} -I{} bash -c "one {} $SCR"
rm -rf $SCR
