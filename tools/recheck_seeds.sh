#!/bin/bash
# recheck_seeds.sh [name...] : applies each stored seeded change to /repo, runs every registered quick
# check against it, reverts, and updates checks_that_fire in /verif/seeded/<name>/meta.json.
set -u
cd /repo || exit 2
if ! git diff --quiet; then echo "/repo not clean"; exit 2; fi
NAMES=${@:-$(ls /verif/seeded)}
for NAME in $NAMES; do
  D=/verif/seeded/$NAME
  [ -f $D/patch.diff ] || continue
  if ! git apply --check $D/patch.diff 2>/dev/null; then echo "$NAME: patch does not apply"; continue; fi
  git apply $D/patch.diff
  RES=""; DETAIL=""
  mkdir -p /tmp/seed_verif_$$ && cp /verif/known_findings.json /tmp/seed_verif_$$/ 2>/dev/null
for P in $(/verif/bin/mrocheck -list); do
    O=$(/verif/bin/mrocheck -property $P -verif /tmp/seed_verif_$$ 2>&1 | grep -v '^WARNING')
    if echo "$O" | grep -q '^VIOLATION'; then
      RES="$RES $P"
      DETAIL="$DETAIL$(echo "$O" | grep '^VIOLATION' | grep -v '^VIOLATION property' | cut -d' ' -f2 | tr '\n' ' ')"
    fi
  done
  git checkout -- .
  rm -rf /tmp/seed_verif_$$
  echo "$NAME: fired:${RES:- none}  rules: $DETAIL"
  python3 - "$D/meta.json" "$RES" "$DETAIL" <<'PY'
import json,sys
p,res,detail=sys.argv[1:4]
m=json.load(open(p))
m["checks_that_fire"]=res.split()
m["rules_that_fire"]=detail.split()
json.dump(m,open(p,"w"),indent=1)
PY
done
