#!/bin/bash
# eval_refactor.sh <worktree-dir> <name>
# Stores a behaviour-preserving refactoring (written by a sub-agent that saw only the property text),
# confirms build + suite, and runs every registered quick check against /repo with it applied.
# Any check that fires is a FALSE ALARM candidate (after the diff has been reviewed by hand).
set -u
WT=$1; NAME=$2
export GOFLAGS=-mod=mod GOPROXY=off GOSUMDB=off GOTOOLCHAIN=local
OUT=/verif/refactors/$NAME
mkdir -p "$OUT"
cd "$WT" || exit 2
git add -N . 2>/dev/null
git diff -- . ':(exclude)REFACTOR.md' > "$OUT/patch.diff"
[ -f REFACTOR.md ] && cp REFACTOR.md "$OUT/REFACTOR.md"
echo "== patch: $(grep -c '^[+-][^+-]' "$OUT/patch.diff") changed lines in $(git diff --name-only | tr '\n' ' ')"
go build ./... 2>&1 | grep -v '^WARNING' | tail -3
SUITE=$(go test -vet=off -count=1 ./... 2>&1 | grep -v '^WARNING' | grep -v 'no test files' | grep -cv '^ok')
echo "suite_nonok_lines=$SUITE"
cd /repo || exit 2
if ! git diff --quiet; then echo "/repo not clean"; exit 2; fi
if ! git apply --check "$OUT/patch.diff" 2>/dev/null; then echo "patch does not apply to /repo"; exit 2; fi
git apply "$OUT/patch.diff"
RES=""; DETAIL=""
mkdir -p /tmp/ref_verif_$$ && cp /verif/known_findings.json /tmp/ref_verif_$$/ 2>/dev/null
for P in $(/verif/bin/mrocheck -list); do
  O=$(/verif/bin/mrocheck -property $P -verif /tmp/ref_verif_$$ 2>&1 | grep -v '^WARNING')
  if echo "$O" | grep -q '^VIOLATION'; then
    RES="$RES $P"
    echo "--- $P fires:"; echo "$O" | grep '^VIOLATION' | grep -v '^VIOLATION property' | cut -c1-330 | head -6
    DETAIL="$DETAIL$(echo "$O" | grep '^VIOLATION' | grep -v '^VIOLATION property' | cut -d' ' -f2 | tr '\n' ' ')"
  fi
done
git reset -q; git checkout -- . ; git clean -fdq martian cmd 2>/dev/null
rm -rf /tmp/ref_verif_$$
echo "CHECKS_FIRED:${RES:- none}"
python3 - "$OUT" "$NAME" "$SUITE" "$RES" "$DETAIL" <<'PY'
import json,sys
out,name,suite,res,detail=sys.argv[1:6]
json.dump({"refactor":name,"suite_nonok_lines":int(suite),"checks_that_fire":res.split(),"rules_that_fire":detail.split()},open(out+"/meta.json","w"),indent=1)
PY
