#!/bin/bash
# eval_seed_wt.sh <worktree-dir> <property-id> <seed-name>
# Like eval_seed.sh, but /repo is not touched: the seeded change (git diff of the sub-agent's
# worktree) and its demonstration are applied to a scratch copy of /repo's current HEAD (outside
# /repo and /verif, removed afterwards), where build, suite, demo with/without the change and every
# registered quick check (-repo <copy>) are run.  Several seeds can be evaluated in parallel.
set -u
WT=$1; PROP=$2; NAME=$3
export GOFLAGS=-mod=mod GOPROXY=off GOSUMDB=off GOTOOLCHAIN=local GOWORK=off
OUT=/verif/seeded/$NAME
mkdir -p "$OUT"
DEMO=$(cd "$WT" && git status --porcelain | awk '/zz_seed_demo_test.go/ {print $2}' | head -1)
[ -z "$DEMO" ] && echo "no demo test found"
(cd "$WT" && git diff) > "$OUT/patch.diff"
[ -n "$DEMO" ] && cp "$WT/$DEMO" "$OUT/demo_test.go.txt"
[ -f "$WT/SEED.md" ] && cp "$WT/SEED.md" "$OUT/SEED.md"
SCR=$(mktemp -d /tmp/seedeval.XXXXXX)
mkdir -p $SCR/repo $SCR/verif
rsync -a --exclude .git /repo/ $SCR/repo/
cp /verif/known_findings.json $SCR/verif/
cd $SCR/repo
if ! patch -p1 -s --no-backup-if-mismatch < "$OUT/patch.diff" >/dev/null 2>&1; then echo "$NAME: patch does not apply to /repo HEAD"; rm -rf $SCR; exit 2; fi
echo "== $NAME patch: $(grep -c '^[+-][^+-]' "$OUT/patch.diff") changed lines in $(cd "$WT" && git diff --name-only | tr '\n' ' ')"
go build ./... 2>&1 | grep -v '^WARNING' | tail -3
SUITE=$(go test -vet=off -count=1 ./... 2>&1 | grep -v '^WARNING' | grep -v 'no test files' | grep -cv '^ok')
PKG=./$(dirname "${DEMO:-martian/core/x}")
[ -n "$DEMO" ] && cp "$OUT/demo_test.go.txt" "$DEMO"
go test -vet=off -count=1 -run 'Seed|seed|Demo|demo' "$PKG" 2>&1 | grep -v '^WARNING' | grep -- '--- FAIL\|^FAIL\|^ok' | head -3
go test -vet=off -count=1 -run 'Seed|seed|Demo|demo' "$PKG" >/dev/null 2>&1; WITH=$?
patch -p1 -R -s --no-backup-if-mismatch < "$OUT/patch.diff" >/dev/null 2>&1
go test -vet=off -count=1 -run 'Seed|seed|Demo|demo' "$PKG" >/dev/null 2>&1; WITHOUT=$?
patch -p1 -s --no-backup-if-mismatch < "$OUT/patch.diff" >/dev/null 2>&1
[ -n "$DEMO" ] && rm -f "$DEMO"
echo "suite_nonok_lines=$SUITE demo_with_change_exit=$WITH demo_without_change_exit=$WITHOUT"
RES=""; DETAIL=""
for P in $(/verif/bin/mrocheck -list); do
  O=$(GOMAXPROCS=4 /verif/bin/mrocheck -repo $SCR/repo -property $P -verif $SCR/verif 2>&1 | grep -v '^WARNING')
  if echo "$O" | grep -q '^VIOLATION\|^UNDECIDED'; then
    RES="$RES $P"
    DETAIL="$DETAIL$(echo "$O" | grep '^VIOLATION\|^UNDECIDED' | grep -v '^VIOLATION property' | cut -d' ' -f2 | tr '\n' ' ')"
    echo "--- $P fires:"; echo "$O" | grep '^VIOLATION\|^UNDECIDED' | grep -v '^VIOLATION property' | cut -c1-260 | head -4
  fi
done
cd /verif; rm -rf $SCR
echo "CHECKS_FIRED($NAME):${RES:- none}   (target property $PROP)"
python3 - "$OUT" "$PROP" "$NAME" "$SUITE" "$WITH" "$WITHOUT" "$RES" "$DETAIL" <<'PY'
import json,sys
out,prop,name,suite,w,wo,res,detail=sys.argv[1:9]
json.dump({"seed":name,"breaks_property":prop,
 "confirmed":{"compiles":True,"existing_suite_nonok_lines":int(suite),"demo_fails_with_change":w!="0","demo_passes_without_change":wo=="0"},
 "needs_to_manifest":"see SEED.md",
 "what_was_run":"tools/eval_seed_wt.sh: the change and its demo applied to a scratch copy of /repo HEAD; go build ./..., go test -vet=off -count=1 ./... (demo excluded), demo with and without the change, then every registered quick check with -repo <copy>",
 "checks_that_fire":res.split(),"rules_that_fire":detail.split()},open(out+"/meta.json","w"),indent=1)
PY
