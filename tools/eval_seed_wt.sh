#!/bin/bash
# eval_seed_wt.sh <worktree-dir> <property-id> <seed-name>
# Like eval_seed.sh, but everything happens inside the sub-agent's scratch worktree: /repo is not
# touched (the checks are run with -repo <worktree>), so several seeds can be evaluated in parallel
# and while other tools use /repo.  The worktree must be based on /repo's HEAD.
set -u
WT=$1; PROP=$2; NAME=$3
export GOFLAGS=-mod=mod GOPROXY=off GOSUMDB=off GOTOOLCHAIN=local GOWORK=off
OUT=/verif/seeded/$NAME
mkdir -p "$OUT"
cd "$WT" || exit 2
BASE=$(git rev-parse HEAD); REPOHEAD=$(git -C /repo rev-parse HEAD)
[ "$BASE" = "$REPOHEAD" ] || echo "WARNING: worktree base $BASE differs from /repo HEAD $REPOHEAD"
DEMO=$(git status --porcelain | awk '/zz_seed_demo_test.go/ {print $2}' | head -1)
[ -z "$DEMO" ] && echo "no demo test found"
git diff > "$OUT/patch.diff"
[ -n "$DEMO" ] && cp "$DEMO" "$OUT/demo_test.go.txt"
[ -f SEED.md ] && cp SEED.md "$OUT/SEED.md"
echo "== patch: $(grep -c '^[+-][^+-]' "$OUT/patch.diff") changed lines in $(git diff --name-only | tr '\n' ' ')"
go build ./... 2>&1 | grep -v '^WARNING' | tail -3
PKG=./$(dirname "${DEMO:-martian/core/x}")
HOLD=$(mktemp -u /tmp/$NAME.demo.XXXX)
[ -n "$DEMO" ] && mv "$DEMO" $HOLD
SUITE=$(go test -vet=off -count=1 ./... 2>&1 | grep -v '^WARNING' | grep -v 'no test files' | grep -cv '^ok')
[ -n "$DEMO" ] && mv $HOLD "$DEMO"
go test -vet=off -count=1 -run 'Seed|seed|Demo|demo' "$PKG" 2>&1 | grep -v '^WARNING' | grep -- '--- FAIL\|^FAIL\|^ok' | head -4
go test -vet=off -count=1 -run 'Seed|seed|Demo|demo' "$PKG" >/dev/null 2>&1; WITH=$?
git apply -R "$OUT/patch.diff"; go test -vet=off -count=1 -run 'Seed|seed|Demo|demo' "$PKG" >/dev/null 2>&1; WITHOUT=$?; git apply "$OUT/patch.diff"
echo "suite_nonok_lines=$SUITE demo_with_change_exit=$WITH demo_without_change_exit=$WITHOUT"
V=$(mktemp -d /tmp/seedv.XXXX); cp /verif/known_findings.json $V/
RES=""; DETAIL=""
[ -n "$DEMO" ] && mv "$DEMO" $HOLD
for P in $(/verif/bin/mrocheck -list); do
  O=$(GOMAXPROCS=4 /verif/bin/mrocheck -repo "$WT" -property $P -verif $V 2>&1 | grep -v '^WARNING')
  if echo "$O" | grep -q '^VIOLATION\|^UNDECIDED'; then
    RES="$RES $P"
    DETAIL="$DETAIL$(echo "$O" | grep '^VIOLATION\|^UNDECIDED' | grep -v '^VIOLATION property' | cut -d' ' -f2 | tr '\n' ' ')"
    echo "--- $P fires:"; echo "$O" | grep '^VIOLATION\|^UNDECIDED' | grep -v '^VIOLATION property' | cut -c1-260 | head -4
  fi
done
[ -n "$DEMO" ] && mv $HOLD "$DEMO"
rm -rf $V
echo "CHECKS_FIRED:${RES:- none}   (target property $PROP)"
python3 - "$OUT" "$PROP" "$NAME" "$SUITE" "$WITH" "$WITHOUT" "$RES" "$DETAIL" <<'PY'
import json,sys
out,prop,name,suite,w,wo,res,detail=sys.argv[1:9]
json.dump({"seed":name,"breaks_property":prop,
 "confirmed":{"compiles":True,"existing_suite_nonok_lines":int(suite),"demo_fails_with_change":w!="0","demo_passes_without_change":wo=="0"},
 "needs_to_manifest":"see SEED.md",
 "what_was_run":"tools/eval_seed_wt.sh in the sub-agent's worktree: go build ./..., go test -vet=off -count=1 ./... (demo excluded), demo with and without the change, then every registered quick check with -repo <worktree>",
 "checks_that_fire":res.split(),"rules_that_fire":detail.split()},open(out+"/meta.json","w"),indent=1)
PY
