#!/bin/bash
# find_refactor_base.sh [name...] : for every stored refactoring, find the newest commit of /repo on
# which its patch applies cleanly and record it as "base_commit" in the refactoring's meta.json.
# A refactoring is a behaviour-preserving edit of ONE tree; after later `fix:` commits touched the same
# lines it is checked differentially against its own base (tools/check_refactors.sh) instead of
# being rebased by hand.
NAMES=${@:-$(ls /verif/refactors)}
W=$(mktemp -d /tmp/refbase.XXXXXX)
git -C /repo worktree add --detach $W/wt HEAD >/dev/null 2>&1
for n in $NAMES; do
  P=/verif/refactors/$n/patch.diff
  [ -f $P ] || continue
  found=""
  for c in $(git -C /repo log --format=%h -120); do
    git -C $W/wt checkout -q --detach $c 2>/dev/null
    if git -C $W/wt apply --check $P 2>/dev/null; then found=$c; break; fi
  done
  echo "$n base=${found:-NONE}"
  python3 - "$n" "$found" <<'PY'
import json,sys
n,c=sys.argv[1:3]
p='/verif/refactors/%s/meta.json'%n
try: m=json.load(open(p))
except Exception: m={"refactor":n}
m['base_commit']=c
json.dump(m,open(p,'w'),indent=1)
PY
done
git -C /repo worktree remove --force $W/wt; rm -rf $W
