#!/bin/bash
# check_wt.sh <dir> : run every registered quick check against the tree in <dir> (a sub-agent's
# worktree or scratch copy); evidence goes to a scratch verif dir, /repo and /verif are not touched.
D=$1
V=$(mktemp -d /tmp/chkwt.XXXXXX); mkdir -p $V; cp /verif/known_findings.json $V/
for P in $(/verif/bin/mrocheck -list); do
  O=$(GOMAXPROCS=4 /verif/bin/mrocheck -repo $D -verif $V -property $P 2>&1 | grep -v '^WARNING')
  if echo "$O" | grep -q '^VIOLATION\|^UNDECIDED'; then
    echo "--- $P fires:"; echo "$O" | grep '^VIOLATION\|^UNDECIDED' | grep -v '^VIOLATION property' | cut -c1-${WIDTH:-300}
  fi
done
rm -rf $V
echo "check_wt done: $D"
