#!/bin/bash
# try_patch.sh <patch.diff> <property>...   applies the patch to /repo, runs the given quick checks, reverts
set -u
PATCH=$1; shift
cd /repo || exit 2
if ! git diff --quiet; then echo "/repo not clean"; exit 2; fi
git apply --recount "$PATCH" || exit 2
mkdir -p /tmp/try_verif_$$ && cp /verif/known_findings.json /tmp/try_verif_$$/
for P in "$@"; do
  /verif/bin/mrocheck -property $P -verif /tmp/try_verif_$$ 2>&1 | grep -v '^WARNING' | grep -v '^VIOLATION property' | grep 'VIOLATION\|UNDECIDED\|^property=' | cut -c1-${WIDTH:-420}
done
git reset -q; git checkout -- . ; git clean -fdq martian cmd 2>/dev/null
rm -rf /tmp/try_verif_$$
