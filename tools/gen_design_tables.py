#!/usr/bin/env python3
"""Rewrites DESIGN.md §10 from the thorough-tier evidence (self-test) and /verif/seeded/*/meta.json."""
import json, glob, os, re
H = os.path.dirname(os.path.dirname(os.path.abspath(__file__)))
out = []
out.append("### 10.1 Self-test mutants (thorough tier; each analysed as an overlay of the current tree in a child process)\n")
out.append("| property | mutant | expected rule | result | obligation that fired |")
out.append("|---|---|---|---|---|")
tot = fired = 0
for f in sorted(glob.glob(H + "/evidence/C*.json")):
    e = json.load(open(f))
    st = e["coverage"].get("self_test")
    if not st:
        continue
    for m in st:
        tot += 1
        if m["result"] in ("FIRED", "SILENT"):
            fired += 1
        exp = m["expect_rule"] or "(must stay silent)"
        out.append("| %s | %s | %s | %s | %s |" % (e["property_id"], m["name"], exp, m["result"], (m.get("detail") or "").replace("|", "\\|")[:140]))
out.append("\n%d mutants, %d behave as required.\n" % (tot, fired))
out.append("### 10.2 Independently seeded changes (written by sub-agents that saw only the property text)\n")
out.append("| seed | property | confirmed (suite passes / demo fails with / passes without) | checks that fire | caught | rule | note |")
out.append("|---|---|---|---|---|---|---|")
n = first = later = missed = 0
for f in sorted(glob.glob(H + "/seeded/*/meta.json")):
    m = json.load(open(f))
    c = m["confirmed"]
    n += 1
    st = m.get("caught", "")
    first += st == "first run"
    later += st.startswith("after")
    missed += st == "missed"
    conf = "%s / %s / %s" % ("yes" if c["existing_suite_nonok_lines"] == 0 else "NO", "yes" if c["demo_fails_with_change"] else "NO", "yes" if c["demo_passes_without_change"] else "NO")
    out.append("| %s | %s | %s | %s | %s | %s | %s |" % (m["seed"], m["breaks_property"], conf, " ".join(m["checks_that_fire"]) or "none", st, m.get("rule", ""), m.get("note", "")))
out.append("\n%d seeded changes: %d caught by the checks as they stood when the change arrived, %d caught after a rule was added or tightened in response, %d not caught (reasons in the note column).\n" % (n, first, later, missed))
out.append("### 10.3 Behaviour-preserving refactorings (`_r`, `_s`: written by sub-agents that saw only the property text; `_t`: the restructuring of a round-3 seed without its behavioural difference; every check must stay silent)\n")
out.append("| refactoring | suite passes | checks that fired when it arrived | cause | correction | checks that fire now |")
out.append("|---|---|---|---|---|---|")
for f in sorted(glob.glob(H + "/refactors/*/meta.json")):
    m = json.load(open(f))
    out.append("| %s | %s | %s | %s | %s | %s |" % (m["refactor"], "yes" if m["suite_nonok_lines"] == 0 else "see note", " ".join(m.get("checks_that_fired_when_it_arrived", [])) or "none", m.get("cause", ""), m.get("correction", ""), " ".join(m.get("checks_that_fire", [])) or "none"))
out.append("")
s = open(H + "/DESIGN.md").read()
s = re.sub(r"<!-- BEGIN GENERATED TABLES -->.*<!-- END GENERATED TABLES -->", "<!-- BEGIN GENERATED TABLES -->\n" + "\n".join(out).replace("\\", "\\\\") + "\n<!-- END GENERATED TABLES -->", s, flags=re.S)
open(H + "/DESIGN.md", "w").write(s)
print("tables written:", tot, "mutants")
