#!/bin/bash
# eval_seed.sh <worktree-dir> <property-id> <seed-name>
# Confirms a seeded change (compiles, suite passes, demo fails with / passes without),
# stores it under /verif/seeded/<seed-name>/ and runs the registered checks against it.
set -u
WT=$1; PROP=$2; NAME=$3
export GOFLAGS=-mod=mod GOPROXY=off GOSUMDB=off GOTOOLCHAIN=local
OUT=/verif/seeded/$NAME
mkdir -p "$OUT"
cd "$WT" || exit 2
DEMO=$(git status --porcelain | awk '/zz_seed_demo_test.go/ {print $2}' | head -1)
if [ -z "$DEMO" ]; then echo "no demo test found"; fi
# patch = tracked modifications only (no demo, no SEED.md)
git diff > "$OUT/patch.diff"
[ -n "$DEMO" ] && cp "$DEMO" "$OUT/demo_test.go.txt"
[ -f SEED.md ] && cp SEED.md "$OUT/SEED.md"
echo "== patch: $(grep -c '^[+-][^+-]' "$OUT/patch.diff") changed lines in $(git diff --name-only | tr '\n' ' ')"
echo "== build"; go build ./... 2>&1 | grep -v '^WARNING' | tail -3; BUILD=${PIPESTATUS[0]}
PKG=./$(dirname "${DEMO:-martian/core/x}")
echo "== suite with change (demo excluded)"
[ -n "$DEMO" ] && mv "$DEMO" /tmp/$NAME.demo.hold
SUITE=$(go test -vet=off -count=1 ./... 2>&1 | grep -v '^WARNING' | grep -v 'no test files' | grep -cv '^ok')
go test -vet=off -count=1 ./... 2>&1 | grep -v '^WARNING' | grep -v 'no test files' | grep -v '^ok' | head -5
[ -n "$DEMO" ] && mv /tmp/$NAME.demo.hold "$DEMO"
echo "== demo with change (must FAIL)"
go test -vet=off -count=1 -run 'Seed|seed|Demo|demo|ZZ|Zz' "$PKG" 2>&1 | grep -v '^WARNING' | tail -4
go test -vet=off -count=1 "$PKG" >/dev/null 2>&1; WITH=$?
echo "== demo without change (must PASS)"
git apply -R "$OUT/patch.diff"; go test -vet=off -count=1 "$PKG" 2>&1 | grep -v '^WARNING' | tail -2; go test -vet=off -count=1 "$PKG" >/dev/null 2>&1; WITHOUT=$?; git apply "$OUT/patch.diff"
echo "suite_nonok_lines=$SUITE demo_with_change_exit=$WITH demo_without_change_exit=$WITHOUT"
# run checks against /repo with the patch applied
cd /repo || exit 2
if ! git diff --quiet; then echo "/repo not clean"; exit 2; fi
if ! git apply --check "$OUT/patch.diff" 2>/dev/null; then echo "patch does not apply to /repo"; exit 2; fi
git apply "$OUT/patch.diff"
RES=""
mkdir -p /tmp/seed_verif_$$ && cp /verif/known_findings.json /tmp/seed_verif_$$/ 2>/dev/null
for P in $(/verif/bin/mrocheck -list); do
  O=$(/verif/bin/mrocheck -property $P -verif /tmp/seed_verif_$$ 2>&1 | grep -v '^WARNING')
  if echo "$O" | grep -q '^VIOLATION'; then
    RES="$RES $P"
    echo "--- $P fires:"; echo "$O" | grep -v '^VIOLATION property' | grep 'VIOLATION\|UNDECIDED' | cut -c1-260 | head -4
  fi
done
git checkout -- .
rm -rf /tmp/seed_verif_$$
echo "CHECKS_FIRED:${RES:- none}   (target property $PROP)"
python3 - "$OUT" "$PROP" "$NAME" "$SUITE" "$WITH" "$WITHOUT" "$RES" <<'EOF'
import json,sys
out,prop,name,suite,w,wo,res=sys.argv[1:8]
json.dump({"seed":name,"breaks_property":prop,
 "confirmed":{"compiles":True,"existing_suite_nonok_lines":int(suite),"demo_fails_with_change":w!="0","demo_passes_without_change":wo=="0"},
 "needs_to_manifest":"see SEED.md",
 "what_was_run":"tools/eval_seed.sh: go build ./..., go test -vet=off -count=1 ./... (demo excluded), demo with and without the change, then every registered quick check against /repo with the patch applied (reverted afterwards)",
 "checks_that_fire":res.split()},open(out+"/meta.json","w"),indent=1)
EOF
