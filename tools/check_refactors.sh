#!/bin/bash
# check_refactors.sh [name...] : every stored behaviour-preserving refactoring must leave every check
# silent.  Each patch is applied to a scratch copy of /repo (outside /repo and /verif, removed
# afterwards); 4 copies are analysed in parallel.
set -u
NAMES=${@:-$(ls /verif/refactors)}
SCR=$(mktemp -d /tmp/refchk.XXXXXX)
one() {
  NAME=$1; SCR=$2
  D=$SCR/$NAME
  mkdir -p $D/repo $D/verif
  rsync -a --exclude .git /repo/ $D/repo/
  cp /verif/known_findings.json $D/verif/
  if ! (cd $D/repo && patch -p1 -s --no-backup-if-mismatch < /verif/refactors/$NAME/patch.diff >/dev/null 2>&1); then echo "$NAME: patch does not apply"; rm -rf $D; return; fi
  OUT=""
  for P in $(/verif/bin/mrocheck -list); do
    O=$(GOMAXPROCS=4 /verif/bin/mrocheck -repo $D/repo -verif $D/verif -property $P 2>&1 | grep -v '^WARNING' | grep '^VIOLATION\|^UNDECIDED' | grep -v '^VIOLATION property' | cut -c1-200)
    [ -n "$O" ] && OUT="$OUT\n  [$P] $O"
  done
  rm -rf $D
  if [ -z "$OUT" ]; then echo "$NAME: silent"; else echo -e "$NAME: FIRED$OUT"; fi
}
export -f one
printf '%s\n' $NAMES | xargs -P 4 -I{} bash -c "one {} $SCR"
rm -rf $SCR
