#!/bin/bash
# check_refactors.sh [name...] : every stored behaviour-preserving refactoring must leave every check
# silent.  A refactoring is an edit of one particular tree: it is applied to a scratch copy of the
# commit of /repo recorded as "base_commit" in its meta.json (tools/find_refactor_base.sh; the newest
# commit on which the patch applies - HEAD for most), and what the checks report on the refactored
# tree is compared with what they report on that base tree: a report that the refactoring ADDS is a
# false alarm ("FIRED"); reports that the base tree has anyway (defects repaired by later commits),
# also under another key of the same rule, are not the refactoring's.  Scratch copies live outside /repo and /verif and are removed; 4 trees
# are analysed in parallel; the reports of each base commit are computed once.
set -u
NAMES=${@:-$(ls /verif/refactors)}
SCR=$(mktemp -d /tmp/refchk.XXXXXX)
reports() { # <tree> <verifdir> -> sorted list of "rule:key" reported as violation / undecided
  for P in $(/verif/bin/mrocheck -list); do
    GOMAXPROCS=4 /verif/bin/mrocheck -repo $1 -verif $2 -property $P 2>&1 | grep '^VIOLATION\|^UNDECIDED' | grep -v '^VIOLATION property' | sed -E 's/ at [^ ]+:[0-9]+: .*$//; s/ at -: .*$//' | sed "s/^/[$P] /"
  done | sort -u
}
base_reports() { # <commit>
  C=$1; F=$SCR/base_$C.txt
  (
    flock 9
    if [ ! -f $F ]; then
      mkdir -p $SCR/base_$C/repo $SCR/base_$C/verif
      git -C /repo archive $C | tar -x -C $SCR/base_$C/repo
      cp /verif/known_findings.json $SCR/base_$C/verif/
      reports $SCR/base_$C/repo $SCR/base_$C/verif > $F.tmp; mv $F.tmp $F
    fi
  ) 9> $SCR/lock_$C
}
one() {
  NAME=$1
  D=$SCR/$NAME
  C=$(python3 -c "import json;print(json.load(open('/verif/refactors/$NAME/meta.json')).get('base_commit',''))" 2>/dev/null)
  [ -z "$C" ] && C=$(git -C /repo rev-parse --short HEAD)
  base_reports $C
  mkdir -p $D/repo $D/verif
  git -C /repo archive $C | tar -x -C $D/repo
  cp /verif/known_findings.json $D/verif/
  if ! (cd $D/repo && patch -p1 -s --no-backup-if-mismatch < /verif/refactors/$NAME/patch.diff >/dev/null 2>&1); then echo "$NAME: patch does not apply to its base $C"; rm -rf $D; return; fi
  reports $D/repo $D/verif > $D/out.txt
  # a report is the refactoring's if its obligation is not reported on the base tree and - for base
  # trees that still contain a defect repaired later - the base does not report the same RULE for
  # the same property either (the refactoring may move that defect into a helper: another key)
  NEW=$(comm -13 $SCR/base_$C.txt $D/out.txt | while IFS= read -r line; do
      pr=$(echo "$line" | awk '{print $1}'); rule=$(echo "$line" | awk '{print $3}' | cut -d: -f1)
      if ! awk -v p="$pr" -v r="$rule" '$1==p { split($3,a,":"); if (a[1]==r) f=1 } END { exit !f }' $SCR/base_$C.txt; then echo "$line"; fi
    done)
  rm -rf $D
  if [ -z "$NEW" ]; then echo "$NAME: silent (base $C)"; else echo "$NAME: FIRED (base $C)"; echo "$NEW" | cut -c1-220 | sed 's/^/  /'; fi
}
export -f one reports base_reports
export SCR
printf '%s\n' $NAMES | xargs -P 4 -I{} bash -c "one {}"
rm -rf $SCR
