package props

func init() {
	Mutants = append(Mutants,
		Mutant{Name: "c15-self-compare-disabled", Property: "C15", File: "martian/syntax/equivalence.go",
			Old: "} else if ob := other.Bindings.Table[disabled]; ob == nil {", New: "} else if ob := mods.Bindings.Table[disabled]; ob == nil {", Expect: "S1"},
		Mutant{Name: "c15-split-clause-dropped", Property: "C15", File: "martian/syntax/equivalence.go",
			Old: "} else if stage.Split != os.Split {", New: "} else if false {", Expect: "S2"},
		Mutant{Name: "c15-outparams-self", Property: "C15", File: "martian/syntax/equivalence.go",
			Old: "!pipeline.OutParams.Equals(op.OutParams, true)", New: "!pipeline.OutParams.Equals(pipeline.OutParams, true)", Expect: "S"},
		Mutant{Name: "c15-in-vs-out-crossed", Property: "C15", File: "martian/syntax/equivalence.go",
			Old: "} else if !stage.OutParams.Equals(os.OutParams, false) {", New: "} else if !stage.OutParams.Equals(&OutParams{List: os.OutParams.List, Table: os.OutParams.Table}, false) && stage.InParams.Equals(os.InParams) {", Expect: ""},
		Mutant{Name: "c15-outputid-dropped", Property: "C15", File: "martian/syntax/equivalence.go",
			Old: "} else if exp.Id != ov.Id || exp.OutputId != ov.OutputId {", New: "} else if exp.Id != ov.Id {", Expect: "S2"},
		Mutant{Name: "c15-attach-skips-equivalence", Property: "C15", File: "martian/core/runtime.go",
			Old: "\t\t} else if !ast.EquivalentCall(oldAst) {", New: "\t\t} else if !readOnly && !ast.EquivalentCall(oldAst) {", Expect: "S3"},
		Mutant{Name: "c15-refusal-keeps-lock", Property: "C15", File: "martian/core/runtime.go",
			Old: "\t\t} else if !ast.EquivalentCall(oldAst) {\n\t\t\tif !readOnly {\n\t\t\t\tpipestance.Unlock()\n\t\t\t}\n", New: "\t\t} else if !ast.EquivalentCall(oldAst) {\n", Expect: "S3"},
		Mutant{Name: "c15-handler-after-lock", Property: "C15", File: "martian/core/pipestance.go",
			Old: "\tutil.RegisterSignalHandler(self)\n\tif err := self.metadata.WriteTime(Lock); err != nil {\n\t\tutil.LogError(err, \"runtime\", \"Error writing pipestance lock file.\")\n\t}\n", New: "\tif err := self.metadata.WriteTime(Lock); err != nil {\n\t\tutil.LogError(err, \"runtime\", \"Error writing pipestance lock file.\")\n\t}\n\tutil.RegisterSignalHandler(self)\n", Expect: "S4"},
		Mutant{Name: "c15-reset-when-readonly", Property: "C15", File: "martian/core/pipestance.go",
			Old: "func (self *Pipestance) Reset() error {\n\tif self.readOnly() {\n\t\treturn &RuntimeError{\"Pipestance is in read only mode.\"}\n\t}\n", New: "func (self *Pipestance) Reset() error {\n", Expect: "S4"},
		Mutant{Name: "c15-bytes-compare-self", Property: "C15", File: "martian/core/runtime.go",
			Old: "if !bytes.Equal(src, data) {", New: "if len(data) < 0 || !bytes.Equal([]byte(srcStr), []byte(srcStr)) {", Expect: "S3"},
		Mutant{Name: "c15-modifier-local-dropped", Property: "C15", File: "martian/syntax/equivalence.go",
			Old: "} else if mods.Local != other.Local || mods.Preflight != other.Preflight {", New: "} else if mods.Preflight != other.Preflight {", Expect: "S2"},
	)
}

func init() {
	Mutants = append(Mutants,
		Mutant{Name: "c18-backtick-unescaped", Property: "C18", File: "martian/core/shell_quote.go",
			Old: "\t\t\tcase '`':\n\t\t\t\tbuf = append(buf, \"\\\\`\"...)\n", New: "", Expect: "H1"},
		Mutant{Name: "c18-dollar-unescaped", Property: "C18", File: "martian/core/shell_quote.go",
			Old: "\t\t\tcase '$':\n\t\t\t\tbuf = append(buf, `\\$`...)\n", New: "", Expect: "H1"},
		Mutant{Name: "c18-arg-raw", Property: "C18", File: "martian/core/jobmanager_remote.go",
			Old: "\t\targsStr = append(argsStr, \" \\\\\\n  \"...)\n\t\targsStr = appendShellSafeQuote(argsStr, arg)\n", New: "\t\targsStr = append(argsStr, \" \\\\\\n  \"...)\n\t\tif len(arg) > 0 && arg[0] == '-' {\n\t\t\targsStr = append(argsStr, arg...)\n\t\t} else {\n\t\t\targsStr = appendShellSafeQuote(argsStr, arg)\n\t\t}\n", Expect: "H2"},
		Mutant{Name: "c18-env-key-quoted-instead", Property: "C18", File: "martian/core/jobmanager_remote.go",
			Old: "\t\ts = append(s, k...)\n\t\ts = append(s, '=')\n\t\ts = appendShellSafeQuote(s, v)\n", New: "\t\ts = appendShellSafeQuote(s, k)\n\t\ts = append(s, '=')\n\t\ts = append(s, v...)\n", Expect: "H2"},
		Mutant{Name: "c18-workdir-unquoted", Property: "C18", File: "martian/core/jobmanager_remote.go",
			Old: "shellSafeQuote(metadata.curFilesPath)}", New: "metadata.curFilesPath}", Expect: "H2"},
		Mutant{Name: "c18-escape-drops-char", Property: "C18", File: "martian/core/shell_quote.go",
			Old: "buf = append(buf, `\\\"`...)", New: "buf = append(buf, `\\`...)", Expect: "H1"},
	)
}
