package props

import (
	"fmt"
	"go/constant"
	"go/token"
	"go/types"

	"mrocheck/an"

	"golang.org/x/tools/go/ssa"
)

// Rules written in the eleventh (short) seeding round: C05_k, C12_k, C14_k, C15_k.

// R15 (C05): every chunk of a fork is offered to restartLocal.
// After mrp is killed together with its local jobs, Fork.restartLocalJobs resets every chunk whose
// job was running in the dead process.  The loop over the chunks may leave early only with the error
// of a failed restartLocal.  A `break` (or `continue`) in front of the call - "chunks start in order,
// so after the first chunk without a state none has a job" - is wrong after the partial reset that
// precedes it: a failed chunk has just been wiped, the loop stops there, a later orphaned chunk keeps
// its `running` state and is never run again.
// Rule: in every loop of restartLocalJobs (or a private helper, or a helper that is handed the method
// as a function value) that calls Metadata.restartLocal, the block of the call dominates every latch
// of the loop and the source of every exit edge other than the loop header's.  (That the loop ranges
// over all chunks is not decided here.)
func ruleR15(c *an.Ctx) {
	fn := c.P.Func(pkgCore, "(*Fork).restartLocalJobs")
	rl := c.P.Func(pkgCore, "(*Metadata).restartLocal")
	chunksF := c.P.Field(pkgCore, "Fork", "chunks")
	if fn == nil || rl == nil || chunksF == nil {
		c.Info("R15", "anchor(restartLocalJobs/restartLocal/chunks)", 0, "not found: not decided")
		return
	}
	n := 0
	// isRL: a call of restartLocal - static, or (in a helper that is handed the method as a
	// function value, `eachJobMetadata((*Metadata).restartLocal)`) a call of that parameter.
	check := func(f *ssa.Function, isRL func(ssa.CallInstruction) bool) {
		for hd, body := range naturalLoops(f) {
			over := false
			var call ssa.Instruction
			for b := range body {
				for _, in := range b.Instrs {
					if ia, isIA := in.(*ssa.IndexAddr); isIA && an.LoadsField(ia.X, chunksF) {
						over = true
					}
					if cl := an.AsCallAny(in); cl != nil && isRL(cl) {
						call = in
					}
				}
			}
			// `over` is informative only: a refactoring may loop over a slice of metadatas
			// that a helper collected from the chunks (refactors/C05_s).
			_ = over
			if call == nil {
				continue
			}
			n++
			bad := token.NoPos
			for b := range body {
				if b == hd {
					continue
				}
				for _, s := range b.Succs {
					leaves := !body[s]
					latch := s == hd
					if (leaves || latch) && !call.Block().Dominates(b) {
						bad = b.Instrs[len(b.Instrs)-1].Pos()
						if bad == token.NoPos {
							bad = call.Pos()
						}
					}
				}
			}
			c.Check("R15", "every-chunk-offered-to-restartLocal@"+an.FnName(f), call.Pos(), bad == token.NoPos,
				"the loop over the fork's chunks can end an iteration or leave before restartLocal was called on the chunk: after the partial reset that precedes it an earlier chunk may have no state while a later chunk is an orphan of the dead mrp; that chunk keeps its `running` state and the restarted pipestance waits for it until the heartbeat times out")
		}
	}
	isMethodValue := func(v ssa.Value) bool {
		g, ok := v.(*ssa.Function)
		if !ok {
			if mc, isMC := v.(*ssa.MakeClosure); isMC {
				g, ok = mc.Fn.(*ssa.Function)
			}
		}
		if !ok || g == nil {
			return false
		}
		return g == rl || (g.Synthetic != "" && len(callsTo(g, rl)) > 0)
	}
	for _, f := range familyOf(c.P, fn, 2) {
		check(f, func(cl ssa.CallInstruction) bool { return cl.Common().StaticCallee() == rl })
		an.Instrs(f, func(in ssa.Instruction) {
			cl := an.AsCallAny(in)
			if cl == nil {
				return
			}
			h := cl.Common().StaticCallee()
			if h == nil || h.Blocks == nil || h.Pkg != fn.Pkg {
				return
			}
			args := cl.Common().Args
			for i, a := range args {
				if !isMethodValue(a) || i >= len(h.Params) {
					continue
				}
				param := h.Params[i]
				check(h, func(cl2 ssa.CallInstruction) bool { return cl2.Common().Value == ssa.Value(param) })
			}
		})
	}
	c.Floor("R15", "loops that call restartLocal under restartLocalJobs", n, 1)
}

// K12 (C12): the verdict "this holder has finished" and the removal of its slot are one critical
// section of the semaphore.
// MaxJobsSemaphore.FindDone asks every slot holder for its state and deletes the finished ones from
// `running`.  Release, and the Acquire of a retried job on the same *Metadata, take the same lock.
// If the lock is dropped between the verdict and the delete, a holder that was judged finished can
// be released and re-acquired in between; the stale verdict then deletes the new slot, the count is
// one short and one more cluster job than --maxjobs is admitted.
// Rule: in every method of MaxJobsSemaphore that calls Metadata.getState and deletes from `running`,
// no path from a getState call to the delete passes a Lock() of the semaphore's mutex.
func ruleK12(c *an.Ctx) {
	gs := c.P.Func(pkgCore, "(*Metadata).getState")
	running := c.P.Field(pkgCore, "MaxJobsSemaphore", "running")
	lockF := c.P.Field(pkgCore, "MaxJobsSemaphore", "lock")
	sem := c.P.Named(pkgCore, "MaxJobsSemaphore")
	if gs == nil || running == nil || lockF == nil || sem == nil {
		c.Info("K12", "anchor(MaxJobsSemaphore/getState)", 0, "not found: not decided")
		return
	}
	isLock := func(in ssa.Instruction) bool {
		cl := an.AsCallAny(in)
		if cl == nil {
			return false
		}
		if _, isDefer := in.(*ssa.Defer); isDefer {
			return false
		}
		h := cl.Common().StaticCallee()
		if h == nil || (h.Name() != "Lock" && h.Name() != "RLock") || len(cl.Common().Args) == 0 {
			return false
		}
		_, f := an.FieldOfAddr(cl.Common().Args[0])
		return f == lockF
	}
	n := 0
	for _, fn := range c.P.FuncsOf(pkgCore) {
		if fn.Signature.Recv() == nil {
			continue
		}
		rt := fn.Signature.Recv().Type()
		if pt, isPtr := rt.(*types.Pointer); isPtr {
			rt = pt.Elem()
		}
		if nt, isNamed := rt.(*types.Named); !isNamed || nt.Obj() != sem.Obj() {
			continue
		}
		for _, f := range familyOf(c.P, fn, 2) {
			var verdicts, deletes []ssa.Instruction
			an.Instrs(f, func(in ssa.Instruction) {
				cl := an.AsCallAny(in)
				if cl == nil {
					return
				}
				if cl.Common().StaticCallee() == gs {
					verdicts = append(verdicts, in)
				}
				if call, isCall := in.(*ssa.Call); isCall {
					if args, ok := an.IsBuiltinCall(call, "delete"); ok && an.LoadsField(args[0], running) {
						deletes = append(deletes, in)
					}
				}
			})
			if len(verdicts) == 0 || len(deletes) == 0 {
				continue
			}
			for i, v := range verdicts {
				n++
				bad := token.NoPos
				an.Instrs(f, func(lk ssa.Instruction) {
					if !isLock(lk) {
						return
					}
					if !an.Reachable(f, v, func(x ssa.Instruction) bool { return x == lk }) {
						return
					}
					for _, d := range deletes {
						if an.Reachable(f, lk, func(x ssa.Instruction) bool { return x == d }) {
							bad = lk.Pos()
						}
					}
				})
				c.Check("K12", fmt.Sprintf("verdict-and-removal-in-one-critical-section@%s#%d", an.FnName(f), i+1), v.Pos(), bad == token.NoPos,
					"the semaphore's lock is taken between asking a slot holder for its state and deleting holders from `running`: the verdict was reached outside the critical section that acts on it, so a holder that was released and re-acquired in between (a retried job keeps its *Metadata) loses its new slot and one more job than --maxjobs is admitted")
			}
		}
	}
	c.Floor("K12", "state verdicts in the methods of MaxJobsSemaphore that delete from running", n, 1)
}

// W12 (C14): the symlink verdict is taken from the file system on every call.
// Node.vdrCheckSymlink is the guard that keeps vdrKill and partialVdrKill from following a stage
// directory that was moved elsewhere and linked back.  It answers "no symlink" without an lstat only
// at the top of the pipestance (parent == nil).  A remembered clean verdict - "checked once, do not
// walk up again on every step" - is stale as soon as the directory is relocated while mrp runs, and
// VDR then removes files outside the pipestance.
// Rule: every return of vdrCheckSymlink is either reached only through os.Lstat, or guarded by
// parent == nil.
func ruleW12(c *an.Ctx) {
	fn := c.P.Func(pkgCore, "(*Node).vdrCheckSymlink")
	parentF := c.P.Field(pkgCore, "Node", "parent")
	if fn == nil || parentF == nil {
		c.Info("W12", "anchor(vdrCheckSymlink/Node.parent)", 0, "not found: not decided")
		return
	}
	isLstat := func(in ssa.Instruction) bool { return staticCalleeIs(in, "os", "Lstat") != nil }
	n, stats := 0, 0
	an.Instrs(fn, func(in ssa.Instruction) {
		if isLstat(in) {
			stats++
		}
		if _, isRet := in.(*ssa.Return); !isRet {
			return
		}
		n++
		w := an.Query{Fn: fn, Target: func(x ssa.Instruction) bool { return x == in }, Barrier: isLstat}.Find()
		ok := w == nil
		if !ok {
			ok, _ = an.GuardedBy(in, func(r an.Rel) bool {
				return r.Op == token.EQL && an.IsNil(r.Y) && an.LoadsField(r.X, parentF)
			})
		}
		c.Check("W12", fmt.Sprintf("symlink-verdict-from-lstat-or-top@(*Node).vdrCheckSymlink#%d", n), in.Pos(), ok,
			"vdrCheckSymlink can return without having called os.Lstat on a node that has a parent: a verdict that does not come from the file system at the time of the call (a remembered one) is stale once the stage directory is moved and linked back, and VDR then deletes through the link, outside the pipestance")
	})
	c.Floor("W12", "returns of vdrCheckSymlink", n, 2)
	c.Floor("W12", "os.Lstat calls in vdrCheckSymlink", stats, 1)
}

// S13 (C15): float literals are compared with a relative tolerance only.
// FloatExp.equal accepts two float literals as the same argument value when they differ by rounding
// of the last digits: |a-b| <= |a|*1e-15.  An absolute term (|a-b| <= 1e-15, the usual "isclose")
// makes every pair of small values equal - 1e-20, 1e-30, 0.0, -1e-20 - so EquivalentCall accepts an
// invocation whose float argument changed and the pipestance is re-attached with other inputs.
// Rule: in FloatExp.equal and its private helpers, no ordering comparison of floats has a non-zero
// constant operand: every bound scales with an operand.
func ruleS13(c *an.Ctx) {
	fn := c.P.Func(pkgSyntax, "(*FloatExp).equal")
	if fn == nil {
		c.Info("S13", "anchor((*FloatExp).equal)", 0, "not found: not decided")
		return
	}
	n := 0
	for _, f := range familyOf(c.P, fn, 2) {
		for _, g := range an.WithAnon(f) {
			an.Instrs(g, func(in ssa.Instruction) {
				b, ok := in.(*ssa.BinOp)
				if !ok {
					return
				}
				switch b.Op {
				case token.LSS, token.LEQ, token.GTR, token.GEQ:
				default:
					return
				}
				bt, isBasic := b.X.Type().Underlying().(*types.Basic)
				if !isBasic || bt.Info()&types.IsFloat == 0 {
					return
				}
				n++
				bad := false
				for _, v := range []ssa.Value{b.X, b.Y} {
					if k, isK := an.ConstVal(v); isK && (k.Kind() == constant.Float || k.Kind() == constant.Int) && constant.Sign(k) != 0 {
						bad = true
					}
				}
				c.Check("S13", fmt.Sprintf("float-tolerance-scales-with-the-value@%s#%d", an.FnName(g), n), b.Pos(), !bad,
					"a difference of float literals is compared against a constant: an absolute tolerance makes all sufficiently small values equal (1e-20 and 1e-30, 0.0 and -1e-20), so a call whose float argument changed is reported as equivalent and the pipestance is re-attached with different inputs")
			})
		}
	}
	c.Floor("S13", "ordering comparisons of floats in FloatExp.equal", n, 1)
}

// M16 (C13): the file-name gate rejects the names that denote the directory itself and its parent.
// M9 lets a run-time map key become a path component under outs/ only behind
// IsLegalUnixFilename(key) == nil.  The gate has to refuse "", "." and "..": outs/<map>/. is the
// map's own directory, and the files of that entry then collide with the directories of its
// siblings.  A library predicate that "covers" the reserved names (filepath.IsLocal refuses ".." but
// accepts ".") is not the same test.
// Rule: IsLegalUnixFilename (with its private helpers) compares a string with each of the constants
// "", "." and ".." by equality (len(s) == 0 counts for ""; a call of filepath.IsLocal counts for ""
// and "..", which it refuses).
func ruleM16(c *an.Ctx) {
	fn := c.P.Func(pkgSyntax, "IsLegalUnixFilename")
	if fn == nil {
		c.Info("M16", "anchor(IsLegalUnixFilename)", 0, "not found: not decided")
		return
	}
	seen := map[string]bool{}
	emptyByLen := false
	for _, f := range familyOf(c.P, fn, 2) {
		an.Instrs(f, func(in ssa.Instruction) {
			if staticCalleeIs(in, "path/filepath", "IsLocal") != nil {
				// filepath.IsLocal refuses "" and ".." (not "."): those two count as compared.
				seen[""], seen[".."] = true, true
			}
			b, ok := in.(*ssa.BinOp)
			if !ok || (b.Op != token.EQL && b.Op != token.NEQ) {
				return
			}
			for _, v := range []ssa.Value{b.X, b.Y} {
				if k, isK := an.ConstVal(v); isK && k.Kind() == constant.String {
					seen[constant.StringVal(k)] = true
				}
				if args, isLen := an.IsBuiltinCall(v, "len"); isLen && len(args) == 1 {
					if bt, isB := args[0].Type().Underlying().(*types.Basic); isB && bt.Info()&types.IsString != 0 {
						emptyByLen = true
					}
				}
			}
		})
	}
	for _, name := range []string{"", ".", ".."} {
		ok := seen[name] || (name == "" && emptyByLen)
		c.Check("M16", fmt.Sprintf("reserved-name-%q-refused@IsLegalUnixFilename", name), fn.Pos(), ok,
			fmt.Sprintf("IsLegalUnixFilename never compares the name with %q: a run-time map key of that value passes the gate in front of the path join in post-processing; outs/<map>/%s is not a directory of its own, the entry's files land in a sibling's place and that sibling's files are never materialised", name, name))
	}
}

// X15 (C03): a source that may be an array or a map is empty when it has no keys and no positive
// length.  MapCallSource.ArrayLength answers -1 for a map source and Keys is empty for an array
// source, so the two emptiness predicates of the compiler (SplitExp.IsEmpty, MergeExp's) test
// `len(Keys()) == 0 && ArrayLength() <= 0`.  Writing the second half as `== 0` makes every empty map
// whose emptiness is known through its source (a `{}` passed as a pipeline argument) non-empty: the
// call is not pruned as always disabled and reaches the runtime with zero forks.
// Rule: wherever a comparison of an ArrayLength() result with the constant 0 is guarded by
// `len(x.Keys()) == 0`, it is an order comparison, not == / !=.
func ruleX15(c *an.Ctx) {
	isCallNamed := func(v ssa.Value, name string) bool {
		cl, ok := v.(*ssa.Call)
		if !ok {
			return false
		}
		if cl.Call.IsInvoke() {
			return cl.Call.Method.Name() == name
		}
		h := cl.Call.StaticCallee()
		return h != nil && h.Name() == name && h.Signature.Recv() != nil
	}
	isZero := func(v ssa.Value) bool {
		k, ok := an.ConstVal(v)
		return ok && k.Kind() == constant.Int && constant.Sign(k) == 0
	}
	keysEmpty := func(r an.Rel) bool {
		if r.Op != token.EQL {
			return false
		}
		for _, pair := range [][2]ssa.Value{{r.X, r.Y}, {r.Y, r.X}} {
			if !isZero(pair[1]) {
				continue
			}
			if args, isLen := an.IsBuiltinCall(pair[0], "len"); isLen && len(args) == 1 && isCallNamed(args[0], "Keys") {
				return true
			}
		}
		return false
	}
	n := 0
	perFn := map[*ssa.Function]int{}
	for _, pk := range []string{pkgSyntax, pkgCore} {
		for _, fn := range c.P.FuncsOf(pk) {
			for _, f := range an.WithAnon(fn) {
				an.Instrs(f, func(in ssa.Instruction) {
					b, ok := in.(*ssa.BinOp)
					if !ok {
						return
					}
					switch b.Op {
					case token.EQL, token.NEQ, token.LSS, token.LEQ, token.GTR, token.GEQ:
					default:
						return
					}
					if !((isCallNamed(b.X, "ArrayLength") && isZero(b.Y)) || (isCallNamed(b.Y, "ArrayLength") && isZero(b.X))) {
						return
					}
					if g, _ := an.GuardedBy(in, keysEmpty); !g {
						return
					}
					n++
					perFn[f]++
					c.Check("X15", fmt.Sprintf("array-length-of-a-keyless-source-compared-by-order@%s#%d", an.FnName(f), perFn[f]), b.Pos(), b.Op != token.EQL && b.Op != token.NEQ,
						"behind `len(Keys()) == 0` the source may be a map, whose ArrayLength() is -1: comparing it with 0 by equality calls every empty map non-empty, the map call over it is not pruned as always disabled and reaches the runtime with no forks")
				})
			}
		}
	}
	c.Floor("X15", "ArrayLength()-against-0 comparisons guarded by len(Keys()) == 0", n, 1)
}
