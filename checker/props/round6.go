package props

import (
	"fmt"
	"go/constant"
	"go/token"
	"go/types"
	"regexp"
	"strings"

	"mrocheck/an"

	"golang.org/x/tools/go/ssa"
)

// Rules written in the sixth round: each guards a genuine defect that a seeding sub-agent reported
// as a side observation, that a second sub-agent reproduced with a deterministic demonstration and
// that was then repaired in /repo (see known_findings.json "fixed" and findings/<id>/).  Every rule
// has a self-test mutant that reverts the repair.

// S9 (C15): the lock file is removed only by the mrp that holds it.  `mrp --inspect` attaches
// read-only and never takes the lock, yet its run loop calls Pipestance.Unlock() while the
// pipestance is failed; a failed --noexit mrp has already given the lock up and calls it again
// every few seconds.  If Unlock removes `_lock` unconditionally, the live writer's lock disappears
// and a third mrp attaches for writing.
// Rule: every removal of the Lock file in package core lies behind an edge on which readOnly() is
// false (this object sees the lock it wrote), in the function or at every call of it.
func ruleS9(c *an.Ctx) {
	p := c.P
	ro := p.Func(pkgCore, "(*Pipestance).readOnly")
	if ro == nil {
		c.Info("S9", "anchor((*Pipestance).readOnly)", 0, "not found: not decided")
		return
	}
	holds := func(r an.Rel) bool {
		cl, ok := r.X.(*ssa.Call)
		return ok && r.Op == token.ILLEGAL && !r.Truth && cl.Call.StaticCallee() == ro
	}
	n := 0
	for _, fn := range coreFns(c) {
		an.Instrs(fn, func(in ssa.Instruction) {
			call := an.AsCall(in)
			if call == nil || call.Common().StaticCallee() == nil || call.Common().StaticCallee().Name() != "remove" {
				return
			}
			if len(call.Common().Args) != 2 || !an.IsConst(call.Common().Args[1], p.Const(pkgCore, "Lock")) {
				return
			}
			n++
			g, w := an.GuardedBy(in, holds)
			if !g && guardedAtAllCalls(p, fn, holds, 0) {
				g = true
			}
			c.Check("S9", "lock-removed-only-by-its-holder@"+an.FnName(fn), in.Pos(), g,
				"the pipestance lock file is removed without establishing that this mrp holds it (readOnly() false): a read-only inspector, or an mrp that already released the lock, deletes the lock of the live writer and another mrp can then attach for writing; "+c.WitnessString(w))
		})
	}
	c.Floor("S9", "removals of the lock file in package core", n, 1)
}

// W5 (C14): no per-fork volatile data removal across a symlinked ancestor.  Node.vdrKill refuses a
// node whose directory (or an ancestor's) is a symlink; but Fork.partialVdrKill - where temp
// directories and files are actually removed - is also called directly by doJoin and doComplete as
// the fork makes progress.  Those calls removed files at the link's target, outside the pipestance
// directory, and the final sweep then left them out of the report.
// Rule: in partialVdrKill every path to a destructive callee (vdrKill, vdrKillSome, clean*Temp)
// passes vdrCheckSymlink - or every caller of partialVdrKill does.
func ruleW5(c *an.Ctx) {
	p := c.P
	pk := c.NeedFunc(pkgCore, "(*Fork).partialVdrKill")
	chk := p.Func(pkgCore, "(*Node).vdrCheckSymlink")
	if pk == nil {
		return
	}
	if chk == nil {
		c.Info("W5", "anchor((*Node).vdrCheckSymlink)", 0, "no symlink check in the package: not decided")
		return
	}
	isChk := func(in ssa.Instruction) bool { return an.CalleeIs(in, chk) }
	var destructive []*ssa.Function
	for _, n := range []string{"(*Fork).vdrKill", "(*Fork).vdrKillSome", "(*Fork).cleanSplitTemp", "(*Fork).cleanChunkTemp", "(*Fork).cleanJoinTemp"} {
		if f := p.Func(pkgCore, n); f != nil {
			destructive = append(destructive, f)
		}
	}
	n := 0
	for _, m := range familyOf(p, pk, 1) {
		an.Instrs(m, func(in ssa.Instruction) {
			if !an.CalleeIs(in, destructive...) {
				return
			}
			n++
			w := an.Query{Fn: m, Target: func(x ssa.Instruction) bool { return x == in }, Barrier: isChk}.Find()
			ok := w == nil
			if !ok {
				// the guard may sit in front of every call of the function holding the site
				// (a helper of the sweep, or the sweep itself guarded by all of its callers)
				var guardedCalls func(fn *ssa.Function, d int) bool
				guardedCalls = func(fn *ssa.Function, d int) bool {
					if d > 3 {
						return false
					}
					cnt := 0
					for caller, sites := range p.Callers(fn) {
						for _, s := range sites {
							cnt++
							s := s
							q := an.Query{Fn: caller, Target: func(x ssa.Instruction) bool { return x == s.(ssa.Instruction) }, Barrier: isChk}
							if q.Find() != nil && !guardedCalls(caller, d+1) {
								return false
							}
						}
					}
					return cnt > 0
				}
				ok = guardedCalls(m, 0)
			}
			c.Check("W5", "symlink-check-before("+an.CalleeName(in)+")@"+an.FnName(m), in.Pos(), ok,
				"a fork's temp directories / volatile files are removed on a path that never asked whether the node's directory, or an ancestor's, is a symlink: files at the link's target - outside the pipestance directory - are deleted as the fork makes progress (doJoin, doComplete call this sweep directly) and the final report leaves them out; "+c.WitnessString(w))
		})
	}
	c.Floor("W5", "destructive calls in the per-fork sweep", n, 3)
}

// W6 (C14): the keep-alive bookkeeping of one fork is not shared with its siblings.  A fork that
// produced null for a file output removes that argument from the consumer's entry
// (Fork.removeFileArg deletes from the map found in filePostNodes); when every build-time fork of
// the producer holds the SAME map, the siblings never learn that the consumer is done with their
// file and the file of a volatile stage survives the run.
// Rule: a map stored into Fork.filePostNodes inside a loop over forks is created inside that loop.
func ruleW6(c *an.Ctx) {
	p := c.P
	fpn := p.Field(pkgCore, "Fork", "filePostNodes")
	fn := c.NeedFunc(pkgCore, "(*Node).attachToFileParents")
	if fpn == nil || fn == nil {
		return
	}
	n := 0
	loops := naturalLoops(fn)
	inLoopOverForks := func(b *ssa.BasicBlock) map[*ssa.BasicBlock]bool {
		// innermost loop containing b
		var best map[*ssa.BasicBlock]bool
		for _, body := range loops {
			if body[b] && (best == nil || len(body) < len(best)) {
				best = body
			}
		}
		return best
	}
	check := func(in ssa.Instruction, v ssa.Value) {
		if _, isMap := v.Type().Underlying().(*types.Map); !isMap {
			return
		}
		body := inLoopOverForks(in.Block())
		if body == nil {
			return
		}
		n++
		fresh := false
		if mk, ok := v.(*ssa.MakeMap); ok && body[mk.Block()] {
			fresh = true
		}
		if cl, ok := v.(*ssa.Call); ok && body[cl.Block()] {
			// maps.Clone / a copying helper called per iteration
			fresh = true
		}
		c.Check("W6", "per-fork-consumer-entry-not-shared("+an.Path(v)+")@"+an.FnName(fn), in.Pos(), fresh,
			"the map recorded for a consumer in Fork.filePostNodes is the same object for every fork of the producer: a fork that produced no file for an argument deletes it from the shared map (removeFileArg), its siblings then never release the consumer's hold on their file, and a volatile stage's file that is neither a top-level output nor retained survives the run")
	}
	an.Instrs(fn, func(in ssa.Instruction) {
		mu, ok := in.(*ssa.MapUpdate)
		if !ok {
			return
		}
		// fork.filePostNodes[consumer] = v   (directly or through a local holding the field)
		if an.LoadsField(mu.Map, fpn) {
			check(in, mu.Value)
			return
		}
		// map literal { consumer: v } stored into the field
		if mk, isMk := mu.Map.(*ssa.MakeMap); isMk {
			for _, st := range an.StoresToField(fn, fpn) {
				if st.Val == ssa.Value(mk) {
					check(in, mu.Value)
				}
			}
		}
	})
	c.Floor("W6", "consumer entries recorded per fork", n, 1)
}

// J6 (C11): a call's name is terminated before it is used as a file-name prefix.  Journal files
// are named <call fqid>.fork<i>…; a full stage reset removes the node's pending notifications by
// prefix.  Call names are chosen by the user: with the bare name STEP as prefix the pending
// notifications of the sibling STEP1 are deleted too (its completion is then only found by the
// next full directory scan, its progress line is lost).
// Rule: where a removal is guarded by strings.HasPrefix(file, base) and base derives from a node's
// qualified name, base ends with the separator ".".
func ruleJ6(c *an.Ctx) {
	n := 0
	for _, fn := range coreFns(c) {
		an.Instrs(fn, func(in ssa.Instruction) {
			if _, ok := isRemoveCall(in); !ok {
				return
			}
			// dominated by HasPrefix(x, base) == true
			var base ssa.Value
			an.GuardedBy(in, func(r an.Rel) bool {
				cl, ok := r.X.(*ssa.Call)
				if !ok || r.Op != token.ILLEGAL || !r.Truth {
					return false
				}
				f := cl.Call.StaticCallee()
				if f == nil || f.Pkg == nil || f.Pkg.Pkg.Path() != "strings" || f.Name() != "HasPrefix" {
					return false
				}
				base = cl.Call.Args[1]
				return true
			})
			if base == nil || !derivesFromNodeName(base, 0) {
				return
			}
			n++
			c.Check("J6", "name-prefix-terminated@"+an.FnName(fn), in.Pos(), endsWithDot(base, 0),
				"files are removed by a prefix built from a call's qualified name without the terminating '.': resetting STEP also deletes the pending journal entries of the sibling call STEP1 (its notifications are attributed to nobody)")
		})
	}
	if n == 0 {
		c.Pass("J6", "no-removal-by-call-name-prefix", 0, "no removal guarded by a prefix test on a call's qualified name")
	}
}

func derivesFromNodeName(v ssa.Value, d int) bool {
	if v == nil || d > 6 {
		return false
	}
	switch x := v.(type) {
	case *ssa.Call:
		name := ""
		if x.Call.IsInvoke() {
			name = x.Call.Method.Name()
		} else if f := x.Call.StaticCallee(); f != nil {
			name = f.Name()
		}
		switch name {
		case "GetFqid", "GetFQName":
			return true
		}
		for _, a := range x.Call.Args {
			if derivesFromNodeName(a, d+1) {
				return true
			}
		}
		// a helper of the core package that returns a name
		if h := x.Call.StaticCallee(); h != nil && h.Blocks != nil && h.Pkg != nil && strings.HasSuffix(h.Pkg.Pkg.Path(), pkgCore) {
			if b, isB := x.Type().Underlying().(*types.Basic); isB && b.Info()&types.IsString != 0 {
				found := false
				an.Instrs(h, func(in ssa.Instruction) {
					if ret, ok := in.(*ssa.Return); ok && len(ret.Results) == 1 && derivesFromNodeName(ret.Results[0], d+2) {
						found = true
					}
				})
				return found
			}
		}
	case *ssa.Slice:
		return derivesFromNodeName(x.X, d+1)
	case *ssa.BinOp:
		return derivesFromNodeName(x.X, d+1) || derivesFromNodeName(x.Y, d+1)
	case *ssa.Phi:
		for _, e := range x.Edges {
			if derivesFromNodeName(e, d+1) {
				return true
			}
		}
	case *ssa.UnOp:
		if fa, ok := x.X.(*ssa.FieldAddr); ok {
			if st := derefStructT(fa.X.Type()); st != nil && st.Field(fa.Field).Name() == "fqname" {
				// only node-level names: Node / TopNode
				return strings.HasSuffix(fa.X.Type().String(), "Node")
			}
		}
	}
	return false
}

func derefStructT(t types.Type) *types.Struct {
	if p, ok := t.Underlying().(*types.Pointer); ok {
		t = p.Elem()
	}
	s, _ := t.Underlying().(*types.Struct)
	return s
}

func endsWithDot(v ssa.Value, d int) bool {
	if v == nil || d > 4 {
		return false
	}
	switch x := v.(type) {
	case *ssa.Const:
		return x.Value != nil && x.Value.Kind() == constant.String && strings.HasSuffix(constant.StringVal(x.Value), ".")
	case *ssa.BinOp:
		return x.Op == token.ADD && endsWithDot(x.Y, d+1)
	case *ssa.Phi:
		for _, e := range x.Edges {
			if !endsWithDot(e, d+1) {
				return false
			}
		}
		return len(x.Edges) > 0
	case *ssa.Call:
		// a helper that builds the prefix (journalFilePrefix()): all of its returns
		h := x.Call.StaticCallee()
		if h == nil || h.Blocks == nil {
			return false
		}
		ok, n := true, 0
		an.Instrs(h, func(in ssa.Instruction) {
			if r, isR := in.(*ssa.Return); isR && len(r.Results) == 1 {
				n++
				if !endsWithDot(r.Results[0], d+1) {
					ok = false
				}
			}
		})
		return ok && n > 0
	}
	return false
}

// K8 (C12): a reservation is converted to the semaphore's unit before it is rounded.  The address
// space semaphore counts MB, requests are fractional GB.  `int64(gb) * 1024` truncates to whole GB
// first: a 2.9 GB request reserves 2048 MB, a request below 1 GB reserves nothing, and two jobs run
// side by side under a limit that fits one.
// Rule: in the local job manager no value converted float->integer is afterwards multiplied by a
// constant (the scale factor belongs inside the conversion).
func ruleK8(c *an.Ctx) {
	n, bad := 0, 0
	for _, fn := range coreFns(c) {
		if fn.Signature.Recv() == nil || !strings.Contains(fn.Signature.Recv().Type().String(), "LocalJobManager") {
			continue
		}
		for _, g := range an.WithAnon(fn) {
			an.Instrs(g, func(in ssa.Instruction) {
				cv, ok := in.(*ssa.Convert)
				if !ok {
					return
				}
				from, okF := cv.X.Type().Underlying().(*types.Basic)
				to, okT := cv.Type().Underlying().(*types.Basic)
				if !okF || !okT || from.Info()&types.IsFloat == 0 || to.Info()&types.IsInteger == 0 {
					return
				}
				n++
				for _, r := range an.Referrers(cv) {
					b, ok := r.(*ssa.BinOp)
					if !ok || b.Op != token.MUL {
						continue
					}
					other := b.Y
					if b.Y == ssa.Value(cv) {
						other = b.X
					}
					if k, isC := an.ConstVal(other); isC && k.Kind() == constant.Int {
						if v, exact := constant.Int64Val(k); exact && v > 1 {
							bad++
							c.Fail("K8", "scaled-before-rounded("+an.Path(cv.X)+")@"+an.FnName(fn), b.Pos(),
								"a fractional resource request is truncated to an integer and only then multiplied by the unit factor: 2.9 GB reserves 2048 MB, anything below 1 GB reserves nothing, and the sum of what concurrently running jobs were granted exceeds the limit the semaphore enforces")
						}
					}
				}
			})
		}
	}
	if bad == 0 {
		c.Pass("K8", "scaled-before-rounded@LocalJobManager", 0, "no float->integer conversion in the local job manager is multiplied by a constant afterwards")
	}
	c.Floor("K8", "float->integer conversions in the local job manager", n, 1)
}

// Q12 (C09): the comments in front of a split's operand are printed.  `split` and its operand are
// separate AST nodes; a comment between the keyword and the operand is attached to the operand's
// node, which neither SplitExp.format nor the operand's own format prints.
// Rule: some function in the family of BindStm.format / SplitExp.format hands the node of a value
// loaded from SplitExp.Value to printComments.
func ruleQ12(c *an.Ctx) {
	p := c.P
	val := p.Field(pkgSyntax, "SplitExp", "Value")
	bf := c.NeedFunc(pkgSyntax, "(*BindStm).format")
	if val == nil || bf == nil {
		return
	}
	roots := []*ssa.Function{bf}
	if sf := p.Func(pkgSyntax, "(*SplitExp).format"); sf != nil {
		roots = append(roots, sf)
	}
	found := false
	for _, r := range roots {
		for _, m := range familyOf(p, r, 2) {
			an.Instrs(m, func(in ssa.Instruction) {
				cl := an.AsCallAny(in)
				if cl == nil || cl.Common().StaticCallee() == nil || cl.Common().StaticCallee().Name() != "printComments" {
					return
				}
				for _, a := range cl.Common().Args {
					// a = X.getNode() with X loaded from SplitExp.Value
					if gn, ok := a.(*ssa.Call); ok && gn.Call.IsInvoke() && gn.Call.Method.Name() == "getNode" {
						if an.LoadsField(gn.Call.Value, val) {
							found = true
						}
					}
				}
			})
		}
	}
	c.Check("Q12", "split-operand-comments-printed@(*BindStm).format", bf.Pos(), found,
		"no formatting function prints the comments attached to the operand of a split (a separate node from the `split` keyword): a comment written between `split` and its operand is lost")
}

// F11 (C06): `null` stage defs fail the split.  The split's _stage_defs is decoded into the
// pointer field Fork.stageDefs; for the JSON text `null` (a python split() without return) the
// decoder reports no error and clears the pointer, and the next line dereferences it: mrp panics
// instead of failing the stage, and panics again on every re-attach.
// Rule: after every decode of StageDefsFile into Fork.stageDefs the pointer is compared with nil
// on every path to a return of the function.
func ruleF11(c *an.Ctx) {
	p := c.P
	sd := p.Field(pkgCore, "Fork", "stageDefs")
	if sd == nil {
		return
	}
	n := 0
	for _, fn := range coreFns(c) {
		an.Instrs(fn, func(in ssa.Instruction) {
			cl, ok := in.(*ssa.Call)
			if !ok || cl.Call.StaticCallee() == nil || cl.Call.StaticCallee().Name() != "ReadInto" || len(cl.Call.Args) < 3 {
				return
			}
			if !an.IsConst(cl.Call.Args[1], p.Const(pkgCore, "StageDefsFile")) {
				return
			}
			dst := cl.Call.Args[2]
			if mi, ok := dst.(*ssa.MakeInterface); ok {
				dst = mi.X
			}
			if _, f := an.FieldOfAddr(dst); f != sd {
				return
			}
			n++
			w := an.Query{Fn: fn, After: in, Target: an.IsReturn,
				BarrierEdge: func(from, to *ssa.BasicBlock) bool {
					return an.EdgeHolds(from, to, func(r an.Rel) bool {
						return (r.Op == token.EQL || r.Op == token.NEQ) && an.IsNil(r.Y) && an.LoadsField(r.X, sd)
					})
				}}.Find()
			c.Check("F11", "decoded-stage-defs-checked-for-null@"+an.FnName(fn), in.Pos(), w == nil,
				"_stage_defs is decoded into the pointer Fork.stageDefs and the function returns without comparing it with nil: for the JSON text `null` the decoder reports success and clears the pointer, the caller dereferences it, and mrp panics (again on every re-attach) instead of failing the split with an error naming the stage; "+c.WitnessString(w))
		})
	}
	c.Floor("F11", "decodes of _stage_defs into Fork.stageDefs", n, 1)
}

// F12 (C06): chunk definitions are verified before chunks run, also after a restart.  verifyDef
// (missing / ill-typed chunk arguments at --strict levels above disable) used to run only where
// doChunks creates the chunks; after a restart the chunks are preloaded by updateId, the partial
// reset has removed the `_errors` that recorded the bad definition, and the chunk simply ran.
// Rule: from the edge of doChunks on which the chunk list is found non-empty, a call of verifyDef is
// reachable before the chunks are stepped.
func ruleF12(c *an.Ctx) {
	p := c.P
	dc := c.NeedFunc(pkgCore, "(*Fork).doChunks")
	vd := p.Func(pkgCore, "(*Chunk).verifyDef")
	step := p.Func(pkgCore, "(*Chunk).step")
	chunks := p.Field(pkgCore, "Fork", "chunks")
	if dc == nil || vd == nil || step == nil || chunks == nil {
		return
	}
	n := 0
	for _, m := range familyOf(p, dc, 1) {
		for _, b := range m.Blocks {
			for _, s := range b.Succs {
				// len(self.chunks) != 0 : the list was preloaded
				if !an.EdgeHolds(b, s, func(r an.Rel) bool {
					args, ok := an.IsBuiltinCall(r.X, "len")
					if !ok || !an.LoadsField(args[0], chunks) || !an.IsIntConst(r.Y, 0) {
						return false
					}
					return r.Op == token.NEQ || r.Op == token.GTR
				}) {
					continue
				}
				// only the decision "create or not": the false edge of the same test must create chunks
				creates := false
				isNewChunk := func(x ssa.Instruction) bool {
					cl := an.AsCallAny(x)
					return cl != nil && cl.Common().StaticCallee() != nil && cl.Common().StaticCallee().Name() == "NewChunk"
				}
				for _, o := range b.Succs {
					if o != s && reachFromBlock(o, func(x ssa.Instruction) bool {
						if isNewChunk(x) {
							return true
						}
						// the creation loop may live in a helper shared with updateId (makeChunks)
						if cl := an.AsCallAny(x); cl != nil {
							if h := cl.Common().StaticCallee(); h != nil && h.Blocks != nil && h.Pkg == m.Pkg {
								return an.MayDo(h, isNewChunk, 1)
							}
						}
						return false
					}) {
						creates = true
					}
				}
				if !creates {
					continue
				}
				n++
				verifies := findFrom(s, func(x ssa.Instruction) bool { return an.CalleeIs(x, vd) },
					func(x ssa.Instruction) bool { return an.CalleeIs(x, step) }, nil)
				c.Check("F12", "preloaded-chunks-verified-before-they-run@"+an.FnName(m), s.Instrs[0].Pos(), verifies,
					"when the chunk list already exists (re-attach: updateId rebuilt it from _stage_defs) the chunks are stepped without verifyDef: a bad chunk definition that failed the first attempt is not reported again after the restart, the chunk runs and the pipestance completes")
			}
		}
	}
	c.Floor("F12", "create-or-reuse decisions on the chunk list", n, 1)
}

// M9 (C13): a key of a decoded map becomes a directory name only after it was checked.  For a
// mapped top-level call the outs of fork <key> are moved to outs/<key>/…; a key such as "../esc"
// put the files outside outs/.
// Rule: in the post-processing functions, a path.Join whose operands include the range key of a
// decoded JSON map is dominated by the edge IsLegalUnixFilename(key) == nil.
func ruleM9(s *c13) {
	c := s.c
	n := 0
	fns := append([]*ssa.Function{}, s.fam...)
	if pp := c.P.Func(pkgCore, "(*Fork).postProcess"); pp != nil {
		fns = append(fns, familyOf(c.P, pp, 1)...)
	}
	seenFn := map[*ssa.Function]bool{}
	for _, fn := range fns {
		if seenFn[fn] {
			continue
		}
		seenFn[fn] = true
		an.Instrs(fn, func(in ssa.Instruction) {
			cl, ok := in.(*ssa.Call)
			if !ok || cl.Call.StaticCallee() == nil || cl.Call.StaticCallee().Name() != "Join" || cl.Call.StaticCallee().Pkg == nil {
				return
			}
			if pp := cl.Call.StaticCallee().Pkg.Pkg.Path(); pp != "path" && pp != "path/filepath" {
				return
			}
			var key ssa.Value
			for _, a := range cl.Call.Args {
				for _, e := range variadicElems(a) {
					if ex, ok := e.(*ssa.Extract); ok && ex.Index == 1 {
						if nx, ok := ex.Tuple.(*ssa.Next); ok && !nx.IsString {
							if rg, ok := nx.Iter.(*ssa.Range); ok {
								if mt, ok := rg.X.Type().Underlying().(*types.Map); ok {
									if b, ok := mt.Key().Underlying().(*types.Basic); ok && b.Kind() == types.String {
										key = e
									}
								}
							}
						}
					}
				}
			}
			if key == nil {
				return
			}
			n++
			g, w := an.GuardedBy(in, func(r an.Rel) bool {
				lc, ok := r.X.(*ssa.Call)
				if !ok || r.Op != token.EQL || !an.IsNil(r.Y) {
					return false
				}
				f := lc.Call.StaticCallee()
				return f != nil && f.Name() == "IsLegalUnixFilename" && len(lc.Call.Args) == 1 && lc.Call.Args[0] == key
			})
			c.Check("M9", "map-key-checked-before-it-names-a-directory@"+an.FnName(fn), in.Pos(), g,
				"the key of a decoded map is joined into an output path without IsLegalUnixFilename: for a mapped top-level call a key such as \"../esc\" materialises that fork's files outside outs/ and _outs points there; "+c.WitnessString(w))
		})
	}
	if n == 0 {
		c.Pass("M9", "no-map-key-joined-into-a-path", 0, "no range key of a string-keyed map is joined into a path in the post-processing functions")
	}
}

// M10 (C13): no entry of a typed map is dropped from the rewritten value.  moveOutDir collects the
// keys, sorts them and writes one entry per key; a key that cannot name a directory used to be
// filtered out while collecting, so the entry vanished from _outs ("every other value is
// unchanged").
// Rule: in the writers, a loop over a decoded map that appends its key to a slice appends it in
// every iteration.
func ruleM10(s *c13) {
	c := s.c
	n := 0
	for _, fn := range s.fam {
		for hd, body := range naturalLoops(fn) {
			var nx *ssa.Next
			for _, in := range hd.Instrs {
				if x, ok := in.(*ssa.Next); ok && !x.IsString {
					if rg, ok := x.Iter.(*ssa.Range); ok {
						if _, isMap := rg.X.Type().Underlying().(*types.Map); isMap {
							nx = x
						}
					}
				}
			}
			if nx == nil {
				continue
			}
			var key ssa.Value
			for _, r := range an.Referrers(nx) {
				if ex, ok := r.(*ssa.Extract); ok && ex.Index == 1 {
					key = ex
				}
			}
			if key == nil {
				continue
			}
			// appends of the key inside the loop
			var apps []ssa.Instruction
			for b := range body {
				for _, in := range b.Instrs {
					if v, ok := in.(ssa.Value); ok {
						if args, isApp := an.IsBuiltinCall(v, "append"); isApp && len(args) == 2 {
							for _, e := range variadicElems(args[1]) {
								if e == key {
									apps = append(apps, in)
								}
							}
						}
					}
				}
			}
			if len(apps) == 0 {
				continue
			}
			n++
			isApp := func(x ssa.Instruction) bool {
				for _, a := range apps {
					if a == x {
						return true
					}
				}
				return false
			}
			// from the body entry (after Next's ok edge) back to the header without appending?
			var w *an.Witness
			for _, sc := range hd.Succs {
				if !body[sc] {
					continue
				}
				first := sc.Instrs[0]
				if isApp(first) {
					continue
				}
				w = an.Query{Fn: fn, After: first, Target: func(x ssa.Instruction) bool { return x == hd.Instrs[0] }, Barrier: isApp,
					BarrierEdge: func(from, to *ssa.BasicBlock) bool { return !body[to] }}.Find()
			}
			c.Check("M10", "every-key-of-the-map-is-kept@"+an.FnName(fn), hd.Instrs[0].Pos(), w == nil,
				"the keys of a decoded map are collected for rewriting, but an iteration can finish without collecting its key: that entry is missing from the rewritten _outs although only file paths may change; "+c.WitnessString(w))
		}
	}
	if n == 0 {
		c.Pass("M10", "no-key-collection-loop", 0, "no loop over a decoded map collects its keys in the output writers")
	}
}

// T10 / N8 (C07, C17): a struct is checked member by member.  Assignability "holds for structs
// exactly when it holds for their components": every implementation of Type.IsAssignableFrom
// that walks StructType.Members must, in every iteration, either apply the relation to
// that member, record a failure, or have found the two members' TypeIds equal.  An iteration that
// completes in any other way has accepted a member unchecked: a memo keyed on the member type's
// base name (dimensions dropped) let `struct(int a, int[] b)` pass as map<int>.
func ruleMembersAll(c *an.Ctx, rule string) {
	p := c.P
	members := p.Field(pkgSyntax, "StructType", "Members")
	if members == nil {
		return
	}
	isRelName := func(n string) bool { return n == "IsAssignableFrom" || n == "CheckEqual" }
	relCall := func(in ssa.Instruction) bool {
		cl := an.AsCallAny(in)
		if cl == nil {
			return false
		}
		if cl.Common().IsInvoke() {
			return isRelName(cl.Common().Method.Name())
		}
		f := cl.Common().StaticCallee()
		return f != nil && isRelName(f.Name())
	}
	n := 0
	var roots []*ssa.Function
	// CheckEqual compares the components of the two TypeIds one by one and is not covered
	roots = append(roots, typeImpls(c, "IsAssignableFrom")...)
	seenFn := map[*ssa.Function]bool{}
	for _, root := range roots {
		fam := familyOfShared(p, root, roots, 2)
		inFam := map[*ssa.Function]bool{}
		for _, m := range fam {
			inFam[m] = true
		}
		for _, m := range fam {
			if seenFn[m] {
				continue
			}
			seenFn[m] = true
			for hd, body := range naturalLoops(m) {
				overMembers := false
				for b := range body {
					for _, in := range b.Instrs {
						switch x := in.(type) {
						case *ssa.Next:
							if rg, ok := x.Iter.(*ssa.Range); ok && an.LoadsField(rg.X, members) {
								overMembers = true
							}
						case *ssa.IndexAddr:
							// element of Members indexed by this loop's counter (defined in the header block)
							if an.LoadsField(x.X, members) {
								if def, ok := x.Index.(ssa.Instruction); ok && def.Block() == hd {
									overMembers = true
								}
							}
						}
					}
				}
				if !overMembers {
					continue
				}
				conform := func(in ssa.Instruction) bool {
					if relCall(in) {
						return true
					}
					if v, ok := in.(ssa.Value); ok {
						if args, isApp := an.IsBuiltinCall(v, "append"); isApp && len(args) > 0 {
							if nm, ok := args[0].Type().(*types.Named); ok && nm.Obj().Name() == "ErrorList" {
								return true // a failure is recorded
							}
						}
					}
					if cl := an.AsCallAny(in); cl != nil {
						if h := cl.Common().StaticCallee(); h != nil && h.Blocks != nil && h != m && (inFam[h] || h.Pkg == m.Pkg && h.Signature.Recv() == nil) {
							return an.MayDo(h, relCall, 2)
						}
					}
					return false
				}
				typeIdsEqual := func(from, to *ssa.BasicBlock) bool {
					return an.EdgeHolds(from, to, func(r an.Rel) bool {
						if r.Op != token.EQL || r.X == nil || r.Y == nil {
							return false
						}
						nx, ok1 := r.X.Type().(*types.Named)
						ny, ok2 := r.Y.Type().(*types.Named)
						return ok1 && ok2 && nx.Obj().Name() == "TypeId" && ny.Obj().Name() == "TypeId"
					})
				}
				// a member skipped because a member with the same (complete) type was already checked
				memos := memoKeyFindings([]*ssa.Function{m}, false)
				memoHit := func(from, to *ssa.BasicBlock) bool {
					for _, mf := range memos {
						if mf.covered && mf.hitFrom == from && mf.hitTo == to {
							return true
						}
					}
					return false
				}
				for _, sc := range hd.Succs {
					if !body[sc] {
						continue
					}
					n++
					first := sc.Instrs[0]
					var w *an.Witness
					if !conform(first) {
						w = an.Query{Fn: m, After: first, Target: func(x ssa.Instruction) bool { return x == hd.Instrs[0] }, Barrier: conform,
							BarrierEdge: func(from, to *ssa.BasicBlock) bool {
								return !body[to] || typeIdsEqual(from, to) || memoHit(from, to)
							}}.Find()
					}
					c.Check(rule, "every-struct-member-is-checked@"+an.FnName(m), hd.Instrs[0].Pos(), w == nil,
						"an iteration over a struct's members completes without applying the type relation to the member, recording a failure or finding the two members' types identical: that member is accepted unchecked (a struct with members of different array/map depth is accepted where every member must have the map's element type); "+c.WitnessString(w))
				}
			}
		}
	}
	c.Floor(rule, "loops over StructType.Members in the type relations", n, 2)
}

// X8 / R10 (C03, C05): every creator of a fork's chunk objects names their directories alike.
// doChunks creates the chunks when the split has finished; updateId re-creates them from
// _stage_defs when mrp re-attaches.  The directory name chnk<i> is padded to a width computed from
// the chunk list; if the two places compute it from different quantities (the count in one, the
// largest index in the other) they agree except at 10, 100, 1000 chunks, where the restarted mrp
// looks for chnk0..chnk9, finds nothing, and runs every completed chunk again.
// Rule: all calls of NewChunk in package core pass a width obtained from util.WidthForInt applied
// to the same expression shape.
var lenArgRe = regexp.MustCompile(`len\([^()]*\)`)

func ruleChunkWidth(c *an.Ctx, rule string) {
	p := c.P
	nc := p.Func(pkgCore, "NewChunk")
	if nc == nil {
		c.Info(rule, "anchor(NewChunk)", 0, "not found: not decided")
		return
	}
	type site struct {
		in    ssa.Instruction
		shape string
		fn    string
	}
	var sites []site
	for _, fn := range coreFns(c) {
		for _, cs := range callsTo(fn, nc) {
			args := cs.Common().Args
			if len(args) < 4 {
				continue
			}
			shape := "?"
			if wc, ok := an.Strip(args[3]).(*ssa.Call); ok && wc.Call.StaticCallee() != nil && wc.Call.StaticCallee().Name() == "WidthForInt" && len(wc.Call.Args) == 1 {
				// only the arithmetic around the length matters, not how the list is named
				// (a field path in one place, a parameter of an extracted helper in another)
				shape = "WidthForInt(" + lenArgRe.ReplaceAllString(an.StablePath(wc.Call.Args[0]), "len(list)") + ")"
			} else if _, isPrm := an.Strip(args[3]).(*ssa.Parameter); isPrm {
				continue // the width is computed by the callers of this helper
			} else {
				shape = an.StablePath(args[3])
			}
			sites = append(sites, site{cs.(ssa.Instruction), shape, an.FnName(fn)})
		}
	}
	if len(sites) < 2 {
		c.Pass(rule, "chunk-directory-width-agrees", nc.Pos(), "chunks are created in one place only")
		return
	}
	ref := sites[0]
	for _, s := range sites {
		// the reference is the site in doChunks (the run that created the directories)
		if s.fn == "(*Fork).doChunks" || strings.Contains(s.fn, "doChunks") {
			ref = s
		}
	}
	for _, s := range sites {
		if s.in == ref.in {
			continue
		}
		c.Check(rule, "chunk-directory-width-agrees("+s.fn+" vs "+ref.fn+")", s.in.Pos(), s.shape == ref.shape,
			"two creators of a fork's chunks pad the chunk directory name to widths computed differently ("+s.shape+" vs "+ref.shape+"): where the two disagree (10, 100, ... chunks) a restarted mrp looks for differently named chunk directories, finds none of the completed chunks and runs them all again")
	}
}

// O2b (C02): a remembered position in the chunk list is forgotten with the list.  "Every chunk job
// finishes before the join job starts" rests on Fork.getState looking at every chunk.  A scan that
// starts at a position remembered in a field of the fork (skipping chunks already seen complete)
// is only sound if that field is cleared wherever Fork.chunks is replaced - a full stage reset or
// a re-run split builds a new list whose leading chunks have not run.
// Rule: if a loop over Fork.chunks in the family of Fork.getState starts at a value loaded from a
// field of Fork, every function of package core that stores Fork.chunks also stores that field.
func ruleO2b(c *an.Ctx) {
	p := c.P
	gs := c.NeedFunc(pkgCore, "(*Fork).getState")
	chunks := p.Field(pkgCore, "Fork", "chunks")
	if gs == nil || chunks == nil {
		return
	}
	n, remembered := 0, 0
	for _, m := range familyOf(p, gs, 2) {
		for hd, body := range naturalLoops(m) {
			// an element of Fork.chunks indexed inside the loop
			var idx ssa.Value
			for b := range body {
				for _, in := range b.Instrs {
					if ia, ok := in.(*ssa.IndexAddr); ok && an.LoadsField(ia.X, chunks) {
						idx = ia.Index
					}
				}
			}
			if idx == nil {
				continue
			}
			n++
			// the counter: a phi in the header (idx itself or idx = phi + 1)
			var phi *ssa.Phi
			switch x := idx.(type) {
			case *ssa.Phi:
				phi = x
			case *ssa.BinOp:
				if ph, ok := x.X.(*ssa.Phi); ok {
					phi = ph
				}
			}
			if phi == nil || phi.Block() != hd {
				continue
			}
			for i, pred := range hd.Preds {
				if body[pred] {
					continue
				}
				start := phi.Edges[i]
				if _, isC := start.(*ssa.Const); isC {
					continue
				}
				// where does the start come from?
				var fld *types.Var
				seen := map[ssa.Value]bool{}
				var rec func(v ssa.Value, d int)
				rec = func(v ssa.Value, d int) {
					if v == nil || seen[v] || d > 5 || fld != nil {
						return
					}
					seen[v] = true
					if _, f := an.FieldLoad(an.Strip(v)); f != nil {
						if strings.HasSuffix(an.Path(v), "."+f.Name()) && f != chunks {
							fld = f
							return
						}
					}
					switch x := v.(type) {
					case *ssa.BinOp:
						rec(x.X, d+1)
						rec(x.Y, d+1)
					case *ssa.Phi:
						for _, e := range x.Edges {
							rec(e, d+1)
						}
					case *ssa.Call:
						for _, a := range x.Call.Args {
							rec(a, d+1)
						}
					}
				}
				rec(start, 0)
				if fld == nil {
					continue
				}
				remembered++
				for _, fn := range coreFns(c) {
					sts := an.StoresToField(fn, chunks)
					if len(sts) == 0 {
						continue
					}
					clears := len(an.StoresToField(fn, fld)) > 0
					c.Check("O2b", "remembered-scan-position-cleared-with-the-list("+fld.Name()+")@"+an.FnName(fn), sts[0].Pos(), clears,
						"Fork.getState starts its scan of the chunk list at the position remembered in Fork."+fld.Name()+", but this function replaces Fork.chunks without resetting it: the leading chunks of the new list are never looked at, the fork reports chunks_complete while they are still running and the join is submitted")
				}
			}
		}
	}
	if remembered == 0 {
		c.Pass("O2b", "chunk-scan-starts-at-the-beginning@(*Fork).getState", gs.Pos(), "no scan of Fork.chunks starts at a remembered position")
	}
	c.Floor("O2b", "loops over Fork.chunks in the state function", n, 1)
}

// R7b / F13 (C05, C06): an orphaned local node found at re-attach is reset.  "Once the fault is
// removed, restarting re-executes only the failed work and completes": a node whose state is
// Running when mrp re-attaches may hide a fork that already failed (Node.getState stops at the
// first fork that is not complete); Pipestance.Reset only resets nodes whose state is Failed, so
// the reset in RestartRunningNodes is what clears that fork's _errors.
// Rule: in RestartRunningNodes, after the edge on which a frontier node's state is Running, every
// path to the next iteration passes Node.reset, except on the edge where the node is not local
// (cluster jobs are re-attached instead).
func ruleOrphanReset(c *an.Ctx, rule string) {
	p := c.P
	fn := c.NeedFunc(pkgCore, "(*Pipestance).RestartRunningNodes")
	reset := p.Func(pkgCore, "(*Node).reset")
	state := p.Field(pkgCore, "Node", "state")
	local := p.Field(pkgCore, "Node", "local")
	if fn == nil || reset == nil || state == nil || local == nil {
		return
	}
	resetter := &an.MustDo{Pred: func(x ssa.Instruction) bool { return an.CalleeIs(x, reset) }, Depth: 1}
	isReset := func(x ssa.Instruction) bool {
		if an.CalleeIs(x, reset) {
			return true
		}
		if cl := an.AsCallAny(x); cl != nil {
			if h := cl.Common().StaticCallee(); h != nil && h.Blocks != nil && h.Pkg == fn.Pkg && h != reset {
				return resetter.Fn(h)
			}
		}
		return false
	}
	// v false implies "the node is not local": node.local itself, or a short-circuit `a || node.local`
	// kept in a local variable (a phi whose other incoming values are the constant true)
	var falseMeansNotLocal func(v ssa.Value, d int) bool
	falseMeansNotLocal = func(v ssa.Value, d int) bool {
		if v == nil || d > 3 {
			return false
		}
		if an.LoadsField(v, local) {
			return true
		}
		ph, ok := v.(*ssa.Phi)
		if !ok {
			return false
		}
		some := false
		for _, e := range ph.Edges {
			if cv, isC := e.(*ssa.Const); isC && cv.Value != nil && cv.Value.String() == "true" {
				continue
			}
			if !falseMeansNotLocal(e, d+1) {
				return false
			}
			some = true
		}
		return some
	}
	notLocal := func(from, to *ssa.BasicBlock) bool {
		return an.EdgeHolds(from, to, func(r an.Rel) bool {
			return r.Op == token.ILLEGAL && !r.Truth && falseMeansNotLocal(r.X, 0)
		})
	}
	n := 0
	for _, m := range familyOf(p, fn, 1) {
		loops := naturalLoops(m)
		for _, b := range m.Blocks {
			for _, s := range b.Succs {
				if !an.EdgeHolds(b, s, func(r an.Rel) bool {
					return relEq(r, func(v ssa.Value) bool { return an.LoadsField(v, state) }, func(v ssa.Value) bool { return isState(p, v, "Running") })
				}) {
					continue
				}
				var hd *ssa.BasicBlock
				for h, body := range loops {
					if body[b] && (hd == nil || len(body) < len(loops[hd])) {
						hd = h
					}
				}
				// only the test that is followed by a reset within the same iteration
				if !findFrom(s, isReset, func(x ssa.Instruction) bool { return hd != nil && x == hd.Instrs[0] }, nil) {
					continue
				}
				n++
				bad := findFrom(s, func(x ssa.Instruction) bool {
					if an.IsReturn(x) {
						return true
					}
					return hd != nil && x == hd.Instrs[0]
				}, isReset, notLocal)
				c.Check(rule, "orphaned-local-node-is-reset@"+an.FnName(m), s.Instrs[0].Pos(), !bad,
					"a frontier node found Running at re-attach can reach the next node without Node.reset although it is local: a fork of it that had already failed keeps its _errors (Pipestance.Reset only looks at nodes whose state is Failed), the failed job is never run again and the restarted pipestance fails with the stale error")
			}
		}
	}
	c.Floor(rule, "Running-state tests followed by a reset in RestartRunningNodes", n, 1)
}

// N9 (C17): what was filtered is what is handed on.  At a stage boundary a value is narrowed to the
// destination type with Type.FilterJson (undeclared struct fields dropped, integral floats written
// as integers); the result - not the producer's raw bytes - is the argument the consumer receives.
// FilterJson reports non-fatal problems (an int given as 2.0) together with a corrected value.
// Rule: in package core, no return reachable after a FilterJson call hands back that call's input.
func ruleN9(c *an.Ctx) {
	n := 0
	for _, fn := range coreFns(c) {
		for _, g := range an.WithAnon(fn) {
			an.Instrs(g, func(in ssa.Instruction) {
				cl, ok := in.(*ssa.Call)
				if !ok || !cl.Call.IsInvoke() || cl.Call.Method.Name() != "FilterJson" || len(cl.Call.Args) < 1 {
					return
				}
				input := an.Strip(cl.Call.Args[0])
				n++
				var bad *ssa.Return
				an.Instrs(g, func(x ssa.Instruction) {
					ret, ok := x.(*ssa.Return)
					if !ok || bad != nil || len(ret.Results) == 0 {
						return
					}
					if an.Strip(an.RetVal(ret, 0)) != input {
						return
					}
					if an.Reachable(g, in, func(y ssa.Instruction) bool { return y == x }) {
						bad = ret
					}
				})
				pos := in.Pos()
				if bad != nil {
					pos = bad.Pos()
				}
				c.Check("N9", "filtered-value-is-what-is-returned("+an.Path(input)+")@"+an.FnName(fn), pos, bad == nil,
					"after filtering a value to the destination type a return hands back the unfiltered input: the consumer receives the producer's raw JSON (undeclared struct fields, 2.0 for an int), which no longer validates against the declared type")
			})
		}
	}
	c.Floor("N9", "FilterJson calls at stage boundaries (package core)", n, 1)
}

// S10 (C15): only a lock holder, or the function about to take the lock, rescans the pipestance's
// own metadata directory.  Pipestance.readOnly() is "this object does not see a _lock file"; an
// inspector stays read-only precisely because nothing loads its pipestance-level metadata cache.
// A rescan in a function that read-only pipestances call makes the live writer's _lock visible,
// readOnly() turns false, and the inspector starts stepping nodes and writing metadata.
// Rule: every loadCache() on Pipestance.metadata is in Pipestance.Lock (or a helper only it calls),
// or behind an edge on which readOnly() is false - in the function or at every call of it.
var s10Exceptions = map[string]string{
	"(*Pipestance).Immortalize": "guarded by `!force && readOnly()`: the force parameter is an explicit, documented override; no caller in the repository passes true",
}

func ruleS10(c *an.Ctx) {
	p := c.P
	md := p.Field(pkgCore, "Pipestance", "metadata")
	ro := p.Func(pkgCore, "(*Pipestance).readOnly")
	lock := p.Func(pkgCore, "(*Pipestance).Lock")
	if md == nil || ro == nil || lock == nil {
		c.Info("S10", "anchor(Pipestance.metadata/readOnly/Lock)", 0, "not found: not decided")
		return
	}
	holds := func(r an.Rel) bool {
		if r.Op != token.ILLEGAL || r.Truth {
			return false
		}
		if cl, ok := r.X.(*ssa.Call); ok && cl.Call.StaticCallee() == ro {
			return true
		}
		// the attach entry points carry the mode as a parameter (the lock is taken iff !readOnly)
		prm := an.ParamOf(r.X)
		return prm != nil && prm.Name() == "readOnly"
	}
	n := 0
	for _, fn := range coreFns(c) {
		an.Instrs(fn, func(in ssa.Instruction) {
			cl := an.AsCall(in)
			if cl == nil || cl.Common().StaticCallee() == nil || cl.Common().StaticCallee().Name() != "loadCache" || len(cl.Common().Args) < 1 {
				return
			}
			if !an.LoadsField(cl.Common().Args[0], md) {
				return
			}
			n++
			key := "pipestance-cache-loaded-only-by-lock-holder@" + an.FnName(fn)
			if why, ok := s10Exceptions[an.FnName(fn)]; ok {
				c.Pass("S10", key, in.Pos(), "tabled exception: "+why)
				return
			}
			ok := fn == lock
			if !ok {
				callers := effectiveCallers(p, fn, []string{"(*Pipestance).Lock"})
				ok = len(callers) == 1 && callers[0] == "(*Pipestance).Lock"
			}
			if !ok {
				g, _ := an.GuardedBy(in, holds)
				ok = g || guardedAtAllCalls(p, fn, holds, 0)
			}
			c.Check("S10", key, in.Pos(), ok,
				"the pipestance-level metadata cache is reloaded in a function that a read-only pipestance can run: the reload makes the live writer's _lock visible, readOnly() turns false for the inspector, and it starts resetting, stepping and writing in a pipestance another mrp holds locked")
		})
	}
	c.Floor("S10", "reloads of the pipestance-level metadata cache", n, 2)
}

// W7 (C14): the symlink check looks at every ancestor.  VDR refuses a node when its directory or
// one of its ancestors' is a symlink ("nothing outside the pipestance directory is touched").
// Rule: Node.vdrCheckSymlink either calls itself on a receiver reached through Node.parent, or
// walks the parents in a loop and stats a path that depends on the loop's node; a walk whose
// os.Lstat argument does not change from one ancestor to the next examines the node's own
// directory over and over and never sees a symlinked sub-pipeline directory.
func ruleW7(c *an.Ctx) {
	p := c.P
	fn := p.Func(pkgCore, "(*Node).vdrCheckSymlink")
	parent := p.Field(pkgCore, "Node", "parent")
	if fn == nil || parent == nil {
		c.Info("W7", "anchor((*Node).vdrCheckSymlink)", 0, "not found: not decided")
		return
	}
	recursive := false
	for _, cs := range callsTo(fn, fn) {
		args := cs.Common().Args
		if len(args) > 0 && strings.Contains(an.Path(args[0]), ".parent") {
			recursive = true
		}
	}
	var lstats []*ssa.Call
	an.Instrs(fn, func(in ssa.Instruction) {
		if cl, ok := in.(*ssa.Call); ok {
			if f := cl.Call.StaticCallee(); f != nil && f.Pkg != nil && f.Pkg.Pkg.Path() == "os" && (f.Name() == "Lstat" || f.Name() == "Readlink") {
				lstats = append(lstats, cl)
			}
		}
	})
	c.Floor("W7", "os.Lstat in the symlink check", len(lstats), 1)
	if recursive {
		c.Pass("W7", "symlink-check-reaches-the-ancestors@(*Node).vdrCheckSymlink", fn.Pos(), "the check calls itself on the parent node")
		return
	}
	loops := naturalLoops(fn)
	ok := false
	detail := "the check neither calls itself on the parent nor walks the parents in a loop: only the node's own directory is examined"
	for _, cl := range lstats {
		for hd, body := range loops {
			if !body[cl.Block()] {
				continue
			}
			// does the argument depend on a phi of this loop's header?
			dep := false
			seen := map[ssa.Value]bool{}
			var rec func(v ssa.Value, d int)
			rec = func(v ssa.Value, d int) {
				if v == nil || seen[v] || d > 8 || dep {
					return
				}
				seen[v] = true
				if ph, isPhi := v.(*ssa.Phi); isPhi && ph.Block() == hd {
					dep = true
					return
				}
				if in, isI := v.(ssa.Instruction); isI {
					for _, op := range in.Operands(nil) {
						if op != nil && *op != nil {
							rec(*op, d+1)
						}
					}
				}
			}
			rec(cl.Call.Args[0], 0)
			if dep {
				ok = true
			} else {
				detail = "the parents are walked in a loop, but the path handed to os.Lstat (" + an.Path(cl.Call.Args[0]) + ") does not depend on the loop's node: the node's own directory is examined once per ancestor and a symlinked ancestor directory is never noticed, so VDR follows it out of the pipestance directory"
			}
		}
	}
	c.Check("W7", "symlink-check-reaches-the-ancestors@(*Node).vdrCheckSymlink", fn.Pos(), ok, detail)
}

// G11 (C19): every file's top-level call is looked at.  `mro edit` is given several files; each is
// its own AST and may end in a `call NAME(...)` statement that refers to the renamed callable or
// supplies the renamed input.  The refactorings that touch the top-level call loop over the ASTs;
// Rule: in each function of package refactoring that loops over a slice of ASTs and reads
// Ast.Call inside that loop, every iteration reads it - the fix-up must not sit behind a condition
// that holds for some files only (such as "first file that declares the callable").
func ruleG11(c *an.Ctx) {
	p := c.P
	callF := p.Field(pkgSyntax, "Ast", "Call")
	if callF == nil {
		return
	}
	readsCall := func(in ssa.Instruction) bool {
		u, ok := in.(*ssa.UnOp)
		if !ok || u.Op != token.MUL {
			return false
		}
		_, f := an.FieldOfAddr(u.X)
		return f == callF
	}
	n := 0
	for _, fn := range p.FuncsOf(pkgRefac) {
		if fn.Parent() != nil {
			continue
		}
		for hd, body := range naturalLoops(fn) {
			// a loop over a []*syntax.Ast
			overAsts := false
			for b := range body {
				for _, in := range b.Instrs {
					if ia, ok := in.(*ssa.IndexAddr); ok {
						if def, isI := ia.Index.(ssa.Instruction); isI && def.Block() == hd {
							if strings.HasSuffix(ia.X.Type().String(), "[]*"+an.ModPath+pkgSyntax+".Ast") {
								overAsts = true
							}
						}
					}
				}
			}
			if !overAsts {
				continue
			}
			reads := false
			for b := range body {
				for _, in := range b.Instrs {
					if readsCall(in) {
						reads = true
					}
				}
			}
			if !reads {
				continue
			}
			barrier := func(in ssa.Instruction) bool {
				if readsCall(in) {
					return true
				}
				if cl := an.AsCallAny(in); cl != nil {
					if h := cl.Common().StaticCallee(); h != nil && h.Blocks != nil && h.Pkg == fn.Pkg {
						md := &an.MustDo{Pred: readsCall, Depth: 1}
						return md.Fn(h)
					}
				}
				return false
			}
			for _, sc := range hd.Succs {
				if !body[sc] {
					continue
				}
				n++
				first := sc.Instrs[0]
				var w *an.Witness
				if !barrier(first) {
					// a file that does not declare the callable at all is skipped as a whole
					notDeclaredHere := func(from, to *ssa.BasicBlock) bool {
						return an.EdgeHolds(from, to, func(r an.Rel) bool {
							if r.Op == token.EQL && an.IsNil(r.Y) {
								if lk, ok := an.Strip(r.X).(*ssa.Lookup); ok {
									if _, f := an.FieldLoad(lk.X); f != nil && f.Name() == "Table" {
										return true
									}
								}
							}
							if r.Op == token.NEQ {
								_, fx := an.FieldLoad(an.Strip(r.X))
								_, fy := an.FieldLoad(an.Strip(r.Y))
								return fx != nil && fy != nil && fx == fy && fx.Name() == "FullPath"
							}
							return false
						})
					}
					w = an.Query{Fn: fn, After: first, Target: func(x ssa.Instruction) bool { return x == hd.Instrs[0] }, Barrier: barrier,
						BarrierEdge: func(from, to *ssa.BasicBlock) bool { return !body[to] || notDeclaredHere(from, to) }}.Find()
				}
				c.Check("G11", "every-files-top-level-call-examined@"+an.FnName(fn), hd.Instrs[0].Pos(), w == nil,
					"the loop over the given files adjusts the top-level `call` statement, but an iteration can finish without looking at that file's Ast.Call: a file whose call refers to the renamed callable (or supplies the renamed input) keeps the old name when the fix-up only runs for, say, the first file declaring the callable, and the edited files no longer compile; "+c.WitnessString(w))
			}
		}
	}
	c.Floor("G11", "loops over the ASTs that touch the top-level call", n, 2)
}

// I7 (C16): the file recorded with a call is the file that declares the callable.  The invocation
// data names the MRO file to include (`mro_file`); converting the data back to a call parses that
// one file - it does not follow its includes - and looks the callable up in it.
// Rule: the value stored into InvocationData.Include by BuildDataForAst does not depend on
// SourceFile.IncludedFrom (the chain of files through which the declaring file was reached): any
// file further up that chain does not itself declare the callable.
func ruleI7(c *an.Ctx) {
	p := c.P
	fn := c.NeedFunc(pkgCore, "BuildDataForAst")
	inc := p.Field(pkgCore, "InvocationData", "Include")
	from := p.Field(pkgSyntax, "SourceFile", "IncludedFrom")
	if fn == nil || inc == nil || from == nil {
		c.Info("I7", "anchor(BuildDataForAst/InvocationData.Include/SourceFile.IncludedFrom)", 0, "not found: not decided")
		return
	}
	n := 0
	for _, st := range an.StoresToField(fn, inc) {
		n++
		seen := map[ssa.Value]bool{}
		var bad ssa.Instruction
		var rec func(v ssa.Value, d int)
		rec = func(v ssa.Value, d int) {
			if v == nil || seen[v] || d > 14 || bad != nil {
				return
			}
			seen[v] = true
			if fa, ok := v.(*ssa.FieldAddr); ok {
				if _, f := an.FieldOfAddr(fa); f == from {
					bad = fa
					return
				}
			}
			if cl, ok := v.(*ssa.Call); ok {
				if h := cl.Call.StaticCallee(); h != nil && h.Blocks != nil && strings.HasPrefix(fnPkgPath(h), an.ModPath) {
					an.Instrs(h, func(x ssa.Instruction) {
						if ret, ok := x.(*ssa.Return); ok {
							for _, r := range ret.Results {
								rec(r, d+1)
							}
						}
					})
				}
			}
			if in, ok := v.(ssa.Instruction); ok {
				for _, op := range in.Operands(nil) {
					if op != nil && *op != nil {
						rec(*op, d+1)
					}
				}
			}
		}
		rec(st.Val, 0)
		pos := st.Pos()
		if bad != nil {
			pos = bad.Pos()
		}
		c.Check("I7", "recorded-include-is-the-declaring-file@BuildDataForAst", pos, bad == nil,
			"the include recorded in the invocation data is derived from SourceFile.IncludedFrom: a file further up the include chain does not declare the callable itself, and converting the data back to a call (which parses only that file) fails with `not a declared pipeline or stage`")
	}
	c.Floor("I7", "stores of InvocationData.Include in BuildDataForAst", n, 1)
}

func fnPkgPath(f *ssa.Function) string {
	if f.Pkg != nil {
		return f.Pkg.Pkg.Path()
	}
	if o := f.Origin(); o != nil && o.Pkg != nil {
		return o.Pkg.Pkg.Path()
	}
	return ""
}

// ---------------------------------------------------------------------------
// Round 7
// ---------------------------------------------------------------------------

// P7 (C08): the work done per syntax node does not grow with the rest of the input.  After parsing,
// compileComments hands the comments that are still unattached to attachComments once per AST
// node.  Sizing a buffer for "all remaining comments" on every call makes a file of N declarations
// followed by N comment lines cost N*N (750 KB of valid input: 11 s, 1 GB allocated).
// Rule: attachComments (and its private helpers) allocates no slice whose length or capacity is the
// length of its slice parameter.
func ruleP7(c *an.Ctx) {
	p := c.P
	fn := p.Func(pkgSyntax, "attachComments")
	if fn == nil {
		c.Info("P7", "anchor(attachComments)", 0, "not found: not decided")
		return
	}
	n := 0
	// the values that stand for "all comments not attached yet": attachComments' own parameter, and
	// the parameters of helpers that receive it
	remaining := map[ssa.Value]bool{}
	if len(fn.Params) > 0 {
		remaining[fn.Params[0]] = true
	}
	fam := familyOf(p, fn, 1)
	for _, m := range fam {
		an.Instrs(m, func(in ssa.Instruction) {
			cl := an.AsCallAny(in)
			if cl == nil {
				return
			}
			h := cl.Common().StaticCallee()
			if h == nil || h.Blocks == nil {
				return
			}
			for i, a := range cl.Common().Args {
				v := an.Strip(a)
				if sl, ok := v.(*ssa.Slice); ok {
					v = sl.X
				}
				if remaining[v] && i < len(h.Params) {
					remaining[h.Params[i]] = true
				}
			}
		})
	}
	for _, m := range fam {
		an.Instrs(m, func(in ssa.Instruction) {
			ms, ok := in.(*ssa.MakeSlice)
			if !ok {
				return
			}
			n++
			prop := func(v ssa.Value) bool {
				args, isLen := an.IsBuiltinCall(an.Strip(v), "len")
				if !isLen {
					return false
				}
				return remaining[args[0]]
			}
			c.Check("P7", "per-node-buffer-not-sized-for-the-remaining-input@"+an.FnName(m), in.Pos(), !prop(ms.Len) && !prop(ms.Cap),
				"a function that runs once per syntax node allocates a slice sized by the number of comments still unattached: N declarations followed by N comment lines cost N*N time and memory (parsing out of proportion to the input size)")
		})
	}
	if n == 0 {
		c.Pass("P7", "per-node-buffer-not-sized-for-the-remaining-input@attachComments", fn.Pos(), "attachComments allocates no slice up front")
	}
}

// M11 (C05, C13): what is recorded for a symlinked output does not depend on how far an earlier,
// interrupted post-processing run got.  For an output that is a symlink, copyOutSymlink records
// the link's destination and puts a link into outs/.  mrp runs post-processing again after a
// restart; if "outs/<name> already exists" short-cuts to recording outs/<name> itself, the final
// _outs of the resumed run differs from that of an uninterrupted run.
// Rule: copyOutSymlink writes no value that derives from GetOutFilename() into the buffer.
func ruleM11(s *c13) {
	c := s.c
	fn := c.P.Func(pkgCore, "copyOutSymlink")
	if fn == nil {
		c.Info("M11", "anchor(copyOutSymlink)", 0, "not found: not decided")
		return
	}
	fromOut := func(v ssa.Value) bool {
		seen := map[ssa.Value]bool{}
		var rec func(v ssa.Value, d int) bool
		rec = func(v ssa.Value, d int) bool {
			if v == nil || seen[v] || d > 10 {
				return false
			}
			seen[v] = true
			if cl, ok := v.(*ssa.Call); ok {
				if f := cl.Call.StaticCallee(); f != nil && f.Name() == "GetOutFilename" {
					return true
				}
			}
			if sl, ok := v.(*ssa.Slice); ok {
				for _, e := range variadicElems(sl) {
					if rec(e, d+1) {
						return true
					}
				}
			}
			if in, ok := v.(ssa.Instruction); ok {
				for _, op := range in.Operands(nil) {
					if op != nil && *op != nil && rec(*op, d+1) {
						return true
					}
				}
			}
			return false
		}
		return rec(v, 0)
	}
	n := 0
	an.Instrs(fn, func(in ssa.Instruction) {
		bw := s.classify(in)
		if bw == nil {
			return
		}
		n++
		c.Check("M11", "symlinked-output-recorded-by-its-destination@copyOutSymlink", in.Pos(), !fromOut(bw.data),
			"copyOutSymlink writes a value built from the output's name under outs/ instead of the symlink's destination: when outs/<name> already exists (post-processing interrupted and resumed) the recorded value differs from that of an uninterrupted run")
	})
	c.Floor("M11", "buffer writes in copyOutSymlink", n, 2)
}

// M12 (C13): the element of a multi-dimensional array keeps the remaining dimensions.  The type
// table represents txt[][] as one ArrayType{Elem: txt, Dim: 2}; a function that walks the value
// one array level at a time must type the elements as "Elem with Dim-1 dimensions".  Taking
// ArrayType.Elem for the element type handed each inner array to the file mover ("cannot unmarshal
// array into string"): outs/ stayed empty.
// Rule: every post-processing function that reads ArrayType.Elem also reads ArrayType.Dim.
func ruleM12(s *c13) {
	c := s.c
	p := c.P
	elem := p.Field(pkgSyntax, "ArrayType", "Elem")
	dim := p.Field(pkgSyntax, "ArrayType", "Dim")
	if elem == nil || dim == nil {
		return
	}
	n := 0
	var fns []*ssa.Function
	for _, f := range p.FuncsOf(pkgCore) {
		if f.Parent() == nil && strings.Contains(p.Pos(f.Pos()), "post_process.go") {
			fns = append(fns, f)
		}
	}
	for _, fn := range fns {
		readsElem, readsDim := false, false
		var pos token.Pos
		for _, g := range an.WithAnon(fn) {
			an.Instrs(g, func(in ssa.Instruction) {
				if fa, ok := in.(*ssa.FieldAddr); ok {
					if _, f := an.FieldOfAddr(fa); f == elem {
						readsElem = true
						if pos == token.NoPos {
							pos = in.Pos()
						}
					} else if f == dim {
						readsDim = true
					}
				}
			})
		}
		if !readsElem {
			continue
		}
		n++
		c.Check("M12", "array-element-type-keeps-remaining-dimensions@"+an.FnName(fn), pos, readsDim,
			"the function types the elements of an array value by ArrayType.Elem without looking at ArrayType.Dim: for txt[][] every inner array is treated as a single file, nothing is moved to outs/ and _outs stays unchanged")
	}
	c.Floor("M12", "post-processing functions that read ArrayType.Elem", n, 1)
}

// S11 (C15): the source compared at re-attach has had the same treatment as the source recorded at
// start.  InvokePipeline expands environment variables in the invocation before writing
// _invocation; re-attach with the invocation file compares the supplied source with that record
// byte for byte.  Without the same expansion on the supplied side an unchanged invocation that
// mentions $VAR can never be re-attached (also not by mrp's own auto-retry).
// Rule: if the function that writes the invocation file applies os.ExpandEnv, reattachToPipestance
// (or a private helper) applies it too.
func ruleS11(c *an.Ctx) {
	p := c.P
	inv := p.Func(pkgCore, "(*Runtime).InvokePipeline")
	re := p.Func(pkgCore, "(*Runtime).reattachToPipestance")
	if inv == nil || re == nil {
		c.Info("S11", "anchor(InvokePipeline/reattachToPipestance)", 0, "not found: not decided")
		return
	}
	expands := func(x ssa.Instruction) bool {
		_, ok := an.IsPkgFuncCall(x, "os", "ExpandEnv")
		return ok
	}
	if !an.MayDo(inv, expands, 2) {
		c.Pass("S11", "recorded-and-compared-source-treated-alike", inv.Pos(), "the invocation is recorded without environment expansion")
		return
	}
	ok := false
	for _, m := range familyOf(p, re, 2) {
		if an.MayDo(m, expands, 0) {
			ok = true
		}
	}
	c.Check("S11", "recorded-and-compared-source-treated-alike@(*Runtime).reattachToPipestance", re.Pos(), ok,
		"InvokePipeline records the invocation after os.ExpandEnv, but the re-attach comparison never expands the supplied source: an unchanged invocation that mentions an environment variable differs from its own record and is refused for ever")
}

// X9 (C03): static fork enumeration never writes through the fork-id part it was handed.
// MakeForkIds builds the cartesian product of the fork roots; the forks of one product share a
// placeholder *ForkSourcePart per root until expandStaticForkPart resolves it for one fork - into
// a COPY.  Writing the resolution (index, range, "empty") into the shared part resolves it for
// every fork that still points to it: with `[[], [1, 2]]` the empty first element disabled the
// forks of the second.
// Rule: in the static expansion functions no store goes through a *ForkSourcePart parameter.
func ruleX9(c *an.Ctx) {
	p := c.P
	root := p.Func(pkgCore, "(ForkId).expandStaticForkPart")
	if root == nil {
		c.Info("X9", "anchor((ForkId).expandStaticForkPart)", 0, "not found: not decided")
		return
	}
	n := 0
	for _, m := range familyOf(p, root, 2) {
		for _, prm := range m.Params {
			pt, ok := prm.Type().(*types.Pointer)
			if !ok {
				continue
			}
			nm, ok := pt.Elem().(*types.Named)
			if !ok || nm.Obj().Name() != "ForkSourcePart" {
				continue
			}
			n++
			var bad ssa.Instruction
			an.Instrs(m, func(in ssa.Instruction) {
				st, ok := in.(*ssa.Store)
				if !ok || bad != nil {
					return
				}
				if base, _ := an.FieldOfAddr(st.Addr); base == ssa.Value(prm) {
					bad = in
				}
			})
			pos := m.Pos()
			if bad != nil {
				pos = bad.Pos()
			}
			c.Check("X9", "shared-static-part-resolved-in-a-copy("+prm.Name()+")@"+an.FnName(m), pos, bad == nil,
				"the static fork enumeration writes the resolution of a fork-id part into the part it was handed instead of a copy: that part is shared by every fork of the cartesian product that has not been expanded yet, so an empty inner collection at an earlier index marks the forks of a later, non-empty one as empty and their jobs never run")
		}
	}
	c.Floor("X9", "fork-id part parameters in the static expansion", n, 1)
}

// R3c / J8 (C05, C11): attempts are numbered by an ORDER, not by inequality with the last one.  The
// uniquifier of a reset attempt separates its directory and journal name from every earlier
// attempt's.  Within one second the clock does not help; a generator that only makes sure the new
// value differs from the previous one produces T, T+1, T for three attempts and hands the third
// attempt the first attempt's name.
// Rule: makeUniquifier compares (<, <=, >, >=) a value derived from the previous uniquifier with
// one derived from the clock.
func ruleUniqOrder(c *an.Ctx, rule string) {
	p := c.P
	fn := p.Func(pkgCore, "makeUniquifier")
	if fn == nil || len(fn.Params) == 0 {
		c.Info(rule, "anchor(makeUniquifier)", 0, "not found or without a previous-value parameter: not decided")
		return
	}
	prev := fn.Params[0]
	// values derived from prev: through Sscanf destinations (allocs passed to a call that also takes prev)
	fromPrev := map[ssa.Value]bool{prev: true}
	an.Instrs(fn, func(in ssa.Instruction) {
		cl := an.AsCallAny(in)
		if cl == nil {
			return
		}
		uses := false
		var all []ssa.Value
		for _, a := range cl.Common().Args {
			all = append(all, a)
			if sl, ok := a.(*ssa.Slice); ok {
				all = append(all, variadicElems(sl)...)
			}
		}
		for _, a := range all {
			if an.Strip(a) == ssa.Value(prev) {
				uses = true
			}
		}
		if !uses {
			return
		}
		for _, a := range all {
			if al, ok := an.Strip(a).(*ssa.Alloc); ok {
				fromPrev[al] = true
			}
		}
		if v, ok := in.(ssa.Value); ok {
			fromPrev[v] = true
		}
	})
	derives := func(v ssa.Value) bool {
		seen := map[ssa.Value]bool{}
		var rec func(v ssa.Value, d int) bool
		rec = func(v ssa.Value, d int) bool {
			if v == nil || seen[v] || d > 8 {
				return false
			}
			seen[v] = true
			if fromPrev[v] {
				return true
			}
			if u, ok := v.(*ssa.UnOp); ok && u.Op == token.MUL && fromPrev[u.X] {
				return true
			}
			if in, ok := v.(ssa.Instruction); ok {
				for _, op := range in.Operands(nil) {
					if op != nil && *op != nil && rec(*op, d+1) {
						return true
					}
				}
			}
			return false
		}
		return rec(v, 0)
	}
	found := false
	an.Instrs(fn, func(in ssa.Instruction) {
		b, ok := in.(*ssa.BinOp)
		if !ok {
			return
		}
		switch b.Op {
		case token.LSS, token.LEQ, token.GTR, token.GEQ:
			if derives(b.X) != derives(b.Y) {
				found = true
			}
		}
	})
	c.Check(rule, "attempts-ordered-not-merely-different@makeUniquifier", fn.Pos(), found,
		"makeUniquifier never compares the previous uniquifier with the clock by order: making the new value merely different from the last one yields T, T+1, T for three attempts within a second, and the third attempt shares its directory and journal name with the first - a late notification of the first attempt is attributed to it")
}

// M13 (C13): an element's rewritten outputs are recorded even when one of them could not be moved.
// For a mapped top-level call every fork's outs are moved to outs/<key>/ and the fork's entry in
// _outs is replaced by the rewritten record; an error for one output is reported, the others have
// been moved all the same.
// Rule: in post_process.go no function (or closure) returns, after a call of processStructOuts, the
// value it passed to that call.
func ruleM13(s *c13) {
	c := s.c
	p := c.P
	pso := p.Func(pkgCore, "(*Fork).processStructOuts")
	if pso == nil {
		c.Info("M13", "anchor((*Fork).processStructOuts)", 0, "not found: not decided")
		return
	}
	n := 0
	for _, fn := range p.FuncsOf(pkgCore) {
		for _, cs := range callsTo(fn, pso) {
			args := cs.Common().Args
			if len(args) == 0 {
				continue
			}
			input := an.Strip(args[len(args)-1])
			n++
			// reachable from the call without starting another iteration of the loop around it
			var hd *ssa.BasicBlock
			loops := naturalLoops(fn)
			for h, body := range loops {
				if body[cs.Block()] && (hd == nil || len(body) < len(loops[hd])) {
					hd = h
				}
			}
			sameIter := func(x ssa.Instruction) bool {
				q := an.Query{Fn: fn, After: cs.(ssa.Instruction), Target: func(y ssa.Instruction) bool { return y == x },
					BarrierEdge: func(from, to *ssa.BasicBlock) bool { return hd != nil && to == hd }}
				return q.Find() != nil
			}
			var bad *ssa.Return
			an.Instrs(fn, func(x ssa.Instruction) {
				ret, ok := x.(*ssa.Return)
				if !ok || bad != nil || len(ret.Results) == 0 {
					return
				}
				if an.Strip(an.RetVal(ret, 0)) == input && sameIter(x) {
					bad = ret
				}
			})
			// ... nor stores it into the collection that becomes the new record
			var badStore ssa.Instruction
			an.Instrs(fn, func(x ssa.Instruction) {
				if badStore != nil {
					return
				}
				var val ssa.Value
				switch y := x.(type) {
				case *ssa.MapUpdate:
					val = y.Value
				case *ssa.Store:
					if _, isIdx := y.Addr.(*ssa.IndexAddr); isIdx {
						val = y.Val
					}
				}
				if val != nil && an.Strip(val) == input && sameIter(x) {
					badStore = x
				}
			})
			pos := cs.Pos()
			if bad != nil {
				pos = bad.Pos()
			} else if badStore != nil {
				pos = badStore.Pos()
			}
			c.Check("M13", "rewritten-element-is-what-is-recorded@"+an.FnName(fn), pos, bad == nil && badStore == nil,
				"after processStructOuts has moved an element's files, the element's ORIGINAL record is handed on (on an error for one of its outputs): the other outputs have been moved to outs/<key>/ and linked back, but _outs keeps pointing at the stage's files/ paths")
		}
	}
	c.Floor("M13", "calls of processStructOuts", n, 2)
}

// I8 (C16): a path is "inside" an MROPATH directory only up to a separator.  IncludeFilePath turns
// the defining file of a callable into the name written after @include in a recorded invocation by
// stripping the MROPATH entry that contains it.  `strings.HasPrefix(dir, p)` alone also holds for a
// sibling directory whose name merely starts with p (/x/mro vs /x/mro_ext): the recorded include
// is then "_ext/stages/defs.mro" and the per-fork invocation no longer compiles.
// Rule: every return of IncludeFilePath that hands back a tail of the path cut at len(prefix) is
// dominated by an edge that compares a byte of a path with '/'.
func ruleI8(c *an.Ctx) {
	p := c.P
	fn := p.Func(pkgSyntax, "IncludeFilePath")
	if fn == nil {
		c.Info("I8", "anchor(IncludeFilePath)", 0, "not found: not decided")
		return
	}
	isTail := func(v ssa.Value) bool {
		// a string sliced from a computed offset, here or as the result of a helper of the package
		seen := map[ssa.Value]bool{}
		var rec func(v ssa.Value, d int) bool
		rec = func(v ssa.Value, d int) bool {
			if v == nil || seen[v] || d > 4 {
				return false
			}
			seen[v] = true
			switch x := v.(type) {
			case *ssa.Slice:
				if x.Low != nil {
					if _, isC := x.Low.(*ssa.Const); !isC {
						return true
					}
				}
				return rec(x.X, d+1)
			case *ssa.Call:
				if h := x.Call.StaticCallee(); h != nil && h.Blocks != nil && h.Pkg == fn.Pkg {
					found := false
					an.Instrs(h, func(in ssa.Instruction) {
						if ret, ok := in.(*ssa.Return); ok && len(ret.Results) > 0 && rec(ret.Results[0], d+1) {
							found = true
						}
					})
					return found
				}
				for _, a := range x.Call.Args {
					if rec(a, d+1) {
						return true
					}
				}
			case *ssa.Phi:
				for _, e := range x.Edges {
					if rec(e, d+1) {
						return true
					}
				}
			}
			return false
		}
		return rec(v, 0)
	}
	sepTest := func(r an.Rel) bool {
		if r.Op != token.EQL {
			return false
		}
		isByte := func(v ssa.Value) bool {
			switch x := an.Strip(v).(type) {
			case *ssa.Lookup, *ssa.Index:
				return true
			case *ssa.UnOp:
				_, ok := x.X.(*ssa.IndexAddr)
				return ok
			}
			return false
		}
		return (isByte(r.X) && an.IsIntConst(r.Y, '/')) || (isByte(r.Y) && an.IsIntConst(r.X, '/'))
	}
	n := 0
	// the cut may be made by a helper of the package that returns (tail, ok): its own returns of a
	// tail are then the sites, guarded inside the helper
	an.Instrs(fn, func(in ssa.Instruction) {
		ret, ok := in.(*ssa.Return)
		if !ok || len(ret.Results) == 0 {
			return
		}
		ex, ok := an.RetVal(ret, 0).(*ssa.Extract)
		if !ok {
			return
		}
		cl, ok := ex.Tuple.(*ssa.Call)
		if !ok {
			return
		}
		h := cl.Call.StaticCallee()
		if h == nil || h.Blocks == nil || h.Pkg != fn.Pkg {
			return
		}
		an.Instrs(h, func(hin ssa.Instruction) {
			hret, ok := hin.(*ssa.Return)
			if !ok || ex.Index >= len(hret.Results) || !isTail(hret.Results[ex.Index]) {
				return
			}
			n++
			g, w := an.GuardedBy(hret, sepTest)
			if !g {
				// or the caller established it before calling
				g, _ = an.GuardedBy(cl, sepTest)
			}
			c.Check("I8", "path-prefix-ends-at-a-separator@"+an.FnName(h), hret.Pos(), g,
				"a helper of IncludeFilePath hands back the tail of a path cut at the length of an MROPATH entry without a separator test (in the helper or before its call): /x/mro also 'contains' /x/mro_ext/...; "+c.WitnessString(w))
		})
	})
	an.Instrs(fn, func(in ssa.Instruction) {
		ret, ok := in.(*ssa.Return)
		if !ok || len(ret.Results) == 0 || !isTail(an.RetVal(ret, 0)) {
			return
		}
		n++
		g, w := an.GuardedBy(ret, sepTest)
		c.Check("I8", "path-prefix-ends-at-a-separator@IncludeFilePath", ret.Pos(), g,
			"IncludeFilePath strips an MROPATH entry from the file's path on a string-prefix match without establishing that the match ends at a path separator: /x/mro also 'contains' /x/mro_ext/stages/defs.mro, the recorded @include becomes _ext/stages/defs.mro and the per-fork invocation mrp records no longer compiles; "+c.WitnessString(w))
	})
	c.Floor("I8", "returns of a path tail in IncludeFilePath", n, 2)
}

// H4 (C18): the assembled job script reaches the submit command as it was assembled.  jobScript
// quotes every value and substitutes the template once (H1-H3); inside the double quotes the
// shell takes every byte literally, so any later rewrite of the whole script - normalising line
// endings, trimming, re-encoding - changes values (an argument containing CR LF loses its CR).
// Rule: in the functions that call jobScript, what is written to the `jobscript` file and to the
// submit command's stdin is the result of jobScript, through nothing but conversions and
// strings.NewReader / bytes.NewReader.
func ruleH4(c *an.Ctx) {
	p := c.P
	js := p.Func(pkgCore, "(*RemoteJobManager).jobScript")
	if js == nil {
		c.Info("H4", "anchor((*RemoteJobManager).jobScript)", 0, "not found: not decided")
		return
	}
	n := 0
	// work list: a function and the values in it that ARE the assembled script (results of jobScript,
	// or the parameter of a helper that was handed the script unchanged)
	type item struct {
		fn   *ssa.Function
		srcs map[ssa.Value]bool
	}
	var work []item
	for _, fn := range p.FuncsOf(pkgCore) {
		calls := callsTo(fn, js)
		if len(calls) == 0 {
			continue
		}
		srcs := map[ssa.Value]bool{}
		for _, cs := range calls {
			srcs[cs.Value()] = true
		}
		work = append(work, item{fn, srcs})
	}
	seenFn := map[*ssa.Function]bool{}
	for len(work) > 0 {
		it := work[0]
		work = work[1:]
		if seenFn[it.fn] {
			continue
		}
		seenFn[it.fn] = true
		fn := it.fn
		derivedFrom := func(v ssa.Value) bool {
			seen := map[ssa.Value]bool{}
			found := false
			var rec func(v ssa.Value, d int)
			rec = func(v ssa.Value, d int) {
				if v == nil || seen[v] || d > 8 || found {
					return
				}
				seen[v] = true
				if it.srcs[v] {
					found = true
					return
				}
				if in2, ok := v.(ssa.Instruction); ok {
					for _, op := range in2.Operands(nil) {
						if op != nil && *op != nil {
							rec(*op, d+1)
						}
					}
				}
			}
			rec(v, 0)
			return found
		}
		an.Instrs(fn, func(in ssa.Instruction) {
			cl := an.AsCallAny(in)
			if cl == nil || cl.Common().StaticCallee() == nil {
				return
			}
			f := cl.Common().StaticCallee()
			var arg ssa.Value
			what := ""
			switch {
			case (f.Name() == "WriteRaw" || f.Name() == "WriteRawBytes") && len(cl.Common().Args) >= 3 && an.IsStringConst(cl.Common().Args[1], "jobscript"):
				arg, what = cl.Common().Args[2], "the recorded jobscript"
			case f.Name() == "NewReader" && f.Pkg != nil && (f.Pkg.Pkg.Path() == "strings" || f.Pkg.Pkg.Path() == "bytes") && len(cl.Common().Args) == 1:
				arg, what = cl.Common().Args[0], "the submit command's input"
			default:
				// the script handed on, unchanged, to a helper of the package
				if f.Blocks != nil && f.Pkg == fn.Pkg && f != js {
					hs := map[ssa.Value]bool{}
					for i, a := range cl.Common().Args {
						if it.srcs[an.Strip(a)] && i < len(f.Params) {
							hs[f.Params[i]] = true
						}
					}
					if len(hs) > 0 {
						work = append(work, item{f, hs})
					}
				}
				return
			}
			v := an.Strip(arg)
			direct := it.srcs[v]
			if !direct && !derivedFrom(v) {
				return
			}
			n++
			c.Check("H4", "assembled-script-submitted-unchanged("+what+")@"+an.FnName(fn), in.Pos(), direct,
				what+" is derived from the assembled job script through further string operations ("+an.Path(v)+"): every byte between the double quotes is literal to the shell, so rewriting the whole script (line endings, trimming) changes argument, environment or path values")
		})
	}
	c.Floor("H4", "uses of the assembled job script", n, 2)
}

// N10 (C17): projecting through an array keeps the remaining dimensions.  At a stage boundary
// LazyArgumentMap.Path / resolvePath walk a value and its type together; for an array value the
// elements have the array's type with one dimension less (lookup.GetArray(t, -1)), which for
// T[][] is T[], not T.  Typing the elements by ArrayType.Elem treats the inner arrays as structs
// ("cannot unmarshal array into LazyArgumentMap") for a binding the compiler accepted.
// Rule: in the family of LazyArgumentMap.Path a function that reads ArrayType.Elem also reads
// ArrayType.Dim.
func ruleN10(c *an.Ctx) {
	p := c.P
	elem := p.Field(pkgSyntax, "ArrayType", "Elem")
	dim := p.Field(pkgSyntax, "ArrayType", "Dim")
	root := p.Func(pkgCore, "(LazyArgumentMap).Path")
	rp := p.Func(pkgCore, "resolvePath")
	if elem == nil || dim == nil || root == nil {
		c.Info("N10", "anchor((LazyArgumentMap).Path)", 0, "not found: not decided")
		return
	}
	fns := familyOf(p, root, 2)
	if rp != nil {
		fns = append(fns, familyOf(p, rp, 2)...)
	}
	seen := map[*ssa.Function]bool{}
	n := 0
	for _, fn := range fns {
		if seen[fn] {
			continue
		}
		seen[fn] = true
		n++
		readsElem, readsDim := false, false
		var pos token.Pos
		for _, g := range an.WithAnon(fn) {
			an.Instrs(g, func(in ssa.Instruction) {
				if fa, ok := in.(*ssa.FieldAddr); ok {
					if _, f := an.FieldOfAddr(fa); f == elem {
						readsElem = true
						if pos == token.NoPos {
							pos = in.Pos()
						}
					} else if f == dim {
						readsDim = true
					}
				}
			})
		}
		if !readsElem {
			continue
		}
		c.Check("N10", "array-projection-keeps-remaining-dimensions@"+an.FnName(fn), pos, readsDim,
			"the function types the elements of an array value by ArrayType.Elem without looking at ArrayType.Dim: for T[][] the inner arrays are resolved as if they were T, and a projection through a multi-dimensional array that the compiler accepted fails when the consumer's arguments are resolved")
	}
	if n > 0 {
		c.Pass("N10", "array-projection-family-examined", root.Pos(), "functions of the projection family examined")
	}
}

// G12 (C19): top-call pipelines leave the set of trim candidates only after every top call's
// children were added.  RemoveUnusedOutputs first adds the pipelines called (transitively) by the
// top calls to the candidates and then takes the top calls themselves out again - a top call may
// be another top call's child.  Doing both in one pass lets a later top call put an earlier one
// back, and the earlier one loses the outputs its caller does not bind.
// Rule: the removal of a top call from the candidate map is not in the same innermost loop as the
// call that adds children.
func ruleG12(c *an.Ctx) {
	p := c.P
	fn := p.Func(pkgRefac, "RemoveUnusedOutputs")
	pop := p.Func(pkgRefac, "populateChildPipelineOuts")
	if fn == nil || pop == nil {
		c.Info("G12", "anchor(RemoveUnusedOutputs/populateChildPipelineOuts)", 0, "not found: not decided")
		return
	}
	n := 0
	for _, m := range familyOf(p, fn, 1) {
		loops := naturalLoops(m)
		inner := func(b *ssa.BasicBlock) *ssa.BasicBlock {
			var hd *ssa.BasicBlock
			for h, body := range loops {
				if body[b] && (hd == nil || len(body) < len(loops[hd])) {
					hd = h
				}
			}
			return hd
		}
		var popLoops []*ssa.BasicBlock
		for _, cs := range callsTo(m, pop) {
			popLoops = append(popLoops, inner(cs.Block()))
		}
		if len(popLoops) == 0 {
			continue
		}
		an.Instrs(m, func(in ssa.Instruction) {
			v, ok := in.(ssa.Value)
			if !ok {
				return
			}
			if _, isDel := an.IsBuiltinCall(v, "delete"); !isDel {
				return
			}
			n++
			same := false
			for _, h := range popLoops {
				if h != nil && h == inner(in.Block()) {
					same = true
				}
			}
			c.Check("G12", "top-calls-removed-after-all-children-were-added@"+an.FnName(m), in.Pos(), !same,
				"a top-call pipeline is taken out of the trim candidates in the same pass that adds the children of the top calls: a top call that is also called by a later top call is put back and loses the outputs its caller does not bind - the call graph of a pipeline listed in --top-calls changes")
		})
	}
	c.Floor("G12", "removals from the trim candidates next to the population of children", n, 1)
}

// P8 (C08): the error that parsing hands back contains no empty slots.  Include processing appends
// nil for every include that parsed; ErrorList.If is what flattens the list and drops the nils,
// and the renderers (Error, writeTo) dereference every element.
// Rule: ErrorList.If never returns, as a list, a slice derived from its receiver - only lists it
// built from the non-nil elements (or the result of a nested If).
func ruleP8(c *an.Ctx) {
	p := c.P
	fn := p.Func(pkgSyntax, "(ErrorList).If")
	if fn == nil || len(fn.Params) == 0 {
		c.Info("P8", "anchor((ErrorList).If)", 0, "not found: not decided")
		return
	}
	recv := fn.Params[0]
	fromRecv := func(v ssa.Value) bool {
		seen := map[ssa.Value]bool{}
		var rec func(v ssa.Value, d int) bool
		rec = func(v ssa.Value, d int) bool {
			if v == nil || seen[v] || d > 8 {
				return false
			}
			seen[v] = true
			switch x := v.(type) {
			case *ssa.Parameter:
				return x == recv
			case *ssa.Phi:
				for _, e := range x.Edges {
					if rec(e, d+1) {
						return true
					}
				}
			case *ssa.Slice:
				return rec(x.X, d+1)
			case *ssa.ChangeType:
				return rec(x.X, d+1)
			}
			return false
		}
		return rec(v, 0)
	}
	n := 0
	an.Instrs(fn, func(in ssa.Instruction) {
		ret, ok := in.(*ssa.Return)
		if !ok || len(ret.Results) == 0 {
			return
		}
		mi, ok := ret.Results[0].(*ssa.MakeInterface)
		if !ok {
			return
		}
		if _, isSlice := mi.X.Type().Underlying().(*types.Slice); !isSlice {
			return
		}
		n++
		c.Check("P8", "returned-error-list-is-freshly-filtered@(ErrorList).If", ret.Pos(), !fromRecv(mi.X),
			"ErrorList.If hands back (a sub-slice of) the list it was called on: only the leading and trailing nil entries were trimmed, so a list like [err, nil, err] - a good include between two failing ones - is returned with the nil in it and rendering the error dereferences it (mro check dies with SIGSEGV instead of printing located errors)")
	})
	c.Floor("P8", "returns of a list from ErrorList.If", n, 1)
}

// K9 (C12): what the job manager itself uses is not booked against the jobs.  refreshResources
// measures the memory of mrp's process tree and tells the memory semaphore how much is really in
// use, which can shrink the grantable capacity.  If the measurement includes mrp's own process,
// an idle manager "uses" memory that no job reserved: the capacity is capped below the limit on
// every refresh and a job whose clamped request equals the limit waits for ever.
// Rule: every GetProcessTreeMemory call whose result reaches UpdateFreeUsed is made with
// includeParent == false.
func ruleK9(c *an.Ctx) {
	p := c.P
	gm := p.Func(pkgCore, "GetProcessTreeMemory")
	if gm == nil {
		c.Info("K9", "anchor(GetProcessTreeMemory)", 0, "not found: not decided")
		return
	}
	n := 0
	for _, fn := range coreFns(c) {
		an.Instrs(fn, func(in ssa.Instruction) {
			cl := an.AsCallAny(in)
			if cl == nil || cl.Common().StaticCallee() == nil || cl.Common().StaticCallee().Name() != "UpdateFreeUsed" {
				return
			}
			// measurement calls in the backward slice of the arguments (helpers' returns included)
			seen := map[ssa.Value]bool{}
			var calls []*ssa.Call
			var rec func(v ssa.Value, d int)
			rec = func(v ssa.Value, d int) {
				if v == nil || seen[v] || d > 12 {
					return
				}
				seen[v] = true
				if c2, ok := v.(*ssa.Call); ok {
					if h := c2.Call.StaticCallee(); h == gm {
						calls = append(calls, c2)
						return
					} else if h != nil && h.Blocks != nil && h.Pkg == fn.Pkg {
						an.Instrs(h, func(x ssa.Instruction) {
							if ret, ok := x.(*ssa.Return); ok {
								for _, r := range ret.Results {
									rec(r, d+1)
								}
							}
						})
					}
				}
				if al, ok := v.(*ssa.Alloc); ok {
					// a struct result kept in a local: what was stored into it
					for _, r := range an.Referrers(al) {
						if st, isSt := r.(*ssa.Store); isSt && st.Addr == ssa.Value(al) {
							rec(st.Val, d+1)
						}
					}
				}
				if in2, ok := v.(ssa.Instruction); ok {
					for _, op := range in2.Operands(nil) {
						if op != nil && *op != nil {
							rec(*op, d+1)
						}
					}
				}
			}
			for _, a := range cl.Common().Args[1:] {
				rec(a, 0)
			}
			for _, m := range calls {
				n++
				ok := len(m.Call.Args) >= 2
				if ok {
					cv, isC := an.ConstVal(m.Call.Args[1])
					ok = isC && cv.Kind() == constant.Bool && !constant.BoolVal(cv)
				}
				c.Check("K9", "own-process-not-booked-against-jobs@"+an.FnName(fn), m.Pos(), ok,
					"the memory measurement that tells the semaphore how much is in use includes the job manager's own process: with nothing running the grantable capacity is capped below the limit on every refresh, and the oldest waiting job - whose clamped request equals the limit - is never granted although it fits")
			}
		})
	}
	c.Floor("K9", "memory measurements feeding UpdateFreeUsed", n, 1)
}

// ---------------------------------------------------------------------------
// Round 8
// ---------------------------------------------------------------------------

// MK (several properties): a memo that lets a loop skip work is keyed by something that determines
// that work.  Four independently written seeds introduced "already checked, skip" sets into a
// checker's walk and keyed them too coarsely: member types by their base name (dimensions dropped),
// callables by the alias of the call that reaches them, pipelines by their bare name across files.
// The first element with a key decides for all later ones.
// Shape: in a loop, `if _, ok := memo[K]; ok { continue }` (a comma-ok lookup whose true edge
// reaches the next iteration without the calls that the false edge makes).  Let E be the loop
// element.  K determines the skipped work if every access path E.p used by the arguments of the
// skipped calls is covered by a path of K (K uses E.p or a prefix of it), or K is computed by a
// call that receives E itself.  memoKeyFindings returns one finding per offending loop.
type memoFinding struct {
	fn      *ssa.Function
	pos     token.Pos
	key     string
	missing string
	covered bool
	// the edge taken when the key is already in the set
	hitFrom, hitTo *ssa.BasicBlock
}

func memoKeyFindings(fns []*ssa.Function, fnLevel bool) []memoFinding {
	var out []memoFinding
	for _, fn := range fns {
		loops := naturalLoops(fn)
		if fnLevel && len(fn.Blocks) > 0 {
			// the function itself as one more region: its parameters are the elements (a recursive
			// walk that remembers what it has visited)
			all := map[*ssa.BasicBlock]bool{}
			for _, b := range fn.Blocks {
				all[b] = true
			}
			if loops == nil {
				loops = map[*ssa.BasicBlock]map[*ssa.BasicBlock]bool{}
			}
			loops[nil] = all
		}
		for hd, body := range loops {
			// the loop element: value of a range over a slice (load of IndexAddr by the counter) or map (Extract of Next)
			var elems []ssa.Value
			if hd == nil {
				for _, p := range fn.Params {
					elems = append(elems, p)
				}
			}
			for b := range body {
				if hd == nil {
					break
				}
				for _, in := range b.Instrs {
					switch x := in.(type) {
					case *ssa.UnOp:
						if ia, ok := x.X.(*ssa.IndexAddr); ok && x.Op == token.MUL {
							if def, ok := ia.Index.(ssa.Instruction); ok && def.Block() == hd {
								elems = append(elems, x)
							}
						}
					case *ssa.Extract:
						if nx, ok := x.Tuple.(*ssa.Next); ok && nx.Block() == hd && x.Index == 2 {
							elems = append(elems, x)
						}
					}
				}
			}
			if len(elems) == 0 {
				continue
			}
			isElem := func(v ssa.Value) bool {
				for _, e := range elems {
					if e == v {
						return true
					}
				}
				return false
			}
			// paths relative to the element used by a value: "" for the element itself, ".Tname", ".Tname.Tname" ...
			var pathsOf func(v ssa.Value, acc map[string]bool, d int, viaCall *bool)
			pathsOf = func(v ssa.Value, acc map[string]bool, d int, viaCall *bool) {
				if v == nil || d > 10 {
					return
				}
				// an access path rooted at the element
				cur := v
				suffix := ""
				for i := 0; i < 8; i++ {
					if isElem(cur) {
						acc[suffix] = true
						return
					}
					switch x := cur.(type) {
					case *ssa.UnOp:
						if x.Op == token.MUL {
							cur = x.X
							continue
						}
					case *ssa.FieldAddr:
						if st := derefStructT(x.X.Type()); st != nil {
							suffix = "." + st.Field(x.Field).Name() + suffix
							cur = x.X
							continue
						}
					case *ssa.Field:
						if st, ok := x.X.Type().Underlying().(*types.Struct); ok {
							suffix = "." + st.Field(x.Field).Name() + suffix
							cur = x.X
							continue
						}
					case *ssa.TypeAssert:
						cur = x.X
						continue
					case *ssa.Extract:
						if ta, ok := x.Tuple.(*ssa.TypeAssert); ok && x.Index == 0 {
							cur = ta.X
							continue
						}
					case *ssa.ChangeInterface:
						cur = x.X
						continue
					case *ssa.MakeInterface:
						cur = x.X
						continue
					case *ssa.Call:
						// an accessor method of the element (c.GetId()) names one of its attributes,
						// like a field does - unlike a function that is handed the element itself
						if x.Call.IsInvoke() && len(x.Call.Args) == 0 {
							suffix = "." + x.Call.Method.Name() + "()" + suffix
							cur = x.Call.Value
							continue
						}
						if h := x.Call.StaticCallee(); h != nil && h.Signature.Recv() != nil && len(x.Call.Args) == 1 {
							suffix = "." + h.Name() + "()" + suffix
							cur = x.Call.Args[0]
							continue
						}
					}
					break
				}
				switch x := v.(type) {
				case *ssa.Call:
					for _, a := range x.Call.Args {
						if isElem(an.Strip(a)) && viaCall != nil {
							*viaCall = true
						}
						pathsOf(a, acc, d+1, viaCall)
					}
					if x.Call.IsInvoke() {
						if isElem(an.Strip(x.Call.Value)) && viaCall != nil {
							*viaCall = true
						}
						pathsOf(x.Call.Value, acc, d+1, viaCall)
					}
				case *ssa.Lookup:
					pathsOf(x.X, acc, d+1, viaCall)
					pathsOf(x.Index, acc, d+1, viaCall)
				case *ssa.BinOp:
					pathsOf(x.X, acc, d+1, viaCall)
					pathsOf(x.Y, acc, d+1, viaCall)
				case *ssa.MakeInterface:
					pathsOf(x.X, acc, d+1, viaCall)
				case *ssa.ChangeType:
					pathsOf(x.X, acc, d+1, viaCall)
				case *ssa.Convert:
					pathsOf(x.X, acc, d+1, viaCall)
				case *ssa.Extract:
					pathsOf(x.Tuple, acc, d+1, viaCall)
				case *ssa.TypeAssert:
					pathsOf(x.X, acc, d+1, viaCall)
				case *ssa.Phi:
					for _, e := range x.Edges {
						pathsOf(e, acc, d+1, viaCall)
					}
				case *ssa.UnOp:
					pathsOf(x.X, acc, d+1, viaCall)
				case *ssa.FieldAddr:
					pathsOf(x.X, acc, d+1, viaCall)
				case *ssa.Field:
					pathsOf(x.X, acc, d+1, viaCall)
				}
			}
			for b := range body {
				if len(b.Instrs) == 0 {
					continue
				}
				iff, ok := b.Instrs[len(b.Instrs)-1].(*ssa.If)
				if !ok {
					continue
				}
				ex, ok := iff.Cond.(*ssa.Extract)
				if !ok || ex.Index != 1 {
					continue
				}
				lk, ok := ex.Tuple.(*ssa.Lookup)
				if !ok || !lk.CommaOk {
					continue
				}
				if _, isMap := lk.X.Type().Underlying().(*types.Map); !isMap {
					continue
				}
				// a set/memo: the map is local to the function or a parameter (not a field of the AST)
				switch mx := an.Strip(lk.X).(type) {
				case *ssa.MakeMap, *ssa.Parameter, *ssa.Phi, *ssa.FreeVar:
				case *ssa.UnOp:
					// a package-level memo
					if _, isG := mx.X.(*ssa.Global); !isG {
						if _, isA := mx.X.(*ssa.Alloc); !isA {
							continue
						}
					}
				default:
					continue
				}
				hit, miss := b.Succs[0], b.Succs[1]
				// the hit edge skips: it reaches the header without any call; the miss edge makes calls
				callsOn := func(start *ssa.BasicBlock) []*ssa.Call {
					var cs []*ssa.Call
					seen := map[*ssa.BasicBlock]bool{}
					var walk func(x *ssa.BasicBlock)
					walk = func(x *ssa.BasicBlock) {
						if seen[x] || x == hd || !body[x] {
							return
						}
						seen[x] = true
						for _, in := range x.Instrs {
							if c, ok := in.(*ssa.Call); ok {
								if _, isB := c.Call.Value.(*ssa.Builtin); !isB {
									cs = append(cs, c)
								}
							}
						}
						for _, s := range x.Succs {
							walk(s)
						}
					}
					walk(start)
					return cs
				}
				if len(callsOn(hit)) != 0 {
					continue
				}
				work := callsOn(miss)
				if len(work) == 0 {
					continue
				}
				// the key must itself come from the element
				keyPaths := map[string]bool{}
				keyViaCall := false
				pathsOf(lk.Index, keyPaths, 0, &keyViaCall)
				if len(keyPaths) == 0 {
					continue
				}
				workPaths := map[string]bool{}
				for _, c := range work {
					// an accessor of the element is not itself work: what is done with its
					// result is, and that carries the accessor in its path
					if c.Call.IsInvoke() && len(c.Call.Args) == 0 {
						continue
					}
					if h := c.Call.StaticCallee(); h != nil && h.Signature.Recv() != nil && len(c.Call.Args) == 1 {
						continue
					}
					for _, a := range c.Call.Args {
						pathsOf(a, workPaths, 0, nil)
					}
					if c.Call.IsInvoke() {
						pathsOf(c.Call.Value, workPaths, 0, nil)
					}
				}
				missing := ""
				for wp := range workPaths {
					ok := keyViaCall && keyPaths[""]
					for kp := range keyPaths {
						if wp == kp || strings.HasPrefix(wp, kp+".") || kp == "" {
							ok = true
						}
					}
					if !ok && (missing == "" || wp < missing) {
						missing = "element" + wp
					}
				}
				var ks []string
				for kp := range keyPaths {
					ks = append(ks, "element"+kp)
				}
				sortStrings(ks)
				out = append(out, memoFinding{fn: fn, pos: lk.Pos(), key: strings.Join(ks, "+"), missing: missing, covered: missing == "", hitFrom: b, hitTo: hit})
			}
		}
	}
	return out
}

func sortStrings(a []string) {
	for i := 1; i < len(a); i++ {
		for j := i; j > 0 && a[j] < a[j-1]; j-- {
			a[j], a[j-1] = a[j-1], a[j]
		}
	}
}

// ruleMemoKey reports the memo findings of a set of packages under the given rule name.
func ruleMemoKey(c *an.Ctx, rule string, pkgs ...string) {
	ruleMemoKeyL(c, rule, false, pkgs...)
}

// ruleMemoKeyL with fnLevel also examines memos of recursive walks (`if r, ok := known[K(param)]; ok
// { return r }`): for packages whose sets span several ASTs, where a bare name identifies nothing.
func ruleMemoKeyL(c *an.Ctx, rule string, fnLevel bool, pkgs ...string) {
	var fns []*ssa.Function
	for _, pk := range pkgs {
		fns = append(fns, c.P.FuncsOf(pk)...)
	}
	fs := memoKeyFindings(fns, fnLevel)
	for _, f := range fs {
		c.Check(rule, "memo-key-determines-the-skipped-work("+f.key+")@"+an.FnName(f.fn), f.pos, f.covered,
			"a loop skips its work for an element whose key ("+f.key+") is already in a set, but the skipped calls depend on "+f.missing+", which the key does not determine: the first element with that key decides for every later one (a member type checked once per base name, a callable once per call alias, a pipeline once per bare name across files)")
	}
	if len(fs) == 0 {
		c.Pass(rule, "no-skip-by-memo-in-loops", 0, "no loop in the examined packages skips work by a comma-ok lookup in a local set")
	}
}

// K10 (C12): whether one job is re-attached never depends on what re-attaching another job
// returned.  Fork.reattachJobs hands the split, the join and every chunk to
// Metadata.reattachJob, which re-registers a job that was running under the previous mrp with the
// job manager (so that its heartbeat is watched and its local reservation is taken again) and
// answers whether the job had only been queued.  The answers are folded into one flag with
// `x.reattachJob(jm) || flag`; written the other way round the `||` short-circuits and, once one
// job was found queued, no later chunk is re-attached: its reservation is never re-acquired and the
// node over-commits, or its failed heartbeat is never noticed.
// Rule: in every function that calls a reattach function, for every branch whose condition derives
// from the boolean result of such a call, a reattach call site reachable from one arm (without
// coming back to the branch) is reachable from the other arm too.
func ruleK10(c *an.Ctx) {
	isReattach := func(in ssa.Instruction) *ssa.Call {
		cl, ok := in.(*ssa.Call)
		if !ok {
			return nil
		}
		if h := cl.Call.StaticCallee(); h != nil && strings.HasPrefix(strings.ToLower(h.Name()), "reattachjob") {
			return cl
		}
		return nil
	}
	n := 0
	for _, fn := range coreFns(c) {
		var sites []*ssa.Call
		an.Instrs(fn, func(in ssa.Instruction) {
			if cl := isReattach(in); cl != nil {
				sites = append(sites, cl)
			}
		})
		if len(sites) == 0 {
			continue
		}
		// values derived from boolean results
		taint := map[ssa.Value]bool{}
		for _, s := range sites {
			if b, ok := s.Type().Underlying().(*types.Basic); ok && b.Kind() == types.Bool {
				taint[s] = true
			}
		}
		for changed := true; changed; {
			changed = false
			an.Instrs(fn, func(in ssa.Instruction) {
				v, ok := in.(ssa.Value)
				if !ok || taint[v] {
					return
				}
				switch x := in.(type) {
				case *ssa.Phi, *ssa.BinOp, *ssa.UnOp:
					_ = x
					for _, op := range in.Operands(nil) {
						if op != nil && *op != nil && taint[*op] {
							taint[v] = true
							changed = true
							return
						}
					}
				}
			})
		}
		reach := func(from, barrier *ssa.BasicBlock) map[*ssa.BasicBlock]bool {
			seen := map[*ssa.BasicBlock]bool{}
			var walk func(b *ssa.BasicBlock)
			walk = func(b *ssa.BasicBlock) {
				if seen[b] || b == barrier {
					return
				}
				seen[b] = true
				for _, s := range b.Succs {
					walk(s)
				}
			}
			walk(from)
			return seen
		}
		bad := token.NoPos
		var badSite *ssa.Call
		for _, b := range fn.Blocks {
			if len(b.Instrs) == 0 {
				continue
			}
			iff, ok := b.Instrs[len(b.Instrs)-1].(*ssa.If)
			if !ok || !taint[iff.Cond] {
				continue
			}
			r0, r1 := reach(b.Succs[0], b), reach(b.Succs[1], b)
			for _, s := range sites {
				if r0[s.Block()] != r1[s.Block()] {
					bad = s.Pos()
					badSite = s
				}
			}
		}
		n++
		msg := "every job of the fork is re-attached whatever the other jobs answered"
		if badSite != nil {
			msg = "this re-attach call is made on one arm only of a branch on the result of an earlier re-attach call (a short-circuited `flag || x.reattachJob(..)`): once one job was found queued locally, the remaining jobs of the fork are not re-attached - no heartbeat watch, no local reservation"
		}
		pos := bad
		if pos == token.NoPos {
			pos = sites[0].Pos()
		}
		c.Check("K10", "reattach-independent-of-other-jobs@"+an.FnName(fn), pos, badSite == nil, msg)
	}
	if n == 0 {
		c.Info("K10", "anchor(reattachJob callers)", 0, "no function of core calls a reattach function: not decided")
	}
}

// T12 (C07): a type's outer dimension is examined first.  A TypeId carries ArrayDim (the outer array
// nesting) and MapDim (non-zero for a typed map; MapDim-1 is the array nesting INSIDE the map), so
// `map<int>[]` has both set and is an array.  Every dispatcher in the tree tests ArrayDim first and
// MapDim in the else arm; one that tests MapDim first treats an array of maps as a map - makeOutArg
// then pre-populates `{}` where the stage and the type checker expect `[]`.
// Rule: no branch on `X.ArrayDim > 0` (or != 0) sits exclusively in the not-a-map arm of a branch on
// `X.MapDim > 0` (or != 0) over the same X; dimDispatch returns the offending pairs.
func dimFieldTest(v ssa.Value) (base ssa.Value, field string, positive bool, ok bool) {
	b, isB := v.(*ssa.BinOp)
	if !isB {
		return nil, "", false, false
	}
	var fv ssa.Value
	var cst ssa.Value
	if _, isC := b.Y.(*ssa.Const); isC {
		fv, cst = b.X, b.Y
	} else if _, isC := b.X.(*ssa.Const); isC {
		fv, cst = b.Y, b.X
	} else {
		return nil, "", false, false
	}
	k, isK := an.ConstVal(cst)
	if !isK || k.ExactString() != "0" {
		return nil, "", false, false
	}
	switch b.Op {
	case token.GTR, token.NEQ:
		positive = true
		if b.Op == token.GTR && fv != b.X {
			return nil, "", false, false
		}
	case token.EQL:
		positive = false
	case token.LSS:
		// 0 < x
		if fv != b.Y {
			return nil, "", false, false
		}
		positive = true
	default:
		return nil, "", false, false
	}
	// the field
	cur := fv
	if u, isU := cur.(*ssa.UnOp); isU && u.Op == token.MUL {
		cur = u.X
	}
	switch x := cur.(type) {
	case *ssa.FieldAddr:
		st := derefStructT(x.X.Type())
		if st == nil {
			return nil, "", false, false
		}
		return x.X, st.Field(x.Field).Name(), positive, true
	case *ssa.Field:
		st, isS := x.X.Type().Underlying().(*types.Struct)
		if !isS {
			return nil, "", false, false
		}
		return x.X, st.Field(x.Field).Name(), positive, true
	}
	return nil, "", false, false
}

func ruleT12(c *an.Ctx, rule string) {
	var fns []*ssa.Function
	for _, pk := range []string{"martian/syntax", pkgCore, "martian/syntax/ast_builder", "cmd/mro2go"} {
		fns = append(fns, c.P.FuncsOf(pk)...)
	}
	n := 0
	for _, fn := range fns {
		type test struct {
			blk      *ssa.BasicBlock
			base     ssa.Value
			field    string
			positive bool
		}
		var tests []test
		for _, b := range fn.Blocks {
			if len(b.Instrs) == 0 {
				continue
			}
			iff, ok := b.Instrs[len(b.Instrs)-1].(*ssa.If)
			if !ok {
				continue
			}
			base, field, pos, ok := dimFieldTest(iff.Cond)
			if !ok || (field != "ArrayDim" && field != "MapDim") {
				continue
			}
			if named, isN := derefNamed(base.Type()); !isN || named != "TypeId" {
				continue
			}
			tests = append(tests, test{b, base, field, pos})
		}
		sameBase := func(a, b ssa.Value) bool {
			if a == b {
				return true
			}
			// two loads / field addresses of the same path
			return accessKey(a) == accessKey(b)
		}
		reach := func(from, barrier *ssa.BasicBlock) map[*ssa.BasicBlock]bool {
			seen := map[*ssa.BasicBlock]bool{}
			var walk func(b *ssa.BasicBlock)
			walk = func(b *ssa.BasicBlock) {
				if seen[b] || b == barrier {
					return
				}
				seen[b] = true
				for _, s := range b.Succs {
					walk(s)
				}
			}
			walk(from)
			return seen
		}
		for _, m := range tests {
			if m.field != "MapDim" {
				continue
			}
			isMap, notMap := m.blk.Succs[0], m.blk.Succs[1]
			if !m.positive {
				isMap, notMap = notMap, isMap
			}
			rm, rn := reach(isMap, m.blk), reach(notMap, m.blk)
			for _, a := range tests {
				if a.field != "ArrayDim" || !sameBase(a.base, m.base) {
					continue
				}
				n++
				bad := rn[a.blk] && !rm[a.blk]
				c.Check(rule, "outer-dimension-first@"+an.FnName(fn), a.blk.Instrs[len(a.blk.Instrs)-1].(*ssa.If).Cond.Pos(), !bad,
					"this ArrayDim test is reached only when the MapDim test of the same type has already said \"not a map\": the dispatcher looks at the inner dimension first, so an array of typed maps (both dimensions set) is treated as a map")
			}
		}
	}
	if n == 0 {
		c.Info(rule, "anchor(functions testing both dimensions)", 0, "no function tests both ArrayDim and MapDim of one TypeId: not decided")
	}
}

func derefNamed(t types.Type) (string, bool) {
	if p, ok := t.Underlying().(*types.Pointer); ok {
		t = p.Elem()
	}
	if n, ok := t.(*types.Named); ok {
		return n.Obj().Name(), true
	}
	return "", false
}

// accessKey names a value by its root and the field path to it, so that two loads of the same
// place compare equal.
func accessKey(v ssa.Value) string {
	suffix := ""
	for i := 0; i < 16; i++ {
		switch x := v.(type) {
		case *ssa.UnOp:
			if x.Op == token.MUL {
				v = x.X
				continue
			}
		case *ssa.FieldAddr:
			if st := derefStructT(x.X.Type()); st != nil {
				suffix = "." + st.Field(x.Field).Name() + suffix
				v = x.X
				continue
			}
		case *ssa.Field:
			if st, ok := x.X.Type().Underlying().(*types.Struct); ok {
				suffix = "." + st.Field(x.Field).Name() + suffix
				v = x.X
				continue
			}
		case *ssa.IndexAddr:
			if k, ok := x.Index.(*ssa.Const); ok && k.Value != nil {
				suffix = "[" + k.Value.ExactString() + "]" + suffix
			} else {
				suffix = fmt.Sprintf("[%p]", x.Index) + suffix
			}
			v = x.X
			continue
		case *ssa.TypeAssert:
			suffix = ".(" + x.AssertedType.String() + ")" + suffix
			v = x.X
			continue
		case *ssa.Extract:
			if ta, ok := x.Tuple.(*ssa.TypeAssert); ok && x.Index == 0 {
				suffix = ".(" + ta.AssertedType.String() + ")" + suffix
				v = ta.X
				continue
			}
		case *ssa.MakeInterface:
			v = x.X
			continue
		case *ssa.ChangeInterface:
			v = x.X
			continue
		case *ssa.Call:
			// an accessor of its receiver (x.getNode()): two calls on the same place name the same place
			if x.Call.IsInvoke() && len(x.Call.Args) == 0 {
				suffix = "." + x.Call.Method.Name() + "()" + suffix
				v = x.Call.Value
				continue
			}
			if h := x.Call.StaticCallee(); h != nil && h.Signature.Recv() != nil && len(x.Call.Args) == 1 {
				suffix = "." + h.Name() + "()" + suffix
				v = x.Call.Args[0]
				continue
			}
		}
		break
	}
	return fmt.Sprintf("%p%s", v, suffix)
}

// P9 (C08): a padding count handed to strings.Repeat / bytes.Repeat is never negative.  Repeat
// panics on a negative count; the formatter runs on every parse (ParseSourceBytes formats the
// combined source) outside the parser's recover, so a negative pad on a VALID program kills mro
// check, mro format and mrp.  The column widths of a declaration are maxima over its parameters,
// but the id and help columns deliberately leave long entries out (`if len(id) < 35`), so
// `idWidth-len(id)` is negative for exactly those; the type column includes every parameter.
// Rule: the count of every Repeat call in the syntax and core packages is (a) a non-negative
// constant, (b) clamped (`max(0, ..)`, `int(math.Max(0, ..))`), (c) a sum/product of such values
// and lengths, or (d) a difference W - L where every origin of W - followed through parameters to
// all callers, through results into callees, through phis - is a running maximum `max(acc, x)`
// that is executed on every iteration of its loop (not under a condition), or zero.
func ruleP9(c *an.Ctx) {
	p := c.P
	n := 0
	var fns []*ssa.Function
	fns = append(fns, p.FuncsOf("martian/syntax")...)
	fns = append(fns, coreFns(c)...)
	inScope := map[*ssa.Function]bool{}
	for _, f := range fns {
		inScope[f] = true
	}
	// unconditional: the block of v dominates every latch of the innermost loop containing it
	unconditional := func(in ssa.Instruction) bool {
		fn := in.Parent()
		b := in.Block()
		var bestHd *ssa.BasicBlock
		var bestBody map[*ssa.BasicBlock]bool
		for hd, body := range naturalLoops(fn) {
			if body[b] && (bestBody == nil || len(body) < len(bestBody)) {
				bestHd, bestBody = hd, body
			}
		}
		if bestHd == nil {
			return false
		}
		for _, pred := range bestHd.Preds {
			if bestBody[pred] && !b.Dominates(pred) {
				return false
			}
		}
		return true
	}
	// why a width may be smaller than an element: "" if every origin is an unconditional maximum
	var widthOK func(v ssa.Value, seen map[ssa.Value]bool, d int) string
	widthOK = func(v ssa.Value, seen map[ssa.Value]bool, d int) string {
		if v == nil || seen[v] {
			return ""
		}
		if d > 40 {
			return "origin of the width too deep to follow"
		}
		seen[v] = true
		switch x := v.(type) {
		case *ssa.Const:
			return "" // the initial value of an accumulator
		case *ssa.Phi:
			for _, e := range x.Edges {
				if r := widthOK(e, seen, d+1); r != "" {
					return r
				}
			}
			return ""
		case *ssa.Parameter:
			fn := x.Parent()
			idx := -1
			for i, q := range fn.Params {
				if q == x {
					idx = i
				}
			}
			callers := p.Callers(fn)
			if idx < 0 || len(callers) == 0 {
				return "width parameter " + x.Name() + " of " + an.FnName(fn) + " has no visible callers"
			}
			for _, sites := range callers {
				for _, s := range sites {
					args := s.Common().Args
					k := idx
					if s.Common().IsInvoke() {
						k = idx - 1
					}
					if k < 0 || k >= len(args) {
						return "width argument not found at a call of " + an.FnName(fn)
					}
					if r := widthOK(args[k], seen, d+1); r != "" {
						return r
					}
				}
			}
			return ""
		case *ssa.Extract:
			call, ok := x.Tuple.(*ssa.Call)
			if !ok {
				return "width taken from a tuple that is not a call result"
			}
			var callees []*ssa.Function
			if h := call.Call.StaticCallee(); h != nil {
				callees = append(callees, h)
			} else if nd := p.CG().Nodes[call.Parent()]; nd != nil {
				for _, e := range nd.Out {
					if e.Site == ssa.CallInstruction(call) {
						callees = append(callees, e.Callee.Func)
					}
				}
			}
			if len(callees) == 0 {
				return "callee of the width computation not resolved"
			}
			for _, h := range callees {
				if h.Blocks == nil {
					return "width computed outside the program"
				}
				var res string
				an.Instrs(h, func(in ssa.Instruction) {
					if ret, ok := in.(*ssa.Return); ok && x.Index < len(ret.Results) && res == "" {
						res = widthOK(ret.Results[x.Index], seen, d+1)
					}
				})
				if res != "" {
					return res
				}
			}
			return ""
		case *ssa.Call:
			if isMaxCall(x) {
				if !unconditional(x) {
					return "the running maximum at " + p.Pos(x.Pos()) + " is updated under a condition: elements that fail it may be wider than the column"
				}
				// the accumulator operand carries earlier maxima
				for _, a := range x.Call.Args {
					if _, isPhi := a.(*ssa.Phi); isPhi {
						if r := widthOK(a, seen, d+1); r != "" {
							return r
						}
					} else if ex, isEx := a.(*ssa.Extract); isEx {
						if r := widthOK(ex, seen, d+1); r != "" {
							return r
						}
					}
				}
				return ""
			}
			return fmt.Sprintf("width computed by a call that is not a running maximum (%s in %s; %T)", x.String(), an.FnName(x.Parent()), x.Call.Value)
		}
		return "width of unknown origin (" + v.String() + ")"
	}
	nnSeen := map[ssa.Value]bool{}
	var nonNeg func(v ssa.Value, d int) string
	nonNeg = func(v ssa.Value, d int) string {
		if d > 12 {
			return "count too deep to follow"
		}
		if _, isPhi := v.(*ssa.Phi); isPhi {
			if nnSeen[v] {
				return ""
			}
			nnSeen[v] = true
		}
		switch x := v.(type) {
		case *ssa.Const:
			if x.Value != nil && x.Value.Kind() == constant.Int && constant.Sign(x.Value) >= 0 {
				return ""
			}
			return "negative constant count"
		case *ssa.Convert:
			return nonNeg(x.X, d+1)
		case *ssa.Call:
			if b, ok := x.Call.Value.(*ssa.Builtin); ok {
				switch b.Name() {
				case "len", "cap":
					return ""
				case "max":
					for _, a := range x.Call.Args {
						if nonNeg(a, d+1) == "" {
							return ""
						}
					}
					return "max() without a non-negative operand"
				case "min":
					for _, a := range x.Call.Args {
						if r := nonNeg(a, d+1); r != "" {
							return r
						}
					}
					return ""
				}
			}
			if _, isB := x.Call.Value.(*ssa.Builtin); !isB && isMaxCall(x) {
				for _, a := range x.Call.Args {
					if nonNeg(a, d+1) == "" {
						return ""
					}
				}
				return "max() without a non-negative operand"
			}
			// a helper of the program that computes the width: all of its returns
			if h := x.Call.StaticCallee(); h != nil && h.Blocks != nil && inScope[h] && !isMaxCall(x) {
				res, cnt := "", 0
				an.Instrs(h, func(in ssa.Instruction) {
					if r, isR := in.(*ssa.Return); isR && len(r.Results) == 1 && res == "" {
						cnt++
						res = nonNeg(r.Results[0], d+2)
					}
				})
				if cnt > 0 {
					return res
				}
			}
			if h := x.Call.StaticCallee(); h != nil && h.Pkg != nil && h.Pkg.Pkg.Path() == "math" && h.Name() == "Max" {
				for _, a := range x.Call.Args {
					if k, ok := an.ConstVal(a); ok && constant.Sign(k) >= 0 {
						return ""
					}
				}
				return "math.Max without a non-negative constant operand"
			}
			return "count computed by a call"
		case *ssa.BinOp:
			switch x.Op {
			case token.ADD, token.MUL:
				if r := nonNeg(x.X, d+1); r != "" {
					return r
				}
				return nonNeg(x.Y, d+1)
			case token.SUB:
				// guarded by a comparison of the two operands?
				if g, _ := an.GuardedBy(x, func(r an.Rel) bool {
					return (r.Op == token.GEQ || r.Op == token.GTR) && r.X == x.X && r.Y == x.Y ||
						(r.Op == token.LEQ || r.Op == token.LSS) && r.X == x.Y && r.Y == x.X
				}); g {
					return ""
				}
				// len(a) - k under a guard that a has at least k elements (two len() calls of one place)
				if k, isK := an.ConstVal(x.Y); isK && k.Kind() == constant.Int {
					if args, isLen := an.IsBuiltinCall(x.X, "len"); isLen {
						kv, _ := constant.Int64Val(k)
						place := an.Path(args[0])
						if g, _ := an.GuardedBy(x, func(r an.Rel) bool {
							rr := r
							if _, c1 := an.ConstVal(rr.X); c1 {
								rr = rr.Flip()
							}
							a2, isLen2 := an.IsBuiltinCall(rr.X, "len")
							if !isLen2 || an.Path(a2[0]) != place {
								return false
							}
							c2, ok := an.ConstVal(rr.Y)
							if !ok || c2.Kind() != constant.Int {
								return false
							}
							cv, _ := constant.Int64Val(c2)
							switch rr.Op {
							case token.GEQ:
								return cv >= kv
							case token.GTR:
								return cv >= kv-1
							case token.NEQ:
								return cv == 0 && kv == 1
							}
							return false
						}); g {
							return ""
						}
					}
				}
				return widthOK(x.X, map[ssa.Value]bool{}, 0)
			}
		case *ssa.Phi:
			for _, e := range x.Edges {
				if r := nonNeg(e, d+1); r != "" {
					return r
				}
			}
			return ""
		case *ssa.Parameter:
			// a count handed in: every caller's argument
			fn := x.Parent()
			idx := -1
			for i, q := range fn.Params {
				if q == x {
					idx = i
				}
			}
			callers := p.Callers(fn)
			if idx < 0 || len(callers) == 0 {
				return "count parameter " + x.Name() + " of " + an.FnName(fn) + " has no visible callers"
			}
			for _, sites := range callers {
				for _, s := range sites {
					args := s.Common().Args
					k := idx
					if s.Common().IsInvoke() {
						k = idx - 1
					}
					if k < 0 || k >= len(args) {
						return "count argument not found at a call of " + an.FnName(fn)
					}
					if r := nonNeg(args[k], d+1); r != "" {
						return r
					}
				}
			}
			return ""
		}
		return "count of unknown origin"
	}
	perFn := map[*ssa.Function]int{}
	for _, fn := range fns {
		an.Instrs(fn, func(in ssa.Instruction) {
			cl, ok := in.(*ssa.Call)
			if !ok {
				return
			}
			h := cl.Call.StaticCallee()
			if h == nil || h.Pkg == nil || h.Name() != "Repeat" || (h.Pkg.Pkg.Path() != "strings" && h.Pkg.Pkg.Path() != "bytes") {
				return
			}
			n++
			perFn[fn]++
			key := "repeat-count-non-negative@" + an.FnName(fn)
			if perFn[fn] > 1 {
				key += fmt.Sprintf("#%d", perFn[fn])
			}
			why := nonNeg(cl.Call.Args[1], 0)
			if why != "" {
				// the call itself sits under a test that the count is not negative (if pad := w - l; pad > 0)
				cnt := cl.Call.Args[1]
				if g, _ := an.GuardedBy(cl, func(r an.Rel) bool {
					rr := r
					if _, c1 := an.ConstVal(rr.X); c1 {
						rr = rr.Flip()
					}
					k, ok := an.ConstVal(rr.Y)
					if !ok || k.Kind() != constant.Int || rr.X != cnt {
						return false
					}
					return (rr.Op == token.GTR && constant.Sign(k) >= 0) || (rr.Op == token.GEQ && constant.Sign(k) >= 0) || (rr.Op == token.GTR && k.ExactString() == "-1")
				}); g {
					why = ""
				}
			}
			c.Check("P9", key, cl.Pos(), why == "",
				"the count of this Repeat call can be negative, and Repeat panics on a negative count (the formatter runs on every parse, outside the parser's recover): "+why)
		})
	}
	if n == 0 {
		c.Info("P9", "anchor(Repeat calls)", 0, "no strings.Repeat / bytes.Repeat call in the syntax and core packages")
	}
}

// isMaxCall: the builtin max, or a module function called max that returns one of its parameters.
func isMaxCall(x *ssa.Call) bool {
	if b, ok := x.Call.Value.(*ssa.Builtin); ok {
		return b.Name() == "max"
	}
	h := x.Call.StaticCallee()
	if h == nil || h.Blocks == nil || !strings.EqualFold(h.Name(), "max") {
		return false
	}
	ok := true
	isParam := func(v ssa.Value) bool {
		for _, q := range h.Params {
			if q == v {
				return true
			}
		}
		return false
	}
	an.Instrs(h, func(in ssa.Instruction) {
		if ret, isR := in.(*ssa.Return); isR {
			for _, r := range ret.Results {
				if isParam(r) {
					continue
				}
				if ph, isPhi := r.(*ssa.Phi); isPhi {
					for _, e := range ph.Edges {
						if !isParam(e) {
							ok = false
						}
					}
					continue
				}
				ok = false
			}
		}
	})
	return ok
}

// Q13 (C09): a node's comments are cleared only after they were taken.  Comments reach the formatter
// through AstNode.Comments and AstNode.scopeComments; the tree moves them in two places (an
// include's scope comments to the new first include, a container's comments to its first
// sub-node).  A move is "load the old value and put it somewhere, then store nil"; clearing on a path
// where the old value was not read (the container has no sub-node to receive them) loses the
// comment: `mro format` drops text the user wrote.
// Rule: every store of nil to a Comments / scopeComments field is preceded, on every path from the
// function's entry, by a load of the same field of the same node.
func ruleQ13(c *an.Ctx) {
	n := 0
	for _, fn := range c.P.FuncsOf("martian/syntax") {
		an.Instrs(fn, func(in ssa.Instruction) {
			st, ok := in.(*ssa.Store)
			if !ok {
				return
			}
			fa, ok := st.Addr.(*ssa.FieldAddr)
			if !ok {
				return
			}
			sT := derefStructT(fa.X.Type())
			if sT == nil {
				return
			}
			fname := sT.Field(fa.Field).Name()
			if fname != "Comments" && fname != "scopeComments" {
				return
			}
			if named, _ := derefNamed(fa.X.Type()); named != "AstNode" {
				return
			}
			k, isC := st.Val.(*ssa.Const)
			if !isC || !k.IsNil() {
				return
			}
			n++
			key := accessKey(fa)
			w := an.Query{Fn: fn, Target: func(x ssa.Instruction) bool { return x == ssa.Instruction(st) },
				Barrier: func(x ssa.Instruction) bool {
					u, ok := x.(*ssa.UnOp)
					if !ok || u.Op != token.MUL {
						return false
					}
					f2, ok := u.X.(*ssa.FieldAddr)
					return ok && accessKey(f2) == key
				}}.Find()
			c.Check("Q13", "comments-cleared-only-after-taken("+fname+")@"+an.FnName(fn), st.Pos(), w == nil,
				"this store clears a node's "+fname+" on a path where the old value was never read: the comments are not moved anywhere, the formatter no longer prints them")
		})
	}
	if n == 0 {
		c.Pass("Q13", "no-comment-field-is-cleared", 0, "no function of the syntax package stores nil to AstNode.Comments or AstNode.scopeComments")
	}
}

// J9 (C11): a qualified name is matched as a prefix only up to a component boundary.  Node.find maps
// the name in a journal file to the node it belongs to; names are dotted paths whose components
// the user chooses.  `strings.HasPrefix(name, node's name)` without the separator sends the
// journal entry of ID.P.STEP10 into the subtree of ID.P.STEP1: it is not found there, the entry is
// consumed and the completion is noticed only by the next full scan (or, for a pipeline named like a
// prefix of its sibling, attributed to nobody).
// Rule: wherever the core package tests strings.HasPrefix(s, p) with p derived from a node's
// qualified name, p ends with "." - or the branch that follows also compares s[len(p)] with '.'
// or the lengths.
func ruleJ9(c *an.Ctx) {
	n := 0
	for _, fn := range coreFns(c) {
		an.Instrs(fn, func(in ssa.Instruction) {
			cl, ok := in.(*ssa.Call)
			if !ok {
				return
			}
			f := cl.Call.StaticCallee()
			if f == nil || f.Pkg == nil || f.Pkg.Pkg.Path() != "strings" || f.Name() != "HasPrefix" {
				return
			}
			p := cl.Call.Args[1]
			if !derivesFromNodeName(p, 0) {
				return
			}
			n++
			ok2 := endsWithDot(p, 0)
			if !ok2 {
				// a boundary test in the same function: s[len(p)] == '.'
				an.Instrs(fn, func(x ssa.Instruction) {
					b, isB := x.(*ssa.BinOp)
					if !isB || (b.Op != token.EQL && b.Op != token.NEQ) {
						return
					}
					for _, pair := range [][2]ssa.Value{{b.X, b.Y}, {b.Y, b.X}} {
						k, isK := an.ConstVal(pair[1])
						if !isK || k.Kind() != constant.Int {
							continue
						}
						if v, exact := constant.Int64Val(k); !exact || v != '.' {
							continue
						}
						if ix, isIx := pair[0].(*ssa.Index); isIx && accessKey(ix.X) == accessKey(cl.Call.Args[0]) {
							ok2 = true
						}
					}
				})
			}
			c.Check("J9", "name-prefix-at-component-boundary@"+an.FnName(fn), cl.Pos(), ok2,
				"a name is matched against a node's qualified name as a bare string prefix: STEP1 is a prefix of STEP10, so the journal entry (or lookup) for one call is routed to its sibling; terminate the prefix with '.' or test the byte after it")
		})
	}
	if n == 0 {
		c.Pass("J9", "no-prefix-match-on-qualified-names", 0, "no strings.HasPrefix in the core package takes a prefix derived from a node's qualified name")
	}
}

// H5 (C18): shellSafeQuote hands a value back unquoted only if it consists of characters the shell
// never interprets.  Every path through the function returns what appendShellSafeQuote built; a
// fast path that returns the argument itself is acceptable only under a guard whose accepted
// language can be read off the code: a MatchString on a package-level regexp compiled from a
// constant of the form ^[class]+$ (or *), whose class - computed here with regexp/syntax from the
// constant - contains nothing but [A-Za-z0-9_@%+=:,./-].  (Round 8: a fast path with the class
// [\w@%+-=:,./], where `+-=` is the range '+'..'=' and lets ; and < through unquoted.)
func ruleH5(c *an.Ctx) {
	p := c.P
	quote := p.Func(pkgCore, "appendShellSafeQuote")
	ssq := p.Func(pkgCore, "shellSafeQuote")
	if quote == nil || ssq == nil {
		c.Info("H5", "anchor(shellSafeQuote)", 0, "not found: not decided")
		return
	}
	throughQuote := func(v ssa.Value) bool {
		seen := map[ssa.Value]bool{}
		var rec func(v ssa.Value, d int) bool
		rec = func(v ssa.Value, d int) bool {
			if v == nil || seen[v] || d > 10 {
				return false
			}
			seen[v] = true
			switch x := v.(type) {
			case *ssa.Call:
				if x.Call.StaticCallee() == quote {
					return true
				}
				return false
			case *ssa.Convert:
				return rec(x.X, d+1)
			case *ssa.ChangeType:
				return rec(x.X, d+1)
			case *ssa.Slice:
				return rec(x.X, d+1)
			case *ssa.Phi:
				for _, e := range x.Edges {
					if !rec(e, d+1) {
						return false
					}
				}
				return len(x.Edges) > 0
			}
			return false
		}
		return rec(v, 0)
	}
	safe := func(r rune) bool {
		return r >= 'a' && r <= 'z' || r >= 'A' && r <= 'Z' || r >= '0' && r <= '9' || strings.ContainsRune("_@%+=:,./-", r)
	}
	// the pattern a regexp global is compiled from
	patternOf := func(g *ssa.Global) (string, bool) {
		var pat string
		found := false
		for _, m := range g.Pkg.Members {
			fn, ok := m.(*ssa.Function)
			if !ok || fn.Name() != "init" {
				continue
			}
			an.Instrs(fn, func(in ssa.Instruction) {
				st, ok := in.(*ssa.Store)
				if !ok || st.Addr != ssa.Value(g) {
					return
				}
				cl, ok := st.Val.(*ssa.Call)
				if !ok || cl.Call.StaticCallee() == nil || cl.Call.StaticCallee().Name() != "MustCompile" {
					return
				}
				if k, isK := an.ConstVal(cl.Call.Args[0]); isK && k.Kind() == constant.String {
					pat, found = constant.StringVal(k), true
				}
			})
		}
		return pat, found
	}
	n := 0
	an.Instrs(ssq, func(in ssa.Instruction) {
		ret, ok := in.(*ssa.Return)
		if !ok || len(ret.Results) == 0 {
			return
		}
		n++
		key := fmt.Sprintf("returns-a-quoted-value@shellSafeQuote#%d", n)
		if throughQuote(ret.Results[0]) {
			c.Pass("H5", key, ret.Pos(), "the returned string is built by appendShellSafeQuote")
			return
		}
		// an unquoted return: which guard?
		why := "the value is returned without passing through appendShellSafeQuote and no recognisable guard restricts it"
		var guardPat string
		g, _ := an.GuardedBy(ret, func(r an.Rel) bool {
			if r.Op != token.ILLEGAL || !r.Truth {
				return false
			}
			cl, ok := r.X.(*ssa.Call)
			if !ok || cl.Call.StaticCallee() == nil || cl.Call.StaticCallee().Name() != "MatchString" {
				return false
			}
			ld, ok := cl.Call.Args[0].(*ssa.UnOp)
			if !ok {
				return false
			}
			gl, ok := ld.X.(*ssa.Global)
			if !ok {
				return false
			}
			if cl.Call.Args[1] != ret.Results[0] {
				return false
			}
			pat, ok := patternOf(gl)
			if !ok {
				return false
			}
			guardPat = pat
			return true
		})
		okRet := false
		if g {
			bad, err := unsafeRunesOfWordPattern(guardPat, safe)
			switch {
			case err != "":
				why = "the unquoted return is guarded by the pattern " + guardPat + ", " + err
			case bad != "":
				why = "the unquoted return is guarded by the pattern " + guardPat + ", which also accepts " + bad + ": these reach the job script unquoted and are interpreted by the shell"
			default:
				okRet = true
				why = "unquoted only for words matching " + guardPat + ", all of whose characters are inert in sh"
			}
		}
		c.Check("H5", key, ret.Pos(), okRet, why)
	})
	if n == 0 {
		c.Info("H5", "anchor(returns of shellSafeQuote)", 0, "no return found: not decided")
	}
}

// F14 (C06): the first observation that a job is not running stands until it is consumed.
// failNotRunning records WHEN the job manager first reported the job as unknown
// (notRunningSince); checkHeartbeat fails the job only once a refresh of the metadata that began
// AFTER that time has still not found a completion.  The query runs periodically: if each
// negative answer overwrote the timestamp, the timestamp would always be newer than the last
// refresh whenever refreshes and queries alternate, and a job killed by the cluster would be
// waited on for ever (or for the much longer heartbeat timeout).
// Rule: every store of a non-zero value to Metadata.notRunningSince is dominated by the true edge
// of IsZero() on that same field.
func ruleF14(c *an.Ctx) {
	n := 0
	for _, fn := range coreFns(c) {
		an.Instrs(fn, func(in ssa.Instruction) {
			st, ok := in.(*ssa.Store)
			if !ok {
				return
			}
			fa, ok := st.Addr.(*ssa.FieldAddr)
			if !ok {
				return
			}
			sT := derefStructT(fa.X.Type())
			if sT == nil || sT.Field(fa.Field).Name() != "notRunningSince" {
				return
			}
			if _, isC := st.Val.(*ssa.Const); isC {
				return // cleared
			}
			n++
			key := accessKey(fa)
			g, _ := an.GuardedBy(st, func(r an.Rel) bool {
				if r.Op != token.ILLEGAL || !r.Truth {
					return false
				}
				cl, ok := r.X.(*ssa.Call)
				if !ok || cl.Call.StaticCallee() == nil || cl.Call.StaticCallee().Name() != "IsZero" || len(cl.Call.Args) == 0 {
					return false
				}
				return accessKey(cl.Call.Args[0]) == key
			})
			c.Check("F14", "first-not-running-observation-stands@"+an.FnName(fn), st.Pos(), g,
				"notRunningSince is overwritten although an earlier observation may be pending: with periodic queries the timestamp is always newer than the last metadata refresh, so checkHeartbeat never sees `notRunningSince.Before(lastRefresh)` and a job the cluster killed is not failed")
		})
	}
	if n == 0 {
		c.Info("F14", "anchor(stores to notRunningSince)", 0, "no store of a time to Metadata.notRunningSince: not decided")
	}
}

// O7 (C02): two references are the same reference only if they name the same call.  A RefExp is
// (Kind, Id, OutputId): the call (or `self`), and the output path within it.  Wherever two
// references are compared for identity - to de-duplicate the list of upstream references a node
// depends on - comparing the output path without the call id merges STEP_A.out with STEP_B.out,
// the second dependency disappears from the graph and the consumer starts before STEP_B is done.
// Rule: a function that compares the OutputId of two references for equality compares their Id too.
func ruleO7(c *an.Ctx) {
	n := 0
	var fns []*ssa.Function
	fns = append(fns, c.P.FuncsOf("martian/syntax")...)
	fns = append(fns, coreFns(c)...)
	refField := func(v ssa.Value) (base string, field string, ok bool) {
		u, isU := v.(*ssa.UnOp)
		if !isU || u.Op != token.MUL {
			return "", "", false
		}
		fa, isF := u.X.(*ssa.FieldAddr)
		if !isF {
			return "", "", false
		}
		if named, _ := derefNamed(fa.X.Type()); named != "RefExp" {
			return "", "", false
		}
		st := derefStructT(fa.X.Type())
		return accessKey(fa.X), st.Field(fa.Field).Name(), true
	}
	for _, fn := range fns {
		type pair struct{ a, b string }
		cmp := map[string]map[pair]token.Pos{}
		an.Instrs(fn, func(in ssa.Instruction) {
			b, ok := in.(*ssa.BinOp)
			if !ok || (b.Op != token.EQL && b.Op != token.NEQ) {
				return
			}
			bx, fx, ok1 := refField(b.X)
			by, fy, ok2 := refField(b.Y)
			if !ok1 || !ok2 || fx != fy || bx == by {
				return
			}
			if bx > by {
				bx, by = by, bx
			}
			if cmp[fx] == nil {
				cmp[fx] = map[pair]token.Pos{}
			}
			cmp[fx][pair{bx, by}] = b.Pos()
		})
		for pr, pos := range cmp["OutputId"] {
			n++
			_, hasId := cmp["Id"][pr]
			c.Check("O7", "reference-identity-includes-the-call@"+an.FnName(fn), pos, hasId,
				"two references are compared by their output path (OutputId) but not by the call they refer to (Id): STEP_A.out and STEP_B.out count as one reference, the dependency on the second call is dropped and its consumer can start before it has finished")
		}
	}
	if n == 0 {
		c.Pass("O7", "no-reference-comparison-by-output-only", 0, "no function compares the OutputId of two references")
	}
}

// I9 (C16): the code point of a \uXXXX escape is replaced only if it is a UTF-16 surrogate.  The MRO
// string decoder encodes the 16-bit value of the escape as it is.  A decoder that pairs
// surrogates (as JSON writers that emit ASCII only do) may substitute the combined code point -
// but only for values in D800..DFFF.  A looser classification (the mask test r&0xD800 == 0xD800
// also holds for U+D900.., U+F800..U+FFFF: private-use and CJK compatibility characters, the BOM,
// U+FFFD) sends ordinary characters into the pairing code, which turns them into U+FFFD: the text
// of a string argument changes between MRO and invocation JSON.
// Rule: in the string decoder, a value handed to utf8.EncodeRune / AppendRune is the arithmetic
// of the escape's hex digits; any other value (the result of a pairing helper) arrives only over
// edges guarded by utf16.IsSurrogate(r), by r&0xF800 == 0xD800 or by both bounds of D800..DFFF.
func ruleI9(c *an.Ctx) {
	p := c.P
	root := p.Func("martian/syntax", "unquoteBytes")
	if root == nil {
		c.Info("I9", "anchor(unquoteBytes)", 0, "not found: not decided")
		return
	}
	hexPhi := map[*ssa.Phi]bool{}
	var pureHex func(v ssa.Value, d int) bool
	pureHex = func(v ssa.Value, d int) bool {
		if v == nil || d > 8 {
			return false
		}
		switch x := v.(type) {
		case *ssa.Const:
			return true
		case *ssa.Convert:
			return pureHex(x.X, d+1)
		case *ssa.BinOp:
			switch x.Op {
			case token.ADD, token.SHL, token.OR, token.MUL:
				return pureHex(x.X, d+1) && pureHex(x.Y, d+1)
			}
		case *ssa.Phi:
			// an accumulator of a loop over the digits
			if hexPhi[x] {
				return true
			}
			hexPhi[x] = true
			for _, e := range x.Edges {
				if !pureHex(e, d+1) {
					return false
				}
			}
			return true
		case *ssa.Call:
			h := x.Call.StaticCallee()
			if h == nil || h.Blocks == nil {
				return false
			}
			if strings.HasPrefix(h.Name(), "parseHex") {
				return true
			}
			// a helper of the package all of whose returns are such arithmetic (hexRune16(b))
			if h.Pkg == root.Pkg && len(h.Blocks) > 0 && h != root {
				okAll, cnt := true, 0
				an.Instrs(h, func(in ssa.Instruction) {
					if r, isR := in.(*ssa.Return); isR && len(r.Results) == 1 {
						cnt++
						if !pureHex(r.Results[0], d+2) {
							okAll = false
						}
					}
				})
				return okAll && cnt > 0
			}
		}
		return false
	}
	surrogateGuard := func(r an.Rel) (lower, upper, full bool) {
		k := func(v ssa.Value) (int64, bool) {
			cv, ok := an.ConstVal(v)
			if !ok || cv.Kind() != constant.Int {
				return 0, false
			}
			n, exact := constant.Int64Val(cv)
			return n, exact
		}
		if r.Op == token.ILLEGAL {
			if cl, ok := r.X.(*ssa.Call); ok && r.Truth {
				if h := cl.Call.StaticCallee(); h != nil && h.Pkg != nil && h.Pkg.Pkg.Path() == "unicode/utf16" && h.Name() == "IsSurrogate" {
					return false, false, true
				}
			}
			return
		}
		if r.Op == token.EQL {
			for _, pr := range [][2]ssa.Value{{r.X, r.Y}, {r.Y, r.X}} {
				if b, ok := pr[0].(*ssa.BinOp); ok && b.Op == token.AND {
					val, okV := k(pr[1])
					m1, ok1 := k(b.X)
					m2, ok2 := k(b.Y)
					if okV && val == 0xD800 && (ok1 && m1 == 0xF800 || ok2 && m2 == 0xF800) {
						return false, false, true
					}
				}
			}
			return
		}
		rr := r
		if _, isK := k(rr.X); isK {
			rr = rr.Flip()
		}
		if n, ok := k(rr.Y); ok {
			switch {
			case rr.Op == token.GEQ && n == 0xD800, rr.Op == token.GTR && n == 0xD7FF:
				lower = true
			case rr.Op == token.LEQ && n == 0xDFFF, rr.Op == token.LSS && n == 0xE000:
				upper = true
			}
		}
		return
	}
	fam := map[*ssa.Function]bool{root: true}
	for _, g := range familyOf(p, root, 2) {
		if g.Pkg == root.Pkg && g.Blocks != nil {
			fam[g] = true
		}
	}
	n := 0
	var famNames []string
	byName := map[string]*ssa.Function{}
	for fn := range fam {
		famNames = append(famNames, an.FnName(fn))
		byName[an.FnName(fn)] = fn
	}
	sortStrings(famNames)
	for _, name := range famNames {
		fn := byName[name]
		k := 0
		an.Instrs(fn, func(in ssa.Instruction) {
			cl, ok := in.(*ssa.Call)
			if !ok {
				return
			}
			h := cl.Call.StaticCallee()
			if h == nil || h.Pkg == nil || h.Pkg.Pkg.Path() != "unicode/utf8" || (h.Name() != "EncodeRune" && h.Name() != "AppendRune") {
				return
			}
			arg := cl.Call.Args[1]
			n++
			k++
			key := fmt.Sprintf("escape-value-encoded-as-written@%s#%d", an.FnName(fn), k)
			if pureHex(arg, 0) {
				c.Pass("I9", key, cl.Pos(), "the encoded rune is the arithmetic of the escape's hex digits")
				return
			}
			ph, isPhi := arg.(*ssa.Phi)
			if !isPhi {
				if _, isParam := arg.(*ssa.Parameter); isParam {
					c.Pass("I9", key, cl.Pos(), "a helper encoding its parameter")
					return
				}
				c.Fail("I9", key, cl.Pos(), "the rune handed to the encoder is neither the escape's value nor a choice between it and a replacement: not decided, reported")
				return
			}
			ok2 := true
			for i, e := range ph.Edges {
				if _, isC := e.(*ssa.Const); !isC && pureHex(e, 0) {
					continue
				}
				pred := ph.Block().Preds[i]
				lo, _ := an.GuardedBy(pred.Instrs[0], func(r an.Rel) bool { l, _, f := surrogateGuard(r); return l || f })
				hi, _ := an.GuardedBy(pred.Instrs[0], func(r an.Rel) bool { _, u, f := surrogateGuard(r); return u || f })
				if !lo || !hi {
					ok2 = false
				}
			}
			c.Check("I9", key, cl.Pos(), ok2,
				"the escape's code point is replaced by another value on a path that is not restricted to UTF-16 surrogates (utf16.IsSurrogate, r&0xF800 == 0xD800, or both bounds of D800..DFFF): characters outside that range are rewritten, a string argument changes between MRO text and JSON")
		})
	}
	if n == 0 {
		c.Info("I9", "anchor(EncodeRune in the string decoder)", 0, "no utf8.EncodeRune / AppendRune call in unquoteBytes and its helpers: not decided")
	}
}
