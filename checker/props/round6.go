package props

import (
	"go/constant"
	"go/token"
	"go/types"
	"strings"

	"mrocheck/an"

	"golang.org/x/tools/go/ssa"
)

// Rules written in the sixth round: each guards a genuine defect that a seeding sub-agent reported
// as a side observation, that a second sub-agent reproduced with a deterministic demonstration and
// that was then repaired in /repo (see known_findings.json "fixed" and findings/<id>/).  Every rule
// has a self-test mutant that reverts the repair.

// S9 (C15): the lock file is removed only by the mrp that holds it.  `mrp --inspect` attaches
// read-only and never takes the lock, yet its run loop calls Pipestance.Unlock() while the
// pipestance is failed; a failed --noexit mrp has already given the lock up and calls it again
// every few seconds.  If Unlock removes `_lock` unconditionally, the live writer's lock disappears
// and a third mrp attaches for writing.
// Rule: every removal of the Lock file in package core lies behind an edge on which readOnly() is
// false (this object sees the lock it wrote), in the function or at every call of it.
func ruleS9(c *an.Ctx) {
	p := c.P
	ro := p.Func(pkgCore, "(*Pipestance).readOnly")
	if ro == nil {
		c.Info("S9", "anchor((*Pipestance).readOnly)", 0, "not found: not decided")
		return
	}
	holds := func(r an.Rel) bool {
		cl, ok := r.X.(*ssa.Call)
		return ok && r.Op == token.ILLEGAL && !r.Truth && cl.Call.StaticCallee() == ro
	}
	n := 0
	for _, fn := range coreFns(c) {
		an.Instrs(fn, func(in ssa.Instruction) {
			call := an.AsCall(in)
			if call == nil || call.Common().StaticCallee() == nil || call.Common().StaticCallee().Name() != "remove" {
				return
			}
			if len(call.Common().Args) != 2 || !an.IsConst(call.Common().Args[1], p.Const(pkgCore, "Lock")) {
				return
			}
			n++
			g, w := an.GuardedBy(in, holds)
			if !g && guardedAtAllCalls(p, fn, holds, 0) {
				g = true
			}
			c.Check("S9", "lock-removed-only-by-its-holder@"+an.FnName(fn), in.Pos(), g,
				"the pipestance lock file is removed without establishing that this mrp holds it (readOnly() false): a read-only inspector, or an mrp that already released the lock, deletes the lock of the live writer and another mrp can then attach for writing; "+c.WitnessString(w))
		})
	}
	c.Floor("S9", "removals of the lock file in package core", n, 1)
}

// W5 (C14): no per-fork volatile data removal across a symlinked ancestor.  Node.vdrKill refuses a
// node whose directory (or an ancestor's) is a symlink; but Fork.partialVdrKill - where temp
// directories and files are actually removed - is also called directly by doJoin and doComplete as
// the fork makes progress.  Those calls removed files at the link's target, outside the pipestance
// directory, and the final sweep then left them out of the report.
// Rule: in partialVdrKill every path to a destructive callee (vdrKill, vdrKillSome, clean*Temp)
// passes vdrCheckSymlink - or every caller of partialVdrKill does.
func ruleW5(c *an.Ctx) {
	p := c.P
	pk := c.NeedFunc(pkgCore, "(*Fork).partialVdrKill")
	chk := p.Func(pkgCore, "(*Node).vdrCheckSymlink")
	if pk == nil {
		return
	}
	if chk == nil {
		c.Info("W5", "anchor((*Node).vdrCheckSymlink)", 0, "no symlink check in the package: not decided")
		return
	}
	isChk := func(in ssa.Instruction) bool { return an.CalleeIs(in, chk) }
	var destructive []*ssa.Function
	for _, n := range []string{"(*Fork).vdrKill", "(*Fork).vdrKillSome", "(*Fork).cleanSplitTemp", "(*Fork).cleanChunkTemp", "(*Fork).cleanJoinTemp"} {
		if f := p.Func(pkgCore, n); f != nil {
			destructive = append(destructive, f)
		}
	}
	n := 0
	for _, m := range familyOf(p, pk, 1) {
		an.Instrs(m, func(in ssa.Instruction) {
			if !an.CalleeIs(in, destructive...) {
				return
			}
			n++
			w := an.Query{Fn: m, Target: func(x ssa.Instruction) bool { return x == in }, Barrier: isChk}.Find()
			ok := w == nil
			if !ok {
				// the guard may sit in front of every call of the function holding the site
				// (a helper of the sweep, or the sweep itself guarded by all of its callers)
				var guardedCalls func(fn *ssa.Function, d int) bool
				guardedCalls = func(fn *ssa.Function, d int) bool {
					if d > 3 {
						return false
					}
					cnt := 0
					for caller, sites := range p.Callers(fn) {
						for _, s := range sites {
							cnt++
							s := s
							q := an.Query{Fn: caller, Target: func(x ssa.Instruction) bool { return x == s.(ssa.Instruction) }, Barrier: isChk}
							if q.Find() != nil && !guardedCalls(caller, d+1) {
								return false
							}
						}
					}
					return cnt > 0
				}
				ok = guardedCalls(m, 0)
			}
			c.Check("W5", "symlink-check-before("+an.CalleeName(in)+")@"+an.FnName(m), in.Pos(), ok,
				"a fork's temp directories / volatile files are removed on a path that never asked whether the node's directory, or an ancestor's, is a symlink: files at the link's target - outside the pipestance directory - are deleted as the fork makes progress (doJoin, doComplete call this sweep directly) and the final report leaves them out; "+c.WitnessString(w))
		})
	}
	c.Floor("W5", "destructive calls in the per-fork sweep", n, 3)
}

// W6 (C14): the keep-alive bookkeeping of one fork is not shared with its siblings.  A fork that
// produced null for a file output removes that argument from the consumer's entry
// (Fork.removeFileArg deletes from the map found in filePostNodes); when every build-time fork of
// the producer holds the SAME map, the siblings never learn that the consumer is done with their
// file and the file of a volatile stage survives the run.
// Rule: a map stored into Fork.filePostNodes inside a loop over forks is created inside that loop.
func ruleW6(c *an.Ctx) {
	p := c.P
	fpn := p.Field(pkgCore, "Fork", "filePostNodes")
	fn := c.NeedFunc(pkgCore, "(*Node).attachToFileParents")
	if fpn == nil || fn == nil {
		return
	}
	n := 0
	loops := naturalLoops(fn)
	inLoopOverForks := func(b *ssa.BasicBlock) map[*ssa.BasicBlock]bool {
		// innermost loop containing b
		var best map[*ssa.BasicBlock]bool
		for _, body := range loops {
			if body[b] && (best == nil || len(body) < len(best)) {
				best = body
			}
		}
		return best
	}
	check := func(in ssa.Instruction, v ssa.Value) {
		if _, isMap := v.Type().Underlying().(*types.Map); !isMap {
			return
		}
		body := inLoopOverForks(in.Block())
		if body == nil {
			return
		}
		n++
		fresh := false
		if mk, ok := v.(*ssa.MakeMap); ok && body[mk.Block()] {
			fresh = true
		}
		if cl, ok := v.(*ssa.Call); ok && body[cl.Block()] {
			// maps.Clone / a copying helper called per iteration
			fresh = true
		}
		c.Check("W6", "per-fork-consumer-entry-not-shared("+an.Path(v)+")@"+an.FnName(fn), in.Pos(), fresh,
			"the map recorded for a consumer in Fork.filePostNodes is the same object for every fork of the producer: a fork that produced no file for an argument deletes it from the shared map (removeFileArg), its siblings then never release the consumer's hold on their file, and a volatile stage's file that is neither a top-level output nor retained survives the run")
	}
	an.Instrs(fn, func(in ssa.Instruction) {
		mu, ok := in.(*ssa.MapUpdate)
		if !ok {
			return
		}
		// fork.filePostNodes[consumer] = v   (directly or through a local holding the field)
		if an.LoadsField(mu.Map, fpn) {
			check(in, mu.Value)
			return
		}
		// map literal { consumer: v } stored into the field
		if mk, isMk := mu.Map.(*ssa.MakeMap); isMk {
			for _, st := range an.StoresToField(fn, fpn) {
				if st.Val == ssa.Value(mk) {
					check(in, mu.Value)
				}
			}
		}
	})
	c.Floor("W6", "consumer entries recorded per fork", n, 1)
}

// J6 (C11): a call's name is terminated before it is used as a file-name prefix.  Journal files
// are named <call fqid>.fork<i>…; a full stage reset removes the node's pending notifications by
// prefix.  Call names are chosen by the user: with the bare name STEP as prefix the pending
// notifications of the sibling STEP1 are deleted too (its completion is then only found by the
// next full directory scan, its progress line is lost).
// Rule: where a removal is guarded by strings.HasPrefix(file, base) and base derives from a node's
// qualified name, base ends with the separator ".".
func ruleJ6(c *an.Ctx) {
	n := 0
	for _, fn := range coreFns(c) {
		an.Instrs(fn, func(in ssa.Instruction) {
			if _, ok := isRemoveCall(in); !ok {
				return
			}
			// dominated by HasPrefix(x, base) == true
			var base ssa.Value
			an.GuardedBy(in, func(r an.Rel) bool {
				cl, ok := r.X.(*ssa.Call)
				if !ok || r.Op != token.ILLEGAL || !r.Truth {
					return false
				}
				f := cl.Call.StaticCallee()
				if f == nil || f.Pkg == nil || f.Pkg.Pkg.Path() != "strings" || f.Name() != "HasPrefix" {
					return false
				}
				base = cl.Call.Args[1]
				return true
			})
			if base == nil || !derivesFromNodeName(base, 0) {
				return
			}
			n++
			c.Check("J6", "name-prefix-terminated@"+an.FnName(fn), in.Pos(), endsWithDot(base, 0),
				"files are removed by a prefix built from a call's qualified name without the terminating '.': resetting STEP also deletes the pending journal entries of the sibling call STEP1 (its notifications are attributed to nobody)")
		})
	}
	if n == 0 {
		c.Pass("J6", "no-removal-by-call-name-prefix", 0, "no removal guarded by a prefix test on a call's qualified name")
	}
}

func derivesFromNodeName(v ssa.Value, d int) bool {
	if v == nil || d > 6 {
		return false
	}
	switch x := v.(type) {
	case *ssa.Call:
		name := ""
		if x.Call.IsInvoke() {
			name = x.Call.Method.Name()
		} else if f := x.Call.StaticCallee(); f != nil {
			name = f.Name()
		}
		switch name {
		case "GetFqid", "GetFQName":
			return true
		}
		for _, a := range x.Call.Args {
			if derivesFromNodeName(a, d+1) {
				return true
			}
		}
	case *ssa.BinOp:
		return derivesFromNodeName(x.X, d+1) || derivesFromNodeName(x.Y, d+1)
	case *ssa.Phi:
		for _, e := range x.Edges {
			if derivesFromNodeName(e, d+1) {
				return true
			}
		}
	case *ssa.UnOp:
		if fa, ok := x.X.(*ssa.FieldAddr); ok {
			if st := derefStructT(fa.X.Type()); st != nil && st.Field(fa.Field).Name() == "fqname" {
				// only node-level names: Node / TopNode
				return strings.HasSuffix(fa.X.Type().String(), "Node")
			}
		}
	}
	return false
}

func derefStructT(t types.Type) *types.Struct {
	if p, ok := t.Underlying().(*types.Pointer); ok {
		t = p.Elem()
	}
	s, _ := t.Underlying().(*types.Struct)
	return s
}

func endsWithDot(v ssa.Value, d int) bool {
	if v == nil || d > 4 {
		return false
	}
	switch x := v.(type) {
	case *ssa.Const:
		return x.Value != nil && x.Value.Kind() == constant.String && strings.HasSuffix(constant.StringVal(x.Value), ".")
	case *ssa.BinOp:
		return x.Op == token.ADD && endsWithDot(x.Y, d+1)
	case *ssa.Phi:
		for _, e := range x.Edges {
			if !endsWithDot(e, d+1) {
				return false
			}
		}
		return len(x.Edges) > 0
	}
	return false
}

// K8 (C12): a reservation is converted to the semaphore's unit before it is rounded.  The address
// space semaphore counts MB, requests are fractional GB.  `int64(gb) * 1024` truncates to whole GB
// first: a 2.9 GB request reserves 2048 MB, a request below 1 GB reserves nothing, and two jobs run
// side by side under a limit that fits one.
// Rule: in the local job manager no value converted float->integer is afterwards multiplied by a
// constant (the scale factor belongs inside the conversion).
func ruleK8(c *an.Ctx) {
	n, bad := 0, 0
	for _, fn := range coreFns(c) {
		if fn.Signature.Recv() == nil || !strings.Contains(fn.Signature.Recv().Type().String(), "LocalJobManager") {
			continue
		}
		for _, g := range an.WithAnon(fn) {
			an.Instrs(g, func(in ssa.Instruction) {
				cv, ok := in.(*ssa.Convert)
				if !ok {
					return
				}
				from, okF := cv.X.Type().Underlying().(*types.Basic)
				to, okT := cv.Type().Underlying().(*types.Basic)
				if !okF || !okT || from.Info()&types.IsFloat == 0 || to.Info()&types.IsInteger == 0 {
					return
				}
				n++
				for _, r := range an.Referrers(cv) {
					b, ok := r.(*ssa.BinOp)
					if !ok || b.Op != token.MUL {
						continue
					}
					other := b.Y
					if b.Y == ssa.Value(cv) {
						other = b.X
					}
					if k, isC := an.ConstVal(other); isC && k.Kind() == constant.Int {
						if v, exact := constant.Int64Val(k); exact && v > 1 {
							bad++
							c.Fail("K8", "scaled-before-rounded("+an.Path(cv.X)+")@"+an.FnName(fn), b.Pos(),
								"a fractional resource request is truncated to an integer and only then multiplied by the unit factor: 2.9 GB reserves 2048 MB, anything below 1 GB reserves nothing, and the sum of what concurrently running jobs were granted exceeds the limit the semaphore enforces")
						}
					}
				}
			})
		}
	}
	if bad == 0 {
		c.Pass("K8", "scaled-before-rounded@LocalJobManager", 0, "no float->integer conversion in the local job manager is multiplied by a constant afterwards")
	}
	c.Floor("K8", "float->integer conversions in the local job manager", n, 1)
}

// Q12 (C09): the comments in front of a split's operand are printed.  `split` and its operand are
// separate AST nodes; a comment between the keyword and the operand is attached to the operand's
// node, which neither SplitExp.format nor the operand's own format prints.
// Rule: some function in the family of BindStm.format / SplitExp.format hands the node of a value
// loaded from SplitExp.Value to printComments.
func ruleQ12(c *an.Ctx) {
	p := c.P
	val := p.Field(pkgSyntax, "SplitExp", "Value")
	bf := c.NeedFunc(pkgSyntax, "(*BindStm).format")
	if val == nil || bf == nil {
		return
	}
	roots := []*ssa.Function{bf}
	if sf := p.Func(pkgSyntax, "(*SplitExp).format"); sf != nil {
		roots = append(roots, sf)
	}
	found := false
	for _, r := range roots {
		for _, m := range familyOf(p, r, 2) {
			an.Instrs(m, func(in ssa.Instruction) {
				cl := an.AsCallAny(in)
				if cl == nil || cl.Common().StaticCallee() == nil || cl.Common().StaticCallee().Name() != "printComments" {
					return
				}
				for _, a := range cl.Common().Args {
					// a = X.getNode() with X loaded from SplitExp.Value
					if gn, ok := a.(*ssa.Call); ok && gn.Call.IsInvoke() && gn.Call.Method.Name() == "getNode" {
						if an.LoadsField(gn.Call.Value, val) {
							found = true
						}
					}
				}
			})
		}
	}
	c.Check("Q12", "split-operand-comments-printed@(*BindStm).format", bf.Pos(), found,
		"no formatting function prints the comments attached to the operand of a split (a separate node from the `split` keyword): a comment written between `split` and its operand is lost")
}

// F11 (C06): `null` stage defs fail the split.  The split's _stage_defs is decoded into the
// pointer field Fork.stageDefs; for the JSON text `null` (a python split() without return) the
// decoder reports no error and clears the pointer, and the next line dereferences it: mrp panics
// instead of failing the stage, and panics again on every re-attach.
// Rule: after every decode of StageDefsFile into Fork.stageDefs the pointer is compared with nil
// on every path to a return of the function.
func ruleF11(c *an.Ctx) {
	p := c.P
	sd := p.Field(pkgCore, "Fork", "stageDefs")
	if sd == nil {
		return
	}
	n := 0
	for _, fn := range coreFns(c) {
		an.Instrs(fn, func(in ssa.Instruction) {
			cl, ok := in.(*ssa.Call)
			if !ok || cl.Call.StaticCallee() == nil || cl.Call.StaticCallee().Name() != "ReadInto" || len(cl.Call.Args) < 3 {
				return
			}
			if !an.IsConst(cl.Call.Args[1], p.Const(pkgCore, "StageDefsFile")) {
				return
			}
			dst := cl.Call.Args[2]
			if mi, ok := dst.(*ssa.MakeInterface); ok {
				dst = mi.X
			}
			if _, f := an.FieldOfAddr(dst); f != sd {
				return
			}
			n++
			w := an.Query{Fn: fn, After: in, Target: an.IsReturn,
				BarrierEdge: func(from, to *ssa.BasicBlock) bool {
					return an.EdgeHolds(from, to, func(r an.Rel) bool {
						return (r.Op == token.EQL || r.Op == token.NEQ) && an.IsNil(r.Y) && an.LoadsField(r.X, sd)
					})
				}}.Find()
			c.Check("F11", "decoded-stage-defs-checked-for-null@"+an.FnName(fn), in.Pos(), w == nil,
				"_stage_defs is decoded into the pointer Fork.stageDefs and the function returns without comparing it with nil: for the JSON text `null` the decoder reports success and clears the pointer, the caller dereferences it, and mrp panics (again on every re-attach) instead of failing the split with an error naming the stage; "+c.WitnessString(w))
		})
	}
	c.Floor("F11", "decodes of _stage_defs into Fork.stageDefs", n, 1)
}

// F12 (C06): chunk definitions are verified before chunks run, also after a restart.  verifyDef
// (missing / ill-typed chunk arguments at --strict levels above disable) used to run only where
// doChunks creates the chunks; after a restart the chunks are preloaded by updateId, the partial
// reset has removed the `_errors` that recorded the bad definition, and the chunk simply ran.
// Rule: from the edge of doChunks on which the chunk list is found non-empty, a call of verifyDef is
// reachable before the chunks are stepped.
func ruleF12(c *an.Ctx) {
	p := c.P
	dc := c.NeedFunc(pkgCore, "(*Fork).doChunks")
	vd := p.Func(pkgCore, "(*Chunk).verifyDef")
	step := p.Func(pkgCore, "(*Chunk).step")
	chunks := p.Field(pkgCore, "Fork", "chunks")
	if dc == nil || vd == nil || step == nil || chunks == nil {
		return
	}
	n := 0
	for _, m := range familyOf(p, dc, 1) {
		for _, b := range m.Blocks {
			for _, s := range b.Succs {
				// len(self.chunks) != 0 : the list was preloaded
				if !an.EdgeHolds(b, s, func(r an.Rel) bool {
					args, ok := an.IsBuiltinCall(r.X, "len")
					if !ok || !an.LoadsField(args[0], chunks) || !an.IsIntConst(r.Y, 0) {
						return false
					}
					return r.Op == token.NEQ || r.Op == token.GTR
				}) {
					continue
				}
				// only the decision "create or not": the false edge of the same test must create chunks
				creates := false
				for _, o := range b.Succs {
					if o != s && reachFromBlock(o, func(x ssa.Instruction) bool {
						cl := an.AsCallAny(x)
						return cl != nil && cl.Common().StaticCallee() != nil && cl.Common().StaticCallee().Name() == "NewChunk"
					}) {
						creates = true
					}
				}
				if !creates {
					continue
				}
				n++
				verifies := findFrom(s, func(x ssa.Instruction) bool { return an.CalleeIs(x, vd) },
					func(x ssa.Instruction) bool { return an.CalleeIs(x, step) }, nil)
				c.Check("F12", "preloaded-chunks-verified-before-they-run@"+an.FnName(m), s.Instrs[0].Pos(), verifies,
					"when the chunk list already exists (re-attach: updateId rebuilt it from _stage_defs) the chunks are stepped without verifyDef: a bad chunk definition that failed the first attempt is not reported again after the restart, the chunk runs and the pipestance completes")
			}
		}
	}
	c.Floor("F12", "create-or-reuse decisions on the chunk list", n, 1)
}

// M9 (C13): a key of a decoded map becomes a directory name only after it was checked.  For a
// mapped top-level call the outs of fork <key> are moved to outs/<key>/…; a key such as "../esc"
// put the files outside outs/.
// Rule: in the post-processing functions, a path.Join whose operands include the range key of a
// decoded JSON map is dominated by the edge IsLegalUnixFilename(key) == nil.
func ruleM9(s *c13) {
	c := s.c
	n := 0
	fns := append([]*ssa.Function{}, s.fam...)
	if pp := c.P.Func(pkgCore, "(*Fork).postProcess"); pp != nil {
		fns = append(fns, familyOf(c.P, pp, 1)...)
	}
	seenFn := map[*ssa.Function]bool{}
	for _, fn := range fns {
		if seenFn[fn] {
			continue
		}
		seenFn[fn] = true
		an.Instrs(fn, func(in ssa.Instruction) {
			cl, ok := in.(*ssa.Call)
			if !ok || cl.Call.StaticCallee() == nil || cl.Call.StaticCallee().Name() != "Join" || cl.Call.StaticCallee().Pkg == nil {
				return
			}
			if pp := cl.Call.StaticCallee().Pkg.Pkg.Path(); pp != "path" && pp != "path/filepath" {
				return
			}
			var key ssa.Value
			for _, a := range cl.Call.Args {
				for _, e := range variadicElems(a) {
					if ex, ok := e.(*ssa.Extract); ok && ex.Index == 1 {
						if nx, ok := ex.Tuple.(*ssa.Next); ok && !nx.IsString {
							if rg, ok := nx.Iter.(*ssa.Range); ok {
								if mt, ok := rg.X.Type().Underlying().(*types.Map); ok {
									if b, ok := mt.Key().Underlying().(*types.Basic); ok && b.Kind() == types.String {
										key = e
									}
								}
							}
						}
					}
				}
			}
			if key == nil {
				return
			}
			n++
			g, w := an.GuardedBy(in, func(r an.Rel) bool {
				lc, ok := r.X.(*ssa.Call)
				if !ok || r.Op != token.EQL || !an.IsNil(r.Y) {
					return false
				}
				f := lc.Call.StaticCallee()
				return f != nil && f.Name() == "IsLegalUnixFilename" && len(lc.Call.Args) == 1 && lc.Call.Args[0] == key
			})
			c.Check("M9", "map-key-checked-before-it-names-a-directory@"+an.FnName(fn), in.Pos(), g,
				"the key of a decoded map is joined into an output path without IsLegalUnixFilename: for a mapped top-level call a key such as \"../esc\" materialises that fork's files outside outs/ and _outs points there; "+c.WitnessString(w))
		})
	}
	if n == 0 {
		c.Pass("M9", "no-map-key-joined-into-a-path", 0, "no range key of a string-keyed map is joined into a path in the post-processing functions")
	}
}

// M10 (C13): no entry of a typed map is dropped from the rewritten value.  moveOutDir collects the
// keys, sorts them and writes one entry per key; a key that cannot name a directory used to be
// filtered out while collecting, so the entry vanished from _outs ("every other value is
// unchanged").
// Rule: in the writers, a loop over a decoded map that appends its key to a slice appends it in
// every iteration.
func ruleM10(s *c13) {
	c := s.c
	n := 0
	for _, fn := range s.fam {
		for hd, body := range naturalLoops(fn) {
			var nx *ssa.Next
			for _, in := range hd.Instrs {
				if x, ok := in.(*ssa.Next); ok && !x.IsString {
					if rg, ok := x.Iter.(*ssa.Range); ok {
						if _, isMap := rg.X.Type().Underlying().(*types.Map); isMap {
							nx = x
						}
					}
				}
			}
			if nx == nil {
				continue
			}
			var key ssa.Value
			for _, r := range an.Referrers(nx) {
				if ex, ok := r.(*ssa.Extract); ok && ex.Index == 1 {
					key = ex
				}
			}
			if key == nil {
				continue
			}
			// appends of the key inside the loop
			var apps []ssa.Instruction
			for b := range body {
				for _, in := range b.Instrs {
					if v, ok := in.(ssa.Value); ok {
						if args, isApp := an.IsBuiltinCall(v, "append"); isApp && len(args) == 2 {
							for _, e := range variadicElems(args[1]) {
								if e == key {
									apps = append(apps, in)
								}
							}
						}
					}
				}
			}
			if len(apps) == 0 {
				continue
			}
			n++
			isApp := func(x ssa.Instruction) bool {
				for _, a := range apps {
					if a == x {
						return true
					}
				}
				return false
			}
			// from the body entry (after Next's ok edge) back to the header without appending?
			var w *an.Witness
			for _, sc := range hd.Succs {
				if !body[sc] {
					continue
				}
				first := sc.Instrs[0]
				if isApp(first) {
					continue
				}
				w = an.Query{Fn: fn, After: first, Target: func(x ssa.Instruction) bool { return x == hd.Instrs[0] }, Barrier: isApp,
					BarrierEdge: func(from, to *ssa.BasicBlock) bool { return !body[to] }}.Find()
			}
			c.Check("M10", "every-key-of-the-map-is-kept@"+an.FnName(fn), hd.Instrs[0].Pos(), w == nil,
				"the keys of a decoded map are collected for rewriting, but an iteration can finish without collecting its key: that entry is missing from the rewritten _outs although only file paths may change; "+c.WitnessString(w))
		}
	}
	if n == 0 {
		c.Pass("M10", "no-key-collection-loop", 0, "no loop over a decoded map collects its keys in the output writers")
	}
}
