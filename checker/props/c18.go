package props

import (
	"fmt"
	"go/constant"
	"go/token"
	"os"
	"path/filepath"
	"sort"
	"strings"

	"mrocheck/an"

	"golang.org/x/tools/go/ssa"
)

func init() {
	Registry["C18"] = Entry{
		Run: runC18,
		Explanation: "Decides structural necessary conditions of 'cluster job scripts reproduce commands, paths and environment values exactly': " +
			"H1 the set of bytes appendShellSafeQuote escapes with a backslash (extracted from the comparisons in its code) is a superset of the bytes POSIX sh treats specially inside double quotes ($ ` \" \\), the value is wrapped in double quotes and every other byte is copied; no run of the input is copied verbatim past the switch unless the guards dominating the copy (strings.ContainsAny/IndexAny/IndexByte… with constant needles, also through a helper) exclude all four bytes, " +
			"H2 in formatArgs every argv element, the command and every environment value reach the result only through appendShellSafeQuote; in jobScript STDOUT/STDERR/JOB_WORKDIR are shellSafeQuote results and CMD is the formatArgs result; the substitution is a single pass (no replacement call scans the result of an earlier replacement), " +
			"H3 in every jobmanagers/*.template* the __MRO_CMD__ placeholder stands in command position, outside quotes and outside # directives. " +
			"H2 also: text derived from a substitution result (through Split/Join/Trim, elements, local cells) is never searched with a non-constant or placeholder needle. " +
			"H1 also: the escape set equals the POSIX set (an extra escaped byte keeps its backslash inside double quotes). " +
			"H4 the jobscript file and the submit command's stdin receive the jobScript result itself. " +
			"H5 every return of shellSafeQuote is built by appendShellSafeQuote, or is the argument itself under a MatchString of a constant pattern ^[class]+$ whose class (computed with regexp/syntax) contains only characters inert in sh. " +
			"H3 (round 9) also: the placeholders replaced by already-quoted values stand outside quotes on shell lines. " +
			"NOT decided: invalid UTF-8 bytes (written as \\ooo, a documented extension), JOB_NAME/RESOURCES, each cluster's directive parser.",
		Assumptions: append([]string{"POSIX XCU 2.2.3: inside double quotes exactly $, `, \" and \\ (and newline after \\) keep a special meaning"}, commonAssumptions...),
	}
}

func runC18(c *an.Ctx) {
	p := c.P
	quote := c.NeedFunc(pkgCore, "appendShellSafeQuote")
	ssq := c.NeedFunc(pkgCore, "shellSafeQuote")
	formatArgs := c.NeedFunc(pkgCore, "formatArgs")
	jobScript := c.NeedFunc(pkgCore, "(*RemoteJobManager).jobScript")
	if quote == nil || ssq == nil || formatArgs == nil || jobScript == nil {
		return
	}
	ruleH4(c)
	ruleH5(c)
	// ---------------- H1 ----------------
	escaped := map[rune]bool{}
	type arm struct {
		r    rune
		text string
	}
	var arms []arm
	for _, b := range quote.Blocks {
		for _, s := range b.Succs {
			dnf, ok := an.EdgeDNF(b, s)
			if !ok {
				continue
			}
			// every way the edge can be taken that is "the byte equals a constant" selects an arm; the
			// comparison may sit in a predicate helper (needsShellEscape(b)), hence the disjuncts
			for _, conj := range dnf {
				for _, rel := range conj {
					if rel.Op != token.EQL {
						continue
					}
					cv, isC := an.ConstVal(rel.Y)
					if !isC || cv.Kind() != constant.Int {
						continue
					}
					rv, _ := constant.Int64Val(cv)
					if rv <= 0 || rv > 0x10FFFF {
						continue
					}
					// what does this arm append? look at the constants appended in the successor block
					text := appendedConstWith(s, rel.X, rune(rv))
					arms = append(arms, arm{rune(rv), text})
					if text == "\\"+string(rune(rv)) {
						escaped[rune(rv)] = true
					}
				}
			}
		}
	}
	var es []string
	for r := range escaped {
		es = append(es, fmt.Sprintf("%q", r))
	}
	sort.Strings(es)
	c.Note("appendShellSafeQuote escapes %s", strings.Join(es, " "))
	c.Floor("H1", "escape arms in appendShellSafeQuote", len(escaped), 1)
	for _, need := range []rune{'$', '`', '"', '\\'} {
		c.Check("H1", fmt.Sprintf("escapes(%q)@appendShellSafeQuote", need), quote.Pos(), escaped[need],
			fmt.Sprintf("inside double quotes POSIX sh interprets %q; the quoting function must emit a backslash before it (escaped set: %s)", need, strings.Join(es, " ")))
	}
	// ... and nothing else: inside double quotes sh removes a backslash ONLY before $ ` " \ and newline; before
	// any other character the backslash stays, so escaping it changes the value the job receives
	for r := range escaped {
		switch r {
		case '$', '`', '"', '\\':
			continue
		}
		c.Fail("H1", fmt.Sprintf("escapes-only-what-the-shell-unescapes(%q)@appendShellSafeQuote", r), quote.Pos(),
			fmt.Sprintf("the quoting function writes a backslash before %q, which POSIX sh does not treat as special inside double quotes: the backslash is kept and the job receives the value with an extra `\\`", r))
	}
	// opens and closes with a double quote
	entryQuote := blockAppendsByte(quote.Blocks[0], '"')
	retQuote := false
	an.Instrs(quote, func(in ssa.Instruction) {
		if r, ok := in.(*ssa.Return); ok && blockAppendsByte(r.Block(), '"') {
			retQuote = true
		}
	})
	c.Check("H1", "wraps-in-double-quotes@appendShellSafeQuote", quote.Pos(), entryQuote && retQuote,
		"the value must be emitted between double quotes")
	// an escape arm must not swallow the character: every arm text ends with the rune itself or is an octal escape
	for _, a := range arms {
		if a.text == "" || a.r >= 0x80 {
			continue // non-ASCII: the invalid-UTF-8 arm writes an octal escape (documented extension, not decided)
		}
		ok := strings.HasSuffix(a.text, string(a.r))
		c.Check("H1", fmt.Sprintf("arm-keeps-character(%q)@appendShellSafeQuote", a.r), quote.Pos(), ok,
			fmt.Sprintf("the arm for %q emits %q: the character itself must remain in the output", a.r, a.text))
	}

	// bulk copies that bypass the switch (all functions of the file that declares the quoting function)
	var quoteFns []*ssa.Function
	qfile := p.SSA.Fset.Position(quote.Pos()).Filename
	for _, fn := range p.FuncsOf(pkgCore) {
		if fn.Pos().IsValid() && p.SSA.Fset.Position(fn.Pos()).Filename == qfile {
			quoteFns = append(quoteFns, fn)
		}
	}
	c.Floor("H1", "functions scanned for verbatim copies of the input", len(quoteFns), 1)
	c18BulkCopies(c, quoteFns)

	// ---------------- H2 ----------------
	var envs, shellCmd, argv *ssa.Parameter
	for _, prm := range formatArgs.Params {
		switch prm.Type().String() {
		case "map[string]string":
			envs = prm
		case "string":
			shellCmd = prm
		case "[]string":
			argv = prm
		}
	}
	if envs == nil || shellCmd == nil || argv == nil {
		c.Undecided("H2", "params(formatArgs)", formatArgs.Pos(), "expected (map[string]string, string, []string)")
		return
	}
	// The command line may be assembled by formatArgs together with private helpers (for instance one
	// that renders the environment assignments): the same three facts are collected over the family.
	famFA := familyOf(p, formatArgs, 2)
	inFam := map[*ssa.Function]bool{}
	for _, m := range famFA {
		inFam[m] = true
	}
	type srcSet struct {
		vals map[*ssa.Parameter]bool // parameters holding raw values (command, argv, a raw value handed on)
		envs map[*ssa.Parameter]bool // parameters holding the environment map
	}
	todo := map[*ssa.Function]*srcSet{formatArgs: {vals: map[*ssa.Parameter]bool{shellCmd: true, argv: true}, envs: map[*ssa.Parameter]bool{envs: true}}}
	done := map[*ssa.Function]bool{}
	nVals, nQuoted := 0, 0
	for len(todo) > 0 {
		var fn *ssa.Function
		for f := range todo {
			if fn == nil || an.FnName(f) < an.FnName(fn) {
				fn = f
			}
		}
		src := todo[fn]
		delete(todo, fn)
		if done[fn] {
			continue
		}
		done[fn] = true
		// taintOf: raw values inside g given its raw parameters; helpers in `clean` return quoted text only
		taintOf := func(g *ssa.Function, gs *srcSet, clean map[*ssa.Function]bool, count bool) *an.Taint {
			t := an.NewTaint(0, nil)
			t.NoKeyFlow = true
			t.Sanitizers = map[*ssa.Function]bool{quote: true, ssq: true}
			for h := range clean {
				t.Sanitizers[h] = true
			}
			for prm := range gs.vals {
				t.Add(prm)
			}
			// env values: extract #2 of next over range envs
			an.Instrs(g, func(in ssa.Instruction) {
				if ex, ok := in.(*ssa.Extract); ok && ex.Index == 2 {
					if nx, ok := ex.Tuple.(*ssa.Next); ok {
						if rg, ok := nx.Iter.(*ssa.Range); ok {
							if prm, isP := rg.X.(*ssa.Parameter); isP && gs.envs[prm] {
								t.Add(ex)
								if count {
									nVals++
								}
							}
						}
					}
				}
			})
			t.Run()
			return t
		}
		argSources := func(t *an.Taint, gs *srcSet, call *ssa.Call, h *ssa.Function) *srcSet {
			ns := &srcSet{vals: map[*ssa.Parameter]bool{}, envs: map[*ssa.Parameter]bool{}}
			for i, a := range call.Call.Args {
				if i >= len(h.Params) {
					break
				}
				if prm, isP := a.(*ssa.Parameter); isP && gs.envs[prm] {
					ns.envs[h.Params[i]] = true
				} else if t.Has(a) {
					ns.vals[h.Params[i]] = true
				}
			}
			return ns
		}
		t := taintOf(fn, src, nil, false)
		// a private helper that never returns a raw value (it quotes what it is given) yields clean text
		clean := map[*ssa.Function]bool{}
		an.Instrs(fn, func(in ssa.Instruction) {
			call, ok := in.(*ssa.Call)
			if !ok {
				return
			}
			h := call.Call.StaticCallee()
			if h == nil || !inFam[h] || h == fn || h == quote || h == ssq {
				return
			}
			ns := argSources(t, src, call, h)
			if len(ns.vals)+len(ns.envs) == 0 {
				return
			}
			ht := taintOf(h, ns, nil, false)
			raw := false
			an.Instrs(h, func(hin ssa.Instruction) {
				if r, ok := hin.(*ssa.Return); ok {
					for i := range r.Results {
						if ht.Has(an.RetVal(r, i)) {
							raw = true
						}
					}
				}
			})
			if !raw {
				clean[h] = true
			}
		})
		t = taintOf(fn, src, clean, true)
		where := "@" + an.FnName(fn)
		an.Instrs(fn, func(in ssa.Instruction) {
			call, ok := in.(*ssa.Call)
			if !ok {
				return
			}
			if call.Call.StaticCallee() == quote {
				if t.Has(call.Call.Args[1]) {
					nQuoted++
				}
				return
			}
			if args, isApp := an.IsBuiltinCall(call, "append"); isApp && len(args) == 2 && t.Has(args[1]) {
				c.Fail("H2", "raw-append("+an.StablePath(args[1])+")"+where, in.Pos(),
					"a command word / environment value is appended to the command line without going through appendShellSafeQuote")
			}
			// raw values or the environment handed to a private helper: analysed there
			if h := call.Call.StaticCallee(); h != nil && inFam[h] && h != fn {
				ns := argSources(taintOf(fn, src, nil, false), src, call, h)
				if len(ns.vals)+len(ns.envs) > 0 {
					if old := todo[h]; old != nil {
						for k := range ns.vals {
							old.vals[k] = true
						}
						for k := range ns.envs {
							old.envs[k] = true
						}
					} else {
						todo[h] = ns
					}
				}
			}
		})
		an.Instrs(fn, func(in ssa.Instruction) {
			if b, ok := in.(*ssa.BinOp); ok && b.Op == token.ADD && (t.Has(b.X) || t.Has(b.Y)) && b.Type().String() == "string" {
				c.Fail("H2", "raw-concat"+where, in.Pos(), "a value is concatenated into the command line without quoting")
			}
		})
	}
	c.Floor("H2", "range over the environment map in formatArgs or its private helpers", nVals, 1)
	c.Check("H2", "values-quoted@formatArgs", formatArgs.Pos(), nQuoted >= 3,
		fmt.Sprintf("the command, every argv element and every environment value must be passed to appendShellSafeQuote (%d quoting sites with a value operand)", nQuoted))
	// jobScript parameter table
	pairs := arrayPairs(jobScript)
	want := map[string]string{"__MRO_STDOUT__": "shellSafeQuote", "__MRO_STDERR__": "shellSafeQuote", "__MRO_JOB_WORKDIR__": "shellSafeQuote", "__MRO_CMD__": "formatArgs"}
	for name, via := range want {
		v, ok := pairs[name]
		if !ok {
			c.Undecided("H2", "param("+name+")@jobScript", jobScript.Pos(), "placeholder not found in the params table")
			continue
		}
		okVia := false
		if call, isCall := v.(*ssa.Call); isCall && call.Call.StaticCallee() != nil && call.Call.StaticCallee().Name() == via {
			okVia = true
		}
		c.Check("H2", "param("+name+" via "+via+")@jobScript", v.Pos(), okVia,
			"the value substituted for "+name+" must be the result of "+via+"(...)")
	}
	// formatArgs receives the thread environment and the caller's argv/shellCmd
	for _, call := range callsTo(jobScript, formatArgs) {
		args := call.Common().Args
		okEnv := false
		if ec, isCall := args[0].(*ssa.Call); isCall && ec.Call.StaticCallee() != nil && ec.Call.StaticCallee().Name() == "threadEnvs" {
			okEnv = true
		}
		okCmd := args[1] == ssa.Value(paramNamed(jobScript, "shellCmd")) && args[2] == ssa.Value(paramNamed(jobScript, "argv"))
		c.Check("H2", "formatArgs-inputs@jobScript", call.Pos(), okEnv && okCmd,
			"the command line must be built from threadEnvs(...), shellCmd and argv as given")
	}

	c18SinglePass(c, jobScript)
	// ---------------- H3 ----------------
	files, _ := filepath.Glob(filepath.Join(p.Repo, "jobmanagers", "*.template*"))
	sort.Strings(files)
	n := 0
	for _, f := range files {
		data, err := os.ReadFile(f)
		if err != nil {
			continue
		}
		rel := strings.TrimPrefix(f, p.Repo+"/")
		for i, line := range strings.Split(string(data), "\n") {
			idx := strings.Index(line, "__MRO_CMD__")
			if idx < 0 {
				continue
			}
			n++
			trim := strings.TrimSpace(line)
			inDirective := strings.HasPrefix(trim, "#")
			before := line[:idx]
			dq := strings.Count(before, `"`) - strings.Count(before, `\"`)
			sq := strings.Count(before, `'`)
			ok := !inDirective && dq%2 == 0 && sq%2 == 0
			c.Check("H3", "cmd-placeholder-in-word-position@"+rel, token.NoPos, ok,
				fmt.Sprintf("%s:%d: __MRO_CMD__ must stand unquoted in command position (directive=%v, open double quotes=%d, open single quotes=%d)", rel, i+1, inDirective, dq%2, sq%2))
		}
	}
	c.Floor("H3", "templates containing __MRO_CMD__", n, 8)
	// H3b: the placeholders whose values jobScript substitutes already wrapped in double quotes
	// (shellSafeQuote results: STDOUT, STDERR, JOB_WORKDIR) stand outside quotes on shell lines.
	// Quoting them again in the template ("__MRO_STDOUT__") closes the quote before the value and
	// opens it after: the path itself is then unquoted and blanks, ;, &, ( in a pipestance path are
	// interpreted by the shell (round 9).
	nb := 0
	for _, f := range files {
		data, err := os.ReadFile(f)
		if err != nil {
			continue
		}
		rel := strings.TrimPrefix(f, p.Repo+"/")
		for i, line := range strings.Split(string(data), "\n") {
			if strings.HasPrefix(strings.TrimSpace(line), "#") {
				continue // a scheduler directive or comment: not parsed by the shell
			}
			for _, ph := range []string{"__MRO_STDOUT__", "__MRO_STDERR__", "__MRO_JOB_WORKDIR__"} {
				idx := strings.Index(line, ph)
				if idx < 0 {
					continue
				}
				nb++
				before := line[:idx]
				dq := strings.Count(before, `"`) - strings.Count(before, `\"`)
				sq := strings.Count(before, `'`)
				c.Check("H3", "quoted-value-placeholder-outside-quotes("+ph+")@"+rel, token.NoPos, dq%2 == 0 && sq%2 == 0,
					fmt.Sprintf("%s:%d: %s is replaced by a value that is already wrapped in double quotes; inside quotes of the template the value ends up OUTSIDE any quoting and the shell splits or interprets a path containing a blank, ;, & or (", rel, i+1, ph))
			}
		}
	}
	c.Floor("H3", "shell-line uses of quoted-value placeholders in the templates", nb, 1)
}

func paramNamed(fn *ssa.Function, name string) *ssa.Parameter {
	for _, p := range fn.Params {
		if p.Name() == name {
			return p
		}
	}
	return nil
}

// appendedConst concatenates the constant strings / bytes appended in block b.
func appendedConst(b *ssa.BasicBlock) string { return appendedConstWith(b, nil, 0) }

// appendedConstWith: as appendedConst; a non-constant byte that is (a conversion of) the value `self`
// - the rune the arm was selected for - is rendered as selfRune (append(buf, '\\', byte(r)) in an arm
// shared by several runes emits the backslash followed by the rune itself).
func appendedConstWith(b *ssa.BasicBlock, self ssa.Value, selfRune rune) string {
	var sb strings.Builder
	isSelf := func(v ssa.Value) bool {
		if self == nil {
			return false
		}
		for i := 0; i < 4; i++ {
			if v == self {
				return true
			}
			switch x := v.(type) {
			case *ssa.Convert:
				v = x.X
			case *ssa.ChangeType:
				v = x.X
			default:
				return false
			}
		}
		return false
	}
	for _, in := range b.Instrs {
		call, ok := in.(*ssa.Call)
		if !ok {
			continue
		}
		args, isApp := an.IsBuiltinCall(call, "append")
		if !isApp || len(args) != 2 {
			continue
		}
		if cv, ok := an.ConstVal(args[1]); ok && cv.Kind() == constant.String {
			sb.WriteString(constant.StringVal(cv))
			continue
		}
		// append(buf, 'x') : slice of a fresh array with constant stores
		if sl, ok := args[1].(*ssa.Slice); ok {
			if al, ok := sl.X.(*ssa.Alloc); ok {
				for _, r := range an.Referrers(al) {
					if ia, ok := r.(*ssa.IndexAddr); ok {
						for _, r2 := range an.Referrers(ia) {
							if st, ok := r2.(*ssa.Store); ok {
								if cv, ok := an.ConstVal(st.Val); ok && cv.Kind() == constant.Int {
									v, _ := constant.Int64Val(cv)
									sb.WriteRune(rune(v))
								} else if isSelf(st.Val) {
									sb.WriteRune(selfRune)
								}
							}
						}
					}
				}
			}
		}
	}
	return sb.String()
}

func blockAppendsByte(b *ssa.BasicBlock, ch byte) bool {
	return strings.Contains(appendedConst(b), string(rune(ch)))
}

// arrayPairs collects {key constant -> value} for [...][2]string literals in fn.
func arrayPairs(fn *ssa.Function) map[string]ssa.Value {
	out := map[string]ssa.Value{}
	type pair struct{ k, v ssa.Value }
	elems := map[ssa.Value]*pair{}
	an.Instrs(fn, func(in ssa.Instruction) {
		st, ok := in.(*ssa.Store)
		if !ok {
			return
		}
		inner, ok := st.Addr.(*ssa.IndexAddr)
		if !ok {
			return
		}
		outer, ok := inner.X.(*ssa.IndexAddr)
		if !ok {
			return
		}
		pr := elems[outer]
		if pr == nil {
			pr = &pair{}
			elems[outer] = pr
		}
		if an.IsIntConst(inner.Index, 0) {
			pr.k = st.Val
		} else if an.IsIntConst(inner.Index, 1) {
			pr.v = st.Val
		}
	})
	for _, pr := range elems {
		if pr.k == nil || pr.v == nil {
			continue
		}
		if cv, ok := an.ConstVal(pr.k); ok && cv.Kind() == constant.String {
			out[constant.StringVal(cv)] = pr.v
		}
	}
	return out
}
