package props

import (
	"fmt"
	"go/token"
	"sort"
	"strings"

	"mrocheck/an"

	"golang.org/x/tools/go/ssa"
)

// X5: the list of disabling conditions of a call graph node (CallGraphStage.Disable) is shared:
// a child starts from its parent's list and sibling calls start from the same parent list.  The
// list may therefore never be extended in place - append(shared, x) writes into the spare capacity
// of the parent's backing array, where a sibling's own condition is (or will be) stored, so one
// call ends up disabled by another call's condition (a job is skipped, or runs although disabled).
//
// May-alias analysis over package syntax: values that may share the backing array of some node's
// Disable field (loads of the field, their two-index sub-slices, phis, parameters they are passed
// to, results of functions that return such a value) must not be the first operand of append.
// A three-index slice x[a:b:c] and copy() into a fresh slice break the alias.
func ruleX5(c *an.Ctx) {
	p := c.P
	disable := p.Field(pkgSyntax, "CallGraphStage", "Disable")
	if disable == nil {
		c.Undecided("X5", "anchor(CallGraphStage.Disable)", token.NoPos, "field not found")
		return
	}
	fns := p.FuncsOf(pkgSyntax)
	inPkg := map[*ssa.Function]bool{}
	for _, f := range fns {
		inPkg[f] = true
	}
	alias := map[ssa.Value]bool{}
	retAlias := map[*ssa.Function]map[int]bool{}
	nLoads := 0
	for _, fn := range fns {
		an.Instrs(fn, func(in ssa.Instruction) {
			if u, ok := in.(*ssa.UnOp); ok && u.Op == token.MUL {
				if _, f := an.FieldOfAddr(u.X); f == disable {
					alias[u] = true
					nLoads++
				}
			}
			if fv, ok := in.(*ssa.Field); ok {
				if _, f := an.FieldLoad(fv); f == disable {
					alias[fv] = true
					nLoads++
				}
			}
		})
	}
	changed := true
	mark := func(v ssa.Value) {
		if v != nil && !alias[v] {
			alias[v] = true
			changed = true
		}
	}
	for iter := 0; changed && iter < 50; iter++ {
		changed = false
		for _, fn := range fns {
			an.Instrs(fn, func(in ssa.Instruction) {
				switch x := in.(type) {
				case *ssa.Phi:
					for _, e := range x.Edges {
						if alias[e] {
							mark(x)
						}
					}
				case *ssa.Slice:
					if alias[x.X] && x.Max == nil {
						mark(x)
					}
				case *ssa.ChangeType:
					if alias[x.X] {
						mark(x)
					}
				case *ssa.Extract:
					if call, ok := x.Tuple.(*ssa.Call); ok {
						if f := call.Call.StaticCallee(); f != nil && retAlias[f][x.Index] {
							mark(x)
						}
					}
				case *ssa.Call:
					f := x.Call.StaticCallee()
					if f == nil || !inPkg[f] {
						return
					}
					args := x.Call.Args
					for i, a := range args {
						if alias[a] && i < len(f.Params) {
							mark(f.Params[i])
						}
					}
					if retAlias[f][0] && f.Signature.Results().Len() == 1 {
						mark(x)
					}
				case *ssa.Return:
					for i, r := range x.Results {
						if alias[r] {
							if retAlias[fn] == nil {
								retAlias[fn] = map[int]bool{}
							}
							if !retAlias[fn][i] {
								retAlias[fn][i] = true
								changed = true
							}
						}
					}
				}
			})
		}
	}
	c.Floor("X5", "loads of CallGraphStage.Disable in package syntax", nLoads, 1)
	var carriers []string
	for f := range retAlias {
		carriers = append(carriers, an.FnName(f))
	}
	sort.Strings(carriers)
	c.Note("X5: functions that may return (a sub-slice of) a node's Disable list: %s", strings.Join(carriers, ", "))
	c.Floor("X5", "functions through which a node's Disable list flows", len(carriers), 1)
	nApp := 0
	for _, fn := range fns {
		an.Instrs(fn, func(in ssa.Instruction) {
			call, ok := in.(*ssa.Call)
			if !ok {
				return
			}
			args, isApp := an.IsBuiltinCall(call, "append")
			if !isApp || len(args) == 0 || !alias[args[0]] {
				return
			}
			nApp++
			c.Fail("X5", "no-in-place-extension("+an.StablePath(args[0])+")@"+an.FnName(fn), call.Pos(),
				"append's first operand may share the backing array of another call graph node's Disable list (the parent's list is handed to every child); extending it in place lets sibling calls overwrite each other's disabling condition - copy into a fresh slice first")
		})
	}
	if nApp == 0 {
		c.Pass("X5", "no-in-place-extension(CallGraphStage.Disable)", token.NoPos,
			fmt.Sprintf("no append in package syntax takes a possibly shared Disable list as its first operand (%d aliasing values tracked through %d functions)", len(alias), len(carriers)))
	}
}
