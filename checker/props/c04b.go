package props

import (
	"go/token"

	"strings"

	"mrocheck/an"

	"golang.org/x/tools/go/ssa"
)

// V9: the type-less projection used by the VDR bookkeeping walks through both kinds of
// collection.  Which files an argument keeps alive is found by applying the bound output path
// (`m.f`) to the producer's `_outs` with jsonPath, which has no type information.  A path
// component applied to an array is applied to every element; a typed map (`map<S>`) is the other
// collection the language projects through, and its JSON form is an object like a struct's.
// If the object arm only ever looks the component up as a key, `PRODUCE.m.f` with `m: map<S>`
// resolves to null, the argument is taken to hold no files, the consumer leaves the waiting set
// and the producer's files are deleted before the consumer starts.
// Necessary condition: the family of jsonPath contains a recursive application of the remaining
// path inside a loop over the entries of a decoded object (range over a map) - as it does inside
// a loop over the elements of a decoded array.
func ruleV9(c *an.Ctx) {
	p := c.P
	root := c.NeedFunc(pkgCore, "jsonPath")
	if root == nil {
		return
	}
	root = delegateOf(root)
	// the family: functions of the package reachable from jsonPath (depth 3) that can call back into it
	// (the method of the same name, and helpers a loop was extracted into)
	reach := map[*ssa.Function]int{root: 0}
	queue := []*ssa.Function{root}
	for i := 0; i < len(queue); i++ {
		f := queue[i]
		if reach[f] >= 3 {
			continue
		}
		an.Instrs(f, func(in ssa.Instruction) {
			if cl := an.AsCallAny(in); cl != nil {
				g := cl.Common().StaticCallee()
				if g != nil && g.Blocks != nil && g.Pkg == root.Pkg {
					if _, seen := reach[g]; !seen {
						reach[g] = reach[f] + 1
						queue = append(queue, g)
					}
				}
			}
		})
	}
	fam := map[*ssa.Function]bool{root: true}
	for changed := true; changed; {
		changed = false
		for f := range reach {
			if fam[f] {
				continue
			}
			an.Instrs(f, func(in ssa.Instruction) {
				if cl := an.AsCallAny(in); cl != nil && fam[cl.Common().StaticCallee()] && !fam[f] {
					fam[f] = true
					changed = true
				}
			})
		}
	}
	var order []*ssa.Function
	for _, f := range queue {
		if fam[f] {
			order = append(order, f)
		}
	}
	_ = p
	inMapLoop, inOtherLoop := false, false
	for _, fn := range order {
		mapBlocks := map[*ssa.BasicBlock]bool{}
		for _, l := range an.FindMapLoops(fn) {
			for b := range l.Blocks {
				mapBlocks[b] = true
			}
		}
		loopBlocks := map[*ssa.BasicBlock]bool{}
		for _, body := range naturalLoops(fn) {
			for b := range body {
				loopBlocks[b] = true
			}
		}
		an.Instrs(fn, func(in ssa.Instruction) {
			cl, ok := in.(*ssa.Call)
			if !ok || cl.Call.StaticCallee() == nil || !fam[cl.Call.StaticCallee()] {
				return
			}
			if mapBlocks[in.Block()] {
				inMapLoop = true
			} else if loopBlocks[in.Block()] {
				inOtherLoop = true
			}
		})
	}
	c.Check("V9", "projection-applied-to-every-array-element@jsonPath", root.Pos(), inOtherLoop,
		"the remaining path is applied to each element of a decoded array")
	c.Check("V9", "projection-applied-to-every-map-entry@jsonPath", root.Pos(), inMapLoop,
		"the object arm of jsonPath only looks the next path component up as a key and never applies the remaining path to the entries of the object: a file member projected through a typed map (PRODUCE.m.f with m: map<S>) resolves to null, the argument is dropped from the keep-alive bookkeeping and the producer's files are removed before the consumer starts")
}

// V7c: both sides of the file/argument match use the complete set of logical names.  Whether a file
// found in a stage's files directory is kept alive by an argument is decided by anyOverlap(names,
// files): `files` holds every logical name of the paths the arguments mention
// (getLogicalFileNames on the argument side), `names` must hold every logical name of the walked
// file.  If the walked side is abbreviated (only the literal path for "plain" files), a file that
// an argument spells by another route - through a symlinked ancestor directory - no longer
// matches, its keep-alive set is empty and VDR deletes it while it is still needed.
// Necessary condition: the first argument of every anyOverlap call is a getLogicalFileNames
// result on all paths (through phis and helpers all of whose returns are such results).
func ruleV7c(c *an.Ctx) {
	p := c.P
	overlap := p.Func(pkgCore, "anyOverlap")
	logical := c.NeedFunc(pkgCore, "getLogicalFileNames")
	if overlap == nil || logical == nil {
		c.Info("V7", "names-complete(anyOverlap)", 0, "anyOverlap not found: not decided")
		return
	}
	var complete func(v ssa.Value, d int) (bool, string)
	complete = func(v ssa.Value, d int) (bool, string) {
		if d > 5 {
			return false, "derivation too deep"
		}
		switch x := v.(type) {
		case *ssa.Call:
			h := x.Call.StaticCallee()
			if h == logical {
				return true, ""
			}
			if h == nil || h.Blocks == nil || h.Pkg != logical.Pkg {
				return false, "result of a call that is not getLogicalFileNames"
			}
			n, ok, why := 0, true, ""
			an.Instrs(h, func(in ssa.Instruction) {
				if r, isRet := in.(*ssa.Return); isRet && len(r.Results) > 0 && ok {
					n++
					if good, w := complete(an.RetVal(r, 0), d+1); !good {
						ok, why = false, "helper "+an.FnName(h)+" returns (line "+c.P.Pos(r.Pos())+") "+w
					}
				}
			})
			return ok && n > 0, why
		case *ssa.Phi:
			for _, e := range x.Edges {
				if good, w := complete(e, d+1); !good {
					return false, w
				}
			}
			return true, ""
		case *ssa.Slice:
			return false, "a literal list of names that is not the result of getLogicalFileNames"
		}
		return false, "a value that is not the result of getLogicalFileNames"
	}
	n := 0
	seenCall := map[ssa.CallInstruction]bool{}
	for _, fn := range coreFns(c) {
		for _, g := range an.WithAnon(fn) {
			for _, cl := range callsTo(g, overlap) {
				if seenCall[cl] {
					continue
				}
				seenCall[cl] = true
				n++
				good, why := complete(cl.Common().Args[0], 0)
				c.Check("V7", "walked-file-matched-by-all-its-logical-names@"+an.FnName(g), cl.Pos(), good,
					"the names of a walked file handed to anyOverlap are "+why+": a file that an argument names through a different but equivalent path (symlinked ancestor) is not matched, loses its keep-alive set and is deleted while still needed")
			}
		}
	}
	c.Floor("V7", "anyOverlap calls", n, 1)
}

// V10: a value declared as a typed map is projected through its values even when one of its keys
// is spelled like the member being projected.  Without type information the object arm of the
// projection takes an object that HAS the next path component as a key for a struct; with
// `out map<S> m` and run-time keys {"f","g"} the argument `m.f` then resolved to m["f"] alone, the
// files under "g" had no consumer on record and strict VDR removed them before the reader of
// PRODUCE.m.f started (genuine defect of round 9, a consequence of the repair made for V9).
// Necessary condition: where the projection family has a type parameter, the struct-style lookup
// (the call of the method form on the decoded object) is dominated by the failed assertion of
// that type to *TypedMapType.
func ruleV10(c *an.Ctx) {
	root := c.P.Func(pkgCore, "jsonPath")
	if root == nil {
		c.Info("V10", "anchor(jsonPath)", 0, "not found: not decided")
		return
	}
	fn := delegateOf(root)
	hasType := false
	for _, prm := range fn.Params {
		if nm, _ := derefNamed(prm.Type()); nm == "Type" {
			hasType = true
		}
	}
	if !hasType {
		c.Fail("V10", "declared-typed-map-is-projected-through-its-values@jsonPath", fn.Pos(),
			"the projection used for the keep-alive bookkeeping has no access to the declared type of the outputs: an object that has the projected member's name among its keys is taken for a struct, so for `out map<S> m` with a key named like a member of S only that entry's files are kept alive")
		return
	}
	n := 0
	an.Instrs(fn, func(in ssa.Instruction) {
		cl, ok := in.(*ssa.Call)
		if !ok {
			return
		}
		h := cl.Call.StaticCallee()
		if h == nil || h.Signature.Recv() == nil || !strings.Contains(h.Signature.Recv().Type().String(), "LazyArgumentMap") || !strings.Contains(strings.ToLower(h.Name()), "jsonpath") {
			return
		}
		n++
		g, _ := an.GuardedBy(cl, func(r an.Rel) bool {
			if r.Op != token.ILLEGAL || r.Truth {
				return false
			}
			ex, ok := r.X.(*ssa.Extract)
			if !ok || ex.Index != 1 {
				return false
			}
			ta, ok := ex.Tuple.(*ssa.TypeAssert)
			if !ok {
				return false
			}
			nm, _ := derefNamed(ta.AssertedType)
			return nm == "TypedMapType"
		})
		c.Check("V10", "declared-typed-map-is-projected-through-its-values@"+an.FnName(fn), cl.Pos(), g,
			"the struct-style lookup of the next path component is made although the declared type may be a typed map: with `out map<S> m` and a run-time key named like a member of S, `m.f` resolves to that one entry, the other entries' files lose their consumer and are removed before it starts")
	})
	if n == 0 {
		c.Info("V10", "anchor(struct-style lookup in the projection)", 0, "not found: not decided")
	}
}
