package props

import (
	"fmt"
	"go/constant"
	"go/token"
	"go/types"
	"regexp"
	"sort"
	"strings"

	"mrocheck/an"

	"golang.org/x/tools/go/ssa"
)

func init() {
	Registry["C09"] = Entry{
		Run: runC09,
		Explanation: "Decides structural necessary conditions of 'formatting preserves the program': " +
			"Q1 unquote/quote agreement: the set U of AST fields whose value derives from unquote() in the grammar actions is computed from grammar.go; in the functions reachable from Ast.format every value loaded from a field in U reaches the output only through quoteString (never through a raw write), " +
			"Q2 quoteString copies a byte unescaped only if it is >= 0x20 and neither a double quote nor a backslash, and every escape form it emits is accepted by the lexer's string rule (regexp constant from tokenizer.go) and has an arm in unquoteBytes, " +
			"Q5 every path through CallStm.format looks at each keyword modifier flag (Local, Preflight, Volatile) or crosses Modifiers == nil (must-pass-through with predicate helpers expanded): a path that does not prints the same text with and without the keyword, " +
			"Q6 the same for a frozen table of 56 content-carrying AST fields and their node's format method. " +
			"Q7 while the compiler appends the bindings generated for a wildcard to the same list, every printing loop of BindStms.format leaves on Id == \"*\". " +
			"Q8-Q10 every comment list of a call, retain entry and collection element is printed exactly once on every path; Q11 the in-place topological sort re-examines the slot it filled by shifting (index not advanced on that back edge). " +
			"Q12 the comments attached to the operand of a split are printed. " +
			"Q13 nil is stored into a node's comment fields only after they were read on every path; Q16 comments handed from a container to its first entry are cleared on the container; Q17 the comments of an empty binding list are printed by CallStm.format; Q14 roundUpTo takes the ceiling only after establishing that the value is not already a multiple; Q15 the float->integer conversion in formatGB is dominated by an upper bound. " +
			"Q18 formatGB writes '-' on the edge where its parameter is negative. " +
			"Q19 a parseHexByte result is stored as a raw byte only under the 'x' escape. " +
			"Q20 FloatExp.format consults math.Signbit. " +
			"NOT decided: idempotence, comment placement, number printing, topological order, include-expanded rendering.",
		Assumptions: commonAssumptions,
	}
}

func runC09(c *an.Ctx) {
	p := c.P
	mmParse := c.NeedFunc(pkgSyntax, "mmParse")
	astFormat := c.NeedFunc(pkgSyntax, "(*Ast).format")
	quote := c.NeedFunc(pkgSyntax, "quoteString")
	if mmParse == nil || astFormat == nil || quote == nil {
		return
	}
	// ---------------- U: fields fed by unquote ----------------
	t := an.NewTaint(0, nil)
	var gfns []*ssa.Function
	for _, gfn := range p.FuncsOf(pkgSyntax) {
		file := p.Fset.Position(gfn.Pos()).Filename
		if strings.HasSuffix(file, "grammar.go") || strings.HasSuffix(file, "grammar.y") {
			gfns = append(gfns, gfn)
		}
	}
	t.IndexFields(gfns)
	nUnq := 0
	for _, gfn := range gfns {
		an.Instrs(gfn, func(in ssa.Instruction) {
			cl, ok := in.(*ssa.Call)
			if !ok || cl.Call.StaticCallee() == nil {
				return
			}
			if n := cl.Call.StaticCallee().Name(); n == "unquote" {
				nUnq++
				t.Add(cl)
			}
		})
	}
	c.Floor("Q1", "unquote call sites in the grammar actions", nUnq, 4)
	t.Run()
	U := map[*types.Var]bool{}
	var uNames []string
	for f := range t.Fields {
		// only string-carrying fields of package syntax
		if f.Pkg() == nil || f.Pkg().Path() != syntaxPath {
			continue
		}
		ts := f.Type().String()
		if ts == "string" || ts == "[]string" || strings.HasPrefix(ts, "map[string]") {
			U[f] = true
		}
	}
	for f := range U {
		uNames = append(uNames, fieldOwner(p, f)+"."+f.Name())
	}
	sort.Strings(uNames)
	c.Note("fields parsed with unquote: %s", strings.Join(uNames, " "))
	c.Floor("Q1", "AST fields fed by unquote", len(U), 6)

	// ---------------- format side ----------------
	reach := reachableIn(p, astFormat, syntaxPath)
	c.Floor("Q1", "functions reachable from Ast.format", len(reach), 20)
	isRawWrite := func(in ssa.Instruction) (ssa.CallInstruction, []ssa.Value, bool) {
		cl, ok := in.(ssa.CallInstruction)
		if !ok {
			return nil, nil, false
		}
		var name string
		var args []ssa.Value
		if cl.Common().IsInvoke() {
			name = cl.Common().Method.Name()
			args = cl.Common().Args
		} else if f := cl.Common().StaticCallee(); f != nil {
			name = f.Name()
			args = cl.Common().Args
		} else {
			return nil, nil, false
		}
		switch name {
		case "mustWriteString", "mustWrite", "WriteString", "Write", "mustWriteRune", "WriteRune", "mustWriteByte", "WriteByte",
			"Fprintf", "Fprint", "Fprintln":
			return cl, args, true
		}
		return nil, nil, false
	}
	nLoads, nQuoted := 0, 0
	var fnsSorted []*ssa.Function
	for fn := range reach {
		fnsSorted = append(fnsSorted, fn)
	}
	sort.Slice(fnsSorted, func(i, j int) bool { return fnsSorted[i].Pos() < fnsSorted[j].Pos() })
	for _, fn := range fnsSorted {
		if fn == quote {
			continue
		}
		ft := an.NewTaint(0, nil)
		ft.NoKeyFlow = false
		ft.Sanitizers = map[*ssa.Function]bool{quote: true}
		srcField := map[ssa.Value]*types.Var{}
		an.Instrs(fn, func(in ssa.Instruction) {
			switch x := in.(type) {
			case *ssa.FieldAddr:
				if _, f := an.FieldOfAddr(x); f != nil && U[f] {
					ft.Add(x)
					srcField[x] = f
					nLoads++
				}
			case *ssa.Field:
				if _, f := an.FieldLoad(x); f != nil && U[f] {
					ft.Add(x)
					srcField[x] = f
					nLoads++
				}
			}
		})
		if len(srcField) == 0 {
			continue
		}
		ft.Run()
		an.Instrs(fn, func(in ssa.Instruction) {
			if cl, ok := in.(*ssa.Call); ok && cl.Call.StaticCallee() == quote && len(cl.Call.Args) == 2 && ft.Has(cl.Call.Args[1]) {
				nQuoted++
			}
			cl, args, ok := isRawWrite(in)
			if !ok {
				return
			}
			for _, a := range args {
				if !ft.Has(a) {
					continue
				}
				ts := a.Type().String()
				if ts != "string" && ts != "[]byte" && !strings.HasSuffix(ts, "interface{}") {
					continue
				}
				// which field?
				var names []string
				for v, f := range srcField {
					tt := an.NewTaint(0, nil)
					tt.Sanitizers = map[*ssa.Function]bool{quote: true}
					tt.Add(v)
					tt.Run()
					if tt.Has(a) {
						names = append(names, fieldOwner(p, f)+"."+f.Name())
					}
				}
				sort.Strings(names)
				names = uniqStr(names)
				if len(names) == 1 && names[0] == "MapExp.Value" {
					kindF := p.Field(pkgSyntax, "MapExp", "Kind")
					g, _ := an.GuardedBy(in, func(r an.Rel) bool {
						return r.Op == token.EQL && an.LoadsField(r.X, kindF) && an.IsConst(r.Y, p.Const(pkgSyntax, "KindStruct"))
					})
					if g {
						c.Pass("Q1", "raw-write(MapExp.Value under Kind==KindStruct)@"+an.FnName(fn), cl.Pos(),
							"struct literal keys are identifiers (grammar: id, not unquote) and are written bare only under e.Kind == KindStruct")
						continue
					}
				}
				c.Fail("Q1", "raw-write("+strings.Join(names, ",")+")@"+an.FnName(fn), cl.Pos(),
					"a string that the parser obtains with unquote() is written between raw quotes: a quote, backslash or control character in it yields text that re-parses differently or not at all; emit it with quoteString")
			}
		})
	}
	c.Floor("Q1", "loads of unquoted fields in the formatter", nLoads, 1)
	c.Check("Q1", "unquoted-fields-emitted-through-quoteString", astFormat.Pos(), nQuoted >= 6,
		fmt.Sprintf("values of unquoted fields passed to quoteString at %d site(s)", nQuoted))

	// ---------------- Q2 ----------------
	ruleQ2(c, quote)
	ruleQ5(c)
	ruleQ6(c)
	ruleQ7(c)
	ruleQ8Q10(c)
	ruleTopoIndex(c, "Q11")
	ruleQ12(c)
	ruleQ13(c)
	ruleQ14(c)
	ruleQ15(c)
	ruleQ16(c)
	ruleQ17(c)
	ruleQ18(c)
	ruleQ19(c)
	ruleQ20(c)
}

func fieldOwner(p *an.Prog, f *types.Var) string {
	pk := p.Pkg(pkgSyntax)
	if pk == nil {
		return "?"
	}
	sc := pk.Types.Scope()
	for _, name := range sc.Names() {
		tn, ok := sc.Lookup(name).(*types.TypeName)
		if !ok {
			continue
		}
		st, ok := tn.Type().Underlying().(*types.Struct)
		if !ok {
			continue
		}
		for i := 0; i < st.NumFields(); i++ {
			if st.Field(i) == f {
				return name
			}
		}
	}
	return "?"
}

// reachableIn: functions of package pkgPath reachable from root in the call graph.
func reachableIn(p *an.Prog, root *ssa.Function, pkgPath string) map[*ssa.Function]bool {
	out := map[*ssa.Function]bool{}
	cg := p.CG()
	var walk func(fn *ssa.Function)
	walk = func(fn *ssa.Function) {
		if out[fn] {
			return
		}
		pk := fn.Package()
		if pk == nil && fn.Origin() != nil {
			pk = fn.Origin().Package()
		}
		if pk == nil || pk.Pkg.Path() != pkgPath {
			return
		}
		out[fn] = true
		n := cg.Nodes[fn]
		if n == nil {
			return
		}
		for _, e := range n.Out {
			walk(e.Callee.Func)
		}
		for _, a := range fn.AnonFuncs {
			walk(a)
		}
	}
	walk(root)
	return out
}

func ruleQ2(c *an.Ctx, quote *ssa.Function) {
	p := c.P
	// the byte under examination: s[i] loads of the string parameter
	sParam := quote.Params[1]
	isByte := func(v ssa.Value) bool {
		switch x := v.(type) {
		case *ssa.Lookup:
			return x.X == ssa.Value(sParam)
		case *ssa.Index:
			return x.X == ssa.Value(sParam)
		}
		return false
	}
	// escape writes: a write of the backslash byte or of a string constant starting with a backslash
	var isEscapeWrite func(in ssa.Instruction) bool
	isEscapeWrite = func(in ssa.Instruction) bool {
		cl, ok := in.(*ssa.Call)
		if !ok || cl.Call.StaticCallee() == nil {
			return false
		}
		switch cl.Call.StaticCallee().Name() {
		case "mustWriteByte":
			return an.IsIntConst(cl.Call.Args[1], '\\')
		case "mustWriteString":
			cv, ok := an.ConstVal(cl.Call.Args[1])
			return ok && cv.Kind() == constant.String && strings.HasPrefix(constant.StringVal(cv), `\`)
		}
		// a private helper that writes the escape on every path (writeJsonByteEscape(w, b))
		if h := cl.Call.StaticCallee(); h.Blocks != nil && h.Pkg == quote.Pkg && h != quote {
			md := &an.MustDo{Pred: func(x ssa.Instruction) bool {
				c2, ok := x.(*ssa.Call)
				if !ok || c2.Call.StaticCallee() == nil {
					return false
				}
				switch c2.Call.StaticCallee().Name() {
				case "mustWriteByte":
					return an.IsIntConst(c2.Call.Args[1], '\\')
				case "mustWriteString":
					cv, ok := an.ConstVal(c2.Call.Args[1])
					return ok && cv.Kind() == constant.String && strings.HasPrefix(constant.StringVal(cv), `\`)
				}
				return false
			}, Depth: 1}
			return md.Fn(h)
		}
		return false
	}
	// loop header = block that contains the comparison i < len(s)
	var header *ssa.BasicBlock
	for _, b := range quote.Blocks {
		for _, in := range b.Instrs {
			if bo, ok := in.(*ssa.BinOp); ok && bo.Op == token.LSS {
				if args, isLen := an.IsBuiltinCall(bo.Y, "len"); isLen && args[0] == ssa.Value(sParam) {
					if _, isPhi := bo.X.(*ssa.Phi); isPhi {
						header = b
					}
				}
			}
		}
	}
	if header == nil {
		c.Undecided("Q2", "scan-loop@quoteString", quote.Pos(), "loop over the bytes of s not found")
		return
	}
	// single-byte branch: edge where b < RuneSelf (0x80)
	type guard struct {
		name string
		pred func(an.Rel) bool
	}
	// the byte may have been handed to a predicate helper (isPlainJsonByte(b)): r.Arg maps the
	// helper's parameter back to the caller's value
	isB := func(r an.Rel) bool { return isByte(r.X) || isByte(r.Arg(r.X)) }
	guards := []guard{
		{"b >= 0x20", func(r an.Rel) bool {
			return (r.Op == token.GEQ && isB(r) && an.IsIntConst(r.Y, 0x20)) || (r.Op == token.GTR && isB(r) && an.IsIntConst(r.Y, 0x1f))
		}},
		{`b != '"'`, func(r an.Rel) bool { return r.Op == token.NEQ && isB(r) && an.IsIntConst(r.Y, '"') }},
		{`b != '\\'`, func(r an.Rel) bool { return r.Op == token.NEQ && isB(r) && an.IsIntConst(r.Y, '\\') }},
	}
	n := 0
	for _, b := range quote.Blocks {
		for _, s := range b.Succs {
			cnd, t, ok := an.EdgeCond(b, s)
			if !ok {
				continue
			}
			r := an.Normalize(cnd, t)
			if !(r.Op == token.LSS && isByte(r.X) && an.IsIntConst(r.Y, 0x80)) {
				continue
			}
			n++
			for _, g := range guards {
				g := g
				// from the top of s: reach the loop header again without an escape write and without crossing g
				found := findFrom(s, func(in ssa.Instruction) bool { return in.Block() == header && in == header.Instrs[0] },
					isEscapeWrite, func(from, to *ssa.BasicBlock) bool {
						return an.EdgeHolds(from, to, g.pred)
					})
				c.Check("Q2", "raw-copy-requires("+g.name+")@quoteString", s.Instrs[0].Pos(), !found,
					"an ASCII byte may be copied unescaped only if "+g.name+" (otherwise the lexer's string rule reads it differently)")
			}
		}
	}
	c.Floor("Q2", "single-byte branch in quoteString", n, 1)
	// emitted escape letters
	letters := map[byte]bool{}
	var strs []string
	letterHosts := []*ssa.Function{quote}
	for _, g := range familyOf(p, quote, 1) {
		if g != quote && g.Pkg == quote.Pkg {
			letterHosts = append(letterHosts, g)
		}
	}
	for _, lhost := range letterHosts {
		lhost := lhost
		an.Instrs(lhost, func(in ssa.Instruction) {
			cl, ok := in.(*ssa.Call)
			if !ok || cl.Call.StaticCallee() == nil {
				return
			}
			switch cl.Call.StaticCallee().Name() {
			case "mustWriteByte":
				if cv, ok := an.ConstVal(cl.Call.Args[1]); ok && cv.Kind() == constant.Int {
					v, _ := constant.Int64Val(cv)
					if v != '"' && v != '\\' {
						letters[byte(v)] = true
					}
				} else {
					// the letter may come out of a private lookup helper (byte -> escape letter): its
					// constant results are the letters
					sl := newSlice(lhost)
					sl.add(cl.Call.Args[1])
					for v := range sl.seen {
						hc, ok := v.(*ssa.Call)
						if !ok {
							continue
						}
						h := hc.Call.StaticCallee()
						if h == nil || h.Blocks == nil || h.Pkg != quote.Pkg {
							continue
						}
						an.Instrs(h, func(in2 ssa.Instruction) {
							r, ok := in2.(*ssa.Return)
							if !ok {
								return
							}
							if len(r.Results) == 0 {
								return
							}
							vals := []ssa.Value{r.Results[0]}
							if ph, ok := vals[0].(*ssa.Phi); ok {
								vals = ph.Edges
							}
							for _, rv := range vals {
								if cv, ok := an.ConstVal(rv); ok && cv.Kind() == constant.Int {
									v, _ := constant.Int64Val(cv)
									if v > 0 && v != '"' && v != '\\' {
										letters[byte(v)] = true
									}
								}
							}
						})
					}
				}
			case "mustWriteString":
				if cv, ok := an.ConstVal(cl.Call.Args[1]); ok && cv.Kind() == constant.String {
					s := constant.StringVal(cv)
					if strings.HasPrefix(s, `\`) && len(s) > 1 {
						letters[s[1]] = true
						strs = append(strs, s)
					}
				}
			}
		})
	}
	// the lexer's string rule
	var rule string
	initFns := append([]*ssa.Function{}, p.FuncsOf(pkgSyntax)...)
	if sp := p.SPkg(pkgSyntax); sp != nil {
		if f := sp.Func("init"); f != nil {
			initFns = append(initFns, f)
		}
	}
	for _, fn := range initFns {
		an.Instrs(fn, func(in ssa.Instruction) {
			cl, ok := in.(*ssa.Call)
			if !ok || cl.Call.StaticCallee() == nil || cl.Call.StaticCallee().Name() != "regexpRule" || len(cl.Call.Args) != 2 {
				return
			}
			if an.IsConst(cl.Call.Args[1], p.Const(pkgSyntax, "LITSTRING")) {
				if cv, ok := an.ConstVal(cl.Call.Args[0]); ok && cv.Kind() == constant.String {
					rule = constant.StringVal(cv)
				}
			}
		})
	}
	if rule == "" {
		c.Undecided("Q2", "tokStringRule", token.NoPos, "string token regular expression not found")
		return
	}
	re, err := regexp.Compile(rule)
	if err != nil {
		c.Undecided("Q2", "tokStringRule", token.NoPos, "cannot compile: "+err.Error())
		return
	}
	unq := c.NeedFunc(pkgSyntax, "unquoteBytes")
	var ls []string
	for l := range letters {
		ls = append(ls, string(l))
	}
	sort.Strings(ls)
	c.Floor("Q2", "escape letters emitted by quoteString", len(ls), 6)
	for _, l := range ls {
		sample := `"\` + l + `"`
		switch l {
		case "u":
			sample = `"\u001f"`
		}
		m := re.FindString(sample)
		c.Check("Q2", "escape-accepted-by-lexer(\\"+l+")", quote.Pos(), m == sample,
			fmt.Sprintf("the escape \\%s written by quoteString must be matched by the lexer's string rule (sample %s)", l, sample))
		if unq != nil {
			has := false
			// unquoteBytes and the private helpers its escape switch may have been moved into
			for _, host := range append([]*ssa.Function{unq}, familyOf(c.P, unq, 1)...) {
				if host.Pkg != unq.Pkg {
					continue
				}
				an.Instrs(host, func(in ssa.Instruction) {
					if bo, ok := in.(*ssa.BinOp); ok && bo.Op == token.EQL && an.IsIntConst(bo.Y, int64(l[0])) {
						has = true
					}
				})
			}
			c.Check("Q2", "escape-decoded-by-unquote(\\"+l+")", unq.Pos(), has,
				"unquoteBytes must have an arm for the escape \\"+l+" (otherwise it is read back as the bare letter)")
		}
	}
	for _, s := range strs {
		full := s
		for len(full) < 6 && strings.HasPrefix(full, `\u`) {
			full += "0"
		}
		sample := `"` + full + `"`
		c.Check("Q2", "escape-accepted-by-lexer("+s+")", quote.Pos(), re.FindString(sample) == sample,
			"the escape prefix "+s+" completed with hex digits must be matched by the lexer's string rule")
	}
	// \" and \\ are accepted and read back as the character itself (default arm)
	for _, sample := range []string{`"\""`, `"\\"`} {
		c.Check("Q2", "escape-accepted-by-lexer("+sample+")", quote.Pos(), re.FindString(sample) == sample, "quote and backslash escapes must lex")
	}
}
