package props

import (
	"fmt"
	"go/constant"
	"go/token"
	"go/types"
	"sort"
	"strings"

	"mrocheck/an"

	"golang.org/x/tools/go/ssa"
)

func init() {
	Registry["C19"] = Entry{
		Run: runC19,
		Explanation: "Decides structural necessary conditions of 'semantic edits preserve behaviour' (thin claim): " +
			"G1 every holder of a reference is visited: for each refactoring entry point, the set of syntax fields read by the functions it reaches inside package refactoring (including the Apply methods of the edit values it creates) contains every place where the renamed / removed name can occur (call bindings, modifier bindings, return bindings, pipeline retains, the top-level call where applicable), " +
			"G2 every expression container is traversed: the expression walkers that rewrite or remove references have an arm for each expression kind that can contain a reference in an uncompiled AST (RefExp, SplitExp, ArrayExp, MapExp) and recurse into the containers (sibling agreement), " +
			"G3 names are matched whole: no strings.HasPrefix/HasSuffix/Contains/Index of a syntax name field against a non-constant name without a '.' delimiter anywhere in package refactoring, " +
			"G4 key domains: Pipeline.Callables.Table is accessed with call ids and Ast.Callables.Table with declared names (domains of edit fields inferred from their stores into / comparisons with CallStm.Id and CallStm.DecId), " +
			"G5 name spaces: nothing reachable from RenameOutput rewrites the id of a binding taken from CallStm.Bindings (an input name), " +
			"G6 edits created while a callable is renamed do not find their target through the live id of a compiled pipeline they point to (a later rename of that pipeline in the same request would make the replay miss it). " +
			"G7 the rename walkers visit every binding of every binding list: no sub-slice of BindStms.List and no early exit from a loop over it that does work per element (the wildcard binding is an ordinary entry and may hold the reference). " +
			"G8 renames consider a binding supplied through a wildcard (one known finding), G9 the unused-output search visits every called pipeline, G10 declaration objects of separately compiled files are never compared for identity. " +
			"G11 every iteration over the given ASTs that adjusts the top-level call reads Ast.Call (except where the file does not declare the callable). " +
			"G12 top calls are deleted from the trim candidates in a later pass than the one adding children. " +
			"G13 sets that let a loop or a recursive walk skip work are keyed by what the work depends on (declaration id, not bare name); G14 hasSideEffects recurses into every callable a pipeline calls, not only pipelines. " +
			"G15 a verdict computed from Edit.Apply and carried out of a loop over the ASTs accumulates. " +
			"G16 in removeRefFromExp an iteration ends without keeping the element only over an edge where shouldRemoveExpCallRef holds. " +
			"NOT decided: that the edited program compiles, call-graph equality, round-trip of renames.",
		Assumptions: commonAssumptions,
	}
}

func runC19(c *an.Ctx) {
	p := c.P
	sp := p.SPkg(pkgRefac)
	if sp == nil {
		c.Undecided("anchor", "package refactoring", token.NoPos, "package not loaded")
		return
	}
	cg := p.CG()
	refacPath := an.ModPath + pkgRefac
	inRefac := func(fn *ssa.Function) bool {
		pk := fn.Package()
		return pk != nil && pk.Pkg.Path() == refacPath
	}
	// reach: functions of the package reachable from root, plus Apply methods of edit types constructed there
	reach := func(root *ssa.Function) map[*ssa.Function]bool {
		out := map[*ssa.Function]bool{}
		var walk func(fn *ssa.Function)
		walk = func(fn *ssa.Function) {
			if fn == nil || out[fn] || !inRefac(fn) {
				return
			}
			out[fn] = true
			if n := cg.Nodes[fn]; n != nil {
				for _, e := range n.Out {
					walk(e.Callee.Func)
				}
			}
			for _, a := range fn.AnonFuncs {
				walk(a)
			}
			// edit values created here: their Apply method
			an.Instrs(fn, func(in ssa.Instruction) {
				mi, ok := in.(*ssa.MakeInterface)
				if !ok {
					return
				}
				t := mi.X.Type()
				ms := p.SSA.MethodSets.MethodSet(t)
				if sel := ms.Lookup(nil, "Apply"); sel != nil {
					if f := p.SSA.MethodValue(sel); f != nil {
						// unwrap synthetic wrappers
						if f.Synthetic != "" {
							if o, ok := sel.Obj().(*types.Func); ok {
								if g := p.SSA.FuncValue(o); g != nil {
									f = g
								}
							}
						}
						walk(f)
					}
				}
			})
		}
		walk(root)
		return out
	}
	fieldsRead := func(fns map[*ssa.Function]bool) map[string]bool {
		out := map[string]bool{}
		for fn := range fns {
			an.Instrs(fn, func(in ssa.Instruction) {
				var base ssa.Value
				var f *types.Var
				switch x := in.(type) {
				case *ssa.FieldAddr:
					base, f = an.FieldOfAddr(x)
				case *ssa.Field:
					base, f = an.FieldLoad(x)
				}
				if f == nil || f.Pkg() == nil || f.Pkg().Path() != syntaxPath {
					return
				}
				t := base.Type()
				if pt, ok := t.Underlying().(*types.Pointer); ok {
					t = pt.Elem()
				}
				if n, ok := t.(*types.Named); ok {
					out[n.Obj().Name()+"."+f.Name()] = true
				}
			})
		}
		return out
	}
	type req struct {
		entry  string
		fields []string
		why    string
	}
	holders := []string{"CallStm.Bindings", "CallStm.Modifiers", "Modifiers.Bindings", "Pipeline.Ret", "ReturnStm.Bindings", "Pipeline.Retain", "PipelineRetains.Refs"}
	reqs := []req{
		{"RenameCallable", append(append([]string{}, holders...), "Ast.Call", "Pipeline.Calls", "CallStm.DecId"), "a renamed stage/pipeline is referred to by calls (DecId), by references in call, modifier and return bindings, by pipeline retains and by the top-level call"},
		{"RenameOutput", append(append([]string{}, holders...), "Pipeline.Calls", "Stage.Retain", "RetainParams.Params"), "a renamed output is referred to in call, modifier and return bindings, in pipeline retains and in the stage's own retain list"},
		{"RenameInput", []string{"CallStm.Bindings", "Pipeline.Calls", "Ast.Call", "CallStm.Modifiers", "Modifiers.Bindings", "Pipeline.Ret", "ReturnStm.Bindings"}, "a renamed input is bound by every call of the callable (including the top-level call) and read through self references in the pipeline's own call, modifier and return bindings"},
		{"RemoveInputParam", []string{"CallStm.Bindings", "Pipeline.Calls", "Ast.Call"}, "a removed input is bound by every call of the callable including the top-level call"},
		{"RemoveOutputParam", append(append([]string{}, holders...), "Pipeline.Calls", "Stage.Retain"), "a removed output is referred to in call, modifier and return bindings, in pipeline retains and in the stage's own retain list"},
		{"RemoveAllUnusedCalls", []string{"Pipeline.Calls", "CallStm.Bindings", "CallStm.Modifiers", "Pipeline.Ret", "Pipeline.Retain"}, "a call is unused only if no call, modifier, return binding or retain refers to it"},
	}
	for _, r := range reqs {
		root := sp.Func(r.entry)
		if root == nil {
			c.Undecided("G1", "entry("+r.entry+")", token.NoPos, "refactoring entry point not found")
			continue
		}
		fns := reach(root)
		got := fieldsRead(fns)
		var missing []string
		for _, f := range r.fields {
			if !got[f] {
				missing = append(missing, f)
			}
		}
		sort.Strings(missing)
		c.Check("G1", "holders-visited("+r.entry+")", root.Pos(), len(missing) == 0,
			fmt.Sprintf("%s; functions reached: %d; fields never read: %v", r.why, len(fns), missing))
	}

	// G5 name spaces: an output rename may rewrite names of outputs (out params, return bindings,
	// references, retains) but never the id of a call's *input* binding - inputs and outputs of a
	// callable are separate name spaces and may share names.
	if root := sp.Func("RenameOutput"); root != nil {
		bindId := p.Field(pkgSyntax, "BindStm", "Id")
		callBindings := p.Field(pkgSyntax, "CallStm", "Bindings")
		if bindId == nil || callBindings == nil {
			c.Undecided("G5", "anchor(BindStm.Id, CallStm.Bindings)", token.NoPos, "field not found")
		} else {
			// static reach only: direct calls, closures and the Apply methods of the edit values that are
			// constructed on the way (dynamic dispatch inside editSet.Apply would pull in every edit type)
			staticReach := map[*ssa.Function]bool{}
			var walkS func(fn *ssa.Function)
			walkS = func(fn *ssa.Function) {
				if fn == nil || staticReach[fn] || !inRefac(fn) {
					return
				}
				staticReach[fn] = true
				for _, a := range fn.AnonFuncs {
					walkS(a)
				}
				an.Instrs(fn, func(in ssa.Instruction) {
					if cl := an.AsCallAny(in); cl != nil {
						walkS(cl.Common().StaticCallee())
					}
					if mi, ok := in.(*ssa.MakeInterface); ok {
						if sel := p.SSA.MethodSets.MethodSet(mi.X.Type()).Lookup(nil, "Apply"); sel != nil {
							if o, ok := sel.Obj().(*types.Func); ok {
								walkS(p.SSA.FuncValue(o))
							}
						}
					}
				})
			}
			walkS(root)
			var fnsSorted []*ssa.Function
			for fn := range staticReach {
				fnsSorted = append(fnsSorted, fn)
			}
			sort.Slice(fnsSorted, func(i, j int) bool { return an.FnName(fnsSorted[i]) < an.FnName(fnsSorted[j]) })
			nStores, bad := 0, 0
			for _, fn := range fnsSorted {
				for _, st := range an.StoresToField(fn, bindId) {
					if st.Parent() != fn {
						continue
					}
					nStores++
					base, _ := an.FieldOfAddr(st.Addr)
					sl := newSlice(fn)
					sl.add(base)
					fromCallBindings := false
					for v := range sl.seen {
						if fa, ok := v.(*ssa.FieldAddr); ok {
							if _, f := an.FieldOfAddr(fa); f == callBindings {
								fromCallBindings = true
							}
						}
					}
					if fromCallBindings {
						bad++
						c.Fail("G5", "output-rename-leaves-input-bindings@"+an.FnName(fn), st.Pos(),
							"reachable from RenameOutput, this store rewrites the id of a binding taken from CallStm.Bindings, i.e. the name of an *input* of the call: an input that happens to share the output's name is renamed as well and the edited program no longer compiles")
					}
				}
			}
			if bad == 0 {
				c.Pass("G5", "output-rename-leaves-input-bindings", root.Pos(), fmt.Sprintf("%d stores to BindStm.Id reachable from RenameOutput, none on a binding taken from CallStm.Bindings", nStores))
			}
			c.Floor("G5", "stores to BindStm.Id reachable from RenameOutput (return bindings)", nStores, 1)
		}
	}

	// G1 per mechanism: the function that enumerates the holders reads each of them itself
	bindingHolders := []string{"CallStm.Bindings", "CallStm.Modifiers", "Modifiers.Bindings", "Pipeline.Ret", "ReturnStm.Bindings", "Pipeline.Calls"}
	perFn := []struct {
		fn     string
		fields []string
	}{
		{"renameCallsToCallable", bindingHolders},
		{"(renameCallEdit).Apply", []string{"Pipeline.Calls", "Pipeline.Retain", "PipelineRetains.Refs", "Ast.Call"}},
		{"renameOutputInCalls", append(append([]string{}, bindingHolders...), "Pipeline.Retain", "PipelineRetains.Refs")},
		{"renameSelfInputInCalls", bindingHolders},
		{"removeOutputParam", append(append([]string{}, bindingHolders...), "Pipeline.Retain", "PipelineRetains.Refs")},
		{"removeUnusedCalls", append(append([]string{}, bindingHolders...), "Pipeline.Retain", "PipelineRetains.Refs")},
	}
	// the mechanism itself, its closures and the helpers it calls directly (a shared walker such as
	// forEachBinding(pipe, visit)); other mechanisms of the table are not followed
	mechOf := func(fn *ssa.Function, maxDepth int) map[*ssa.Function]bool {
		mech := map[*ssa.Function]bool{}
		var walkM func(g *ssa.Function, d int)
		walkM = func(g *ssa.Function, d int) {
			// helpers called directly by the mechanism only: what a helper's own callees read
			// (removeCallSet goes on to edit parameters and reads retains for that) is not part
			// of this mechanism's enumeration
			if g == nil || mech[g] || !inRefac(g) || d > maxDepth {
				return
			}
			if g != fn && g.Parent() == nil {
				for _, o := range perFn {
					if (strings.HasPrefix(o.fn, "(") && p.Func(pkgRefac, o.fn) == g) || (!strings.HasPrefix(o.fn, "(") && sp.Func(o.fn) == g) {
						return
					}
				}
			}
			mech[g] = true
			for _, a := range g.AnonFuncs {
				walkM(a, d)
			}
			an.Instrs(g, func(in ssa.Instruction) {
				cl := an.AsCallAny(in)
				if cl == nil {
					return
				}
				// a helper belongs to the mechanism when it is handed one of the objects being
				// walked (the pipeline, a call, a binding list ...); a helper that is given
				// something else - hasSideEffects(callable) reads another pipeline's retains to
				// answer a different question - does not walk for the mechanism
				for _, a := range cl.Common().Args {
					t := a.Type()
					if pt, ok := t.(*types.Pointer); ok {
						t = pt.Elem()
					}
					if n, ok := t.(*types.Named); ok && n.Obj().Pkg() != nil && n.Obj().Pkg().Path() == syntaxPath {
						switch n.Obj().Name() {
						case "Pipeline", "CallStm", "BindStms", "Modifiers", "ReturnStm", "PipelineRetains", "Ast", "BindStm":
							walkM(cl.Common().StaticCallee(), d+1)
							return
						}
					}
				}
			})
		}
		walkM(fn, 0)
		return mech
	}
	for _, pf := range perFn {
		var fn *ssa.Function
		if strings.HasPrefix(pf.fn, "(") {
			fn = p.Func(pkgRefac, pf.fn)
		} else {
			fn = sp.Func(pf.fn)
		}
		if fn == nil {
			c.Undecided("G1", "mechanism("+pf.fn+")", token.NoPos, "function not found")
			continue
		}
		mech := mechOf(fn, 1)
		got := fieldsRead(mech)
		var missing []string
		for _, f := range pf.fields {
			if !got[f] {
				missing = append(missing, f)
			}
		}
		c.Check("G1", "holders-enumerated-by("+pf.fn+")", fn.Pos(), len(missing) == 0,
			fmt.Sprintf("the function that walks the places where the name can occur must visit each of them; never read: %v", missing))
	}

	// ---------------- G3 ----------------
	ruleG3(c, p.FuncsOf(pkgRefac))
	ruleG4(c, p.FuncsOf(pkgRefac))
	ruleG6(c, sp, inRefac)
	ruleG7(c, sp, mechOf)
	ruleG8(c, sp)
	ruleG9(c, sp)
	ruleG10(c, sp)
	ruleG11(c)
	ruleG12(c)
	ruleMemoKeyL(c, "G13", true, "martian/syntax/refactoring")
	ruleG14(c)
	ruleG15(c)
	ruleG16(c)

	// ---------------- G2 ----------------
	walkers := []struct {
		name     string
		kinds    []string
		recurses bool
	}{
		{"updateRefInExp", []string{"RefExp", "SplitExp", "ArrayExp", "MapExp"}, true},
		{"removeRefFromExp", []string{"RefExp", "SplitExp", "ArrayExp", "MapExp"}, true},
		{"shouldRemoveExpCallRef", []string{"RefExp", "SplitExp", "ArrayExp", "MapExp"}, true},
		{"removeIdRefs", []string{"RefExp", "SplitExp", "ArrayExp", "MapExp"}, true},
		{"removeNodeOutputs", []string{"RefExp", "SplitExp", "ArrayExp", "MapExp"}, true},
	}
	for _, w := range walkers {
		fn := sp.Func(w.name)
		if fn == nil {
			c.Undecided("G2", "walker("+w.name+")", token.NoPos, "expression walker not found")
			continue
		}
		arms := map[string]bool{}
		an.Instrs(fn, func(in ssa.Instruction) {
			if ta, ok := in.(*ssa.TypeAssert); ok {
				s := ta.AssertedType.String()
				if i := strings.LastIndex(s, "."); i >= 0 {
					arms[s[i+1:]] = true
				}
			}
		})
		var missing []string
		for _, k := range w.kinds {
			if !arms[k] {
				missing = append(missing, k)
			}
		}
		// a walker that enumerates references with Exp.FindRefs() delegates the traversal of containers
		viaFindRefs := false
		an.Instrs(fn, func(in ssa.Instruction) {
			if cl, ok := in.(*ssa.Call); ok && cl.Call.IsInvoke() && cl.Call.Method.Name() == "FindRefs" && cl.Call.Value == ssa.Value(paramOfType(fn, "syntax.Exp")) {
				viaFindRefs = true
			}
		})
		if viaFindRefs {
			c.Pass("G2", "arms("+w.name+")", fn.Pos(), "enumerates references with exp.FindRefs(), which traverses every container kind")
			continue
		}
		c.Check("G2", "arms("+w.name+")", fn.Pos(), len(missing) == 0,
			fmt.Sprintf("the walker must have an arm for every expression kind that can hold a reference; missing: %v", missing))
		if w.recurses {
			rec := len(callsTo(fn, fn)) > 0
			// or walks with FindRefs()
			if !rec {
				an.Instrs(fn, func(in ssa.Instruction) {
					if cl, ok := in.(*ssa.Call); ok && cl.Call.IsInvoke() && cl.Call.Method.Name() == "FindRefs" {
						rec = true
					}
				})
			}
			c.Check("G2", "recurses("+w.name+")", fn.Pos(), rec, "the walker must descend into nested expressions (self-recursion or FindRefs)")
		}
	}
}

// G3: names are matched whole.  A dotted reference path (RefExp.OutputId etc.) is matched against a
// parameter or call name by equality, or by its '.'-delimited first segment.  A partial match
// (strings.HasPrefix / HasSuffix / Contains with a name as the needle) also matches sibling names that
// merely share the prefix, so the edit rewrites references it must leave alone.
func ruleG3(c *an.Ctx, fns []*ssa.Function) {
	n, scanned := 0, 0
	for _, fn := range fns {
		scanned++
		an.Instrs(fn, func(in ssa.Instruction) {
			call, ok := in.(*ssa.Call)
			if !ok {
				return
			}
			f := call.Call.StaticCallee()
			if f == nil || f.Pkg == nil || f.Pkg.Pkg.Path() != "strings" || len(call.Call.Args) != 2 {
				return
			}
			switch f.Name() {
			case "HasPrefix", "HasSuffix", "Contains", "Index", "LastIndex":
			default:
				return
			}
			hay, needle := call.Call.Args[0], call.Call.Args[1]
			if _, isC := an.ConstVal(needle); isC {
				return
			}
			_, fld := an.FieldLoad(an.Strip(hay))
			if fld == nil || fld.Pkg() == nil || fld.Pkg().Path() != syntaxPath {
				return
			}
			n++
			// accepted: needle is name+"." / "."+name (delimiter made part of the needle)
			delimited := false
			if b, ok := needle.(*ssa.BinOp); ok && b.Op == token.ADD {
				for _, side := range []ssa.Value{b.X, b.Y} {
					if cv, isC := an.ConstVal(side); isC && cv.Kind() == constant.String && strings.Contains(constant.StringVal(cv), ".") {
						delimited = true
					}
				}
			}
			// accepted: the byte after the matched prefix is compared with '.'
			if !delimited {
				an.Instrs(fn, func(in2 ssa.Instruction) {
					b, ok := in2.(*ssa.BinOp)
					if !ok || (b.Op != token.EQL && b.Op != token.NEQ) {
						return
					}
					for _, pr := range [][2]ssa.Value{{b.X, b.Y}, {b.Y, b.X}} {
						if ix, ok := an.Strip(pr[0]).(*ssa.Index); ok && an.IsIntConst(pr[1], '.') {
							if _, f2 := an.FieldLoad(an.Strip(ix.X)); f2 == fld {
								delimited = true
							}
						}
					}
				})
			}
			c.Check("G3", "whole-name-match("+fld.Name()+" vs "+f.Name()+")@"+an.FnName(fn), call.Pos(), delimited,
				"a reference path is matched against a name with strings."+f.Name()+" and no '.' delimiter: a sibling whose name merely starts (ends) with the renamed one is rewritten as well")
		})
	}
	// the same through slicing: field[:k] == name where k is not the position of a '.'
	for _, fn := range fns {
		an.Instrs(fn, func(in ssa.Instruction) {
			b, ok := in.(*ssa.BinOp)
			if !ok || (b.Op != token.EQL && b.Op != token.NEQ) {
				return
			}
			for _, pr := range [][2]ssa.Value{{b.X, b.Y}, {b.Y, b.X}} {
				sl, ok := an.Strip(pr[0]).(*ssa.Slice)
				if !ok || sl.Low != nil || sl.High == nil {
					continue
				}
				_, fld := an.FieldLoad(an.Strip(sl.X))
				if fld == nil || fld.Pkg() == nil || fld.Pkg().Path() != syntaxPath {
					continue
				}
				if _, isC := an.ConstVal(pr[1]); isC {
					continue
				}
				n++
				okHigh := false
				if hc, ok := an.Strip(sl.High).(*ssa.Call); ok {
					if f := hc.Call.StaticCallee(); f != nil && f.Pkg != nil && f.Pkg.Pkg.Path() == "strings" && len(hc.Call.Args) == 2 {
						if cv, isC := an.ConstVal(hc.Call.Args[1]); isC {
							switch cv.Kind() {
							case constant.Int:
								okHigh = an.IsIntConst(hc.Call.Args[1], '.')
							case constant.String:
								okHigh = constant.StringVal(cv) == "."
							}
						}
					}
				}
				if bo, ok := pr[1].(*ssa.BinOp); ok && bo.Op == token.ADD {
					for _, side := range []ssa.Value{bo.X, bo.Y} {
						if cv, isC := an.ConstVal(side); isC && cv.Kind() == constant.String && strings.Contains(constant.StringVal(cv), ".") {
							okHigh = true
						}
					}
				}
				c.Check("G3", "whole-name-match("+fld.Name()+" prefix slice)@"+an.FnName(fn), b.Pos(), okHigh,
					"a prefix of a reference path is compared with a name; the prefix must end at a '.' (its length must come from the position of the delimiter), otherwise a sibling sharing the prefix matches")
			}
		})
	}
	c.Note("G3: %d functions scanned, %d partial string matches on syntax name fields", scanned, n)
	c.Floor("G3", "first-segment comparisons of reference paths (field[:IndexByte(field,'.')] == name)", n, 1)
	c.Floor("G3", "functions of package refactoring scanned for partial name matches", scanned, 20)
}

func paramOfType(fn *ssa.Function, suffix string) *ssa.Parameter {
	for _, p := range fn.Params {
		if strings.HasSuffix(p.Type().String(), suffix) {
			return p
		}
	}
	return nil
}

// G4: key domains of the callable tables.  Pipeline.Callables.Table maps the *call id* (the alias under
// which a callable is called inside that pipeline, CallStm.Id / RefExp.Id) to the callable, while
// Ast.Callables.Table maps the *declared name* (CallStm.DecId, Callable.GetId()).  The two differ exactly
// for aliased calls.  In package refactoring every update, deletion or lookup of one of these tables
// must use a key of the table's own domain.  The domain of an edit's field is inferred from the code:
// a field stored into / compared with CallStm.Id is a call id, one stored into / compared with
// CallStm.DecId is a declared name.  Keys of unknown domain give no verdict.
func ruleG4(c *an.Ctx, fns []*ssa.Function) {
	p := c.P
	callId := p.Field(pkgSyntax, "CallStm", "Id")
	decId := p.Field(pkgSyntax, "CallStm", "DecId")
	refId := p.Field(pkgSyntax, "RefExp", "Id")
	callablesF := map[string]*types.Var{"Pipeline": p.Field(pkgSyntax, "Pipeline", "Callables"), "Ast": p.Field(pkgSyntax, "Ast", "Callables")}
	tableF := p.Field(pkgSyntax, "Callables", "Table")
	if callId == nil || decId == nil || refId == nil || callablesF["Pipeline"] == nil || callablesF["Ast"] == nil || tableF == nil {
		c.Undecided("G4", "anchor(CallStm.Id/DecId, Callables.Table)", token.NoPos, "field not found")
		return
	}
	const (
		domCall = 1
		domDec  = 2
	)
	fieldOf := func(v ssa.Value) *types.Var {
		_, f := an.FieldLoad(an.Strip(v))
		return f
	}
	dom := map[*types.Var]int{callId: domCall, refId: domCall, decId: domDec}
	learn := func(f *types.Var, d int) {
		if f == nil || f == callId || f == decId || f == refId {
			return
		}
		dom[f] |= d
	}
	for _, fn := range fns {
		an.Instrs(fn, func(in ssa.Instruction) {
			switch x := in.(type) {
			case *ssa.Store:
				if _, tf := an.FieldOfAddr(x.Addr); tf == callId {
					learn(fieldOf(x.Val), domCall)
				} else if tf == decId {
					learn(fieldOf(x.Val), domDec)
				}
			case *ssa.BinOp:
				if x.Op != token.EQL && x.Op != token.NEQ {
					return
				}
				fx, fy := fieldOf(x.X), fieldOf(x.Y)
				for _, pr := range [][2]*types.Var{{fx, fy}, {fy, fx}} {
					if pr[0] == callId {
						learn(pr[1], domCall)
					} else if pr[0] == decId {
						learn(pr[1], domDec)
					}
				}
			}
		})
	}
	keyDomain := func(k ssa.Value) int {
		k = an.Strip(k)
		if f := fieldOf(k); f != nil {
			return dom[f]
		}
		if call, ok := k.(*ssa.Call); ok {
			name := ""
			if call.Call.IsInvoke() {
				name = call.Call.Method.Name()
			} else if f := call.Call.StaticCallee(); f != nil {
				name = f.Name()
			}
			if name == "GetId" {
				return domDec
			}
		}
		return 0
	}
	// which table is m?  load of Callables.Table whose Callables was loaded from a Pipeline or an Ast
	tableOwner := func(m ssa.Value) string {
		base, f := an.FieldLoad(an.Strip(m))
		if f != tableF {
			return ""
		}
		b2, f2 := an.FieldLoad(an.Strip(base))
		_ = b2
		for owner, cf := range callablesF {
			if f2 == cf {
				return owner
			}
		}
		return ""
	}
	n, undecided := 0, 0
	for _, fn := range fns {
		an.Instrs(fn, func(in ssa.Instruction) {
			var m, k ssa.Value
			var what string
			switch x := in.(type) {
			case *ssa.MapUpdate:
				m, k, what = x.Map, x.Key, "insert"
			case *ssa.Lookup:
				m, k, what = x.X, x.Index, "lookup"
			case *ssa.Call:
				if args, ok := an.IsBuiltinCall(x, "delete"); ok && len(args) == 2 {
					m, k, what = args[0], args[1], "delete"
				}
			}
			if m == nil {
				return
			}
			owner := tableOwner(m)
			if owner == "" {
				return
			}
			want := domCall
			if owner == "Ast" {
				want = domDec
			}
			d := keyDomain(k)
			if d == 0 || d == domCall|domDec {
				undecided++
				return
			}
			n++
			wantS, gotS := "call id (CallStm.Id)", "declared name (CallStm.DecId)"
			if want == domDec {
				wantS, gotS = gotS, wantS
			}
			c.Check("G4", what+"("+owner+".Callables.Table by "+an.StablePath(k)+")@"+an.FnName(fn), in.Pos(), d == want,
				fmt.Sprintf("%s.Callables.Table is keyed by the %s but this %s uses a %s: for an aliased call the entry is filed under the wrong key and later steps of the same refactoring no longer find it", owner, wantS, what, gotS))
		})
	}
	c.Note("G4: %d table accesses with a key of known domain, %d of unknown domain (no verdict)", n, undecided)
	c.Floor("G4", "accesses of a Callables.Table with a key of known domain in package refactoring", n, 1)
}

// G6: edits created while callables are being renamed must not identify their target by the *live* id
// of a compiled pipeline.  Refactor applies each rename to the compiled ASTs at once and replays the
// accumulated edits on the uncompiled ASTs later, in order.  An edit that was created for pipeline P
// (holding a pointer to it) and compares `pipe.Id == e.Pipeline.Id` when applied reads whatever id P has
// by then; if a later rename in the same request renames P itself, the replay looks for the new name
// before P has been renamed in the AST it is replayed on, and the edit is silently skipped.
func ruleG6(c *an.Ctx, sp *ssa.Package, inRefac func(*ssa.Function) bool) {
	p := c.P
	pipeId := p.Field(pkgSyntax, "Pipeline", "Id")
	root := sp.Func("RenameCallable")
	if pipeId == nil || root == nil {
		c.Undecided("G6", "anchor(Pipeline.Id, RenameCallable)", token.NoPos, "not found")
		return
	}
	created := map[*ssa.Function]string{} // Apply method -> edit type
	seen := map[*ssa.Function]bool{}
	var walk func(fn *ssa.Function)
	walk = func(fn *ssa.Function) {
		if fn == nil || seen[fn] || !inRefac(fn) {
			return
		}
		seen[fn] = true
		for _, a := range fn.AnonFuncs {
			walk(a)
		}
		an.Instrs(fn, func(in ssa.Instruction) {
			if cl := an.AsCallAny(in); cl != nil {
				walk(cl.Common().StaticCallee())
			}
			if mi, ok := in.(*ssa.MakeInterface); ok {
				if sel := p.SSA.MethodSets.MethodSet(mi.X.Type()).Lookup(nil, "Apply"); sel != nil {
					if o, ok := sel.Obj().(*types.Func); ok {
						if f := p.SSA.FuncValue(o); f != nil {
							created[f] = mi.X.Type().String()
						}
					}
				}
			}
		})
	}
	walk(root)
	c.Floor("G6", "edit types constructed while renaming a callable", len(created), 1)
	var applies []*ssa.Function
	for f := range created {
		applies = append(applies, f)
	}
	sort.Slice(applies, func(i, j int) bool { return an.FnName(applies[i]) < an.FnName(applies[j]) })
	for _, ap := range applies {
		recv := ap.Params[0]
		var site ssa.Instruction
		an.Instrs(ap, func(in ssa.Instruction) {
			b, ok := in.(*ssa.BinOp)
			if !ok || (b.Op != token.EQL && b.Op != token.NEQ) || site != nil {
				return
			}
			for _, v := range []ssa.Value{b.X, b.Y} {
				base, f := an.FieldLoad(an.Strip(v))
				if f != pipeId {
					continue
				}
				// base derives from a field of the receiver (a pointer the edit holds)
				sl := newSlice(ap)
				sl.add(base)
				for x := range sl.seen {
					if x == ssa.Value(recv) {
						site = in
					}
					if al, ok := x.(*ssa.Alloc); ok {
						// value receivers are spilled: the cell initialised from the receiver parameter
						for _, r := range an.Referrers(al) {
							if st, ok := r.(*ssa.Store); ok && st.Val == ssa.Value(recv) {
								site = in
							}
						}
					}
				}
			}
		})
		key := "edit-target-by-live-pipeline-id@" + an.FnName(ap)
		if site != nil {
			c.Fail("G6", key, site.Pos(), "created during a callable rename, this edit finds its pipeline by comparing with the current id of a compiled pipeline it points to; a later rename of that pipeline in the same Refactor request changes the id before the edit is replayed on the uncompiled AST, where the pipeline still has its old name: the edit is skipped and the result no longer compiles")
		} else {
			c.Pass("G6", key, ap.Pos(), "does not compare against the live id of a pipeline it points to")
		}
	}
}
