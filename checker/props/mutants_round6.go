package props

// Mutants of round 6: each reverts one of the repairs of round 6 (or re-introduces the defect in
// another shape) and must be reported by the rule written for it.
func init() {
	Mutants = append(Mutants,
		Mutant{Name: "c15-unlock-removes-a-lock-it-does-not-hold", Property: "C15", File: "martian/core/pipestance.go",
			Old: "func (self *Pipestance) unlock() {\n\tif self.readOnly() {", New: "func (self *Pipestance) unlock() {\n\tif false {", Expect: "S9"},
		Mutant{Name: "c14-fork-sweep-crosses-symlink", Property: "C14", File: "martian/core/storage.go",
			Old: "\tif symlink, err := self.node.vdrCheckSymlink(); symlink != \"\" {\n\t\treturn nil, true\n\t} else if err != nil {\n\t\treturn nil, false\n\t}\n\tself.storageLock.Lock()", New: "\tself.storageLock.Lock()", Expect: "W5"},
		Mutant{Name: "c14-consumer-entry-shared-between-forks", Property: "C14", File: "martian/core/node.go",
			Old: "\t\t\t\t\t\tself: forkArgs,\n", New: "\t\t\t\t\t\tself: boundArgs,\n", Old2: "\t\t\t\t\tpNodeFiles[self] = forkArgs\n", New2: "\t\t\t\t\tpNodeFiles[self] = boundArgs\n\t\t\t\t\t_ = forkArgs\n", Expect: "W6"},
		Mutant{Name: "c11-reset-removes-journal-by-bare-call-name", Property: "C11", File: "martian/core/node.go",
			Old: "\t\t\t\tself.top.fqname), \".\") + \".\"\n", New: "\t\t\t\tself.top.fqname), \".\")\n", Expect: "J6"},
		Mutant{Name: "c12-vmem-truncated-before-scaling", Property: "C12", File: "martian/core/jobmanager_local.go",
			Old: "\t\t\tvmem := int64(math.Ceil(res.VMemGB * 1024))\n", New: "\t\t\tvmem := int64(res.VMemGB) * 1024\n", Expect: "K8"},
		Mutant{Name: "c09-split-operand-comments-not-printed", Property: "C09", File: "martian/syntax/format_callable.go",
			Old: "\t\tprinter.printComments(sp.Value.getNode(), prefix+INDENT)\n", New: "\t\t_ = sp\n", Expect: "Q12"},
		Mutant{Name: "c06-null-stage-defs-not-checked", Property: "C06", File: "martian/core/stage.go",
			Old: "\terr := self.split_metadata.ReadInto(StageDefsFile, &self.stageDefs)\n\tif self.stageDefs == nil {", New: "\terr := self.split_metadata.ReadInto(StageDefsFile, &self.stageDefs)\n\tif false {", Expect: "F11"},
		Mutant{Name: "c06-preloaded-chunks-run-unverified", Property: "C06", File: "martian/core/stage.go",
			Old: "\t\t\t\t\tif !chunk.hasBeenRun && chunk.getState() == Ready {\n\t\t\t\t\t\tchunk.verifyDef()\n\t\t\t\t\t}\n", New: "\t\t\t\t\t_ = chunk\n", Expect: "F12"},
		Mutant{Name: "c13-top-level-map-key-joined-unchecked", Property: "C13", File: "martian/core/post_process.go",
			Old: "\t\t\tif err := syntax.IsLegalUnixFilename(k); err != nil {\n\t\t\t\t// Leave the outputs of this fork where they are.\n", New: "\t\t\tif err := syntax.IsLegalUnixFilename(k); err != nil && false {\n\t\t\t\t// Leave the outputs of this fork where they are.\n", Expect: "M9"},
		Mutant{Name: "c13-illegal-map-key-dropped-from-outs", Property: "C13", File: "martian/core/post_process.go",
			Old: "\t\tfor k := range valueMap {\n\t\t\tkeys = append(keys, k)\n\t\t}\n", New: "\t\tfor k := range valueMap {\n\t\t\tif syntax.IsLegalUnixFilename(k) == nil {\n\t\t\t\tkeys = append(keys, k)\n\t\t\t}\n\t\t}\n", Expect: "M10"},
	)
}
