package props

import (
	"fmt"
	"go/constant"
	"go/token"
	"go/types"
	"net/url"
	"regexp"
	"strings"

	"mrocheck/an"

	"golang.org/x/tools/go/ssa"
)

func init() {
	Registry["C11"] = Entry{
		Run: runC11,
		Explanation: "Decides structural necessary conditions of 'fork identities are unique and notifications reach exactly their owner': " +
			"J1 writer/parser agreement of journal names, from constants extracted from the source: the replacer applied to fork ids maps every byte the journal regexp excludes from the fork group ('.') and the path separator, and introduces none; keys are encoded with url.PathEscape; " +
			"the uniquifier format yields exactly what the regexp accepts; the chunk name format matches the regexp; the '.u' marker agrees; map-fork and array-fork id spaces are disjoint; sample names assembled from the writer's constants are parsed back into exactly their components by the reader's regexp, " +
			"J2 only encoded ids reach names (Fork.fqname/path/id are assigned only in updateId from ForkIdString/encodeJournalName.Replace; map keys reach id text only through makeKeySafe/writeSafeKey), " +
			"J3 stale attempts are ignored (Metadata.cache) and journalFile carries the uniquifier whenever one is set, " +
			"J4 routing: a notification is applied only to an object that find/getFork/getChunk returned non-nil; getFork's index fast path is bounds-checked and its name search compares the whole remainder, " +
			"J5 the key encoders hand out the key unencoded only where the dominating guards exclude '%' and '/' (search calls with constant needles; byte-wise predicate helpers are folded per byte value), everything else they hand out is the result of url.PathEscape. " +
			"J4 identity: a fork taken from Node.forks by its parsed number is returned only after its own name was compared with the requested one; J1 samples include call ids that begin with fork/chnk. " +
			"J6 a call's qualified name used as a file-name prefix for removal ends with the separator. " +
			"J8 makeUniquifier compares the previous uniquifier with the clock by order. " +
			"J9 every strings.HasPrefix whose prefix derives from a node's qualified name has a prefix ending in '.' or tests the byte after it. " +
			"J10 the journal-name replacer also replaces '%'. " +
			"NOT decided: injectivity of nested mixed array/map fork numbering (arithmetic on run-time lengths), collisions between -u<uniq> directories.",
		Assumptions: append([]string{"net/url.PathEscape escapes '%', '/', and every byte outside the RFC 3986 unreserved/sub-delims set (evaluated from the Go standard library the checker is built with)"}, commonAssumptions...),
	}
}

// globalInit finds the call whose result is stored into global `name` in the package initialiser.
func globalInitCall(p *an.Prog, pkg, name string) *ssa.Call {
	sp := p.SPkg(pkg)
	if sp == nil {
		return nil
	}
	g, _ := sp.Members[name].(*ssa.Global)
	init := sp.Func("init")
	if g == nil || init == nil {
		return nil
	}
	var out *ssa.Call
	an.Instrs(init, func(in ssa.Instruction) {
		if st, ok := in.(*ssa.Store); ok && st.Addr == ssa.Value(g) {
			if c, ok := st.Val.(*ssa.Call); ok {
				out = c
			}
		}
	})
	return out
}

func stringConsts(v ssa.Value) []string {
	// variadic ...string: slice of an alloc'd array with constant stores
	var out []string
	sl, ok := v.(*ssa.Slice)
	if !ok {
		return nil
	}
	al, ok := sl.X.(*ssa.Alloc)
	if !ok {
		return nil
	}
	idx := map[int64]string{}
	for _, r := range an.Referrers(al) {
		ia, ok := r.(*ssa.IndexAddr)
		if !ok {
			continue
		}
		iv, ok := an.ConstVal(ia.Index)
		if !ok {
			continue
		}
		i, _ := constant.Int64Val(iv)
		for _, r2 := range an.Referrers(ia) {
			if st, ok := r2.(*ssa.Store); ok {
				if cv, ok := an.ConstVal(st.Val); ok && cv.Kind() == constant.String {
					idx[i] = constant.StringVal(cv)
				}
			}
		}
	}
	for i := int64(0); i < int64(len(idx)); i++ {
		out = append(out, idx[i])
	}
	return out
}

func constStringsIn(fn *ssa.Function) []string {
	var out []string
	an.Instrs(fn, func(in ssa.Instruction) {
		for _, op := range in.Operands(nil) {
			if op == nil || *op == nil {
				continue
			}
			if cv, ok := an.ConstVal(*op); ok && cv.Kind() == constant.String {
				out = append(out, constant.StringVal(cv))
			}
		}
	})
	return out
}

func runC11(c *an.Ctx) {
	p := c.P
	ruleJ5(c)
	ruleJ7(c)
	ruleJ6(c)
	ruleUniqOrder(c, "J8")
	ruleJ9(c)
	// ---------------- J1 ----------------
	repl := globalInitCall(p, pkgCore, "encodeJournalName")
	reCall := globalInitCall(p, pkgCore, "jobJournalRe")
	if repl == nil || reCall == nil {
		c.Undecided("anchor", "encodeJournalName/jobJournalRe", token.NoPos, "initialisers not found")
		return
	}
	if f := repl.Call.StaticCallee(); f == nil || f.Name() != "NewReplacer" {
		c.Undecided("J1", "encodeJournalName-is-a-replacer", repl.Pos(), "encodeJournalName is not built with strings.NewReplacer")
		return
	}
	pairs := stringConsts(repl.Call.Args[0])
	if len(pairs) == 0 || len(pairs)%2 != 0 {
		c.Undecided("J1", "replacer-pairs", repl.Pos(), "could not extract the constant argument list of strings.NewReplacer")
		return
	}
	rv, ok := an.ConstVal(reCall.Call.Args[0])
	if !ok {
		c.Undecided("J1", "journal-regexp", reCall.Pos(), "regular expression is not a constant")
		return
	}
	reSrc := constant.StringVal(rv)
	re, err := regexp.Compile(reSrc)
	if err != nil {
		c.Undecided("J1", "journal-regexp", reCall.Pos(), err.Error())
		return
	}
	c.Note("journal name regexp: %s ; replacer pairs: %q", reSrc, pairs)
	from := map[string]string{}
	for i := 0; i+1 < len(pairs); i += 2 {
		from[pairs[i]] = pairs[i+1]
	}
	for _, need := range []string{".", "/"} {
		_, has := from[need]
		c.Check("J1", fmt.Sprintf("replacer-encodes(%q)", need), repl.Pos(), has,
			"the journal-name encoder must replace "+need+" (the regexp's fork group is [^.]+ and journal files live in one flat directory)")
	}
	// J10: the ids handed to the replacer are already percent-encoded (a '/' INSIDE a map key is
	// %2F in the id), and the replacer writes %2F for the '/' BETWEEN nested fork components: unless
	// '%' itself is replaced, fork_x/fork_y%2Ffork_z and fork_x%2Ffork_y/fork_z get one journal name
	// and one fqname; getFork returns the first, which receives both notifications, and the
	// pipestance never completes (round 9, genuine).
	{
		v, has := from["%"]
		c.Check("J10", "replacer-escapes-the-escape-character", repl.Pos(), has && v == "%25",
			"the journal-name encoder introduces %XX escapes into text that may already contain %XX escapes (a '/' or '.' inside a map key) without escaping '%' itself: two different nested map fork ids get the same journal name and fqname, one fork receives both notifications and the other none")
	}
	for k, v := range from {
		c.Check("J1", fmt.Sprintf("replacement-is-clean(%q->%q)", k, v), repl.Pos(), !strings.ContainsAny(v, "./"),
			"a replacement text must not itself contain '.' or '/'")
		// the replacement must be what PathEscape would never produce for another key: %XX of the byte itself
		want := fmt.Sprintf("%%%02X", k[0])
		c.Check("J1", fmt.Sprintf("replacement-is-percent-encoding(%q)", k), repl.Pos(), v == want,
			fmt.Sprintf("the replacement for %q must be its own percent-encoding %s so that the composition with url.PathEscape stays injective ('%%' itself is always escaped by PathEscape)", k, want))
	}
	// key encoder is url.PathEscape
	for _, name := range []string{"makeKeySafe", "writeSafeKey"} {
		fn := c.NeedFunc(pkgCore, name)
		if fn == nil {
			continue
		}
		// directly, or by handing the key to another function of the package that does
		var encodes func(f *ssa.Function, d int) bool
		encodes = func(f *ssa.Function, d int) bool {
			hit := false
			an.Instrs(f, func(in ssa.Instruction) {
				cl := an.AsCallAny(in)
				if cl == nil || len(cl.Common().Args) == 0 {
					return
				}
				isParam := false
				for _, a := range cl.Common().Args {
					for _, prm := range f.Params {
						if a == ssa.Value(prm) {
							isParam = true
						}
					}
				}
				if !isParam {
					return
				}
				if _, ok := an.IsPkgFuncCall(in, "net/url", "PathEscape"); ok {
					hit = true
				} else if g := cl.Common().StaticCallee(); g != nil && g.Blocks != nil && g.Pkg == f.Pkg && d < 2 && g != f {
					if encodes(g, d+1) {
						hit = true
					}
				}
			})
			return hit
		}
		okEsc := encodes(fn, 0)
		c.Check("J1", "key-encoder-is-PathEscape@"+name, fn.Pos(), okEsc, name+" must encode its key argument with url.PathEscape")
	}
	// oracle facts about PathEscape used by the injectivity argument
	c.Check("J1", "PathEscape-escapes-percent-and-slash", token.NoPos,
		url.PathEscape("%") == "%25" && url.PathEscape("/") == "%2F" && url.PathEscape("a.b") == "a.b",
		"url.PathEscape must escape '%' and '/' (and leaves '.' to the replacer)")
	// uniquifier format
	mk := c.NeedFunc(pkgCore, "makeUniquifier")
	var uniqFmt string
	if mk != nil {
		an.Instrs(mk, func(in ssa.Instruction) {
			if cl, ok := an.IsPkgFuncCall(in, "fmt", "Sprintf"); ok {
				if cv, ok := an.ConstVal(cl.Common().Args[0]); ok {
					uniqFmt = constant.StringVal(cv)
				}
			}
		})
		ok16, ok24 := false, false
		// the first formatted operand must itself be a uint16 (four hex digits at most)
		an.Instrs(mk, func(in ssa.Instruction) {
			cl, ok := an.IsPkgFuncCall(in, "fmt", "Sprintf")
			if !ok || len(cl.Common().Args) < 2 {
				return
			}
			sl, ok := cl.Common().Args[1].(*ssa.Slice)
			if !ok {
				return
			}
			for _, r := range an.Referrers(sl.X) {
				ia, ok := r.(*ssa.IndexAddr)
				if !ok || !an.IsIntConst(ia.Index, 0) {
					continue
				}
				for _, r2 := range an.Referrers(ia) {
					if st, ok := r2.(*ssa.Store); ok {
						if mi, ok := st.Val.(*ssa.MakeInterface); ok && mi.X.Type().String() == "uint16" {
							ok16 = true
						}
					}
				}
			}
		})
		an.Instrs(mk, func(in ssa.Instruction) {
			if b, ok := in.(*ssa.BinOp); ok && b.Op == token.AND {
				if x, isC := an.ConstVal(b.Y); isC {
					if v, exact := constant.Uint64Val(x); exact && v == 0xffffff {
						ok24 = true
					}
				}
				if x, isC := an.ConstVal(b.X); isC {
					if v, exact := constant.Uint64Val(x); exact && v == 0xffffff {
						ok24 = true
					}
				}
			}
		})
		lo, hi := fmt.Sprintf(uniqFmt, uint16(0), uint32(0)), fmt.Sprintf(uniqFmt, uint16(0xffff), uint32(0xffffff))
		uniqRe := regexp.MustCompile(`^[a-f0-9]{10}$`)
		c.Check("J1", "uniquifier-format-matches-regexp", mk.Pos(), uniqFmt != "" && uniqRe.MatchString(lo) && uniqRe.MatchString(hi) && ok16 && ok24,
			fmt.Sprintf("makeUniquifier must produce exactly ten lower-case hex digits (format %q of a uint16 and a value masked to 24 bits: uint16=%v mask24=%v; samples %s %s)", uniqFmt, ok16, ok24, lo, hi))
	}
	// chunk name format
	newChunk := c.NeedFunc(pkgCore, "NewChunk")
	chunkFmt := ""
	if newChunk != nil {
		for _, s := range constStringsIn(newChunk) {
			if strings.HasPrefix(s, "chnk%0") {
				chunkFmt = s
			}
		}
		c.Check("J1", "chunk-name-format", newChunk.Pos(), chunkFmt == "chnk%0*d", "chunk directories/journal names are chnk<zero padded index> (format "+chunkFmt+")")
	}
	// ".u" marker in journalFile
	jf := c.NeedFunc(pkgCore, "(*Metadata).journalFile")
	uMarker := false
	if jf != nil {
		for _, s := range constStringsIn(jf) {
			if s == ".u" {
				uMarker = true
			}
		}
		c.Check("J1", "uniquifier-marker", jf.Pos(), uMarker, "journalFile must append \".u\" + uniquifier")
	}
	// fork id prefixes
	mapFork := c.NeedFunc(pkgCore, "(mapKeyFork).forkString")
	if mapFork != nil {
		has := false
		for _, s := range constStringsIn(mapFork) {
			if s == "fork_" {
				has = true
			}
		}
		c.Check("J1", "map-fork-prefix", mapFork.Pos(), has, "map fork ids start with fork_ (array fork ids with fork<digit>): the two id spaces are disjoint")
	}
	// sample names assembled from the writer's constants parse back exactly
	if uniqFmt != "" && chunkFmt != "" {
		type sample struct{ fq, id, chunk, uniq, file string }
		samples := []sample{
			{"ID.ps.PIPE.STAGE", "fork0", "", "", "complete"},
			{"ID.ps.PIPE.STAGE", "fork12", fmt.Sprintf(chunkFmt, 3, 7), "", "errors"},
			{"ID.ps.PIPE.SUB.STAGE", "fork_" + url.PathEscape("a.b/c d%2E"), fmt.Sprintf(chunkFmt, 1, 0), fmt.Sprintf(uniqFmt, uint16(0xbeef), uint32(0x00abcd)), "progress"},
			{"ID.ps.PIPE.STAGE", "fork_" + url.PathEscape("k") + "/fork3", "", fmt.Sprintf(uniqFmt, uint16(1), uint32(2)), "split_complete"},
			{"ID.ps.PIPE.STAGE", "fork_" + url.PathEscape("fork1.chnk2"), "", "", "join_errors"},
			// call ids are identifiers: they may themselves begin with "fork", "chnk" or look like a uniquifier
			{"ID.ps.PIPE.fork_samples", "fork_" + url.PathEscape("a.b"), fmt.Sprintf(chunkFmt, 1, 0), fmt.Sprintf(uniqFmt, uint16(7), uint32(9)), "complete"},
			{"ID.ps.fork1.forker.STAGE", "fork0", "", "", "complete"},
			{"ID.ps.PIPE.chnk7", "fork1", fmt.Sprintf(chunkFmt, 2, 11), "", "errors"},
			{"ID.ps.PIPE.fork2", "fork3", "", fmt.Sprintf(uniqFmt, uint16(0xffff), uint32(0xffffff)), "split_complete"},
		}
		r := strings.NewReplacer(pairs...)
		for _, s := range samples {
			name := s.fq + "." + r.Replace(s.id)
			if s.chunk != "" {
				name += "." + s.chunk
			}
			if s.uniq != "" {
				name += ".u" + s.uniq
			}
			name += "." + s.file
			m := re.FindStringSubmatch(name)
			okm := len(m) == 6 && m[1] == s.fq && "fork"+m[2] == r.Replace(s.id) && m[4] == s.uniq && m[5] == s.file
			if okm && s.chunk != "" {
				okm = "chnk"+m[3] == s.chunk
			} else if okm {
				okm = m[3] == ""
			}
			key := "round-trip(" + s.id + ")"
			if !strings.HasSuffix(s.fq, ".STAGE") {
				key = "round-trip(" + s.fq + "|" + s.id + ")"
			}
			c.Check("J1", key, reCall.Pos(), okm,
				fmt.Sprintf("journal name %q assembled with the writer's constants must be split by the reader's regexp into exactly its components (got %q)", name, m))
		}
	}

	// ---------------- J2 ----------------
	updateId := c.NeedFunc(pkgCore, "(*Fork).updateId")
	for _, fname := range []string{"fqname", "path", "id"} {
		f := p.Field(pkgCore, "Fork", fname)
		if f == nil {
			c.Undecided("anchor", "Fork."+fname, token.NoPos, "field not found")
			continue
		}
		n := 0
		for _, fn := range coreFns(c) {
			for _, st := range an.StoresToField(fn, f) {
				if st.Parent() != fn {
					continue
				}
				n++
				key := "assign(Fork." + fname + ")@" + an.FnName(fn)
				if fn != updateId {
					c.Fail("J2", key, st.Pos(), "Fork."+fname+" may only be assigned in Fork.updateId (from the encoded fork id)")
					continue
				}
				leaves := stringOriginsConcat(st.Val)
				switch fname {
				case "fqname":
					okr := false
					for _, l := range leaves {
						if cl, ok := l.(*ssa.Call); ok && cl.Call.StaticCallee() != nil && cl.Call.StaticCallee().Name() == "Replace" {
							if u, ok := cl.Call.Args[0].(*ssa.UnOp); ok {
								if g, ok := u.X.(*ssa.Global); ok && g.Name() == "encodeJournalName" {
									okr = true
								}
							}
						}
					}
					c.Check("J2", key, st.Pos(), okr, "the journal prefix must be <fqid>.<encodeJournalName.Replace(id)>")
				case "path":
					cl, ok := st.Val.(*ssa.Call)
					okp := ok && cl.Call.StaticCallee() != nil && cl.Call.StaticCallee().Name() == "Join"
					c.Check("J2", key, st.Pos(), okp, "the fork directory must be path.Join(node.path, id)")
				case "id":
					oki := false
					for _, l := range leaves {
						if ex, ok := l.(*ssa.Extract); ok {
							if cl, ok := ex.Tuple.(*ssa.Call); ok && cl.Call.StaticCallee() != nil && cl.Call.StaticCallee().Name() == "ForkIdString" {
								oki = true
							}
						}
					}
					c.Check("J2", key, st.Pos(), oki, "Fork.id must be the result of ForkId.ForkIdString()")
				}
			}
		}
		c.Floor("J2", "assignments of Fork."+fname, n, 1)
	}
	// raw keys never reach id text
	quoteFns := map[*ssa.Function]bool{}
	for _, n := range []string{"makeKeySafe", "writeSafeKey"} {
		if f := p.Func(pkgCore, n); f != nil {
			quoteFns[f] = true
		}
	}
	for _, name := range []string{"(ForkId).forkId", "(mapKeyFork).forkString", "(*ForkSourcePart).ForkIdString", "(ForkId).ForkIdString"} {
		fn := c.NeedFunc(pkgCore, name)
		if fn == nil {
			continue
		}
		t := an.NewTaint(0, nil)
		t.Sanitizers = quoteFns
		an.Instrs(fn, func(in ssa.Instruction) {
			if cl, ok := in.(*ssa.Call); ok && cl.Call.IsInvoke() && cl.Call.Method.Name() == "MapKey" {
				t.Add(cl)
			}
			if cv, ok := in.(*ssa.Convert); ok && cv.Type().String() == "string" && strings.HasSuffix(cv.X.Type().String(), "mapKeyFork") {
				t.Add(cv)
			}
		})
		t.Run()
		an.Instrs(fn, func(in ssa.Instruction) {
			cl, ok := in.(ssa.CallInstruction)
			if !ok {
				return
			}
			var nm string
			if f := cl.Common().StaticCallee(); f != nil {
				nm = f.Name()
			}
			switch nm {
			case "WriteString", "WriteRune", "WriteByte", "Write":
				for _, a := range cl.Common().Args[1:] {
					if t.Has(a) {
						c.Fail("J2", "raw-key-in-id@"+name, in.Pos(), "a map key is written into the fork id without percent-encoding")
					}
				}
			}
		})
		an.Instrs(fn, func(in ssa.Instruction) {
			if b, ok := in.(*ssa.BinOp); ok && b.Op == token.ADD && b.Type().String() == "string" && (t.Has(b.X) || t.Has(b.Y)) {
				c.Fail("J2", "raw-key-concat@"+name, in.Pos(), "a map key is concatenated into the fork id without percent-encoding")
			}
		})
		c.Pass("J2", "keys-only-through-encoder@"+name, fn.Pos(), "every use of a map key in id text goes through makeKeySafe/writeSafeKey")
	}

	// ---------------- J3 ----------------
	ruleR3(c)
	if jf != nil {
		uniq := p.Field(pkgCore, "Metadata", "uniquifier")
		okAll := true
		an.Instrs(jf, func(in ssa.Instruction) {
			r, ok := in.(*ssa.Return)
			if !ok {
				return
			}
			v := an.RetVal(r, 0)
			// a return that does not carry the uniquifier must be on the edge uniquifier == "" (or no journal path)
			carries := false
			for _, l := range stringOriginsConcat(v) {
				if an.LoadsField(l, uniq) {
					carries = true
				}
			}
			if carries {
				return
			}
			g, _ := an.GuardedBy(r, func(rel an.Rel) bool {
				isEmpty := func(x, y ssa.Value) bool { return an.IsStringConst(y, "") }
				return rel.Op == token.EQL && (isEmpty(rel.X, rel.Y) || isEmpty(rel.Y, rel.X))
			})
			if !g {
				okAll = false
			}
		})
		c.Check("J3", "journal-name-carries-uniquifier@(*Metadata).journalFile", jf.Pos(), okAll,
			"whenever a uniquifier is set the journal name must include it")
	}

	// ---------------- J4 ----------------
	refresh := c.NeedFunc(pkgCore, "(*Node).refreshState")
	if refresh != nil {
		fam := familyOf(p, refresh, 2)
		nonNil := func(in ssa.Instruction, callee string) bool {
			return guardedInFamily(p, fam, in, func(r an.Rel) bool {
				if r.Op != token.NEQ || !an.IsNil(r.Y) {
					return false
				}
				cl, ok := r.X.(*ssa.Call)
				return ok && cl.Call.StaticCallee() != nil && cl.Call.StaticCallee().Name() == callee
			}, 0)
		}
		n := 0
		var famInstrs []ssa.Instruction
		for _, m := range fam {
			if m.Name() == "updateState" {
				continue
			}
			famInstrs = append(famInstrs, instrsOf(m)...)
		}
		each := func(f func(ssa.Instruction)) {
			for _, in := range famInstrs {
				f(in)
			}
		}
		each(func(in ssa.Instruction) {
			cl, ok := in.(*ssa.Call)
			if !ok || cl.Call.StaticCallee() == nil || cl.Call.StaticCallee().Name() != "updateState" {
				return
			}
			n++
			recvT := cl.Call.Args[0].Type().String()
			okg := nonNil(in, "find") && nonNil(in, "getFork")
			what := "fork"
			if strings.HasSuffix(recvT, "Chunk") {
				okg = okg && nonNil(in, "getChunk")
				what = "chunk"
			}
			c.Check("J4", "notification-applied-only-to-resolved-"+what+"@(*Node).refreshState", in.Pos(), okg,
				"a journal notification may be applied only to the object that find/getFork/getChunk resolved (non-nil); an unresolved name must only be logged")
			// receiver is the resolved object
			if rc, ok := cl.Call.Args[0].(*ssa.Call); ok {
				want := "getFork"
				if what == "chunk" {
					want = "getChunk"
				}
				c.Check("J4", "notification-target-is-the-resolved-"+what, in.Pos(), rc.Call.StaticCallee() != nil && rc.Call.StaticCallee().Name() == want,
					"the state update must be applied to the value returned by "+want)
			}
		})
		c.Floor("J4", "updateState calls in refreshState or its private helpers", n, 2)
	}
	getFork := c.NeedFunc(pkgCore, "(*Node).getFork")
	forks := p.Field(pkgCore, "Node", "forks")
	if getFork != nil && forks != nil {
		n := 0
		an.Instrs(getFork, func(in ssa.Instruction) {
			ia, ok := in.(*ssa.IndexAddr)
			if !ok || !an.LoadsField(ia.X, forks) {
				return
			}
			// index derived from Atoi?
			ex, ok := ia.Index.(*ssa.Extract)
			if !ok {
				return
			}
			n++
			lo, _ := an.GuardedBy(in, func(r an.Rel) bool { return r.Op == token.GEQ && r.X == ssa.Value(ex) && an.IsIntConst(r.Y, 0) })
			hi, _ := an.GuardedBy(in, func(r an.Rel) bool {
				args, isLen := an.IsBuiltinCall(r.Y, "len")
				return r.Op == token.LSS && r.X == ssa.Value(ex) && isLen && an.LoadsField(args[0], forks)
			})
			c.Check("J4", "fork-index-bounds-checked@(*Node).getFork", in.Pos(), lo && hi, "the numeric fast path must be guarded by 0 <= i < len(forks)")
		})
		if n == 0 {
			c.Pass("J4", "no-positional-fork-lookup@(*Node).getFork", getFork.Pos(), "forks are only found by name")
		}
		// J4 identity: the position of a fork in Node.forks is not its number (dynamically expanded
		// forks are appended: fork0, fork2, fork1, fork3), so a fork found by position may only be
		// returned after its own name was compared with the requested one.
		an.Instrs(getFork, func(in ssa.Instruction) {
			ret, ok := in.(*ssa.Return)
			if !ok || len(ret.Results) == 0 {
				return
			}
			ld, ok := an.Strip(an.RetVal(ret, 0)).(*ssa.UnOp)
			if !ok {
				return
			}
			ia, ok := ld.X.(*ssa.IndexAddr)
			if !ok || !an.LoadsField(ia.X, forks) {
				return
			}
			if _, fromAtoi := ia.Index.(*ssa.Extract); !fromAtoi {
				return
			}
			var derives func(v ssa.Value, want func(ssa.Value) bool, d int) bool
			derives = func(v ssa.Value, want func(ssa.Value) bool, d int) bool {
				if v == nil || d > 8 {
					return false
				}
				if want(v) {
					return true
				}
				switch x := v.(type) {
				case *ssa.UnOp:
					return derives(x.X, want, d+1)
				case *ssa.FieldAddr:
					return derives(x.X, want, d+1)
				case *ssa.Field:
					return derives(x.X, want, d+1)
				case *ssa.Slice:
					return derives(x.X, want, d+1)
				case *ssa.BinOp:
					return derives(x.X, want, d+1) || derives(x.Y, want, d+1)
				case *ssa.Call:
					for _, a := range x.Call.Args {
						if derives(a, want, d+1) {
							return true
						}
					}
				case *ssa.Convert:
					return derives(x.X, want, d+1)
				case *ssa.Parameter:
					// inside a predicate helper (`f.hasJournalIndex(prefixLen, index)`): what getFork passes for it
					h := x.Parent()
					if h == nil || h == getFork || h.Parent() == getFork {
						return false
					}
					idx := -1
					for i, prm := range h.Params {
						if prm == x {
							idx = i
						}
					}
					for _, g := range an.WithAnon(getFork) {
						for _, cs := range callsTo(g, h) {
							if idx >= 0 && idx < len(cs.Common().Args) && derives(cs.Common().Args[idx], want, d+1) {
								return true
							}
						}
					}
				}
				return false
			}
			isElem := func(v ssa.Value) bool {
				if v == ssa.Value(ld) {
					return true
				}
				if u, ok := v.(*ssa.UnOp); ok {
					if ia2, ok := u.X.(*ssa.IndexAddr); ok && an.LoadsField(ia2.X, forks) && ia2.Index == ia.Index {
						return true
					}
				}
				return false
			}
			// the parameter itself, or a load of its cell when a closure captures it
			isReq := func(v ssa.Value) bool {
				return v == ssa.Value(getFork.Params[1]) || an.Path(v) == an.Path(getFork.Params[1])
			}
			named, _ := an.GuardedBy(ret, func(r an.Rel) bool {
				if r.Op != token.EQL {
					return false
				}
				if b, ok := r.X.Type().Underlying().(*types.Basic); !ok || b.Info()&types.IsString == 0 {
					return false
				}
				return (derives(r.X, isElem, 0) && derives(r.Y, isReq, 0)) || (derives(r.Y, isElem, 0) && derives(r.X, isReq, 0))
			})
			c.Check("J4", "fork-found-by-position-is-checked-by-name@(*Node).getFork", ret.Pos(), named,
				"a fork taken from Node.forks by its parsed number is returned without comparing its own name with the requested one; the slice is not in name order once forks have been expanded at run time, so a notification for fork1 is applied to whichever fork sits at position 1")
		})
		// string search compares the whole remainder with ==
		okCmp := false
		fqnameField := p.Field(pkgCore, "Fork", "fqname")
		var scanFns []*ssa.Function
		scanFns = append(scanFns, an.WithAnon(getFork)...)
		for _, g := range an.WithAnon(getFork) {
			an.Instrs(g, func(in ssa.Instruction) {
				if cl := an.AsCallAny(in); cl != nil {
					if h := cl.Common().StaticCallee(); h != nil && h.Blocks != nil && h.Pkg == getFork.Pkg && len(h.Blocks) <= 4 {
						scanFns = append(scanFns, h)
					}
				}
			})
		}
		for _, g := range scanFns {
			an.Instrs(g, func(in ssa.Instruction) {
				b, ok := in.(*ssa.BinOp)
				if !ok || b.Op != token.EQL || b.X.Type().String() != "string" {
					return
				}
				sl, ok := b.X.(*ssa.Slice)
				if !ok || sl.High != nil {
					return
				}
				// compared with the requested name: getFork's parameter, or the helper's parameter that receives it
				if b.Y == ssa.Value(getFork.Params[1]) {
					okCmp = true
				}
				if prm, isP := b.Y.(*ssa.Parameter); isP && g != getFork && fqnameField != nil && an.LoadsField(sl.X, fqnameField) {
					idx := -1
					for i, q := range g.Params {
						if q == prm {
							idx = i
						}
					}
					for _, host := range an.WithAnon(getFork) {
						for _, cs := range callsTo(host, g) {
							if idx >= 0 && idx < len(cs.Common().Args) {
								a := cs.Common().Args[idx]
								if a == ssa.Value(getFork.Params[1]) || an.Path(a) == an.Path(getFork.Params[1]) {
									okCmp = true
								}
								// captured by a closure of getFork
								if u, isU := a.(*ssa.UnOp); isU {
									if fv, isFV := u.X.(*ssa.FreeVar); isFV && fv.Name() == getFork.Params[1].Name() {
										okCmp = true
									}
								}
							}
						}
					}
				}
			})
		}
		// ... and nowhere by prefix/substring
		for _, g := range scanFns {
			an.Instrs(g, func(in ssa.Instruction) {
				cl, ok := in.(*ssa.Call)
				if !ok || cl.Call.StaticCallee() == nil || cl.Call.StaticCallee().Pkg == nil || cl.Call.StaticCallee().Pkg.Pkg.Path() != "strings" {
					return
				}
				switch cl.Call.StaticCallee().Name() {
				case "HasPrefix", "HasSuffix", "Contains", "Index":
				default:
					return
				}
				for _, a := range cl.Call.Args {
					v := a
					if sl, isSl := v.(*ssa.Slice); isSl {
						v = sl.X
					}
					if fqnameField != nil && an.LoadsField(v, fqnameField) {
						okCmp = false
					}
				}
			})
		}
		c.Check("J4", "fork-name-compared-whole@(*Node).getFork", getFork.Pos(), okCmp, "the fork name search must compare the entire remainder of the fork's journal name with the parsed id (no prefix match)")
	}
}

// stringOriginsConcat: leaves of a string built by concatenation / phi.
func stringOriginsConcat(v ssa.Value) []ssa.Value {
	seen := map[ssa.Value]bool{}
	var out []ssa.Value
	var rec func(v ssa.Value)
	rec = func(v ssa.Value) {
		if v == nil || seen[v] {
			return
		}
		seen[v] = true
		switch x := v.(type) {
		case *ssa.BinOp:
			if x.Op == token.ADD {
				rec(x.X)
				rec(x.Y)
				return
			}
		case *ssa.Phi:
			for _, e := range x.Edges {
				rec(e)
			}
			return
		}
		out = append(out, v)
	}
	rec(v)
	return out
}
