package props

import (
	"fmt"
	"go/token"
	"go/types"
	"sort"
	"strings"

	"mrocheck/an"

	"golang.org/x/tools/go/ssa"
)

// C13 (thin claim): the final outputs are materialised faithfully under outs/.
//
// The file-system effects themselves are run-time values; what IS visible in the shape of
// post_process.go and compile_types.go are five necessary conditions of "the rewritten _outs stays
// valid JSON of the same shape" and "every output lands at its own derived path":
//
//	M1 everything written into the rebuilt _outs buffer is JSON by construction: a constant piece of
//	   punctuation, bytes whose static type is json.RawMessage (a decoded component of the input or
//	   an encoder's result), the result of json.Marshal / strconv number formatting (not strconv.Quote), or a write that is only
//	   reachable on paths that end in a definitely non-nil error.  A raw string (map key, path) is not.
//	M2 every path through a writer that can return a nil error has written a value: `"key":` followed
//	   by nothing is not JSON.
//	M3 in every loop that writes separators, no iteration completes without writing its element
//	   (a skipped element after the separator/index logic ran gives `[,` or `"k":,`).
//	M5 the destination of every rename / symlink into outs/ derives from GetOutFilename() of the
//	   member being moved.
//	M6 the compiler's duplicate-name rejection sees every member: on every iteration of the member
//	   loop of StructType.compile on which GetOutFilename() is non-empty, the name is looked up in the
//	   set of names and either an error is recorded or the name is inserted; and the struct type
//	   synthesised from a callable's outputs is compiled by that same function.
func init() {
	Registry["C13"] = Entry{
		Run: runC13,
		Explanation: "Decides structural necessary conditions of 'final outputs are materialised faithfully under outs/' (thin claim): " +
			"M1 every write into the buffer that becomes the rewritten _outs is JSON by construction (constant punctuation, json.RawMessage-typed bytes, json.Marshal results, strconv integer/bool formatting); raw strings only on paths that end in a non-nil error, " +
			"M2 every path through a writer (moveOutFiles, moveOutFile, moveOutDir, moveOutArrayDir, copyOutSymlink and their helpers) that can return a nil error has written a value, " +
			"M3 in every loop that writes separators no iteration completes without writing its element, " +
			"M5 the destination of every os.Rename/os.Symlink into outs/ derives from GetOutFilename() of the member being moved, " +
			"M6 the duplicate output-name rejection of StructType.compile sees every member with a non-empty out filename (lookup, then error or insertion, on every such iteration) and the struct synthesised from each callable's outputs is compiled by it. " +
			"M7 a relative link target is joined with the directory of the very link it was read from; M8 a missing source is recorded as null only after the destination under outs/ was looked at. " +
			"M9 a decoded map's key is joined into a path only behind IsLegalUnixFilename(key) == nil; M10 a loop collecting the keys of a decoded map collects every key. " +
			"M11 copyOutSymlink writes no value derived from GetOutFilename(); M12 readers of ArrayType.Elem in post-processing also read Dim; M13 after processStructOuts the value passed in is neither returned nor stored as the element's record. " +
			"M1 (round 8): strconv.Quote is not accepted as a JSON encoder. " +
			"M14 every store to StructType.isFile in StructMember.compile is dominated by a comparison reading its current value. " +
			"M15 every return of moveOutFile has passed a write into its buffer. " +
			"NOT decided: file contents, which files exist, symlink arithmetic (relative paths), that the hand-assembled JSON is valid beyond these conditions, display output.",
		Assumptions: append([]string{
			"values of static type json.RawMessage hold JSON text (they come from json.Unmarshal into RawMessage-based containers or from encoders); a conversion of a string to json.RawMessage is reported",
			"an error result built by fmt.Errorf / errors.New, a MakeInterface, or a value returned under its own != nil test is non-nil",
		}, commonAssumptions...),
	}
}

type c13 struct {
	c      *an.Ctx
	fam    []*ssa.Function
	inFam  map[*ssa.Function]bool
	mwMemo map[*ssa.Function]int
}

func isBytesBuffer(t types.Type) bool {
	p, ok := t.(*types.Pointer)
	if !ok {
		return false
	}
	n, ok := p.Elem().(*types.Named)
	return ok && n.Obj().Pkg() != nil && n.Obj().Pkg().Path() == "bytes" && n.Obj().Name() == "Buffer"
}

func isRawMessage(t types.Type) bool {
	n, ok := t.(*types.Named)
	return ok && n.Obj().Pkg() != nil && n.Obj().Pkg().Path() == "encoding/json" && n.Obj().Name() == "RawMessage"
}

func usesBuffer(fn *ssa.Function) bool {
	for _, p := range fn.Params {
		if isBytesBuffer(p.Type()) {
			return true
		}
	}
	found := false
	an.Instrs(fn, func(in ssa.Instruction) {
		if v, ok := in.(ssa.Value); ok && isBytesBuffer(v.Type()) {
			found = true
		}
	})
	return found
}

// c13Family: moveOutFiles and every function of the package that a member calls statically and that
// receives (or, for a closure, uses) a *bytes.Buffer.
func c13Family(root *ssa.Function) []*ssa.Function {
	seen := map[*ssa.Function]bool{root: true}
	order := []*ssa.Function{root}
	for i := 0; i < len(order); i++ {
		m := order[i]
		add := func(f *ssa.Function) {
			if f == nil || seen[f] || f.Blocks == nil || f.Pkg == nil || f.Pkg != root.Pkg {
				return
			}
			if !usesBuffer(f) {
				return
			}
			seen[f] = true
			order = append(order, f)
		}
		for _, a := range m.AnonFuncs {
			add(a)
		}
		an.Instrs(m, func(in ssa.Instruction) {
			if cl := an.AsCallAny(in); cl != nil {
				add(cl.Common().StaticCallee())
			}
		})
	}
	return order
}

type bufWrite struct {
	call   *ssa.Call
	kind   string // "direct", "family", "external"
	method string
	data   ssa.Value
	callee *ssa.Function
}

// classify returns the write event of an instruction, if any.
func (s *c13) classify(in ssa.Instruction) *bufWrite {
	call, ok := in.(*ssa.Call)
	if !ok {
		return nil
	}
	f := call.Call.StaticCallee()
	if f == nil {
		return nil
	}
	hasBuf := false
	for _, a := range call.Call.Args {
		if isBytesBuffer(a.Type()) {
			hasBuf = true
		}
		if mi, ok := a.(*ssa.MakeInterface); ok && isBytesBuffer(mi.X.Type()) {
			hasBuf = true
		}
	}
	if s.inFam[f] {
		if hasBuf || f.Parent() != nil {
			return &bufWrite{call: call, kind: "family", callee: f}
		}
		return nil
	}
	if !hasBuf {
		return nil
	}
	if f.Signature.Recv() != nil && isBytesBuffer(f.Signature.Recv().Type()) {
		switch f.Name() {
		case "Write", "WriteString", "WriteRune", "WriteByte":
			if len(call.Call.Args) == 2 {
				return &bufWrite{call: call, kind: "direct", method: f.Name(), data: call.Call.Args[1], callee: f}
			}
		}
		return nil // Grow, Len, Reset ... are not writes of content
	}
	return &bufWrite{call: call, kind: "external", callee: f}
}

// jsonByConstruction: the data of a direct write is JSON text by the way it was made.
func jsonByConstruction(v ssa.Value, depth int) (bool, string) {
	if _, isC := an.ConstVal(v); isC {
		return true, "constant"
	}
	if depth > 6 {
		return false, "derivation too deep"
	}
	switch x := v.(type) {
	case *ssa.ChangeType:
		if isRawMessage(x.X.Type()) {
			if ok, why := rawMessageOrigin(x.X, depth+1); !ok {
				return false, why
			}
			return true, "json.RawMessage"
		}
		return jsonByConstruction(x.X, depth+1)
	case *ssa.Convert:
		if isRawMessage(x.X.Type()) {
			return true, "json.RawMessage"
		}
		// string(b) / []byte(s) of something that is JSON
		return jsonByConstruction(x.X, depth+1)
	case *ssa.Slice:
		return false, "a slice of a value is not a JSON value"
	case *ssa.Extract:
		if cl, ok := x.Tuple.(*ssa.Call); ok && x.Index == 0 {
			return encoderCall(cl)
		}
	case *ssa.Call:
		return encoderCall(x)
	case *ssa.UnOp:
		if x.Op == token.MUL {
			if g, ok := x.X.(*ssa.Global); ok && g.Name() == "nullBytes" {
				return true, "the null literal"
			}
		}
	case *ssa.Phi:
		for _, e := range x.Edges {
			if ok, why := jsonByConstruction(e, depth+1); !ok {
				return false, why
			}
		}
		return true, "phi of JSON values"
	}
	if isRawMessage(v.Type()) {
		if ok, why := rawMessageOrigin(v, depth+1); !ok {
			return false, why
		}
		return true, "json.RawMessage"
	}
	return false, "a " + v.Type().String() + " that does not come from an encoder"
}

// rawMessageOrigin rejects a RawMessage made by converting a string / raw bytes in place.
func rawMessageOrigin(v ssa.Value, depth int) (bool, string) {
	switch x := v.(type) {
	case *ssa.Convert:
		if b, ok := x.X.Type().Underlying().(*types.Basic); ok && b.Info()&types.IsString != 0 {
			if _, isC := an.ConstVal(x.X); !isC {
				return false, "json.RawMessage converted from a string"
			}
		}
	case *ssa.ChangeType:
		if !isRawMessage(x.X.Type()) {
			return jsonByConstruction(x.X, depth+1)
		}
	}
	return true, ""
}

func encoderCall(cl *ssa.Call) (bool, string) {
	f := cl.Call.StaticCallee()
	if f == nil || f.Pkg == nil {
		return false, "result of a dynamic call"
	}
	switch f.Pkg.Pkg.Path() {
	case "encoding/json":
		return true, "encoding/json." + f.Name()
	case "strconv":
		// strconv.Quote is NOT a JSON encoder: it writes \x00, \a, \v and \U0001f600, none of which
		// JSON knows (round 8: a seed replaced json.Marshal(path) with strconv.Quote(path))
		if strings.HasPrefix(f.Name(), "Quote") || strings.HasPrefix(f.Name(), "AppendQuote") {
			return false, "result of strconv." + f.Name() + ": Go string syntax, which is JSON only for printable text (a control or non-BMP character gives \\x.., \\U........ escapes that no JSON reader accepts)"
		}
		if f.Name() == "Itoa" || strings.HasPrefix(f.Name(), "FormatInt") || strings.HasPrefix(f.Name(), "FormatUint") ||
			strings.HasPrefix(f.Name(), "AppendInt") || strings.HasPrefix(f.Name(), "AppendUint") || strings.HasPrefix(f.Name(), "FormatBool") {
			return true, "strconv." + f.Name()
		}
	}
	// a helper of the program all of whose returns are encoder results
	if f.Blocks != nil {
		all, n := true, 0
		an.Instrs(f, func(in ssa.Instruction) {
			if r, ok := in.(*ssa.Return); ok && len(r.Results) > 0 {
				n++
				if ok, _ := jsonByConstruction(an.RetVal(r, 0), 4); !ok {
					all = false
				}
			}
		})
		if all && n > 0 {
			return true, "helper " + an.FnName(f) + " returns encoder results"
		}
	}
	return false, "result of " + an.FnName(f) + ", which is not an encoder"
}

func errIndex(fn *ssa.Function) int {
	res := fn.Signature.Results()
	if res.Len() == 0 {
		return -1
	}
	last := res.At(res.Len() - 1).Type()
	if n, ok := last.(*types.Named); ok && n.Obj().Pkg() == nil && n.Obj().Name() == "error" {
		return res.Len() - 1
	}
	return -1
}

// nonNilErrReturn: the error result of this return cannot be nil.
func nonNilErrReturn(r *ssa.Return) bool {
	fn := r.Parent()
	idx := errIndex(fn)
	if idx < 0 || idx >= len(r.Results) {
		return false
	}
	v := an.RetVal(r, idx)
	switch x := v.(type) {
	case *ssa.MakeInterface:
		return true
	case *ssa.Call:
		if f := x.Call.StaticCallee(); f != nil && f.Pkg != nil {
			q := f.Pkg.Pkg.Path() + "." + f.Name()
			if q == "fmt.Errorf" || q == "errors.New" {
				return true
			}
		}
	}
	if an.IsNil(v) {
		return false
	}
	g, _ := an.GuardedBy(r, func(rel an.Rel) bool {
		return rel.Op == token.NEQ && ((rel.X == v && an.IsNil(rel.Y)) || (rel.Y == v && an.IsNil(rel.X)))
	})
	return g
}

// errorPathOnly: after this instruction the enclosing writer can only fail - every return reachable
// from it carries a non-nil error - or, where the function is a helper or closure, the same holds at
// every call of it inside the family.
func (s *c13) errorPathOnly(in ssa.Instruction, depth int) bool {
	fn := in.Parent()
	if depth > 3 {
		return false
	}
	local := errIndex(fn) >= 0
	if local {
		n := 0
		an.Instrs(fn, func(x ssa.Instruction) {
			r, ok := x.(*ssa.Return)
			if !ok || !local {
				return
			}
			if !an.Reachable(fn, in, func(y ssa.Instruction) bool { return y == x }) {
				return
			}
			n++
			if !nonNilErrReturn(r) {
				local = false
			}
		})
		if local && n > 0 {
			return true
		}
	}
	if fn == s.fam[0] {
		return false
	}
	// at every family call site
	n := 0
	for _, m := range s.fam {
		ok := true
		an.Instrs(m, func(x ssa.Instruction) {
			cl, isCall := x.(*ssa.Call)
			if !isCall || cl.Call.StaticCallee() != fn {
				return
			}
			n++
			if !s.errorPathOnly(x, depth+1) {
				ok = false
			}
		})
		if !ok {
			return false
		}
	}
	return n > 0
}

// mustWrite: every path through fn that can end in a nil error passes a write event.
// Cycles (moveOutFiles -> moveOutDir -> moveOutFiles) are resolved coinductively.
func (s *c13) mustWrite(fn *ssa.Function) bool {
	switch s.mwMemo[fn] {
	case 1, 3:
		return true
	case 2:
		return false
	}
	s.mwMemo[fn] = 3
	w := s.skippingPath(fn)
	if w == nil {
		s.mwMemo[fn] = 1
		return true
	}
	s.mwMemo[fn] = 2
	return false
}

func (s *c13) isWriteEvent(in ssa.Instruction) bool {
	bw := s.classify(in)
	if bw == nil {
		return false
	}
	if bw.kind == "family" {
		return s.mustWrite(bw.callee)
	}
	return true
}

func (s *c13) skippingPath(fn *ssa.Function) *an.Witness {
	hasErr := errIndex(fn) >= 0
	return an.Query{
		Fn: fn,
		Target: func(in ssa.Instruction) bool {
			r, ok := in.(*ssa.Return)
			if !ok {
				return false
			}
			return !(hasErr && nonNilErrReturn(r))
		},
		Barrier: s.isWriteEvent,
	}.Find()
}

func runC13(c *an.Ctx) {
	root := c.NeedFunc(pkgCore, "moveOutFiles")
	if root == nil {
		return
	}
	s := &c13{c: c, inFam: map[*ssa.Function]bool{}, mwMemo: map[*ssa.Function]int{}}
	s.fam = c13Family(root)
	for _, f := range s.fam {
		s.inFam[f] = true
	}
	var names []string
	for _, f := range s.fam {
		names = append(names, an.FnName(f))
	}
	c.Note("C13: writers of the rewritten _outs (family of moveOutFiles): %s", strings.Join(names, ", "))
	c.Floor("M1", "functions writing the rewritten _outs buffer", len(s.fam), 3)
	// the buffer handed to the family is what postProcess stores as the new value
	s.ruleM0()
	s.ruleM1()
	s.ruleM2()
	s.ruleM3()
	s.ruleM5()
	s.ruleM7()
	s.ruleM8()
	ruleM9(s)
	ruleM10(s)
	ruleM11(s)
	ruleM12(s)
	ruleM13(s)
	ruleM14(s.c)
	ruleM15(s.c)
	ruleM16(s.c)
	ruleM6(c)
}

// M0: the entry of the family is what handleOuts stores for a file-typed output (anchor check).
func (s *c13) ruleM0() {
	c := s.c
	n := 0
	for _, fn := range c.P.FuncsOf(pkgCore) {
		if s.inFam[fn] {
			continue
		}
		an.Instrs(fn, func(in ssa.Instruction) {
			cl, ok := in.(*ssa.Call)
			if !ok || cl.Call.StaticCallee() != s.fam[0] {
				return
			}
			n++
		})
	}
	c.Floor("M1", "calls of moveOutFiles from outside its family (post-processing of a fork's outputs)", n, 1)
}

func (s *c13) ruleM1() {
	c := s.c
	nDirect, nConst, nJson, nRaw := 0, 0, 0, 0
	for _, fn := range s.fam {
		name := an.FnName(fn)
		an.Instrs(fn, func(in ssa.Instruction) {
			bw := s.classify(in)
			if bw == nil || bw.kind == "family" {
				return
			}
			if bw.kind == "external" {
				pk := ""
				if bw.callee.Pkg != nil {
					pk = bw.callee.Pkg.Pkg.Path()
				}
				key := "buffer-handed-to(" + pk + "." + bw.callee.Name() + ")@" + name
				if pk == "encoding/json" {
					nJson++
					c.Pass("M1", key, in.Pos(), "the buffer is written by an encoding/json function")
					return
				}
				nRaw++
				if s.errorPathOnly(in, 0) {
					c.Pass("M1", key, in.Pos(), "only on paths that end in a non-nil error")
					return
				}
				c.Fail("M1", key, in.Pos(), "the buffer that becomes the rewritten _outs is handed to a function that is not a JSON encoder on a path that can succeed")
				return
			}
			nDirect++
			ok, why := jsonByConstruction(bw.data, 0)
			key := "write(" + bw.method + ":" + an.StablePath(bw.data) + ")@" + name
			if ok {
				if why == "constant" {
					nConst++
				} else {
					nJson++
				}
				c.Pass("M1", key, in.Pos(), why)
				return
			}
			nRaw++
			if s.errorPathOnly(in, 0) {
				c.Pass("M1", key, in.Pos(), "not JSON by construction ("+why+") but only reachable on paths that end in a non-nil error")
				return
			}
			c.Fail("M1", key, in.Pos(), "written into the rewritten _outs without encoding: "+why+
				"; a key or path containing '\"', '\\' or a control character makes the top-level outputs record malformed JSON")
		})
	}
	c.Note("M1: %d direct writes (%d constants, %d JSON by construction, %d raw, all on failing paths)", nDirect, nConst, nJson, nRaw)
	c.Floor("M1", "direct writes into the _outs buffer", nDirect, 5)
	c.Floor("M1", "writes of encoder results or RawMessage values", nJson, 2)
}

func (s *c13) ruleM2() {
	c := s.c
	n := 0
	for _, fn := range s.fam {
		if errIndex(fn) < 0 || fn.Parent() != nil {
			continue // closures and helpers without an error result are pieces of their caller
		}
		// a helper that only formats (never called where a value is expected) is still a writer: same rule
		n++
		w := s.skippingPath(fn)
		detail := "every path to a return that can carry a nil error writes a value (directly or in a writer it calls)"
		if w != nil {
			detail = "a path returns (possibly) without error and without having written anything: the caller has already written the key or separator, so the record becomes malformed; path " + c.WitnessString(w)
		}
		c.Check("M2", "value-written-on-every-succeeding-path@"+an.FnName(fn), fn.Pos(), w == nil, detail)
	}
	c.Floor("M2", "writers with an error result", n, 3)
}

// loops of fn: header -> body blocks (natural loops from back edges).
func naturalLoops(fn *ssa.Function) map[*ssa.BasicBlock]map[*ssa.BasicBlock]bool {
	loops := map[*ssa.BasicBlock]map[*ssa.BasicBlock]bool{}
	for _, b := range fn.Blocks {
		for _, h := range b.Succs {
			if !h.Dominates(b) {
				continue
			}
			body := loops[h]
			if body == nil {
				body = map[*ssa.BasicBlock]bool{h: true}
				loops[h] = body
			}
			stack := []*ssa.BasicBlock{b}
			for len(stack) > 0 {
				x := stack[len(stack)-1]
				stack = stack[:len(stack)-1]
				if body[x] {
					continue
				}
				body[x] = true
				stack = append(stack, x.Preds...)
			}
		}
	}
	return loops
}

func isSeparatorConst(v ssa.Value) bool {
	cv, ok := an.ConstVal(v)
	if !ok {
		return false
	}
	s := cv.ExactString()
	return s == "44" || s == `","` || s == `",\n"` || s == `", "`
}

// maySeparate: the instruction writes a ',' itself or calls a family closure/helper that may.
func (s *c13) maySeparate(in ssa.Instruction, depth int) bool {
	bw := s.classify(in)
	if bw == nil {
		return false
	}
	if bw.kind == "direct" {
		return isSeparatorConst(bw.data)
	}
	if bw.kind == "family" && depth < 2 && (bw.callee.Parent() != nil || !s.isElementWriter(bw.callee)) {
		found := false
		an.Instrs(bw.callee, func(x ssa.Instruction) {
			if s.maySeparate(x, depth+1) {
				found = true
			}
		})
		return found
	}
	return false
}

// isElementWriter: a named family function with an error result that must write a value.
func (s *c13) isElementWriter(f *ssa.Function) bool {
	return f.Parent() == nil && errIndex(f) >= 0 && s.mustWrite(f)
}

// elementWrite: writes one whole component value: a call of an element writer, or a direct write
// of RawMessage bytes / an encoder result that is not a key (keys are followed by ':').
func (s *c13) elementWrite(in ssa.Instruction) bool {
	bw := s.classify(in)
	if bw == nil {
		return false
	}
	switch bw.kind {
	case "family":
		return s.isElementWriter(bw.callee)
	case "external":
		return true
	case "direct":
		if _, isC := an.ConstVal(bw.data); isC {
			return false
		}
		// a direct write of a non-constant: element unless the next write on every path is ':' (a key)
		return !s.followedByColon(in)
	}
	return false
}

func (s *c13) followedByColon(in ssa.Instruction) bool {
	fn := in.Parent()
	colon := func(x ssa.Instruction) bool {
		bw := s.classify(x)
		if bw == nil || bw.kind != "direct" {
			return false
		}
		cv, ok := an.ConstVal(bw.data)
		return ok && (cv.ExactString() == "58" || cv.ExactString() == `":"`)
	}
	anyWrite := func(x ssa.Instruction) bool { return s.classify(x) != nil }
	// some path reaches a colon write before any other write
	w := an.Query{Fn: fn, After: in, Target: colon, Barrier: func(x ssa.Instruction) bool { return !colon(x) && anyWrite(x) }}.Find()
	return w != nil
}

func (s *c13) ruleM3() {
	c := s.c
	n := 0
	for _, fn := range s.fam {
		loops := naturalLoops(fn)
		var heads []*ssa.BasicBlock
		for h := range loops {
			heads = append(heads, h)
		}
		sort.Slice(heads, func(i, j int) bool { return heads[i].Index < heads[j].Index })
		nInFn := 0
		for _, h := range heads {
			body := loops[h]
			separates := false
			for b := range body {
				for _, in := range b.Instrs {
					if s.maySeparate(in, 0) {
						separates = true
					}
				}
			}
			if !separates {
				continue
			}
			n++
			nInFn++
			// a path from the header round to the header, inside the loop, without an element write
			first := h.Instrs[0]
			w := an.Query{
				Fn:      fn,
				After:   first,
				Target:  func(in ssa.Instruction) bool { return in == first },
				Barrier: s.elementWrite,
				BarrierEdge: func(from, to *ssa.BasicBlock) bool {
					return !body[to]
				},
			}.Find()
			detail := "every iteration writes its element"
			if w != nil {
				detail = "an iteration of this separator-writing loop can complete without writing an element (the separator or key was or will be written for an index that produced no value): path " + c.WitnessString(w)
			}
			c.Check("M3", fmt.Sprintf("every-iteration-writes-an-element(separator loop %d)@%s", nInFn, an.FnName(fn)), first.Pos(), w == nil, detail)
		}
	}
	c.Floor("M3", "separator-writing loops in the writers", n, 2)
}

// M5: destinations in outs/.
func (s *c13) ruleM5() {
	c := s.c
	fromOutFilename := func(v ssa.Value) bool {
		seen := map[ssa.Value]bool{}
		memo := map[ssa.Value]bool{}
		var rec0 func(v ssa.Value, d int) bool
		var rec func(v ssa.Value, d int) bool
		rec = func(v ssa.Value, d int) bool {
			// a value reached a second time (the same local handed to two helpers) has the verdict
			// it had the first time; only a cycle in progress counts as "no"
			if r, done := memo[v]; done {
				return r
			}
			r := rec0(v, d)
			if v != nil {
				memo[v] = r
			}
			return r
		}
		rec0 = func(v ssa.Value, d int) bool {
			if v == nil || seen[v] || d > 10 {
				return false
			}
			seen[v] = true
			switch x := v.(type) {
			case *ssa.Call:
				if f := x.Call.StaticCallee(); f != nil {
					if f.Name() == "GetOutFilename" {
						return true
					}
					for _, a := range x.Call.Args {
						if rec(a, d+1) {
							return true
						}
					}
				}
				return false
			case *ssa.Phi:
				for _, e := range x.Edges {
					if !rec(e, d+1) {
						return false
					}
				}
				return len(x.Edges) > 0
			case *ssa.Extract:
				return rec(x.Tuple, d+1)
			case *ssa.Slice:
				return rec(x.X, d+1)
			case *ssa.Alloc:
				// variadic argument array: any element stored
				for _, r := range an.Referrers(x) {
					if ia, ok := r.(*ssa.IndexAddr); ok {
						for _, r2 := range an.Referrers(ia) {
							if st, ok := r2.(*ssa.Store); ok && rec(st.Val, d+1) {
								return true
							}
						}
					}
				}
				return false
			case *ssa.BinOp:
				return rec(x.X, d+1) || rec(x.Y, d+1)
			case *ssa.Parameter:
				// a helper taking the destination: every family call passes a derived value
				fn := x.Parent()
				idx := -1
				for i, p := range fn.Params {
					if p == x {
						idx = i
					}
				}
				n, ok := 0, true
				for _, m := range s.fam {
					an.Instrs(m, func(in ssa.Instruction) {
						cl, isCall := in.(*ssa.Call)
						if !isCall || cl.Call.StaticCallee() != fn || idx >= len(cl.Call.Args) {
							return
						}
						n++
						if !rec(cl.Call.Args[idx], d+1) {
							ok = false
						}
					})
				}
				return ok && n > 0 && fn != s.fam[0]
			}
			return false
		}
		return rec(v, 0)
	}
	nRen, nSym := 0, 0
	for _, fn := range s.fam {
		name := an.FnName(fn)
		var renameSrc []ssa.Value
		an.Instrs(fn, func(in ssa.Instruction) {
			if cl, ok := an.IsPkgFuncCall(in, "os", "Rename"); ok {
				renameSrc = append(renameSrc, cl.Common().Args[0])
			}
		})
		an.Instrs(fn, func(in ssa.Instruction) {
			if cl, ok := an.IsPkgFuncCall(in, "os", "Rename"); ok {
				nRen++
				dst := cl.Common().Args[1]
				c.Check("M5", "rename-destination-from-GetOutFilename@"+name, in.Pos(), fromOutFilename(dst),
					"the file is moved to a path built from the member's GetOutFilename() (parameter name, type and explicit output name)")
			}
			if cl, ok := an.IsPkgFuncCall(in, "os", "Symlink"); ok {
				nSym++
				dst := cl.Common().Args[1]
				back := false
				for _, src := range renameSrc {
					if src == dst || an.Path(src) == an.Path(dst) {
						back = true
					}
				}
				if back {
					c.Pass("M5", "symlink-back-at-the-moved-file's-old-path@"+name, in.Pos(), "the link replaces the file that was just moved")
					return
				}
				// either the link is placed under outs/ (its name derives from GetOutFilename), or it is the link
				// back: it POINTS at the file under outs/ (its target derives from GetOutFilename)
				c.Check("M5", "symlink-destination-from-GetOutFilename@"+name, in.Pos(), fromOutFilename(dst) || fromOutFilename(cl.Common().Args[0]),
					"a link created for an output is placed at (or points back at) the path built from the member's GetOutFilename()")
			}
		})
	}
	c.Floor("M5", "os.Rename sites in the writers", nRen, 1)
	c.Floor("M5", "os.Symlink sites in the writers", nSym, 2)
}

// M6: duplicate output names are rejected for every member.
func ruleM6(c *an.Ctx) {
	fn := c.NeedFunc(pkgSyntax, "(*StructType).compile")
	if fn == nil {
		return
	}
	fam := familyOf(c.P, fn, 2)
	n := 0
	for _, m := range fam {
		an.Instrs(m, func(in ssa.Instruction) {
			call, ok := in.(*ssa.Call)
			if !ok || call.Call.StaticCallee() == nil || call.Call.StaticCallee().Name() != "GetOutFilename" {
				return
			}
			n++
			name := ssa.Value(call)
			// the lookup of this name in a set, and what follows
			isLookup := func(x ssa.Instruction) bool {
				lk, ok := x.(*ssa.Lookup)
				return ok && lk.CommaOk && lk.Index == name
			}
			isInsert := func(x ssa.Instruction) bool {
				mu, ok := x.(*ssa.MapUpdate)
				return ok && mu.Key == name
			}
			isErrAppend := func(x ssa.Instruction) bool {
				cl, ok := x.(*ssa.Call)
				if !ok {
					return false
				}
				if b, isB := cl.Call.Value.(*ssa.Builtin); isB && b.Name() == "append" && len(cl.Call.Args) > 0 {
					if nm, ok := cl.Call.Args[0].Type().(*types.Named); ok && nm.Obj().Name() == "ErrorList" {
						return true
					}
				}
				return false
			}
			// start: the edge on which the name is non-empty.  Find the If testing name != "".
			var starts []ssa.Instruction
			for _, r := range an.Referrers(name) {
				bo, ok := r.(*ssa.BinOp)
				if !ok || (bo.Op != token.NEQ && bo.Op != token.EQL) {
					continue
				}
				other := bo.Y
				if other == name {
					other = bo.X
				}
				if !an.IsStringConst(other, "") {
					continue
				}
				for _, r2 := range an.Referrers(bo) {
					ifi, ok := r2.(*ssa.If)
					if !ok {
						continue
					}
					succ := ifi.Block().Succs[0]
					if bo.Op == token.EQL {
						succ = ifi.Block().Succs[1]
					}
					if len(succ.Instrs) > 0 {
						starts = append(starts, succ.Instrs[0])
					}
				}
			}
			key := "every-named-member-checked-and-recorded@" + an.FnName(m)
			if len(starts) == 0 {
				// no emptiness test: the rule applies from the call itself
				starts = append(starts, ssa.Instruction(call))
			}
			okAll := true
			detail := "on every path on which the out filename is non-empty it is looked up in the set of names, and then an error is recorded or the name is inserted"
			for _, st := range starts {
				// (a) the lookup is passed before the iteration ends (return or the call executing again)
				endOfIteration := func(x ssa.Instruction) bool {
					if _, isRet := x.(*ssa.Return); isRet {
						return true
					}
					return x == ssa.Instruction(call)
				}
				startsWith := func(pred func(ssa.Instruction) bool) bool { return pred(st) }
				if !startsWith(isLookup) {
					if w := (an.Query{Fn: m, After: st, Target: endOfIteration, Barrier: isLookup}).Find(); w != nil {
						okAll = false
						detail = "a member with a non-empty out filename can pass without being looked up in the set of used names: path " + c.WitnessString(w)
						continue
					}
				}
				// (b) after each lookup: error recorded or name inserted before the iteration ends
				an.Instrs(m, func(x ssa.Instruction) {
					if !isLookup(x) {
						return
					}
					if w := (an.Query{Fn: m, After: x, Target: endOfIteration, Barrier: func(y ssa.Instruction) bool { return isInsert(y) || isErrAppend(y) }}).Find(); w != nil {
						okAll = false
						detail = "after the look-up a path ends the iteration without recording an error and without inserting the name: a later member with the same out filename is not rejected; path " + c.WitnessString(w)
					}
				})
			}
			c.Check("M6", key, call.Pos(), okAll, detail)
		})
	}
	c.Floor("M6", "GetOutFilename() reads in StructType.compile", n, 1)
	// callables' outputs are compiled as a struct
	sfc := c.P.Func(pkgSyntax, "structFromCallable")
	if sfc == nil {
		c.Info("M6", "callable-outputs-compiled-as-struct", token.NoPos, "structFromCallable not found: not decided")
		return
	}
	// only the compiler proper: functions statically reachable from (*Ast).compile
	// (the include fixer builds unchecked tables from the same helper)
	inCompile := map[*ssa.Function]bool{}
	if top := c.NeedFunc(pkgSyntax, "(*Ast).compile"); top != nil {
		work := []*ssa.Function{top}
		inCompile[top] = true
		for len(work) > 0 {
			f := work[0]
			work = work[1:]
			for _, g := range an.WithAnon(f) {
				an.Instrs(g, func(in ssa.Instruction) {
					if cl := an.AsCallAny(in); cl != nil {
						if callee := cl.Common().StaticCallee(); callee != nil && callee.Blocks != nil && callee.Pkg == top.Pkg && !inCompile[callee] {
							inCompile[callee] = true
							work = append(work, callee)
						}
					}
				})
			}
		}
	}
	nCalls := 0
	for caller, sites := range c.P.Callers(sfc) {
		if !inCompile[an.Outermost(caller)] {
			continue
		}
		for _, site := range sites {
			cl, ok := site.(*ssa.Call)
			if !ok {
				continue
			}
			nCalls++
			compiled := false
			var isCompiled func(v ssa.Value, d int) bool
			isCompiled = func(v ssa.Value, d int) bool {
				for _, r := range an.Referrers(v) {
					rc, ok := r.(*ssa.Call)
					if !ok || rc.Call.StaticCallee() == nil {
						continue
					}
					if rc.Call.StaticCallee() == fn && len(rc.Call.Args) > 0 && rc.Call.Args[0] == v {
						return true
					}
					// handed to a helper of the package that compiles it
					if h := rc.Call.StaticCallee(); d < 2 && h.Blocks != nil && h.Pkg == fn.Pkg {
						for i, a := range rc.Call.Args {
							if a == v && i < len(h.Params) && isCompiled(h.Params[i], d+1) {
								return true
							}
						}
					}
				}
				return false
			}
			compiled = isCompiled(cl, 0)
			c.Check("M6", "callable-outputs-compiled-as-struct@"+an.FnName(caller), cl.Pos(), compiled,
				"the struct type synthesised from a callable's outputs is handed to StructType.compile (which rejects duplicate out filenames)")
		}
	}
	c.Floor("M6", "calls of structFromCallable", nCalls, 1)
}

// variadicElems: the elements of a variadic argument built in place (`f(a, b, c)`).
func variadicElems(v ssa.Value) []ssa.Value {
	sl, ok := v.(*ssa.Slice)
	if !ok {
		return nil
	}
	var out []ssa.Value
	for _, r := range an.Referrers(sl.X) {
		if ia, ok := r.(*ssa.IndexAddr); ok {
			for _, r2 := range an.Referrers(ia) {
				if st, ok := r2.(*ssa.Store); ok && st.Addr == ssa.Value(ia) {
					out = append(out, st.Val)
				}
			}
		}
	}
	return out
}

// M7: a relative link target is resolved against the directory of the link it was read from.
// copyOutSymlink follows a chain of symbolic links by hand (it must not walk up the tree as
// EvalSymlinks does): each hop reads a link with os.Readlink(P) and, when the target R is relative,
// continues at Join(Dir(Q), R).  POSIX resolves a relative target against the directory that
// contains the link, so Q must be P - the very path that was read.  Resolving a later hop against
// the directory of the FIRST link makes the rewritten _outs (and, for longer chains, the link
// placed under outs/) point at a file that does not exist.
// Decided by comparing the leaf sets (through phis) of P and Q, also through a helper
// `resolve(linkPath, target)` whose parameters are mapped to the arguments of each call.
func (s *c13) ruleM7() {
	c := s.c
	leaves := func(v ssa.Value) map[string]bool {
		out := map[string]bool{}
		seen := map[ssa.Value]bool{}
		var rec func(v ssa.Value)
		rec = func(v ssa.Value) {
			if v == nil || seen[v] {
				return
			}
			seen[v] = true
			if ph, ok := v.(*ssa.Phi); ok {
				for _, e := range ph.Edges {
					rec(e)
				}
				return
			}
			out[an.Path(v)] = true
		}
		rec(v)
		return out
	}
	sameSet := func(a, b map[string]bool) bool {
		if len(a) != len(b) {
			return false
		}
		for k := range a {
			if !b[k] {
				return false
			}
		}
		return true
	}
	// readlinkSources: the paths P such that v (through phis) is the target returned by os.Readlink(P)
	readlinkSources := func(v ssa.Value) (map[string]bool, bool) {
		out := map[string]bool{}
		seen := map[ssa.Value]bool{}
		all := true
		any := false
		var rec func(v ssa.Value)
		rec = func(v ssa.Value) {
			if v == nil || seen[v] {
				return
			}
			seen[v] = true
			switch x := v.(type) {
			case *ssa.Phi:
				for _, e := range x.Edges {
					rec(e)
				}
			case *ssa.Extract:
				if cl, ok := x.Tuple.(*ssa.Call); ok && x.Index == 0 {
					if f := cl.Call.StaticCallee(); f != nil && f.Pkg != nil && f.Pkg.Pkg.Path() == "os" && f.Name() == "Readlink" {
						any = true
						for k := range leaves(cl.Call.Args[0]) {
							out[k] = true
						}
						return
					}
				}
				all = false
			default:
				all = false
			}
		}
		rec(v)
		return out, any && all
	}
	n := 0
	check := func(host *ssa.Function, pos token.Pos, q, r ssa.Value, via string) {
		src, isTarget := readlinkSources(r)
		if !isTarget {
			return
		}
		n++
		ok := sameSet(leaves(q), src)
		c.Check("M7", "relative-link-target-resolved-against-its-own-link"+via+"@"+an.FnName(host), pos, ok,
			fmt.Sprintf("the target returned by os.Readlink(%s) is joined with the directory of %s: a relative target of a later link in a chain is resolved against the wrong directory, so the recorded output path (and the link under outs/) can point at a file that does not exist", keysOf(src), keysOf(leaves(q))))
	}
	for _, fn := range s.fam {
		an.Instrs(fn, func(in ssa.Instruction) {
			cl, ok := in.(*ssa.Call)
			if !ok || cl.Call.StaticCallee() == nil {
				return
			}
			f := cl.Call.StaticCallee()
			if f.Pkg != nil && (f.Pkg.Pkg.Path() == "path/filepath" || f.Pkg.Pkg.Path() == "path") && f.Name() == "Join" && len(cl.Call.Args) == 1 {
				elems := variadicElems(cl.Call.Args[0])
				var dirOf ssa.Value
				for _, e := range elems {
					if dc, ok := e.(*ssa.Call); ok && dc.Call.StaticCallee() != nil && dc.Call.StaticCallee().Name() == "Dir" && len(dc.Call.Args) == 1 {
						dirOf = dc.Call.Args[0]
					}
				}
				if dirOf == nil {
					return
				}
				for _, e := range elems {
					if _, isCall := e.(*ssa.Call); isCall {
						continue
					}
					// a helper's parameters: map to the arguments of every family call
					if prm, isP := e.(*ssa.Parameter); isP {
						qp, isQP := dirOf.(*ssa.Parameter)
						if !isQP {
							continue
						}
						h := prm.Parent()
						ri, qi := -1, -1
						for i, x := range h.Params {
							if x == prm {
								ri = i
							}
							if x == qp {
								qi = i
							}
						}
						for _, m := range append(append([]*ssa.Function{}, s.fam...), h) {
							for _, cs := range callsTo(m, h) {
								if ri >= 0 && qi >= 0 && ri < len(cs.Common().Args) && qi < len(cs.Common().Args) {
									check(m, cs.Pos(), cs.Common().Args[qi], cs.Common().Args[ri], "(via "+an.FnName(h)+")")
								}
							}
						}
						continue
					}
					check(fn, in.Pos(), dirOf, e, "")
				}
			}
		})
	}
	// helpers that only resolve (no buffer) are not family members: scan the package functions the family calls
	seenH := map[*ssa.Function]bool{}
	for _, fn := range s.fam {
		an.Instrs(fn, func(in ssa.Instruction) {
			cl, ok := in.(*ssa.Call)
			if !ok {
				return
			}
			h := cl.Call.StaticCallee()
			if h == nil || h.Blocks == nil || h.Pkg != fn.Pkg || s.inFam[h] || seenH[h] {
				return
			}
			seenH[h] = true
			an.Instrs(h, func(hin ssa.Instruction) {
				jc, ok := hin.(*ssa.Call)
				if !ok || jc.Call.StaticCallee() == nil || jc.Call.StaticCallee().Name() != "Join" || len(jc.Call.Args) != 1 {
					return
				}
				elems := variadicElems(jc.Call.Args[0])
				var qp *ssa.Parameter
				for _, e := range elems {
					if dc, ok := e.(*ssa.Call); ok && dc.Call.StaticCallee() != nil && dc.Call.StaticCallee().Name() == "Dir" && len(dc.Call.Args) == 1 {
						qp, _ = dc.Call.Args[0].(*ssa.Parameter)
					}
				}
				if qp == nil {
					return
				}
				for _, e := range elems {
					prm, isP := e.(*ssa.Parameter)
					if !isP {
						continue
					}
					ri, qi := -1, -1
					for i, x := range h.Params {
						if x == prm {
							ri = i
						}
						if x == qp {
							qi = i
						}
					}
					for _, m := range s.fam {
						for _, cs := range callsTo(m, h) {
							if ri >= 0 && qi >= 0 && ri < len(cs.Common().Args) && qi < len(cs.Common().Args) {
								check(m, cs.Pos(), cs.Common().Args[qi], cs.Common().Args[ri], "(via "+an.FnName(h)+")")
							}
						}
					}
				}
			})
		})
	}
	c.Floor("M7", "relative link targets joined with a directory", n, 1)
}

// M8: "the file is missing, report null" is concluded only after looking for the file where an
// interrupted run would have left it.  moveOutFile renames the file into outs/ and then links it
// back; mrp runs post-processing again after a restart (cleanupCompleted calls PostProcess
// unconditionally).  A kill between the rename and the link leaves the file under outs/ and
// nothing at its old path: if the second run takes "source does not exist" to mean "the stage did
// not create it", the output is recorded as null although the file is there.
// Rule: every write of the null literal that is dominated by os.IsNotExist(err) of a stat of the
// source path is preceded, on every path, by a stat of the destination (a path built from
// GetOutFilename()).
func (s *c13) ruleM8() {
	c := s.c
	fromOut := func(v ssa.Value) bool {
		seen := map[ssa.Value]bool{}
		var rec func(v ssa.Value, d int) bool
		rec = func(v ssa.Value, d int) bool {
			if v == nil || seen[v] || d > 8 {
				return false
			}
			seen[v] = true
			switch x := v.(type) {
			case *ssa.Call:
				if f := x.Call.StaticCallee(); f != nil {
					if f.Name() == "GetOutFilename" {
						return true
					}
					for _, a := range x.Call.Args {
						if rec(a, d+1) {
							return true
						}
					}
				}
			case *ssa.Slice:
				for _, e := range variadicElems(x) {
					if rec(e, d+1) {
						return true
					}
				}
			case *ssa.Phi:
				for _, e := range x.Edges {
					if rec(e, d+1) {
						return true
					}
				}
			case *ssa.BinOp:
				return rec(x.X, d+1) || rec(x.Y, d+1)
			case *ssa.Parameter:
				// the destination handed to a helper: what every caller passes
				hf := x.Parent()
				idx := -1
				for i, prm := range hf.Params {
					if prm == x {
						idx = i
					}
				}
				cnt, all := 0, true
				for _, sites := range c.P.Callers(hf) {
					for _, site := range sites {
						if idx < 0 || idx >= len(site.Common().Args) {
							all = false
							continue
						}
						cnt++
						seen2 := seen
						_ = seen2
						delete(seen, site.Common().Args[idx])
						if !rec(site.Common().Args[idx], d+1) {
							all = false
						}
					}
				}
				return all && cnt > 0
			}
			return false
		}
		return rec(v, 0)
	}
	isStat := func(in ssa.Instruction) (ssa.Value, bool) {
		cl, ok := in.(*ssa.Call)
		if !ok || cl.Call.StaticCallee() == nil || cl.Call.StaticCallee().Pkg == nil || cl.Call.StaticCallee().Pkg.Pkg.Path() != "os" {
			return nil, false
		}
		if n := cl.Call.StaticCallee().Name(); (n == "Lstat" || n == "Stat") && len(cl.Call.Args) == 1 {
			return cl.Call.Args[0], true
		}
		return nil, false
	}
	n := 0
	for _, fn := range s.fam {
		an.Instrs(fn, func(in ssa.Instruction) {
			bw := s.classify(in)
			if bw == nil || bw.kind != "direct" {
				return
			}
			u, ok := an.Strip(bw.data).(*ssa.UnOp)
			if !ok {
				return
			}
			g, ok := u.X.(*ssa.Global)
			if !ok || g.Name() != "nullBytes" {
				return
			}
			isNotExist := func(r an.Rel) bool {
				if r.Op != token.ILLEGAL || !r.Truth {
					return false
				}
				cl, ok := r.X.(*ssa.Call)
				return ok && cl.Call.StaticCallee() != nil && cl.Call.StaticCallee().Name() == "IsNotExist"
			}
			notExist, _ := an.GuardedBy(in, isNotExist)
			viaHelper := false
			if !notExist && guardedAtAllCalls(c.P, fn, isNotExist, 0) {
				// the "missing source" arm was moved into a helper called only on that edge
				notExist, viaHelper = true, true
			}
			if !notExist {
				return
			}
			n++
			statOut := func(x ssa.Instruction) bool {
				arg, ok := isStat(x)
				return ok && fromOut(arg)
			}
			w := an.Query{Fn: fn, Target: func(x ssa.Instruction) bool { return x == in }, Barrier: statOut}.Find()
			if w != nil && viaHelper {
				// ... unless every caller looked before calling the helper
				all := true
				for caller, sites := range c.P.Callers(fn) {
					for _, site := range sites {
						site := site
						q := an.Query{Fn: caller, Target: func(x ssa.Instruction) bool { return x == site.(ssa.Instruction) }, Barrier: statOut}
						if q.Find() != nil {
							all = false
						}
					}
				}
				if all {
					w = nil
				}
			}
			c.Check("M8", "missing-source-means-null-only-if-not-already-moved@"+an.FnName(fn), in.Pos(), w == nil,
				"null is recorded for an output whose source path does not exist without looking for the file at its destination under outs/: after a kill between the rename into outs/ and the link back, the second post-processing run (mrp runs it again on restart) records null although the file is there; "+c.WitnessString(w))
		})
	}
	c.Floor("M8", "null written for a missing source file", n, 1)
}
