package props

import (
	"fmt"
	"go/token"
	"go/types"

	"mrocheck/an"

	"golang.org/x/tools/go/ssa"
)

// N4: strings written into rebuilt JSON are encoded.  A FilterJson implementation that rebuilds an
// object writes the member names it decoded; a decoded name can hold any character, so it must be
// re-encoded (json.Marshal, strconv.Quote, …).  Writing the raw string between quotes is accepted only
// on the error edge of json.Marshal of the same string (the fallback the code has today), or when the
// guards dominating the write exclude '"', '\\' and every control character - otherwise the filter
// turns well-formed JSON into malformed JSON (breaking idempotence and validity of the result).
func ruleN4(c *an.Ctx) {
	impls := typeImpls(c, "FilterJson")
	var required []rune
	required = append(required, '"', '\\')
	for r := rune(0); r < 0x20; r++ {
		required = append(required, r)
	}
	nRaw, nEnc := 0, 0
	// the writers may have been factored out of the implementations: scan their private helpers too
	var scan []*ssa.Function
	seenFn := map[*ssa.Function]bool{}
	for _, impl := range impls {
		for _, m := range familyOfShared(c.P, impl, impls, 2) {
			if !seenFn[m] {
				seenFn[m] = true
				scan = append(scan, m)
			}
		}
	}
	for _, fn := range scan {
		an.Instrs(fn, func(in ssa.Instruction) {
			call, ok := in.(*ssa.Call)
			if !ok {
				return
			}
			f := call.Call.StaticCallee()
			if f == nil || f.Name() != "WriteString" || f.Signature.Recv() == nil || len(call.Call.Args) != 2 {
				return
			}
			x := call.Call.Args[1]
			if _, isC := an.ConstVal(x); isC {
				return
			}
			if b, ok := x.Type().Underlying().(*types.Basic); !ok || b.Info()&types.IsString == 0 {
				return
			}
			// produced by an encoder / conversion of encoder output: fine
			if _, isCall := an.Strip(x).(*ssa.Call); isCall {
				nEnc++
				return
			}
			if cv, ok := an.Strip(x).(*ssa.Convert); ok {
				if _, isCall := an.Strip(cv.X).(*ssa.Call); isCall {
					nEnc++
					return
				}
				if ex, isEx := cv.X.(*ssa.Extract); isEx {
					if _, isCall := ex.Tuple.(*ssa.Call); isCall {
						nEnc++
						return
					}
				}
			}
			nRaw++
			key := "raw-string-into-json(" + an.StablePath(x) + ")@" + an.FnName(fn)
			// error edge of json.Marshal(x)
			onMarshalErr, _ := an.GuardedBy(call, func(r an.Rel) bool {
				if r.Op != token.NEQ || !an.IsNil(r.Y) {
					return false
				}
				ex, ok := r.X.(*ssa.Extract)
				if !ok || ex.Index != 1 {
					return false
				}
				mc, ok := ex.Tuple.(*ssa.Call)
				if !ok {
					return false
				}
				mf := mc.Call.StaticCallee()
				if mf == nil || mf.Pkg == nil || mf.Pkg.Pkg.Path() != "encoding/json" || len(mc.Call.Args) != 1 {
					return false
				}
				mi, ok := mc.Call.Args[0].(*ssa.MakeInterface)
				return ok && (mi.X == x || an.Path(mi.X) == an.Path(x))
			})
			if onMarshalErr {
				c.Pass("N4", key, call.Pos(), "raw write only on the error edge of json.Marshal of the same string")
				return
			}
			fromInput := func(v ssa.Value) bool {
				for {
					if v == x {
						return true
					}
					switch y := v.(type) {
					case *ssa.Slice:
						v = y.X
					case *ssa.Convert:
						v = y.X
					default:
						return false
					}
				}
			}
			verbatimVerdict(c, "N4", key, fn, call, fromInput, required,
				"a decoded string is written into the rebuilt JSON without encoding",
				"a member name containing it makes the filtered result malformed JSON")
		})
	}
	c.Note("N4: raw string writes in FilterJson implementations: %d (encoded writes: %d)", nRaw, nEnc)
	c.Floor("N4", "raw string writes in FilterJson implementations (today: the json.Marshal error fallbacks)", nRaw, 1)
	_ = fmt.Sprint
}
