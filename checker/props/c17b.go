package props

import (
	"fmt"
	"go/token"
	"go/types"

	"mrocheck/an"

	"golang.org/x/tools/go/ssa"
)

// N4: strings written into rebuilt JSON are encoded.  A FilterJson implementation that rebuilds an
// object writes the member names it decoded; a decoded name can hold any character, so it must be
// re-encoded (json.Marshal, strconv.Quote, …).  Writing the raw string between quotes is accepted only
// on the error edge of json.Marshal of the same string (the fallback the code has today), or when the
// guards dominating the write exclude '"', '\\' and every control character - otherwise the filter
// turns well-formed JSON into malformed JSON (breaking idempotence and validity of the result).
func ruleN4(c *an.Ctx) {
	impls := typeImpls(c, "FilterJson")
	var required []rune
	required = append(required, '"', '\\')
	for r := rune(0); r < 0x20; r++ {
		required = append(required, r)
	}
	nRaw, nEnc := 0, 0
	// the writers may have been factored out of the implementations: scan their private helpers too
	var scan []*ssa.Function
	seenFn := map[*ssa.Function]bool{}
	for _, impl := range impls {
		for _, m := range familyOfShared(c.P, impl, impls, 2) {
			if !seenFn[m] {
				seenFn[m] = true
				scan = append(scan, m)
			}
		}
	}
	for _, fn := range scan {
		an.Instrs(fn, func(in ssa.Instruction) {
			call, ok := in.(*ssa.Call)
			if !ok {
				return
			}
			f := call.Call.StaticCallee()
			if f == nil || f.Name() != "WriteString" || f.Signature.Recv() == nil || len(call.Call.Args) != 2 {
				return
			}
			x := call.Call.Args[1]
			if _, isC := an.ConstVal(x); isC {
				return
			}
			if b, ok := x.Type().Underlying().(*types.Basic); !ok || b.Info()&types.IsString == 0 {
				return
			}
			// produced by an encoder / conversion of encoder output: fine
			if _, isCall := an.Strip(x).(*ssa.Call); isCall {
				nEnc++
				return
			}
			if cv, ok := an.Strip(x).(*ssa.Convert); ok {
				if _, isCall := an.Strip(cv.X).(*ssa.Call); isCall {
					nEnc++
					return
				}
				if ex, isEx := cv.X.(*ssa.Extract); isEx {
					if _, isCall := ex.Tuple.(*ssa.Call); isCall {
						nEnc++
						return
					}
				}
			}
			nRaw++
			key := "raw-string-into-json(" + an.StablePath(x) + ")@" + an.FnName(fn)
			// error edge of json.Marshal(x)
			onMarshalErr, _ := an.GuardedBy(call, func(r an.Rel) bool {
				if r.Op != token.NEQ || !an.IsNil(r.Y) {
					return false
				}
				ex, ok := r.X.(*ssa.Extract)
				if !ok || ex.Index != 1 {
					return false
				}
				mc, ok := ex.Tuple.(*ssa.Call)
				if !ok {
					return false
				}
				mf := mc.Call.StaticCallee()
				if mf == nil || mf.Pkg == nil || mf.Pkg.Pkg.Path() != "encoding/json" || len(mc.Call.Args) != 1 {
					return false
				}
				mi, ok := mc.Call.Args[0].(*ssa.MakeInterface)
				return ok && (mi.X == x || an.Path(mi.X) == an.Path(x))
			})
			if onMarshalErr {
				c.Pass("N4", key, call.Pos(), "raw write only on the error edge of json.Marshal of the same string")
				return
			}
			fromInput := func(v ssa.Value) bool {
				for {
					if v == x {
						return true
					}
					switch y := v.(type) {
					case *ssa.Slice:
						v = y.X
					case *ssa.Convert:
						v = y.X
					default:
						return false
					}
				}
			}
			verbatimVerdict(c, "N4", key, fn, call, fromInput, required,
				"a decoded string is written into the rebuilt JSON without encoding",
				"a member name containing it makes the filtered result malformed JSON")
		})
	}
	c.Note("N4: raw string writes in FilterJson implementations: %d (encoded writes: %d)", nRaw, nEnc)
	c.Floor("N4", "raw string writes in FilterJson implementations (today: the json.Marshal error fallbacks)", nRaw, 1)
	_ = fmt.Sprint
}

// N5: a FilterJson that rebuilds its value returns the ORIGINAL bytes (pointer-identical, the
// caller's signal for "nothing changed") only if no component's filtered bytes differ from that
// component's input.  If a changed component can leave the "different" flag unset, the rebuilt
// buffer is thrown away and the unfiltered input is passed on: undeclared struct fields survive,
// integral floats are not rewritten, and the enclosing value reports "unchanged" as well.
//
// The all-elements engine (allchain.go): S = the call that filters one component (a FilterJson
// call whose first result is compared with sameSlice, or a package helper returning the
// "changed" signal), conforming = sameSlice(...) returned true (or the signal is false),
// R = a return whose first result is the data parameter.  After a non-conforming S no path may
// reach R, whatever the flag's value was before.
func ruleN5(c *an.Ctx) {
	impls := typeImpls(c, "FilterJson")
	nSites := 0
	for _, fn := range impls {
		name := an.FnName(fn)
		if len(fn.Params) < 2 {
			continue
		}
		data := ssa.Value(fn.Params[1])
		var rets []*ssa.Return
		rebuilds := false
		an.Instrs(fn, func(in ssa.Instruction) {
			if ret, ok := in.(*ssa.Return); ok && len(ret.Results) > 0 {
				v := an.Strip(an.RetVal(ret, 0))
				if v == data {
					rets = append(rets, ret)
				}
				if cl, ok := v.(*ssa.Call); ok && cl.Call.StaticCallee() != nil && cl.Call.StaticCallee().Name() == "Bytes" {
					rebuilds = true
				}
			}
		})
		if !rebuilds || len(rets) == 0 {
			continue
		}
		// component filter calls whose result is compared with sameSlice
		an.Instrs(fn, func(in ssa.Instruction) {
			cl, ok := in.(*ssa.Call)
			if !ok || cl.Call.Value == nil {
				return
			}
			mname := ""
			if cl.Call.IsInvoke() {
				mname = cl.Call.Method.Name()
			} else if f := cl.Call.StaticCallee(); f != nil {
				mname = f.Name()
			}
			if mname != "FilterJson" {
				// a package helper that filters one component and reports "changed" (= !sameSlice(...))
				h := cl.Call.StaticCallee()
				if h == nil || h.Blocks == nil || h.Pkg != fn.Pkg {
					return
				}
				sigIdx := -1
				an.Instrs(h, func(hin ssa.Instruction) {
					ret, ok := hin.(*ssa.Return)
					if !ok {
						return
					}
					for i := range ret.Results {
						if u, ok := an.RetVal(ret, i).(*ssa.UnOp); ok && u.Op == token.NOT {
							if sc, ok := u.X.(*ssa.Call); ok && sc.Call.StaticCallee() != nil && sc.Call.StaticCallee().Name() == "sameSlice" {
								sigIdx = i
							}
						}
					}
				})
				if sigIdx < 0 {
					return
				}
				var sig ssa.Value
				if h.Signature.Results().Len() == 1 {
					sig = cl
				}
				for _, r := range an.Referrers(cl) {
					if ex, ok := r.(*ssa.Extract); ok && ex.Index == sigIdx {
						sig = ex
					}
				}
				if sig == nil {
					return
				}
				nSites++
				site := allSite{fn: fn, S: cl, desc: "component filter helper", ok: func(r an.Rel) bool {
					return r.Op == token.ILLEGAL && !r.Truth && r.X == sig
				}}
				for _, ret := range rets {
					ret := ret
					if (an.Query{Fn: fn, After: cl, Target: func(x ssa.Instruction) bool { return x == ssa.Instruction(ret) }}).Find() == nil {
						continue
					}
					ok, why := allCore(site, ret, 0)
					c.Check("N5", "original-returned-only-if-no-component-changed("+an.FnName(h)+")@"+name, cl.Pos(), ok,
						"after a component whose filtered bytes differ from its input, the function must not return the original value: "+why)
				}
				return
			}
			var fm ssa.Value
			for _, r := range an.Referrers(cl) {
				if ex, ok := r.(*ssa.Extract); ok && ex.Index == 0 {
					fm = ex
				}
			}
			if fm == nil {
				return
			}
			compared := false
			for _, r := range an.Referrers(fm) {
				if sc, ok := r.(*ssa.Call); ok && sc.Call.StaticCallee() != nil && sc.Call.StaticCallee().Name() == "sameSlice" {
					compared = true
				}
			}
			if !compared {
				// delegation (`return s.Elem.FilterJson(data, lookup)`) or a component the rule does not understand
				reach := an.Query{Fn: fn, After: cl, Target: func(x ssa.Instruction) bool {
					for _, r := range rets {
						if x == ssa.Instruction(r) {
							return true
						}
					}
					return false
				}}.Find()
				if reach != nil {
					nSites++
					c.Fail("N5", "component-compared("+an.StablePath(cl.Call.Value)+")@"+name, cl.Pos(),
						"the filtered bytes of this component are never compared with its input (sameSlice), yet the original value can be returned afterwards as unchanged")
				}
				return
			}
			nSites++
			site := allSite{fn: fn, S: cl, desc: "component filter", ok: func(r an.Rel) bool {
				if r.Op != token.ILLEGAL || !r.Truth {
					return false
				}
				sc, ok := r.X.(*ssa.Call)
				if !ok || sc.Call.StaticCallee() == nil || sc.Call.StaticCallee().Name() != "sameSlice" {
					return false
				}
				for _, a := range sc.Call.Args {
					if a == fm {
						return true
					}
				}
				return false
			}}
			for _, ret := range rets {
				// only returns reachable from the component count
				ret := ret
				if (an.Query{Fn: fn, After: cl, Target: func(x ssa.Instruction) bool { return x == ssa.Instruction(ret) }}).Find() == nil {
					continue
				}
				ok, why := allCore(site, ret, 0)
				c.Check("N5", "original-returned-only-if-no-component-changed("+an.StablePath(cl.Call.Value)+")@"+name, cl.Pos(), ok,
					"after a component whose filtered bytes differ from its input, the function must not return the original value: "+why)
			}
		})
	}
	c.Floor("N5", "component filter calls in rebuilding FilterJson implementations", nSites, 1)
}
