package props

import (
	"fmt"
	"go/token"
	"go/types"

	"mrocheck/an"

	"golang.org/x/tools/go/ssa"
)

// N4: strings written into rebuilt JSON are encoded.  A FilterJson implementation that rebuilds an
// object writes the member names it decoded; a decoded name can hold any character, so it must be
// re-encoded (json.Marshal, strconv.Quote, …).  Writing the raw string between quotes is accepted only
// on the error edge of json.Marshal of the same string (the fallback the code has today), or when the
// guards dominating the write exclude '"', '\\' and every control character - otherwise the filter
// turns well-formed JSON into malformed JSON (breaking idempotence and validity of the result).
func ruleN4(c *an.Ctx) {
	impls := typeImpls(c, "FilterJson")
	var required []rune
	required = append(required, '"', '\\')
	for r := rune(0); r < 0x20; r++ {
		required = append(required, r)
	}
	nRaw, nEnc := 0, 0
	// the writers may have been factored out of the implementations: scan their private helpers too
	var scan []*ssa.Function
	seenFn := map[*ssa.Function]bool{}
	for _, impl := range impls {
		for _, m := range familyOfShared(c.P, impl, impls, 2) {
			if !seenFn[m] {
				seenFn[m] = true
				scan = append(scan, m)
			}
		}
	}
	for _, fn := range scan {
		an.Instrs(fn, func(in ssa.Instruction) {
			call, ok := in.(*ssa.Call)
			if !ok {
				return
			}
			f := call.Call.StaticCallee()
			if f == nil || f.Name() != "WriteString" || f.Signature.Recv() == nil || len(call.Call.Args) != 2 {
				return
			}
			x := call.Call.Args[1]
			if _, isC := an.ConstVal(x); isC {
				return
			}
			if b, ok := x.Type().Underlying().(*types.Basic); !ok || b.Info()&types.IsString == 0 {
				return
			}
			// produced by an encoder / conversion of encoder output: fine
			if _, isCall := an.Strip(x).(*ssa.Call); isCall {
				nEnc++
				return
			}
			if cv, ok := an.Strip(x).(*ssa.Convert); ok {
				if _, isCall := an.Strip(cv.X).(*ssa.Call); isCall {
					nEnc++
					return
				}
				if ex, isEx := cv.X.(*ssa.Extract); isEx {
					if _, isCall := ex.Tuple.(*ssa.Call); isCall {
						nEnc++
						return
					}
				}
			}
			nRaw++
			key := "raw-string-into-json(" + an.StablePath(x) + ")@" + an.FnName(fn)
			// error edge of json.Marshal(x)
			onMarshalErr, _ := an.GuardedBy(call, func(r an.Rel) bool {
				if r.Op != token.NEQ || !an.IsNil(r.Y) {
					return false
				}
				ex, ok := r.X.(*ssa.Extract)
				if !ok || ex.Index != 1 {
					return false
				}
				mc, ok := ex.Tuple.(*ssa.Call)
				if !ok {
					return false
				}
				mf := mc.Call.StaticCallee()
				if mf == nil || mf.Pkg == nil || mf.Pkg.Pkg.Path() != "encoding/json" || len(mc.Call.Args) != 1 {
					return false
				}
				mi, ok := mc.Call.Args[0].(*ssa.MakeInterface)
				return ok && (mi.X == x || an.Path(mi.X) == an.Path(x))
			})
			if onMarshalErr {
				c.Pass("N4", key, call.Pos(), "raw write only on the error edge of json.Marshal of the same string")
				return
			}
			fromInput := func(v ssa.Value) bool {
				for {
					if v == x {
						return true
					}
					switch y := v.(type) {
					case *ssa.Slice:
						v = y.X
					case *ssa.Convert:
						v = y.X
					default:
						return false
					}
				}
			}
			verbatimVerdict(c, "N4", key, fn, call, fromInput, required,
				"a decoded string is written into the rebuilt JSON without encoding",
				"a member name containing it makes the filtered result malformed JSON")
		})
	}
	c.Note("N4: raw string writes in FilterJson implementations: %d (encoded writes: %d)", nRaw, nEnc)
	c.Floor("N4", "raw string writes in FilterJson implementations (today: the json.Marshal error fallbacks)", nRaw, 1)
	_ = fmt.Sprint
}

// N5: a FilterJson that rebuilds its value returns the ORIGINAL bytes (pointer-identical, the
// caller's signal for "nothing changed") only if no component's filtered bytes differ from that
// component's input.  If a changed component can leave the "different" flag unset, the rebuilt
// buffer is thrown away and the unfiltered input is passed on: undeclared struct fields survive,
// integral floats are not rewritten, and the enclosing value reports "unchanged" as well.
//
// The all-elements engine (allchain.go): S = the call that filters one component (a FilterJson
// call whose first result is compared with sameSlice, or a package helper returning the
// "changed" signal), conforming = sameSlice(...) returned true (or the signal is false),
// R = a return whose first result is the data parameter.  After a non-conforming S no path may
// reach R, whatever the flag's value was before.
func ruleN5(c *an.Ctx) {
	impls := typeImpls(c, "FilterJson")
	nSites := 0
	for _, fn := range impls {
		name := an.FnName(fn)
		if len(fn.Params) < 2 {
			continue
		}
		data := ssa.Value(fn.Params[1])
		var rets []*ssa.Return
		rebuilds := false
		an.Instrs(fn, func(in ssa.Instruction) {
			if ret, ok := in.(*ssa.Return); ok && len(ret.Results) > 0 {
				v := an.Strip(an.RetVal(ret, 0))
				if v == data {
					rets = append(rets, ret)
				}
				if cl, ok := v.(*ssa.Call); ok && cl.Call.StaticCallee() != nil && cl.Call.StaticCallee().Name() == "Bytes" {
					rebuilds = true
				}
			}
		})
		if !rebuilds || len(rets) == 0 {
			continue
		}
		// component filter calls whose result is compared with sameSlice
		an.Instrs(fn, func(in ssa.Instruction) {
			cl, ok := in.(*ssa.Call)
			if !ok || cl.Call.Value == nil {
				return
			}
			mname := ""
			if cl.Call.IsInvoke() {
				mname = cl.Call.Method.Name()
			} else if f := cl.Call.StaticCallee(); f != nil {
				mname = f.Name()
			}
			if mname != "FilterJson" {
				// a package helper that filters one component and reports "changed" (= !sameSlice(...))
				h := cl.Call.StaticCallee()
				if h == nil || h.Blocks == nil || h.Pkg != fn.Pkg {
					return
				}
				sigIdx := -1
				an.Instrs(h, func(hin ssa.Instruction) {
					ret, ok := hin.(*ssa.Return)
					if !ok {
						return
					}
					for i := range ret.Results {
						if u, ok := an.RetVal(ret, i).(*ssa.UnOp); ok && u.Op == token.NOT {
							if sc, ok := u.X.(*ssa.Call); ok && sc.Call.StaticCallee() != nil && sc.Call.StaticCallee().Name() == "sameSlice" {
								sigIdx = i
							}
						}
					}
				})
				if sigIdx < 0 {
					return
				}
				var sig ssa.Value
				if h.Signature.Results().Len() == 1 {
					sig = cl
				}
				for _, r := range an.Referrers(cl) {
					if ex, ok := r.(*ssa.Extract); ok && ex.Index == sigIdx {
						sig = ex
					}
				}
				if sig == nil {
					return
				}
				nSites++
				site := allSite{fn: fn, S: cl, desc: "component filter helper", ok: func(r an.Rel) bool {
					return r.Op == token.ILLEGAL && !r.Truth && r.X == sig
				}}
				for _, ret := range rets {
					ret := ret
					if (an.Query{Fn: fn, After: cl, Target: func(x ssa.Instruction) bool { return x == ssa.Instruction(ret) }}).Find() == nil {
						continue
					}
					ok, why := allCore(site, ret, 0)
					c.Check("N5", "original-returned-only-if-no-component-changed("+an.FnName(h)+")@"+name, cl.Pos(), ok,
						"after a component whose filtered bytes differ from its input, the function must not return the original value: "+why)
				}
				return
			}
			var fm ssa.Value
			for _, r := range an.Referrers(cl) {
				if ex, ok := r.(*ssa.Extract); ok && ex.Index == 0 {
					fm = ex
				}
			}
			if fm == nil {
				return
			}
			compared := false
			for _, r := range an.Referrers(fm) {
				if sc, ok := r.(*ssa.Call); ok && sc.Call.StaticCallee() != nil && sc.Call.StaticCallee().Name() == "sameSlice" {
					compared = true
				}
			}
			if !compared {
				// delegation (`return s.Elem.FilterJson(data, lookup)`) or a component the rule does not understand
				reach := an.Query{Fn: fn, After: cl, Target: func(x ssa.Instruction) bool {
					for _, r := range rets {
						if x == ssa.Instruction(r) {
							return true
						}
					}
					return false
				}}.Find()
				if reach != nil {
					nSites++
					c.Fail("N5", "component-compared("+an.StablePath(cl.Call.Value)+")@"+name, cl.Pos(),
						"the filtered bytes of this component are never compared with its input (sameSlice), yet the original value can be returned afterwards as unchanged")
				}
				return
			}
			nSites++
			site := allSite{fn: fn, S: cl, desc: "component filter", ok: func(r an.Rel) bool {
				if r.Op != token.ILLEGAL || !r.Truth {
					return false
				}
				sc, ok := r.X.(*ssa.Call)
				if !ok || sc.Call.StaticCallee() == nil || sc.Call.StaticCallee().Name() != "sameSlice" {
					return false
				}
				for _, a := range sc.Call.Args {
					if a == fm {
						return true
					}
				}
				return false
			}}
			for _, ret := range rets {
				// only returns reachable from the component count
				ret := ret
				if (an.Query{Fn: fn, After: cl, Target: func(x ssa.Instruction) bool { return x == ssa.Instruction(ret) }}).Find() == nil {
					continue
				}
				ok, why := allCore(site, ret, 0)
				c.Check("N5", "original-returned-only-if-no-component-changed("+an.StablePath(cl.Call.Value)+")@"+name, cl.Pos(), ok,
					"after a component whose filtered bytes differ from its input, the function must not return the original value: "+why)
			}
		})
	}
	c.Floor("N5", "component filter calls in rebuilding FilterJson implementations", nSites, 1)
}

// N6: validation and filtering decode a value exactly as the kind they test for.  The builtin types
// decide "is this an int / float / string / bool" by decoding into a Go value of that kind.  Two
// destination types of encoding/json are more liberal than the MRO types: json.Number accepts a
// QUOTED string whose content is a number (`"12"`), and interface{} accepts anything.  Decoding the
// `int` case through json.Number makes FilterJson pass or rewrite `"12"` / `"3.0"` although
// IsValidJson rejects them - filtering no longer agrees with validation.
// Rule: no json.Unmarshal / Decoder.Decode destination in the IsValidJson / FilterJson
// implementations (and their private helpers) has a type containing json.Number or an empty
// interface.
func ruleN6(c *an.Ctx) {
	n := 0
	var scan []*ssa.Function
	seen := map[*ssa.Function]bool{}
	for _, method := range []string{"IsValidJson", "FilterJson"} {
		impls := typeImpls(c, method)
		for _, impl := range impls {
			for _, m := range familyOfShared(c.P, impl, impls, 2) {
				if !seen[m] {
					seen[m] = true
					scan = append(scan, m)
				}
			}
		}
	}
	var liberal func(t types.Type, d int) string
	liberal = func(t types.Type, d int) string {
		if d > 6 {
			return ""
		}
		if nm, ok := t.(*types.Named); ok {
			if nm.Obj().Pkg() != nil && nm.Obj().Pkg().Path() == "encoding/json" {
				if nm.Obj().Name() == "Number" {
					return "json.Number (accepts a quoted number)"
				}
				return "" // RawMessage
			}
		}
		switch u := t.Underlying().(type) {
		case *types.Interface:
			if u.NumMethods() == 0 {
				return "interface{} (accepts any value)"
			}
		case *types.Pointer:
			return liberal(u.Elem(), d+1)
		case *types.Slice:
			return liberal(u.Elem(), d+1)
		case *types.Array:
			return liberal(u.Elem(), d+1)
		case *types.Map:
			return liberal(u.Elem(), d+1)
		case *types.Struct:
			for i := 0; i < u.NumFields(); i++ {
				if w := liberal(u.Field(i).Type(), d+1); w != "" {
					return w
				}
			}
		}
		return ""
	}
	for _, fn := range scan {
		an.Instrs(fn, func(in ssa.Instruction) {
			cl, ok := in.(*ssa.Call)
			if !ok || cl.Call.StaticCallee() == nil || cl.Call.StaticCallee().Pkg == nil || cl.Call.StaticCallee().Pkg.Pkg.Path() != "encoding/json" {
				return
			}
			name := cl.Call.StaticCallee().Name()
			var dst ssa.Value
			switch {
			case name == "Unmarshal" && len(cl.Call.Args) == 2:
				dst = cl.Call.Args[1]
			case name == "Decode" && len(cl.Call.Args) == 2:
				dst = cl.Call.Args[1]
			default:
				return
			}
			mi, ok := dst.(*ssa.MakeInterface)
			if !ok {
				return
			}
			n++
			why := liberal(mi.X.Type(), 0)
			c.Check("N6", "decoded-as-the-kind-it-tests("+mi.X.Type().String()+")@"+an.FnName(fn), in.Pos(), why == "",
				"a value is decoded into "+why+" while being validated or filtered: the decoder accepts JSON that the declared MRO type does not (a string holding a number for int), so the filter passes or rewrites values that validation rejects")
		})
	}
	c.Floor("N6", "JSON decode sites in IsValidJson/FilterJson implementations", n, 4)
}

// N7: a struct is assignable exactly when its members are.  StructType.IsAssignableFrom walks the
// members and delegates to the member types; in addition it compares the members' TypeId
// dimensions itself.  ArrayDim must agree exactly, but MapDim == 0 also covers the builtin `map`
// (which accepts any typed map) and every struct (which a typed map accepts member-wise): a
// rejection for differing MapDim that is not backed by the member types' own IsAssignableFrom
// makes `A(map x, map<int> y)` reject `B(map<int> x, INNER y)` although both member pairs are
// assignable.  Rule: in StructType.IsAssignableFrom every edge on which two MapDim fields differ
// (an `!=` of two loads of TypeId.MapDim) lies in a condition that also requires a non-nil result
// of an IsAssignableFrom call, or is preceded by one on every path.
func ruleN7(c *an.Ctx) {
	p := c.P
	fn := c.NeedFunc(pkgSyntax, "(*StructType).IsAssignableFrom")
	mapDim := p.Field(pkgSyntax, "TypeId", "MapDim")
	if fn == nil || mapDim == nil {
		return
	}
	isAssignCall := func(v ssa.Value) bool {
		cl, ok := v.(*ssa.Call)
		if !ok {
			return false
		}
		if cl.Call.IsInvoke() {
			return cl.Call.Method.Name() == "IsAssignableFrom"
		}
		return cl.Call.StaticCallee() != nil && cl.Call.StaticCallee().Name() == "IsAssignableFrom"
	}
	n := 0
	for _, m := range familyOf(p, fn, 2) {
		for _, b := range m.Blocks {
			for _, s := range b.Succs {
				cnd, t, ok := an.EdgeCond(b, s)
				if !ok {
					continue
				}
				r := an.Normalize(cnd, t)
				if r.Op != token.NEQ || !an.LoadsField(r.X, mapDim) || !an.LoadsField(r.Y, mapDim) {
					continue
				}
				n++
				// the rejection: error appends reachable from this edge before the member loop continues must be
				// dominated by a failed member-type comparison
				var bad ssa.Instruction
				seen := map[*ssa.BasicBlock]bool{}
				var walk func(x *ssa.BasicBlock, confirmed bool)
				walk = func(x *ssa.BasicBlock, confirmed bool) {
					if seen[x] || bad != nil {
						return
					}
					seen[x] = true
					for _, in := range x.Instrs {
						if v, ok := in.(ssa.Value); ok {
							if args, isApp := an.IsBuiltinCall(v, "append"); isApp && len(args) > 0 {
								if nm, ok := args[0].Type().(*types.Named); ok && nm.Obj().Name() == "ErrorList" && !confirmed {
									bad = in
									return
								}
							}
						}
					}
					for _, y := range x.Succs {
						c2, t2, ok2 := an.EdgeCond(x, y)
						conf := confirmed
						if ok2 {
							r2 := an.Normalize(c2, t2)
							if r2.Op == token.NEQ && an.IsNil(r2.Y) && isAssignCall(r2.X) {
								conf = true
							}
							// leaving the MapDim arm again (dims compared elsewhere) is not followed
							if r2.Op == token.EQL && an.IsNil(r2.Y) && isAssignCall(r2.X) {
								continue
							}
						}
						// stop at the loop back edge / other members: only blocks dominated by s
						if !s.Dominates(y) {
							continue
						}
						walk(y, conf)
					}
				}
				walk(s, false)
				where := ""
				if bad != nil {
					where = c.P.Pos(bad.Pos())
				}
				c.Check("N7", "member-map-dimension-mismatch-backed-by-member-types@"+an.FnName(m), s.Instrs[0].Pos(), bad == nil,
					"a struct is rejected as a source because two members differ in TypeId.MapDim ("+where+") without the member types' own IsAssignableFrom having failed: `map` accepts a typed map and a typed map accepts a struct member-wise, so the struct relation is stricter than its components")
			}
		}
	}
	c.Floor("N7", "MapDim comparisons in StructType.IsAssignableFrom", n, 1)
}
