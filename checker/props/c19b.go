package props

import (
	"fmt"
	"go/token"
	"sort"

	"mrocheck/an"

	"golang.org/x/tools/go/ssa"
)

// G7: the walkers that rewrite references after a rename visit every binding of every binding list.
// A reference may sit in any binding - including the wildcard binding `* = CALL`, which is an
// ordinary entry of the list in the source - so a walker that ranges over a sub-slice of
// BindStms.List, or leaves the loop before the last element, leaves a dangling reference behind
// (the edited program no longer compiles, or silently refers to a different output).
//
// Decided per walker over its mechanism (the function, its closures and the helpers it calls):
//   (a) no two-index slice expression is applied to a value loaded from BindStms.List;
//   (b) a loop indexing a value loaded from BindStms.List is left only through its header (the
//       index reached the length): no edge from the loop body leaves the loop.
// removeOutputParam, which stops at the wildcard on purpose (what follows it in a compiled AST are
// synthetic expansions), is not a rename walker and is not covered.
func ruleG7(c *an.Ctx, sp *ssa.Package, mechOf func(*ssa.Function, int) map[*ssa.Function]bool) {
	p := c.P
	list := p.Field(pkgSyntax, "BindStms", "List")
	if list == nil {
		c.Undecided("G7", "anchor(BindStms.List)", token.NoPos, "field not found")
		return
	}
	nLoops := 0
	for _, name := range []string{"renameCallsToCallable", "renameOutputInCalls", "renameSelfInputInCalls"} {
		fn := sp.Func(name)
		if fn == nil {
			c.Undecided("G7", "walker("+name+")", token.NoPos, "function not found")
			continue
		}
		var fns []*ssa.Function
		for g := range mechOf(fn, 3) {
			fns = append(fns, g)
		}
		sort.Slice(fns, func(i, j int) bool { return an.FnName(fns[i]) < an.FnName(fns[j]) })
		// values that are (or may be) a BindStms.List: loads of the field, phis of them, results of
		// mechanism helpers returning them
		isList := map[ssa.Value]bool{}
		retList := map[*ssa.Function]bool{}
		for changed, iter := true, 0; changed && iter < 20; iter++ {
			changed = false
			mark := func(v ssa.Value) {
				if !isList[v] {
					isList[v] = true
					changed = true
				}
			}
			for _, g := range fns {
				an.Instrs(g, func(in ssa.Instruction) {
					switch x := in.(type) {
					case *ssa.UnOp:
						if x.Op == token.MUL {
							if _, f := an.FieldOfAddr(x.X); f == list {
								mark(x)
							}
						}
					case *ssa.Field:
						if _, f := an.FieldLoad(x); f == list {
							mark(x)
						}
					case *ssa.Phi:
						for _, e := range x.Edges {
							if isList[e] {
								mark(x)
							}
						}
					case *ssa.Slice:
						if isList[x.X] {
							mark(x)
						}
					case *ssa.Call:
						if h := x.Call.StaticCallee(); h != nil && retList[h] {
							mark(x)
						}
					case *ssa.Return:
						for i := range x.Results {
							if isList[an.RetVal(x, i)] && !retList[g] {
								retList[g] = true
								changed = true
							}
						}
					}
				})
			}
		}
		bad := 0
		loops := 0
		for _, g := range fns {
			doneHdr := map[*ssa.BasicBlock]bool{}
			an.Instrs(g, func(in ssa.Instruction) {
				if sl, ok := in.(*ssa.Slice); ok && isList[sl.X] {
					bad++
					c.Fail("G7", "whole-binding-list("+name+")@"+an.FnName(g), sl.Pos(),
						"a rename walker takes a sub-slice of a binding list; bindings outside it (the wildcard binding among them) keep their references to the old name")
					return
				}
				var x, idx ssa.Value
				switch a := in.(type) {
				case *ssa.IndexAddr:
					x, idx = a.X, a.Index
				case *ssa.Index:
					x, idx = a.X, a.Index
				default:
					return
				}
				ph, ok := idx.(*ssa.Phi)
				if b, isBin := idx.(*ssa.BinOp); isBin && b.Op == token.ADD {
					// range loops index with `i+1` of the induction phi
					ph, ok = b.X.(*ssa.Phi)
				}
				if !ok || !isList[x] {
					// `for i := range list { list[i] }` in rotated form indexes with i+1 phi too; other
					// index expressions are lookups, not enumerations
					return
				}
				h := ph.Block()
				if doneHdr[h] {
					return
				}
				doneHdr[h] = true
				loop := naturalLoop(h)
				if len(loop) == 0 {
					return
				}
				// an enumeration does something per element (calls a function of the package or a
				// function value); a loop that only compares is a lookup and may stop when it has found
				works := false
				for b := range loop {
					for _, li := range b.Instrs {
						if cl := an.AsCallAny(li); cl != nil {
							if cl.Common().IsInvoke() {
								continue
							}
							if h := cl.Common().StaticCallee(); h == nil || (h.Pkg != nil && h.Pkg == g.Pkg) || h.Parent() != nil {
								works = true
							}
						}
					}
				}
				if !works {
					return
				}
				loops++
				for b := range loop {
					if b == h {
						continue
					}
					for _, s := range b.Succs {
						if loop[s] || endsInPanic(s) {
							continue
						}
						bad++
						pos := token.NoPos
						for k := len(b.Instrs) - 1; k >= 0 && pos == token.NoPos; k-- {
							pos = b.Instrs[k].Pos()
						}
						c.Fail("G7", "every-binding-visited("+name+")@"+an.FnName(g), pos,
							"the loop over a binding list in a rename walker is left before its last element; the bindings not visited keep their references to the old name")
					}
				}
			})
		}
		nLoops += loops
		if bad == 0 {
			c.Pass("G7", "every-binding-visited("+name+")", fn.Pos(),
				fmt.Sprintf("%d loop(s) over BindStms.List in %d function(s) of the mechanism: no sub-slice, no early exit", loops, len(fns)))
		}
	}
	c.Floor("G7", "loops over BindStms.List in the rename walkers", nLoops, 1)
}

// naturalLoop: the blocks of the loop headed by h (blocks dominated by h from which h is reachable
// without leaving the dominated region); empty if h heads no loop.
func naturalLoop(h *ssa.BasicBlock) map[*ssa.BasicBlock]bool {
	loop := map[*ssa.BasicBlock]bool{}
	var work []*ssa.BasicBlock
	for _, p := range h.Preds {
		if h.Dominates(p) {
			if !loop[p] {
				loop[p] = true
				work = append(work, p)
			}
		}
	}
	if len(work) == 0 {
		return nil
	}
	loop[h] = true
	for len(work) > 0 {
		b := work[len(work)-1]
		work = work[:len(work)-1]
		if b == h {
			continue
		}
		for _, p := range b.Preds {
			if !loop[p] && h.Dominates(p) {
				loop[p] = true
				work = append(work, p)
			}
		}
	}
	return loop
}

func endsInPanic(b *ssa.BasicBlock) bool {
	for i := 0; i < 4 && b != nil; i++ {
		switch b.Instrs[len(b.Instrs)-1].(type) {
		case *ssa.Panic:
			return true
		case *ssa.Jump:
			b = b.Succs[0]
		default:
			return false
		}
	}
	return false
}
