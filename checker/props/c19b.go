package props

import (
	"fmt"
	"go/token"
	"go/types"
	"sort"
	"strings"

	"mrocheck/an"

	"golang.org/x/tools/go/ssa"
)

// G7: the walkers that rewrite references after a rename visit every binding of every binding list.
// A reference may sit in any binding - including the wildcard binding `* = CALL`, which is an
// ordinary entry of the list in the source - so a walker that ranges over a sub-slice of
// BindStms.List, or leaves the loop before the last element, leaves a dangling reference behind
// (the edited program no longer compiles, or silently refers to a different output).
//
// Decided per walker over its mechanism (the function, its closures and the helpers it calls):
//
//	(a) no two-index slice expression is applied to a value loaded from BindStms.List;
//	(b) a loop indexing a value loaded from BindStms.List is left only through its header (the
//	    index reached the length): no edge from the loop body leaves the loop.
//
// removeOutputParam, which stops at the wildcard on purpose (what follows it in a compiled AST are
// synthetic expansions), is not a rename walker and is not covered.
func ruleG7(c *an.Ctx, sp *ssa.Package, mechOf func(*ssa.Function, int) map[*ssa.Function]bool) {
	p := c.P
	list := p.Field(pkgSyntax, "BindStms", "List")
	if list == nil {
		c.Undecided("G7", "anchor(BindStms.List)", token.NoPos, "field not found")
		return
	}
	nLoops := 0
	for _, name := range []string{"renameCallsToCallable", "renameOutputInCalls", "renameSelfInputInCalls"} {
		fn := sp.Func(name)
		if fn == nil {
			c.Undecided("G7", "walker("+name+")", token.NoPos, "function not found")
			continue
		}
		var fns []*ssa.Function
		for g := range mechOf(fn, 3) {
			fns = append(fns, g)
		}
		sort.Slice(fns, func(i, j int) bool { return an.FnName(fns[i]) < an.FnName(fns[j]) })
		// values that are (or may be) a BindStms.List: loads of the field, phis of them, results of
		// mechanism helpers returning them
		isList := map[ssa.Value]bool{}
		retList := map[*ssa.Function]bool{}
		for changed, iter := true, 0; changed && iter < 20; iter++ {
			changed = false
			mark := func(v ssa.Value) {
				if !isList[v] {
					isList[v] = true
					changed = true
				}
			}
			for _, g := range fns {
				an.Instrs(g, func(in ssa.Instruction) {
					switch x := in.(type) {
					case *ssa.UnOp:
						if x.Op == token.MUL {
							if _, f := an.FieldOfAddr(x.X); f == list {
								mark(x)
							}
						}
					case *ssa.Field:
						if _, f := an.FieldLoad(x); f == list {
							mark(x)
						}
					case *ssa.Phi:
						for _, e := range x.Edges {
							if isList[e] {
								mark(x)
							}
						}
					case *ssa.Slice:
						if isList[x.X] {
							mark(x)
						}
					case *ssa.Call:
						if h := x.Call.StaticCallee(); h != nil && retList[h] {
							mark(x)
						}
					case *ssa.Return:
						for i := range x.Results {
							if isList[an.RetVal(x, i)] && !retList[g] {
								retList[g] = true
								changed = true
							}
						}
					}
				})
			}
		}
		bad := 0
		loops := 0
		for _, g := range fns {
			doneHdr := map[*ssa.BasicBlock]bool{}
			an.Instrs(g, func(in ssa.Instruction) {
				if sl, ok := in.(*ssa.Slice); ok && isList[sl.X] {
					bad++
					c.Fail("G7", "whole-binding-list("+name+")@"+an.FnName(g), sl.Pos(),
						"a rename walker takes a sub-slice of a binding list; bindings outside it (the wildcard binding among them) keep their references to the old name")
					return
				}
				var x, idx ssa.Value
				switch a := in.(type) {
				case *ssa.IndexAddr:
					x, idx = a.X, a.Index
				case *ssa.Index:
					x, idx = a.X, a.Index
				default:
					return
				}
				ph, ok := idx.(*ssa.Phi)
				if b, isBin := idx.(*ssa.BinOp); isBin && b.Op == token.ADD {
					// range loops index with `i+1` of the induction phi
					ph, ok = b.X.(*ssa.Phi)
				}
				if !ok || !isList[x] {
					// `for i := range list { list[i] }` in rotated form indexes with i+1 phi too; other
					// index expressions are lookups, not enumerations
					return
				}
				h := ph.Block()
				if doneHdr[h] {
					return
				}
				doneHdr[h] = true
				loop := naturalLoop(h)
				if len(loop) == 0 {
					return
				}
				// an enumeration does something per element (calls a function of the package or a
				// function value); a loop that only compares is a lookup and may stop when it has found
				works := false
				for b := range loop {
					for _, li := range b.Instrs {
						if cl := an.AsCallAny(li); cl != nil {
							if cl.Common().IsInvoke() {
								continue
							}
							if h := cl.Common().StaticCallee(); h == nil || (h.Pkg != nil && h.Pkg == g.Pkg) || h.Parent() != nil {
								works = true
							}
						}
					}
				}
				if !works {
					return
				}
				loops++
				for b := range loop {
					if b == h {
						continue
					}
					for _, s := range b.Succs {
						if loop[s] || endsInPanic(s) {
							continue
						}
						bad++
						pos := token.NoPos
						for k := len(b.Instrs) - 1; k >= 0 && pos == token.NoPos; k-- {
							pos = b.Instrs[k].Pos()
						}
						c.Fail("G7", "every-binding-visited("+name+")@"+an.FnName(g), pos,
							"the loop over a binding list in a rename walker is left before its last element; the bindings not visited keep their references to the old name")
					}
				}
			})
		}
		nLoops += loops
		if bad == 0 {
			c.Pass("G7", "every-binding-visited("+name+")", fn.Pos(),
				fmt.Sprintf("%d loop(s) over BindStms.List in %d function(s) of the mechanism: no sub-slice, no early exit", loops, len(fns)))
		}
	}
	c.Floor("G7", "loops over BindStms.List in the rename walkers", nLoops, 1)
}

// naturalLoop: the blocks of the loop headed by h (blocks dominated by h from which h is reachable
// without leaving the dominated region); empty if h heads no loop.
func naturalLoop(h *ssa.BasicBlock) map[*ssa.BasicBlock]bool {
	loop := map[*ssa.BasicBlock]bool{}
	var work []*ssa.BasicBlock
	for _, p := range h.Preds {
		if h.Dominates(p) {
			if !loop[p] {
				loop[p] = true
				work = append(work, p)
			}
		}
	}
	if len(work) == 0 {
		return nil
	}
	loop[h] = true
	for len(work) > 0 {
		b := work[len(work)-1]
		work = work[:len(work)-1]
		if b == h {
			continue
		}
		for _, p := range b.Preds {
			if !loop[p] && h.Dominates(p) {
				loop[p] = true
				work = append(work, p)
			}
		}
	}
	return loop
}

func endsInPanic(b *ssa.BasicBlock) bool {
	for i := 0; i < 4 && b != nil; i++ {
		switch b.Instrs[len(b.Instrs)-1].(type) {
		case *ssa.Panic:
			return true
		case *ssa.Jump:
			b = b.Succs[0]
		default:
			return false
		}
	}
	return false
}

// c19StaticReach: root, its static callees and closures inside package refactoring, and the Apply /
// apply methods of the edit values constructed on the way (no dynamic dispatch through editSet).
func c19StaticReach(c *an.Ctx, root *ssa.Function) map[*ssa.Function]bool {
	p := c.P
	refacPath := an.ModPath + pkgRefac
	seen := map[*ssa.Function]bool{}
	var walk func(fn *ssa.Function)
	walk = func(fn *ssa.Function) {
		if fn == nil || seen[fn] || fn.Blocks == nil {
			return
		}
		if pk := fn.Package(); pk == nil || pk.Pkg.Path() != refacPath {
			return
		}
		seen[fn] = true
		for _, a := range fn.AnonFuncs {
			walk(a)
		}
		an.Instrs(fn, func(in ssa.Instruction) {
			if cl := an.AsCallAny(in); cl != nil {
				walk(cl.Common().StaticCallee())
			}
			if mi, ok := in.(*ssa.MakeInterface); ok {
				for _, name := range []string{"Apply", "apply"} {
					if sel := p.SSA.MethodSets.MethodSet(mi.X.Type()).Lookup(fn.Pkg.Pkg, name); sel != nil {
						if o, ok := sel.Obj().(*types.Func); ok {
							walk(p.SSA.FuncValue(o))
						}
					}
				}
			}
		})
	}
	walk(root)
	return seen
}

// G8: renaming an input looks at wildcard bindings.  `call S(* = self)` supplies S's inputs BY NAME
// from the enclosing pipeline's inputs; renaming S.x (or P.x) changes which names match.  The
// compiler's expansion of the wildcard exists only in the compiled AST, while the edits are replayed
// on the source, which only has `* = self`.  A rename-input mechanism that never compares a
// binding id with "*" cannot notice that the binding it is about to rewrite is supplied by a
// wildcard: the edit silently does nothing and the result fails with ArgumentNotSuppliedError.
func ruleG8(c *an.Ctx, sp *ssa.Package) {
	p := c.P
	root := sp.Func("RenameInput")
	bindId := p.Field(pkgSyntax, "BindStm", "Id")
	if root == nil || bindId == nil {
		c.Info("G8", "anchor(RenameInput, BindStm.Id)", token.NoPos, "not found: not decided")
		return
	}
	reach := c19StaticReach(c, root)
	where := ""
	for fn := range reach {
		an.Instrs(fn, func(in ssa.Instruction) {
			b, ok := in.(*ssa.BinOp)
			if !ok || (b.Op != token.EQL && b.Op != token.NEQ) {
				return
			}
			if (an.LoadsField(b.X, bindId) && an.IsStringConst(b.Y, "*")) || (an.LoadsField(b.Y, bindId) && an.IsStringConst(b.X, "*")) {
				where = an.FnName(fn)
			}
		})
	}
	detail := "the wildcard is recognised in " + where
	if where == "" {
		detail = "nothing in the RenameInput mechanism (static callees, closures, Apply methods of the edits it creates) compares a binding id with \"*\": an input that a caller supplies through `call S(* = self)` is renamed without the caller being adjusted, and the edited program fails with ArgumentNotSuppliedError"
	}
	c.Check("G8", "wildcard-bindings-considered@RenameInput", root.Pos(), where != "", detail)
	c.Note("G8: %d functions in the static reach of RenameInput", len(reach))
}

// G9: the unused-output analysis follows CALLS, not only references.  RemoveUnusedOutputs marks an
// output used when something refers to it and visits a pipeline to collect the references made
// inside it.  A pipeline that is called but whose own outputs nobody refers to must be visited all
// the same - the calls inside it refer to the outputs of the pipelines THEY call.  Necessary
// condition: the work-list of pipelines to visit (a map with *syntax.Pipeline values) is extended
// with a value looked up under the id of an element of Pipeline.Calls (CallStm.Id), not only under
// the id found in a reference (RefExp.Id).
func ruleG9(c *an.Ctx, sp *ssa.Package) {
	p := c.P
	root := sp.Func("RemoveUnusedOutputs")
	callId := p.Field(pkgSyntax, "CallStm", "Id")
	if root == nil || callId == nil {
		c.Info("G9", "anchor(RemoveUnusedOutputs, CallStm.Id)", token.NoPos, "not found: not decided")
		return
	}
	reach := c19StaticReach(c, root)
	isPipelinePtr := func(t types.Type) bool {
		pt, ok := t.(*types.Pointer)
		if !ok {
			return false
		}
		n, ok := pt.Elem().(*types.Named)
		return ok && n.Obj().Name() == "Pipeline"
	}
	nUpd, byCall := 0, ""
	for fn := range reach {
		an.Instrs(fn, func(in ssa.Instruction) {
			mu, ok := in.(*ssa.MapUpdate)
			if !ok {
				return
			}
			mt, ok := mu.Map.Type().Underlying().(*types.Map)
			if !ok || !isPipelinePtr(mt.Elem()) {
				return
			}
			nUpd++
			// the stored pipeline: type assertion of a look-up keyed by CallStm.Id ?
			seen := map[ssa.Value]bool{}
			var fromCallId func(v ssa.Value, d int) bool
			fromCallId = func(v ssa.Value, d int) bool {
				if v == nil || seen[v] || d > 8 {
					return false
				}
				seen[v] = true
				switch x := v.(type) {
				case *ssa.Extract:
					return fromCallId(x.Tuple, d+1)
				case *ssa.TypeAssert:
					return fromCallId(x.X, d+1)
				case *ssa.Lookup:
					return an.LoadsField(x.Index, callId)
				case *ssa.Phi:
					for _, e := range x.Edges {
						if fromCallId(e, d+1) {
							return true
						}
					}
				case *ssa.Call:
					for _, a := range x.Call.Args {
						if fromCallId(a, d+1) {
							return true
						}
					}
				}
				return false
			}
			if fromCallId(mu.Value, 0) {
				byCall = an.FnName(fn)
			}
		})
	}
	c.Floor("G9", "insertions into the work-list of pipelines to visit", nUpd, 1)
	detail := "called pipelines are queued in " + byCall
	if byCall == "" {
		detail = "a pipeline enters the work-list of RemoveUnusedOutputs only when something refers to one of its outputs: a pipeline that is called but whose outputs nobody references is never visited, the references made inside it do not count, and outputs they use are removed (NoSuchOutputError in the edited program)"
	}
	c.Check("G9", "called-pipelines-are-visited@RemoveUnusedOutputs", root.Pos(), byCall != "", detail)
}

// G10: declarations are matched by name, not by object identity.  `mro edit` compiles every file
// given on the command line into its own AST; a callable declared in a shared include is a distinct
// object in each of them.  The edits are built from one AST and applied to all, so code that
// recognises "a call of THE callable being edited" by comparing object identities
// (`pipe.Callables.Table[c.Id] == callable`) finds nothing in the other ASTs: the declaration loses
// its parameter while the callers defined in later files keep their binding, and those files no
// longer compile.  Rule: package refactoring never compares two values of a declaration type
// (syntax.Callable, *Pipeline, *Stage, *CallStm, *StructType) for identity, except against nil.
func ruleG10(c *an.Ctx, sp *ssa.Package) {
	isDecl := func(t types.Type) bool {
		s := t.String()
		for _, suf := range []string{"syntax.Callable", "*github.com/martian-lang/martian/martian/syntax.Pipeline", "*github.com/martian-lang/martian/martian/syntax.Stage", "*github.com/martian-lang/martian/martian/syntax.CallStm", "*github.com/martian-lang/martian/martian/syntax.StructType"} {
			if strings.HasSuffix(s, suf) {
				return true
			}
		}
		return false
	}
	n := 0
	for _, mem := range sp.Members {
		_ = mem
	}
	for _, fn := range c.P.FuncsOf(pkgRefac) {
		an.Instrs(fn, func(in ssa.Instruction) {
			b, ok := in.(*ssa.BinOp)
			if !ok || (b.Op != token.EQL && b.Op != token.NEQ) {
				return
			}
			if an.IsNil(b.X) || an.IsNil(b.Y) {
				return
			}
			if !isDecl(b.X.Type()) && !isDecl(b.Y.Type()) {
				return
			}
			n++
			c.Fail("G10", "declaration-matched-by-identity("+an.StablePath(b.X)+" "+b.Op.String()+" "+an.StablePath(b.Y)+")@"+an.FnName(fn), b.Pos(),
				"two declaration objects are compared for identity: an edit built from one compiled AST is applied to the ASTs of every file given to `mro edit`, in which the same callable (from a shared include) is a different object, so the comparison only ever succeeds in the first AST and the other files are left inconsistent with the edited declaration")
		})
	}
	if n == 0 {
		c.Pass("G10", "declarations-matched-by-name@package refactoring", token.NoPos, "no identity comparison between declaration objects in package refactoring")
	}
}
