package props

import (
	"go/token"
	"go/types"
	"strings"

	"mrocheck/an"

	"golang.org/x/tools/go/ssa"
)

// X6: a fork-id part shared with sibling forks is never resolved in place.  When a mapped call is
// nested in another mapped call whose collection is only known at run time, the forks of the outer
// dimension are clones that still share the *ForkSourcePart of the unresolved inner dimension.
// Each fork resolves that part for its own element of the collection; the fork that does so while
// later siblings exist (`len(node.forks)-1 > fork.index`) must take a private copy first -
// otherwise the later siblings inherit the first fork's id (an empty fork, index 0, a single map
// key), are never expanded for their own element, and the jobs of those elements never run while
// the pipestance still completes.
//
// Necessary condition, decided for every store to ForkSourcePart.Id whose target is the part
// handed in by the caller (not an element of a freshly made slice): the pointer stored through is
// the join of the caller's part and a fresh copy of it, and the edge on which the copy is taken
// compares the number of forks of the node with THIS FORK's position (Fork.index).
func ruleX6(c *an.Ctx) {
	p := c.P
	root := c.NeedFunc(pkgCore, "(*Fork).expandForkFromObj")
	idField := p.Field(pkgCore, "ForkSourcePart", "Id")
	forksField := p.Field(pkgCore, "Node", "forks")
	indexField := p.Field(pkgCore, "Fork", "index")
	if root == nil || idField == nil || forksField == nil || indexField == nil {
		c.Undecided("X6", "anchor(ForkSourcePart.Id, Node.forks, Fork.index)", token.NoPos, "field not found")
		return
	}
	fam := familyOf(p, root, 2)
	inFam := map[*ssa.Function]bool{}
	for _, m := range fam {
		inFam[m] = true
	}
	isPartPtr := func(t types.Type) bool {
		pt, ok := t.(*types.Pointer)
		if !ok {
			return false
		}
		n, ok := pt.Elem().(*types.Named)
		return ok && n.Obj().Name() == "ForkSourcePart"
	}
	var mentions func(v ssa.Value, f *types.Var, d int) bool
	mentions = func(v ssa.Value, f *types.Var, d int) bool {
		if v == nil || d > 8 {
			return false
		}
		if _, g := an.FieldLoad(an.Strip(v)); g == f {
			return true
		}
		switch x := v.(type) {
		case *ssa.BinOp:
			return mentions(x.X, f, d+1) || mentions(x.Y, f, d+1)
		case *ssa.UnOp:
			return mentions(x.X, f, d+1)
		case *ssa.FieldAddr:
			return x.X != nil && false
		case *ssa.Call:
			for _, a := range x.Call.Args {
				if mentions(a, f, d+1) {
					return true
				}
			}
		case *ssa.Convert:
			return mentions(x.X, f, d+1)
		}
		return false
	}
	// guardOK: the allocation of the private copy happens on an edge comparing len(node.forks) with fork.index
	guardOK := func(site ssa.Instruction) bool {
		g, _ := an.GuardedBy(site, func(r an.Rel) bool {
			switch r.Op {
			case token.GTR, token.LSS, token.GEQ, token.LEQ, token.NEQ:
			default:
				return false
			}
			// round 10: "every fork but the last takes a copy" (len(forks)-1 > index) was itself the
			// defect - the last fork wrote its key into the part all forks share.  The copy must be
			// taken whenever the node has more than one fork: a comparison of len(node.forks) with a
			// constant, not with this fork's position.
			isK := func(v ssa.Value) bool { _, ok := an.ConstVal(v); return ok }
			return (mentions(r.X, forksField, 0) && !mentions(r.X, indexField, 0) && isK(r.Y)) ||
				(mentions(r.Y, forksField, 0) && !mentions(r.Y, indexField, 0) && isK(r.X))
		})
		return g
	}
	// classify the pointer a store goes through
	var classify func(v ssa.Value, d int) (string, bool)
	classify = func(v ssa.Value, d int) (string, bool) {
		if d > 4 {
			return "derivation too deep", false
		}
		switch x := v.(type) {
		case *ssa.Parameter:
			return "the part handed in by the caller, resolved in place", false
		case *ssa.IndexAddr:
			return "element of a slice", true
		case *ssa.Alloc:
			if guardOK(x) {
				return "private copy", true
			}
			return "a copy that is not taken whenever the node has more than one fork", false
		case *ssa.Phi:
			hasCopy := false
			for _, e := range x.Edges {
				switch y := e.(type) {
				case *ssa.Parameter:
				case *ssa.Alloc:
					if !guardOK(y) {
						return "the private copy is not taken whenever the node has more than one fork (an edge comparing len(node.forks) with a constant): a fork that skips the copy - e.g. the last one - writes its own key into the part all forks share, and the other forks' results are merged against that key", false
					}
					hasCopy = true
				default:
					if why, ok := classify(e, d+1); !ok {
						return why, false
					}
				}
			}
			if !hasCopy {
				return "no private copy on any path", false
			}
			return "caller's part or private copy", true
		case *ssa.Call:
			h := x.Call.StaticCallee()
			if h == nil || !inFam[h] {
				return "result of a call outside the family", false
			}
			ok, why := true, ""
			n := 0
			an.Instrs(h, func(in ssa.Instruction) {
				ret, isRet := in.(*ssa.Return)
				if !isRet || !ok {
					return
				}
				for i, r := range ret.Results {
					if !isPartPtr(r.Type()) {
						continue
					}
					n++
					rv := an.RetVal(ret, i)
					if _, isParam := rv.(*ssa.Parameter); isParam {
						// returning the caller's part is fine only if another return gives a copy; checked below
						continue
					}
					if w, good := classify(rv, d+1); !good {
						ok, why = false, "helper "+an.FnName(h)+": "+w
					}
				}
			})
			if !ok {
				return why, false
			}
			// at least one guarded copy inside the helper
			found := false
			an.Instrs(h, func(in ssa.Instruction) {
				if a, isA := in.(*ssa.Alloc); isA && isPartPtr(a.Type()) && guardOK(a) {
					found = true
				}
			})
			if !found || n == 0 {
				return "helper " + an.FnName(h) + " never takes a private copy under a comparison of len(node.forks) with Fork.index", false
			}
			return "helper returns caller's part or private copy", true
		}
		return "unrecognised pointer", false
	}
	n := 0
	for _, m := range fam {
		for _, st := range an.StoresToField(m, idField) {
			if st.Parent() != m {
				continue
			}
			fa, ok := st.Addr.(*ssa.FieldAddr)
			if !ok {
				continue
			}
			base := fa.X
			if _, isElem := base.(*ssa.IndexAddr); isElem {
				continue // element of the freshly made slice of parts
			}
			n++
			why, good := classify(base, 0)
			detail := why
			if !good {
				detail = "the id of a fork-id part is stored through " + why + ": sibling forks of an outer run-time dimension still share this part, inherit the id and are never expanded for their own element (their jobs never run, the pipestance still completes)"
			}
			idKind := "?"
			if mi, ok := st.Val.(*ssa.MakeInterface); ok {
				idKind = mi.X.Type().String()
				if i := strings.LastIndexAny(idKind, "./"); i >= 0 {
					idKind = idKind[i+1:]
				}
			}
			c.Check("X6", "shared-part-resolved-through-private-copy(Id:"+idKind+")@"+an.FnName(root), st.Pos(), good, detail)
		}
	}
	c.Floor("X6", "in-place resolutions of a fork-id part in expandForkFromObj", n, 2)
}
