package props

import (
	"fmt"
	"go/constant"
	"go/token"
	"go/types"
	"regexp"
	"strings"

	"mrocheck/an"

	"golang.org/x/tools/go/ssa"
)

// Rules written in the eighth round for the defects that the round-8 seeding agents reported as side
// observations, that a second agent reproduced with a deterministic demonstration, and that were
// then repaired in /repo (known_findings.json "fixed", findings/<id>/).  Each has a self-test mutant
// that reverts the repair.

func isConstStringPrefix(v ssa.Value, prefix string) bool {
	k, ok := an.ConstVal(v)
	return ok && k.Kind() == constant.String && strings.HasPrefix(constant.StringVal(k), prefix)
}

func staticCalleeIs(in ssa.Instruction, pkgPath, name string) *ssa.CallCommon {
	cl := an.AsCallAny(in)
	if cl == nil {
		return nil
	}
	h := cl.Common().StaticCallee()
	if h == nil || h.Name() != name {
		return nil
	}
	if pkgPath != "" && (h.Pkg == nil || h.Pkg.Pkg.Path() != pkgPath) {
		return nil
	}
	return cl.Common()
}

// P10 (C08): every error produced while registering a type carries a source location.  The type
// table rejects a struct / file type / callable whose name collides with another type; each
// rejection is wrapped with the declaration's location - except that the branches for a builtin
// name returned a bare error ("The parser should prevent this", but `file` is a type name and not a
// keyword): `struct file(...)` gave "type name conflicts with a base type" with no file or line.
// Rule: in TypeLookup.AddUserType and AddStructType every returned error is nil or a *wrapError.
func ruleP10(c *an.Ctx) {
	n := 0
	for _, name := range []string{"(*TypeLookup).AddUserType", "(*TypeLookup).AddStructType"} {
		fn := c.P.Func(pkgSyntax, name)
		if fn == nil {
			c.Info("P10", "anchor("+name+")", 0, "not found: not decided")
			continue
		}
		var located func(v ssa.Value, d int) bool
		located = func(v ssa.Value, d int) bool {
			if v == nil || d > 6 {
				return false
			}
			switch x := v.(type) {
			case *ssa.Const:
				return x.IsNil()
			case *ssa.MakeInterface:
				nm, _ := derefNamed(x.X.Type())
				return nm == "wrapError"
			case *ssa.Phi:
				for _, e := range x.Edges {
					if !located(e, d+1) {
						return false
					}
				}
				return true
			case *ssa.Call:
				// a helper of the package that builds located errors (global.err, ...)
				if h := x.Call.StaticCallee(); h != nil && h.Blocks != nil {
					ok := true
					cnt := 0
					an.Instrs(h, func(in ssa.Instruction) {
						if r, isR := in.(*ssa.Return); isR && len(r.Results) > 0 {
							cnt++
							if !located(r.Results[len(r.Results)-1], d+2) {
								ok = false
							}
						}
					})
					return ok && cnt > 0
				}
			}
			return false
		}
		k := 0
		an.Instrs(fn, func(in ssa.Instruction) {
			r, ok := in.(*ssa.Return)
			if !ok || len(r.Results) == 0 {
				return
			}
			n++
			k++
			c.Check("P10", fmt.Sprintf("type-registration-error-is-located@%s#%d", an.FnName(fn), k), r.Pos(), located(r.Results[len(r.Results)-1], 0),
				"this return hands back an error that is not wrapped with the declaration's location: the compile error is printed without file and line (a struct, file type or stage named like the builtin `file`)")
		})
	}
	c.Floor("P10", "returns of the type registration functions", n, 4)
}

// P11 (C08): cycles of pipeline calls are rejected before anything recurses over the call graph.
// Direct recursion is an error of the pipeline's own compile step; a cycle through other
// pipelines was only rejected because a pipeline that has not been compiled yet has no parameter
// table to bind to - pipelines without inputs formed a cycle that compiled, and MakeCallGraph (mro
// check, mrp) then recursed until the Go runtime killed the process.
// Rule: every path through Ast.compilePipelineDecs that returns a nil error passes a call - other
// than the per-pipeline compile - to a function that can report a RecursiveCallError.
func ruleP11(c *an.Ctx) {
	fn := c.P.Func(pkgSyntax, "(*Ast).compilePipelineDecs")
	if fn == nil {
		c.Info("P11", "anchor(compilePipelineDecs)", 0, "not found: not decided")
		return
	}
	perPipeline := c.P.Func(pkgSyntax, "(*Pipeline).compile")
	reportsRecursion := func(in ssa.Instruction) bool {
		for _, op := range in.Operands(nil) {
			if op != nil && *op != nil && isConstStringPrefix(*op, "RecursiveCallError") {
				return true
			}
		}
		return false
	}
	cycleCheck := func(in ssa.Instruction) bool {
		cl := an.AsCallAny(in)
		if cl == nil {
			return false
		}
		h := cl.Common().StaticCallee()
		if h == nil || h == perPipeline || h.Blocks == nil {
			return false
		}
		return an.MayDo(h, reportsRecursion, 2)
	}
	// a loop (over the pipelines) whose body makes the check: entering it counts - with no
	// pipelines to iterate over there is no cycle
	checkingLoop := map[*ssa.BasicBlock]map[*ssa.BasicBlock]bool{}
	for hd, body := range naturalLoops(fn) {
		for b := range body {
			for _, in := range b.Instrs {
				if cycleCheck(in) {
					checkingLoop[hd] = body
				}
			}
		}
	}
	n := 0
	an.Instrs(fn, func(in ssa.Instruction) {
		r, ok := in.(*ssa.Return)
		if !ok || len(r.Results) == 0 {
			return
		}
		// only returns that can be nil: a constant nil, or the If() of the collected errors
		res := r.Results[len(r.Results)-1]
		if k, isC := res.(*ssa.Const); !isC || !k.IsNil() {
			if cl, isCall := res.(*ssa.Call); !isCall || cl.Call.StaticCallee() == nil || cl.Call.StaticCallee().Name() != "If" {
				return
			}
			if nonNil, _ := an.GuardedBy(r, func(rel an.Rel) bool {
				k, isK := rel.Y.(*ssa.Const)
				return rel.Op == token.NEQ && rel.X == res && isK && k.IsNil()
			}); nonNil {
				return
			}
		}
		n++
		w := an.Query{Fn: fn, Target: func(x ssa.Instruction) bool { return x == ssa.Instruction(r) }, Barrier: cycleCheck,
			BarrierEdge: func(from, to *ssa.BasicBlock) bool {
				body, ok := checkingLoop[to]
				return ok && !body[from]
			}}.Find()
		c.Check("P11", fmt.Sprintf("pipeline-call-cycles-rejected-at-compile-time@compilePipelineDecs#%d", n), r.Pos(), w == nil,
			"the pipeline declarations can be accepted without a search for cycles of pipeline calls: mutually recursive pipelines without inputs compile, and MakeCallGraph then overflows the stack (mro check / mrp die with a Go fatal error instead of a located RecursiveCallError); "+c.WitnessString(w))
	})
	if n == 0 {
		c.Info("P11", "anchor(successful returns of compilePipelineDecs)", 0, "none found: not decided")
	}
}

// G14 (C19): what makes a call "used for its side effects" applies at any depth.  hasSideEffects
// says a stage with a retain list must be kept, and looks through a pipeline at the calls inside
// it.  If the look inside is restricted to called PIPELINES, a retaining stage wrapped in a
// sub-pipeline is not seen and the wrapping call is removed, while the same stage called directly
// is kept.
// Rule: hasSideEffects recurses, and no recursive call receives a value that was narrowed to
// *Pipeline by a type assertion.
func ruleG14(c *an.Ctx) {
	fn := c.P.Func(pkgRefac, "hasSideEffects")
	if fn == nil {
		c.Info("G14", "anchor(hasSideEffects)", 0, "not found: not decided")
		return
	}
	fam := map[*ssa.Function]bool{fn: true}
	for _, g := range familyOf(c.P, fn, 2) {
		if g.Pkg == fn.Pkg {
			fam[g] = true
		}
	}
	n, bad := 0, token.NoPos
	for g := range fam {
		an.Instrs(g, func(in ssa.Instruction) {
			cl := an.AsCallAny(in)
			if cl == nil || !fam[cl.Common().StaticCallee()] || cl.Common().StaticCallee() == g && g != fn && false {
				return
			}
			if cl.Common().StaticCallee() != fn {
				return
			}
			n++
			for _, a := range cl.Common().Args {
				v := a
				for i := 0; i < 4; i++ {
					switch x := v.(type) {
					case *ssa.MakeInterface:
						v = x.X
						continue
					case *ssa.ChangeInterface:
						v = x.X
						continue
					}
					break
				}
				var ta *ssa.TypeAssert
				switch x := v.(type) {
				case *ssa.TypeAssert:
					ta = x
				case *ssa.Extract:
					ta, _ = x.Tuple.(*ssa.TypeAssert)
				}
				if ta != nil {
					if nm, _ := derefNamed(ta.AssertedType); nm == "Pipeline" {
						bad = cl.Pos()
					}
				}
			}
		})
	}
	if n == 0 {
		c.Fail("G14", "side-effects-sought-at-any-depth@hasSideEffects", fn.Pos(),
			"hasSideEffects does not look inside called pipelines at all (no recursive call): a call whose only purpose is a retaining stage or a preflight inside a sub-pipeline is removed as unused")
		return
	}
	c.Check("G14", "side-effects-sought-at-any-depth@hasSideEffects", bad, bad == token.NoPos,
		"the recursion into the calls of a pipeline is restricted to callables that are pipelines: the rule for stages (a non-empty retain list is a side effect) is never applied to a stage inside a sub-pipeline, so a pipeline that only wraps a retaining stage is removed while the direct call of that stage is kept")
}

// I10 (C16): a \uXXXX escape holding a high surrogate is combined with the low surrogate that
// follows.  JSON writers that emit ASCII only (python's json.dumps) write a character outside the
// basic multilingual plane as a surrogate pair of escapes; the raw JSON text of an argument is
// handed to the MRO string decoder.  Decoding each escape on its own turns the pair into two
// U+FFFD and the argument's text is gone.
// Rule: the string decoder (unquoteBytes and the functions it calls in its package) calls
// utf16.DecodeRune (or utf16.Decode).
func ruleI10(c *an.Ctx) {
	root := c.P.Func(pkgSyntax, "unquoteBytes")
	if root == nil {
		c.Info("I10", "anchor(unquoteBytes)", 0, "not found: not decided")
		return
	}
	found := an.MayDo(root, func(in ssa.Instruction) bool {
		return staticCalleeIs(in, "unicode/utf16", "DecodeRune") != nil || staticCalleeIs(in, "unicode/utf16", "Decode") != nil
	}, 2)
	c.Check("I10", "surrogate-pairs-are-combined@unquoteBytes", root.Pos(), found,
		"the string decoder never combines UTF-16 surrogates: the escape pair \\ud83d\\udc0e that JSON writers emit for a character outside the basic multilingual plane is decoded as two U+FFFD, so a string argument taken from invocation JSON loses its text")
}

// I11 (C16): the type table handed out with an uncompiled callable has its types.  GetCallable with
// compile=false parses without checking; the TypeLookup of that AST is empty - not even the
// builtins - until CompileTypes has run.  convertToExp decides "struct or map" for every JSON
// object from that table: with the empty table an untyped `map` argument is written as a struct
// literal and the generated call does not compile.
// Rule: in GetCallable every return of a non-nil type table is preceded on every path by a call of
// Ast.CompileTypes, or lies on a path where `compile` is true.
func ruleI11(c *an.Ctx) {
	fn := c.P.Func(pkgCore, "GetCallable")
	if fn == nil {
		c.Info("I11", "anchor(GetCallable)", 0, "not found: not decided")
		return
	}
	var compileParam ssa.Value
	for _, prm := range fn.Params {
		if b, ok := prm.Type().Underlying().(*types.Basic); ok && b.Kind() == types.Bool {
			compileParam = prm
		}
	}
	n := 0
	an.Instrs(fn, func(in ssa.Instruction) {
		r, ok := in.(*ssa.Return)
		if !ok || len(r.Results) < 2 {
			return
		}
		fa, ok := r.Results[1].(*ssa.FieldAddr)
		if !ok {
			return
		}
		n++
		w := an.Query{Fn: fn, Target: func(x ssa.Instruction) bool { return x == ssa.Instruction(r) },
			Barrier: func(x ssa.Instruction) bool {
				cl := an.AsCallAny(x)
				if cl == nil {
					return false
				}
				h := cl.Common().StaticCallee()
				return h != nil && (h.Name() == "CompileTypes" || h.Name() == "compileTypes")
			},
			BarrierEdge: func(from, to *ssa.BasicBlock) bool {
				return compileParam != nil && an.EdgeHolds(from, to, func(rel an.Rel) bool {
					return rel.Op == token.ILLEGAL && rel.Truth && an.ParamOf(rel.X) == compileParam
				})
			}}.Find()
		_ = fa
		c.Check("I11", fmt.Sprintf("type-table-initialised-before-it-is-returned@GetCallable#%d", n), r.Pos(), w == nil,
			"the type table of an AST that was parsed without compiling is returned without CompileTypes having run: it contains no types at all, every JSON object bound to an untyped map parameter is then taken for a struct and the generated call does not compile; "+c.WitnessString(w))
	})
	if n == 0 {
		c.Info("I11", "anchor(returns of a type table in GetCallable)", 0, "none found: not decided")
	}
}

// I12 (C16): the MRO tokenizer accepts every escape that JSON string syntax has.  Argument values
// arrive as raw JSON and are tokenized as MRO values; the string rule is a regular expression
// constant.  JSON allows \" \\ \/ \b \f \n \r \t \uXXXX; a rule that lacks one of them makes
// BuildCallSource fail with a parse error for a valid argument.
// Rule: the pattern tokStringRule is compiled from (read from the package initialiser, evaluated
// here with the regexp package on constant probes) matches a string literal made of each JSON escape.
func ruleI12(c *an.Ctx) {
	pkg := c.P.SPkg(pkgSyntax)
	if pkg == nil {
		return
	}
	g, _ := pkg.Members["tokStringRule"].(*ssa.Global)
	if g == nil {
		c.Info("I12", "anchor(tokStringRule)", 0, "not found: not decided")
		return
	}
	var pat string
	var pos token.Pos
	for _, m := range pkg.Members {
		fn, ok := m.(*ssa.Function)
		if !ok || fn.Name() != "init" {
			continue
		}
		an.Instrs(fn, func(in ssa.Instruction) {
			st, ok := in.(*ssa.Store)
			if !ok || st.Addr != ssa.Value(g) {
				return
			}
			var find func(v ssa.Value, d int)
			find = func(v ssa.Value, d int) {
				if v == nil || d > 5 || pat != "" {
					return
				}
				if k, isK := an.ConstVal(v); isK && k.Kind() == constant.String {
					pat = constant.StringVal(k)
					return
				}
				if in2, ok := v.(ssa.Instruction); ok {
					for _, op := range in2.Operands(nil) {
						if op != nil && *op != nil {
							find(*op, d+1)
						}
					}
				}
			}
			find(st.Val, 0)
			pos = st.Pos()
		})
	}
	if pat == "" {
		c.Info("I12", "anchor(pattern of tokStringRule)", 0, "the pattern is not a constant: not decided")
		return
	}
	re, err := regexp.Compile(pat)
	if err != nil {
		c.Fail("I12", "string-rule-pattern-compiles", pos, "the pattern "+pat+" does not compile: "+err.Error())
		return
	}
	for _, esc := range []string{`\"`, `\\`, `\/`, `\b`, `\f`, `\n`, `\r`, `\t`, `é`} {
		probe := `"a` + esc + `b"`
		m := re.FindString(probe)
		c.Check("I12", "tokenizer-accepts-json-escape("+esc+")", pos, m == probe,
			"the string rule of the MRO tokenizer ("+pat+") does not accept the JSON escape "+esc+": a string argument containing it, which is valid JSON, makes BuildCallSource / mrg fail with a parse error")
	}
}

// Q14 (C09): rounding a resource request up to the formatter's granularity leaves a request that
// already is a multiple alone.  threads are written with two decimals; the float32 closest to 1.23
// is slightly ABOVE 1.23 once widened to float64, so ceil(1.23*100)/100 is 1.24: the parser reads
// `threads = 1.23` as 1.24 and mro format rewrites it on every pass - its output denotes another
// program.
// Rule: in roundUpTo every return of a value computed with math.Ceil or math.Floor lies on a path
// where a comparison with the parameter has established that the parameter is not already a multiple
// (the false edge of `float32(round(x*g)/g) == value`, or an equivalent != test).
func ruleQ14(c *an.Ctx) {
	fn := c.P.Func(pkgSyntax, "roundUpTo")
	if fn == nil {
		c.Info("Q14", "anchor(roundUpTo)", 0, "not found: not decided")
		return
	}
	if len(fn.Params) == 0 {
		return
	}
	value := fn.Params[0]
	usesCeil := func(v ssa.Value) bool {
		seen := map[ssa.Value]bool{}
		var rec func(v ssa.Value, d int) bool
		rec = func(v ssa.Value, d int) bool {
			if v == nil || seen[v] || d > 8 {
				return false
			}
			seen[v] = true
			if cl, ok := v.(*ssa.Call); ok {
				if h := cl.Call.StaticCallee(); h != nil && h.Pkg != nil && h.Pkg.Pkg.Path() == "math" && (h.Name() == "Ceil" || h.Name() == "Floor") {
					return true
				}
			}
			if in, ok := v.(ssa.Instruction); ok {
				for _, op := range in.Operands(nil) {
					if op != nil && *op != nil && rec(*op, d+1) {
						return true
					}
				}
			}
			return false
		}
		return rec(v, 0)
	}
	n := 0
	an.Instrs(fn, func(in ssa.Instruction) {
		r, ok := in.(*ssa.Return)
		if !ok || len(r.Results) != 1 || !usesCeil(r.Results[0]) {
			return
		}
		n++
		g, _ := an.GuardedBy(r, func(rel an.Rel) bool {
			if rel.Op != token.NEQ {
				return false
			}
			// one side is the parameter, the other a float32 conversion of something computed from it
			other := rel.Y
			if rel.X != ssa.Value(value) {
				if rel.Y != ssa.Value(value) {
					return false
				}
				other = rel.X
			}
			_, isConv := other.(*ssa.Convert)
			return isConv
		})
		c.Check("Q14", fmt.Sprintf("multiples-are-not-rounded-again@roundUpTo#%d", n), r.Pos(), g,
			"the ceiling / floor is taken without first establishing that the value is not already a multiple of the granularity: the float32 nearest to 1.23 widens to 1.2300000190734863, so 1.23 becomes 1.24 and a formatted program denotes a different thread request each pass")
	})
	if n == 0 {
		c.Info("Q14", "anchor(rounded returns of roundUpTo)", 0, "no return computed with math.Ceil / math.Floor: not decided")
	}
}

// Q15 (C09): a memory request is converted to an integer number of MB only if it fits.  formatGB
// prints a float32 GB value via int64(gb*1024); the parser accepts any float32, and for 2^53 GB and
// more the conversion overflows: `mem_gb = 1e30` was printed with the wrong sign, and that output
// does not parse again.
// Rule: in the formatter's functions a float -> integer conversion of a value derived from a
// parameter is dominated by an upper-bound comparison of that value with a constant.
func ruleQ15(c *an.Ctx) {
	fn := c.P.Func(pkgSyntax, "formatGB")
	if fn == nil {
		c.Info("Q15", "anchor(formatGB)", 0, "not found: not decided")
		return
	}
	n := 0
	an.Instrs(fn, func(in ssa.Instruction) {
		cv, ok := in.(*ssa.Convert)
		if !ok {
			return
		}
		from, okF := cv.X.Type().Underlying().(*types.Basic)
		to, okT := cv.Type().Underlying().(*types.Basic)
		if !okF || !okT || from.Info()&types.IsFloat == 0 || to.Info()&types.IsInteger == 0 {
			return
		}
		n++
		// the float operands the converted value is computed from
		srcs := map[ssa.Value]bool{}
		var rec func(v ssa.Value, d int)
		rec = func(v ssa.Value, d int) {
			if v == nil || srcs[v] || d > 6 {
				return
			}
			srcs[v] = true
			switch x := v.(type) {
			case *ssa.BinOp:
				rec(x.X, d+1)
				rec(x.Y, d+1)
			case *ssa.Convert:
				rec(x.X, d+1)
			case *ssa.Phi:
				for _, e := range x.Edges {
					rec(e, d+1)
				}
			case *ssa.UnOp:
				rec(x.X, d+1)
			}
		}
		rec(cv.X, 0)
		g, _ := an.GuardedBy(cv, func(rel an.Rel) bool {
			r := rel
			if _, isK := an.ConstVal(r.X); isK {
				r = r.Flip()
			}
			if _, isK := an.ConstVal(r.Y); !isK {
				return false
			}
			return (r.Op == token.LSS || r.Op == token.LEQ) && srcs[r.X]
		})
		c.Check("Q15", fmt.Sprintf("float-to-integer-conversion-is-bounded@formatGB#%d", n), cv.Pos(), g,
			"a float is converted to an integer without an upper bound having been established: for requests of 2^53 GB and more (which the parser accepts) int64(gb*1024) overflows, the value is printed with the wrong sign and the formatted program no longer parses")
	})
	if n == 0 {
		c.Info("Q15", "anchor(float->integer conversions in formatGB)", 0, "none: not decided")
	}
}

// Q16 (C09): comments handed to the first entry of a list leave the list.  compileComments gives
// the comments in front of a retain / binding list to the list's first entry, which prints them;
// the list node's own format prints its comments too.  Unless the hand-over clears them on the
// list node the comment is printed twice - and once more on every further pass of mro format.
// Rule: in compileComments, after a store that puts `append(container.F, ...)` into another node's
// F (F = Comments, scopeComments), every path to the function's end stores nil into container.F.
func ruleQ16(c *an.Ctx) {
	fn := c.P.Func(pkgSyntax, "compileComments")
	if fn == nil {
		c.Info("Q16", "anchor(compileComments)", 0, "not found: not decided")
		return
	}
	n := 0
	hosts := []*ssa.Function{fn}
	for _, g := range familyOf(c.P, fn, 1) {
		if g != fn && g.Pkg == fn.Pkg {
			hosts = append(hosts, g)
		}
	}
	for _, fn := range hosts {
		fn := fn
		an.Instrs(fn, func(in ssa.Instruction) {
			st, ok := in.(*ssa.Store)
			if !ok {
				return
			}
			fa, ok := st.Addr.(*ssa.FieldAddr)
			if !ok {
				return
			}
			sT := derefStructT(fa.X.Type())
			if sT == nil {
				return
			}
			fname := sT.Field(fa.Field).Name()
			if fname != "Comments" && fname != "scopeComments" {
				return
			}
			args, isApp := an.IsBuiltinCall(st.Val, "append")
			if !isApp || len(args) < 1 {
				return
			}
			ld, ok := args[0].(*ssa.UnOp)
			if !ok || ld.Op != token.MUL {
				return
			}
			src, ok := ld.X.(*ssa.FieldAddr)
			if !ok || derefStructT(src.X.Type()) == nil || derefStructT(src.X.Type()).Field(src.Field).Name() != fname {
				return
			}
			if accessKey(src) == accessKey(fa) {
				return // appending to its own list
			}
			n++
			key := accessKey(src)
			cleared := func(x ssa.Instruction) bool {
				s2, ok := x.(*ssa.Store)
				if !ok {
					return false
				}
				k, isC := s2.Val.(*ssa.Const)
				if !isC || !k.IsNil() {
					return false
				}
				f2, ok := s2.Addr.(*ssa.FieldAddr)
				return ok && accessKey(f2) == key
			}
			w := an.Query{Fn: fn, After: st, Target: func(x ssa.Instruction) bool { _, isR := x.(*ssa.Return); return isR }, Barrier: cleared}.Find()
			c.Check("Q16", "inherited-comments-leave-the-container("+fname+")@"+an.FnName(fn), st.Pos(), w == nil,
				"the container's "+fname+" are copied to its first entry but stay on the container: both nodes print them, a comment in front of `retain (` is duplicated by mro format and once more on every pass; "+c.WitnessString(w))
		})
	}
	c.Floor("Q16", "hand-overs of a container's comments in compileComments and its helpers", n, 2)
}

// Q17 (C09): the comments of a binding list are printed even when the list is empty.  A comment
// between `call X` and the `(` is attached to the BindStms node.  BindStms.format prints them,
// but CallStm.format only formats a non-empty list, and an empty list has no first entry to
// inherit them.
// Rule: if CallStm.format calls Bindings.format only under a condition, it also prints the
// comments of the Bindings node itself (printComments(&self.Bindings.Node, ..)).
func ruleQ17(c *an.Ctx) {
	fn := c.P.Func(pkgSyntax, "(*CallStm).format")
	if fn == nil {
		c.Info("Q17", "anchor((*CallStm).format)", 0, "not found: not decided")
		return
	}
	var formatCall ssa.Instruction
	printsOwn := false
	an.Instrs(fn, func(in ssa.Instruction) {
		cl := an.AsCallAny(in)
		if cl == nil || cl.Common().StaticCallee() == nil {
			return
		}
		h := cl.Common().StaticCallee()
		switch {
		case h.Name() == "format" && h.Signature.Recv() != nil && strings.Contains(h.Signature.Recv().Type().String(), "BindStms"):
			if len(cl.Common().Args) > 0 && strings.HasSuffix(accessKey(cl.Common().Args[0]), ".Bindings") {
				formatCall = in
			}
		case h.Name() == "printComments":
			for _, a := range cl.Common().Args {
				if strings.HasSuffix(accessKey(a), ".Bindings.Node") {
					printsOwn = true
				}
			}
		}
	})
	if formatCall == nil {
		c.Info("Q17", "anchor(Bindings.format call in CallStm.format)", 0, "not found: not decided")
		return
	}
	w := an.Query{Fn: fn, Target: func(x ssa.Instruction) bool { _, isR := x.(*ssa.Return); return isR },
		Barrier: func(x ssa.Instruction) bool { return x == formatCall }}.Find()
	c.Check("Q17", "comments-of-an-empty-binding-list-are-printed@(*CallStm).format", formatCall.Pos(), w == nil || printsOwn,
		"the binding list is formatted only when it is not empty and nothing else prints the comments attached to the list node: a comment between `call X` and the `(` of an empty list is dropped by mro format")
}

// R12 (C05): the "queued locally" sentinel outlives the submission.  _queued_locally marks a job
// that mrp has accepted but not yet handed to the cluster; a restarted mrp resubmits such jobs.
// Removing it BEFORE the submit command runs opens a window in which a killed mrp leaves a job
// with _jobinfo but neither sentinel nor job id: the restarted mrp takes it for a job waiting in
// the cluster's queue and waits for ever.
// Rule: in RemoteJobManager.sendJob every path to the removal of QueuedLocally has run the submit
// command (exec.Cmd CombinedOutput / Output / Run / Start).
func ruleR12(c *an.Ctx) {
	fn := c.P.Func(pkgCore, "(*RemoteJobManager).sendJob")
	if fn == nil {
		c.Info("R12", "anchor(sendJob)", 0, "not found: not decided")
		return
	}
	ql := c.P.Const(pkgCore, "QueuedLocally")
	ran := func(in ssa.Instruction) bool {
		cl := an.AsCallAny(in)
		if cl == nil {
			return false
		}
		h := cl.Common().StaticCallee()
		if h == nil || h.Pkg == nil || h.Pkg.Pkg.Path() != "os/exec" {
			return false
		}
		switch h.Name() {
		case "CombinedOutput", "Output", "Run", "Start":
			return true
		}
		return false
	}
	n := 0
	for _, g := range an.WithAnon(fn) {
		an.Instrs(g, func(in ssa.Instruction) {
			cl := an.AsCallAny(in)
			if cl == nil || cl.Common().StaticCallee() == nil || cl.Common().StaticCallee().Name() != "remove" {
				return
			}
			isQL := false
			for _, a := range cl.Common().Args {
				if ql != nil && an.IsConst(a, ql) {
					isQL = true
				}
			}
			if !isQL {
				return
			}
			n++
			w := an.Query{Fn: g, Target: func(x ssa.Instruction) bool { return x == in }, Barrier: ran}.Find()
			c.Check("R12", fmt.Sprintf("sentinel-removed-after-the-submit-command@%s#%d", an.FnName(g), n), in.Pos(), w == nil,
				"_queued_locally is removed before the submit command has run: mrp killed in between leaves a job with _jobinfo but neither _queued_locally nor _jobid, which the restarted mrp never resubmits (it waits for ever for a job the cluster never received); "+c.WitnessString(w))
		})
	}
	if n == 0 {
		c.Info("R12", "anchor(removal of QueuedLocally in sendJob)", 0, "not found: not decided")
	}
}

// W8 (C14): a walk never follows a symbolic link, not even its root.  The VDR walks call util.Walk
// on every child of a stage's files/ and tmp/ directories to count what is about to be removed.
// Opened with os.Open, a child that is a link to a directory outside the pipestance is descended
// into: the kill report counts files and bytes that are not removed (RemoveAll removes the link
// only), and with strict volatile a path behind the link can be deleted.
// Rule: in the util package's Walk, the root is opened with O_NOFOLLOW (os.OpenFile with the flag
// constant 0x20000 set), never with os.Open.
func ruleW8(c *an.Ctx) {
	fn := c.P.Func("martian/util", "Walk")
	if fn == nil {
		c.Info("W8", "anchor(util.Walk)", 0, "not found: not decided")
		return
	}
	if len(fn.Params) == 0 {
		return
	}
	root := fn.Params[0]
	n := 0
	an.Instrs(fn, func(in ssa.Instruction) {
		cl := an.AsCallAny(in)
		if cl == nil {
			return
		}
		h := cl.Common().StaticCallee()
		if h == nil || h.Pkg == nil || h.Pkg.Pkg.Path() != "os" || (h.Name() != "Open" && h.Name() != "OpenFile") {
			return
		}
		if len(cl.Common().Args) == 0 || an.ParamOf(cl.Common().Args[0]) != ssa.Value(root) && cl.Common().Args[0] != ssa.Value(root) {
			return
		}
		n++
		ok := false
		if h.Name() == "OpenFile" && len(cl.Common().Args) >= 2 {
			if k, isK := an.ConstVal(cl.Common().Args[1]); isK && k.Kind() == constant.Int {
				if v, exact := constant.Int64Val(k); exact && v&0x20000 != 0 {
					ok = true
				}
			}
		}
		c.Check("W8", fmt.Sprintf("walk-root-not-followed@Walk#%d", n), in.Pos(), ok,
			"the root of the walk is opened in a way that follows a symbolic link: a link to a directory outside the pipestance left in a stage's files/ or tmp/ directory is descended into, its files are counted in the kill report although only the link is removed (and a strict-volatile path behind it can be deleted)")
	})
	if n == 0 {
		// not opened at all (lstat based): fine if Lstat is used on the root
		usesLstat := an.MayDo(fn, func(x ssa.Instruction) bool { return staticCalleeIs(x, "os", "Lstat") != nil }, 1)
		c.Check("W8", "walk-root-not-followed@Walk", fn.Pos(), usesLstat, "the root is neither opened with O_NOFOLLOW nor examined with Lstat: not decided, reported")
	}
}

// loopEntryBarrier returns a BarrierEdge that holds on the edges entering a loop whose body
// contains an instruction satisfying pred: with nothing to iterate over there is nothing to do.
func loopEntryBarrier(fn *ssa.Function, pred func(ssa.Instruction) bool) func(from, to *ssa.BasicBlock) bool {
	loops := map[*ssa.BasicBlock]map[*ssa.BasicBlock]bool{}
	for hd, body := range naturalLoops(fn) {
		for b := range body {
			for _, in := range b.Instrs {
				if pred(in) {
					loops[hd] = body
				}
			}
		}
	}
	return func(from, to *ssa.BasicBlock) bool {
		body, ok := loops[to]
		return ok && !body[from]
	}
}

// F15 (C06): every refresh of the journal advances the refresh time of every frontier job.
// Metadata.endRefresh is the only writer of lastRefresh, and checkHeartbeat fails a job that has
// gone silent by comparing lastRefresh with the last heartbeat.  If the end-of-refresh pass is made
// conditional (round 9: only for job managers that can query their queue), lastRefresh stays zero
// for everybody else and a job that dies without writing anything is never failed: the pipestance
// hangs in `running`.
// Rule: in Node.refreshState every return other than the one taken when the journal directory
// could not be read has passed the endRefresh pass (the loop over the frontier nodes that calls it).
func ruleF15(c *an.Ctx) {
	fn := c.P.Func(pkgCore, "(*Node).refreshState")
	end := c.P.Func(pkgCore, "(*Metadata).endRefresh")
	if fn == nil || end == nil {
		c.Info("F15", "anchor(refreshState/endRefresh)", 0, "not found: not decided")
		return
	}
	isEnd := func(in ssa.Instruction) bool {
		cl := an.AsCallAny(in)
		if cl == nil {
			return false
		}
		h := cl.Common().StaticCallee()
		if h == end {
			return true
		}
		return h != nil && h.Blocks != nil && h.Pkg == fn.Pkg && h != fn && an.MayDo(h, func(x ssa.Instruction) bool {
			c2 := an.AsCallAny(x)
			return c2 != nil && c2.Common().StaticCallee() == end
		}, 1)
	}
	if !an.MayDo(fn, isEnd, 0) {
		c.Fail("F15", "refresh-time-advanced-on-every-refresh@(*Node).refreshState", fn.Pos(),
			"refreshState never calls Metadata.endRefresh: lastRefresh is never set, the heartbeat timeout cannot fire")
		return
	}
	entry := loopEntryBarrier(fn, isEnd)
	n := 0
	an.Instrs(fn, func(in ssa.Instruction) {
		r, ok := in.(*ssa.Return)
		if !ok {
			return
		}
		// the error exit: guarded by err != nil
		if onErr, _ := an.GuardedBy(r, func(rel an.Rel) bool {
			return rel.Op == token.NEQ && (an.IsNil(rel.Y) && isErrorT(rel.X.Type()) || an.IsNil(rel.X) && isErrorT(rel.Y.Type()))
		}); onErr {
			return
		}
		n++
		w := an.Query{Fn: fn, Target: func(x ssa.Instruction) bool { return x == ssa.Instruction(r) }, Barrier: isEnd, BarrierEdge: entry}.Find()
		pos := r.Pos()
		if !pos.IsValid() {
			pos = fn.Pos()
		}
		c.Check("F15", fmt.Sprintf("refresh-time-advanced-on-every-refresh@(*Node).refreshState#%d", n), pos, w == nil,
			"a refresh can finish without the end-of-refresh pass over the frontier jobs: Metadata.endRefresh is the only writer of lastRefresh, so for the job managers that take this path the heartbeat comparison never fails a job that died silently and the pipestance stays `running` for ever; "+c.WitnessString(w))
	})
	if n == 0 {
		c.Info("F15", "anchor(returns of refreshState)", 0, "none: not decided")
	}
}

// W9 (C14): an empty set of outputs is not a missing one.  cacheParamFileMap builds the table of
// files a fork's VDR may remove (every file of the stage, with what keeps it alive).  It gives up
// only when the outs could not be read at all (nil).  A stage without out parameters has `{}`:
// treated like nil, the table is never built, vdrKillSome finds nothing and still writes its final
// report - every file such a volatile stage wrote survives and the report under-counts.
// Rule: every return of cacheParamFileMap that has not stored Fork.fileParamMap is guarded by a
// comparison of the outs with nil (not by their length).
func ruleW9(c *an.Ctx) {
	fn := c.P.Func(pkgCore, "(*Fork).cacheParamFileMap")
	fpm := c.P.Field(pkgCore, "Fork", "fileParamMap")
	if fn == nil || fpm == nil {
		c.Info("W9", "anchor(cacheParamFileMap)", 0, "not found: not decided")
		return
	}
	stored := func(in ssa.Instruction) bool {
		st, ok := in.(*ssa.Store)
		if !ok {
			return false
		}
		_, f := an.FieldOfAddr(st.Addr)
		return f == fpm
	}
	n := 0
	an.Instrs(fn, func(in ssa.Instruction) {
		r, ok := in.(*ssa.Return)
		if !ok {
			return
		}
		w := an.Query{Fn: fn, Target: func(x ssa.Instruction) bool { return x == ssa.Instruction(r) }, Barrier: stored}.Find()
		if w == nil {
			return
		}
		n++
		g, _ := an.GuardedBy(r, func(rel an.Rel) bool {
			if rel.Op != token.EQL {
				return false
			}
			isMap := func(v ssa.Value) bool { _, ok := v.Type().Underlying().(*types.Map); return ok }
			return an.IsNil(rel.Y) && isMap(rel.X) || an.IsNil(rel.X) && isMap(rel.Y)
		})
		pos := r.Pos()
		if !pos.IsValid() {
			pos = fn.Pos()
		}
		c.Check("W9", fmt.Sprintf("gives-up-only-without-outs@(*Fork).cacheParamFileMap#%d", n), pos, g,
			"the table of removable files is not built on a path that is not restricted to `outs == nil`: a stage whose outs are the empty object (no out parameters) is skipped, its files are never removed although nothing needs them, and the final report under-counts")
	})
	if n == 0 {
		c.Pass("W9", "file-table-always-built@(*Fork).cacheParamFileMap", fn.Pos(), "every return has stored the table")
	}
}

// Q18 (C09): the sign of a resource request survives formatting.  A negative mem_gb is an adaptive
// request (another meaning than the positive value).  formatGB prints the whole GB with AppendInt
// and the fraction separately; the integer part of a value in (-1, 0) is 0 and carries no sign, so
// the sign must be written explicitly.
// Rule: if formatGB formats an integer part (strconv.AppendInt / FormatInt / Itoa), it writes the
// constant '-' on the edge where its parameter is negative.
func ruleQ18(c *an.Ctx) {
	fn := c.P.Func(pkgSyntax, "formatGB")
	if fn == nil {
		c.Info("Q18", "anchor(formatGB)", 0, "not found: not decided")
		return
	}
	var gb ssa.Value
	for _, prm := range fn.Params {
		if b, ok := prm.Type().Underlying().(*types.Basic); ok && b.Info()&types.IsFloat != 0 {
			gb = prm
		}
	}
	if gb == nil {
		c.Info("Q18", "anchor(float parameter of formatGB)", 0, "not found: not decided")
		return
	}
	usesInt := an.MayDo(fn, func(in ssa.Instruction) bool {
		return staticCalleeIs(in, "strconv", "AppendInt") != nil || staticCalleeIs(in, "strconv", "FormatInt") != nil || staticCalleeIs(in, "strconv", "Itoa") != nil
	}, 0)
	if !usesInt {
		c.Pass("Q18", "sign-written-for-negative-requests@formatGB", fn.Pos(), "no integer part is formatted separately")
		return
	}
	found := false
	an.Instrs(fn, func(in ssa.Instruction) {
		cl := an.AsCallAny(in)
		if cl == nil || found {
			return
		}
		minus := false
		for _, a := range cl.Common().Args {
			if k, ok := an.ConstVal(a); ok {
				switch k.Kind() {
				case constant.Int:
					if v, exact := constant.Int64Val(k); exact && v == '-' {
						minus = true
					}
				case constant.String:
					if constant.StringVal(k) == "-" {
						minus = true
					}
				}
			}
		}
		if !minus {
			return
		}
		if g, _ := an.GuardedBy(in, func(rel an.Rel) bool {
			r := rel
			if _, isK := an.ConstVal(r.X); isK {
				r = r.Flip()
			}
			return r.Op == token.LSS && r.X == gb
		}); g {
			found = true
		}
	})
	c.Check("Q18", "sign-written-for-negative-requests@formatGB", fn.Pos(), found,
		"formatGB formats the whole GB as an integer but never writes '-' on the edge where the request is negative: for values between -1 and 0 the integer part is 0 and the sign is lost, `mem_gb = -0.5` (an adaptive request) is rewritten as `mem_gb = 0.5`")
}

// T13 (C07): every binding a wildcard expands to is type-checked.  `* = self` / `* = STRUCT_REF`
// are expanded by compileWildcard into one binding per matching parameter, each of which goes
// through BindStm.compile / compileParam like a binding the user wrote.  For a wildcard over a
// collection of structs the expansion strips the collection dimensions before looking at the
// members, so "the declared types are equal, nothing to check" is wrong exactly there: an `int[]`
// is bound to an `int` parameter and the program is accepted.
// Rule: in compileWildcard every path to the append of an expanded binding to the binding list has
// passed a call that compiles the binding on all of its own paths (MustDo through helpers).
func ruleT13(c *an.Ctx) {
	fn := c.P.Func(pkgSyntax, "(*BindStms).compileWildcard")
	listF := c.P.Field(pkgSyntax, "BindStms", "List")
	if fn == nil || listF == nil {
		c.Info("T13", "anchor(compileWildcard)", 0, "not found: not decided")
		return
	}
	md := &an.MustDo{Pred: func(in ssa.Instruction) bool {
		cl := an.AsCallAny(in)
		if cl == nil {
			return false
		}
		h := cl.Common().StaticCallee()
		if h == nil || h.Signature.Recv() == nil || !strings.Contains(h.Signature.Recv().Type().String(), "BindStm") {
			return false
		}
		return h.Name() == "compile" || h.Name() == "compileParam"
	}, Depth: 3}
	n := 0
	// compileWildcard and the private helpers its loops were split into
	fam := []*ssa.Function{fn}
	for _, g := range familyOf(c.P, fn, 2) {
		if g != fn && g.Pkg == fn.Pkg && g.Name() != "addBinding" && g.Name() != "compile" && g.Name() != "compileParam" {
			fam = append(fam, g)
		}
	}
	for _, host := range fam {
		host := host
		an.Instrs(host, func(in ssa.Instruction) {
			st, ok := in.(*ssa.Store)
			if !ok {
				return
			}
			if _, f := an.FieldOfAddr(st.Addr); f != listF {
				return
			}
			if _, isApp := an.IsBuiltinCall(st.Val, "append"); !isApp {
				return
			}
			n++
			w := an.Query{Fn: host, Target: func(x ssa.Instruction) bool { return x == in },
				Barrier: func(x ssa.Instruction) bool { return md.Instr(x, 0) }}.Find()
			c.Check("T13", fmt.Sprintf("expanded-binding-is-type-checked@%s#%d", an.FnName(host), n), st.Pos(), w == nil,
				"a binding produced by the wildcard expansion is added to the list on a path that has not compiled it (BindStm.compile / compileParam on every path of the helper): the conversion from the source's type to the parameter's type is not checked, e.g. the member of a struct taken from an array of structs (an `int[]`) is accepted for an `int` parameter; "+c.WitnessString(w))
		})
	}
	c.Floor("T13", "appends of expanded bindings in compileWildcard and its helpers", n, 1)
}

// M14 (C13): a struct's file kind only moves upward.  Whether post-processing descends into a
// struct-typed output is decided by StructType.isFile, the join of its members' kinds
// (not-file < may-contain-paths < directory).  It is accumulated member by member in
// StructMember.compile.  If a member's kind simply overwrites the accumulated one ("last member
// wins"), `struct R(txt summary, string label)` ends as may-contain-paths: the nested file is never
// moved to outs/ and _outs keeps pointing into the stage directory.
// Rule: every store to StructType.isFile in StructMember.compile (and its helpers) is dominated by a
// comparison that reads the current value of that field.
func ruleM14(c *an.Ctx) {
	fn := c.P.Func(pkgSyntax, "(*StructMember).compile")
	f := c.P.Field(pkgSyntax, "StructType", "isFile")
	if fn == nil || f == nil {
		c.Info("M14", "anchor(StructMember.compile / StructType.isFile)", 0, "not found: not decided")
		return
	}
	n := 0
	for _, g := range append([]*ssa.Function{fn}, familyOf(c.P, fn, 1)...) {
		if g.Pkg != fn.Pkg {
			continue
		}
		an.Instrs(g, func(in ssa.Instruction) {
			st, ok := in.(*ssa.Store)
			if !ok {
				return
			}
			if _, fld := an.FieldOfAddr(st.Addr); fld != f {
				return
			}
			n++
			key := accessKey(st.Addr)
			readsCurrent := func(v ssa.Value) bool {
				u, ok := v.(*ssa.UnOp)
				return ok && u.Op == token.MUL && accessKey(u.X) == key
			}
			g2, _ := an.GuardedBy(st, func(rel an.Rel) bool {
				return rel.Op != token.ILLEGAL && (readsCurrent(rel.X) || readsCurrent(rel.Y))
			})
			// or the stored value itself is computed from the current one (max(cur, k))
			fromCur := false
			if cl, ok := st.Val.(*ssa.Call); ok {
				for _, a := range cl.Call.Args {
					if readsCurrent(a) {
						fromCur = true
					}
				}
			}
			c.Check("M14", fmt.Sprintf("struct-file-kind-only-moves-up@%s#%d", an.FnName(g), n), st.Pos(), g2 || fromCur,
				"the file kind of the struct is overwritten with a member's kind without looking at the kind accumulated so far: a later non-file-bearing member (string, map) lowers `directory` to `may contain paths`, post-processing then does not descend into the struct and its files are not moved to outs/")
		})
	}
	if n == 0 {
		c.Info("M14", "anchor(stores to StructType.isFile)", 0, "none in StructMember.compile: not decided")
	}
}

// G15 (C19): what a pass changed is accumulated over all files.  Refactor applies each removal
// pass to every AST and records the edit (for the replay on the source files) if any file changed.
// If the verdict of the last file overwrites the others', a pass that edits only an earlier file is
// applied to the compiled ASTs but not recorded: the replay diverges and the edited program no
// longer compiles.
// Rule: in the refactoring package, a loop that calls Edit.Apply and carries a value computed from
// Apply's count out of the loop computes it from the previous iteration's value as well.
func ruleG15(c *an.Ctx) {
	n := 0
	for _, fn := range c.P.FuncsOf(pkgRefac) {
		for hd, body := range naturalLoops(fn) {
			var applies []*ssa.Call
			for b := range body {
				for _, in := range b.Instrs {
					if cl, ok := in.(*ssa.Call); ok && cl.Call.IsInvoke() && cl.Call.Method.Name() == "Apply" {
						applies = append(applies, cl)
					}
				}
			}
			if len(applies) == 0 {
				continue
			}
			derives := func(v ssa.Value, from func(ssa.Value) bool) bool {
				seen := map[ssa.Value]bool{}
				var rec func(v ssa.Value, d int) bool
				rec = func(v ssa.Value, d int) bool {
					if v == nil || seen[v] || d > 10 {
						return false
					}
					seen[v] = true
					if from(v) {
						return true
					}
					in, ok := v.(ssa.Instruction)
					if !ok || !body[in.Block()] {
						return false
					}
					for _, op := range in.Operands(nil) {
						if op != nil && *op != nil && rec(*op, d+1) {
							return true
						}
					}
					return false
				}
				return rec(v, 0)
			}
			isApply := func(v ssa.Value) bool {
				for _, a := range applies {
					if v == ssa.Value(a) {
						return true
					}
				}
				return false
			}
			for _, in := range hd.Instrs {
				ph, ok := in.(*ssa.Phi)
				if !ok {
					break
				}
				for i, e := range ph.Edges {
					if !body[hd.Preds[i]] {
						continue
					}
					// back edge value
					if !derives(e, isApply) {
						continue
					}
					if b, isB := ph.Type().Underlying().(*types.Basic); !isB || b.Info()&(types.IsBoolean|types.IsInteger) == 0 {
						continue
					}
					n++
					acc := e == ssa.Value(ph) || derives(e, func(v ssa.Value) bool { return v == ssa.Value(ph) })
					c.Check("G15", "pass-verdict-accumulated-over-all-files@"+an.FnName(fn), ph.Pos(), acc,
						"the value carried out of the loop over the ASTs is computed from the last Apply result only: a pass that changes an earlier file but not the last one counts as `nothing changed`, its edit is applied to the compiled ASTs but not recorded for the source files, and the replayed program no longer compiles")
				}
			}
		}
	}
	c.Floor("G15", "loop-carried verdicts of Edit.Apply in the refactoring package", n, 2)
}

// I13 (C16): an integer mantissa is converted to float64 only if it is exactly representable.
// Float literals (MRO text and JSON arguments) are converted by strconv.ParseFloat.  A hand-written
// fast path `float64(mantissa) / 10^k` is correctly rounded only if the mantissa is below 2^53 (and
// 10^k is exact); with up to 18 digits accumulated in a uint64 the value is rounded twice and about
// one full-precision double in ten comes out one ulp off - a recorded invocation then shows another
// number than the stage received.  (Seeded twice: rounds 7 and 9.)
// Rule: in parseFloat and the functions of its package it calls, every conversion of a non-constant
// integer to a floating-point type is dominated by an upper-bound comparison of that integer with a
// constant not above 2^53.
func ruleI13(c *an.Ctx) {
	root := c.P.Func(pkgSyntax, "parseFloat")
	if root == nil {
		c.Info("I13", "anchor(parseFloat)", 0, "not found: not decided")
		return
	}
	fam := []*ssa.Function{root}
	an.Instrs(root, func(in ssa.Instruction) {
		if cl := an.AsCallAny(in); cl != nil {
			if h := cl.Common().StaticCallee(); h != nil && h.Blocks != nil && h.Pkg == root.Pkg {
				fam = append(fam, h)
			}
		}
	})
	n := 0
	for _, fn := range fam {
		an.Instrs(fn, func(in ssa.Instruction) {
			cv, ok := in.(*ssa.Convert)
			if !ok {
				return
			}
			from, okF := cv.X.Type().Underlying().(*types.Basic)
			to, okT := cv.Type().Underlying().(*types.Basic)
			if !okF || !okT || from.Info()&types.IsInteger == 0 || to.Info()&types.IsFloat == 0 {
				return
			}
			if _, isC := cv.X.(*ssa.Const); isC {
				return
			}
			n++
			g, _ := an.GuardedBy(cv, func(rel an.Rel) bool {
				r := rel
				if _, isK := an.ConstVal(r.X); isK {
					r = r.Flip()
				}
				k, isK := an.ConstVal(r.Y)
				if !isK || k.Kind() != constant.Int || r.X != cv.X {
					return false
				}
				lim := constant.MakeUint64(1 << 53)
				switch r.Op {
				case token.LSS:
					return constant.Compare(k, token.LEQ, lim)
				case token.LEQ:
					return constant.Compare(k, token.LSS, lim)
				}
				return false
			})
			c.Check("I13", fmt.Sprintf("mantissa-exactly-representable@%s#%d", an.FnName(fn), n), cv.Pos(), g,
				"an integer accumulated from the digits of a float literal is converted to floating point without a bound of 2^53: larger mantissas are rounded by the conversion and again by the scaling, so some 16-18 digit literals come out one ulp off (JSON 94.05090880450125 becomes 94.05090880450123 in the call text)")
		})
	}
	if n == 0 {
		c.Pass("I13", "float-literals-converted-by-the-library@parseFloat", root.Pos(), "no integer-to-float conversion in parseFloat and its helpers")
	}
}

// W10 (C14): one chunk without a temp directory does not stop the cleanup of the others.
// cleanChunkTemp collects every chunk's temp paths and gives up when enumerating fails.  A stage may
// remove its own TMPDIR; the ENOENT for that one chunk used to abort the sweep on every call, so the
// temp directories of all other chunks survived the completed pipestance and appeared in no report.
// Rule: in the per-phase temp cleaners, a return taken because enumerateTemp failed is restricted
// to errors that are not "does not exist" (false edge of os.IsNotExist / errors.Is(.., ErrNotExist)).
func ruleW10(c *an.Ctx) {
	n := 0
	for _, name := range []string{"(*Fork).cleanChunkTemp"} {
		fn := c.P.Func(pkgCore, name)
		if fn == nil {
			c.Info("W10", "anchor("+name+")", 0, "not found: not decided")
			continue
		}
		an.Instrs(fn, func(in ssa.Instruction) {
			cl, ok := in.(*ssa.Call)
			if !ok || cl.Call.StaticCallee() == nil || cl.Call.StaticCallee().Name() != "enumerateTemp" {
				return
			}
			// its error result
			var errv ssa.Value
			for _, r := range an.Referrers(cl) {
				if ex, ok := r.(*ssa.Extract); ok && isErrorT(ex.Type()) {
					errv = ex
				}
			}
			if errv == nil {
				return
			}
			// returns guarded by errv != nil inside the loop
			an.Instrs(fn, func(x ssa.Instruction) {
				r, ok := x.(*ssa.Return)
				if !ok {
					return
				}
				onErr, _ := an.GuardedBy(r, func(rel an.Rel) bool {
					return rel.Op == token.NEQ && (rel.X == errv && an.IsNil(rel.Y) || rel.Y == errv && an.IsNil(rel.X))
				})
				if !onErr {
					return
				}
				n++
				tolerant, _ := an.GuardedBy(r, func(rel an.Rel) bool {
					if rel.Op != token.ILLEGAL || rel.Truth {
						return false
					}
					c2, ok := rel.X.(*ssa.Call)
					if !ok || c2.Call.StaticCallee() == nil {
						return false
					}
					h := c2.Call.StaticCallee()
					if h.Name() == "IsNotExist" && len(c2.Call.Args) == 1 && c2.Call.Args[0] == errv {
						return true
					}
					return h.Name() == "Is" && len(c2.Call.Args) == 2 && c2.Call.Args[0] == errv
				})
				c.Check("W10", fmt.Sprintf("missing-temp-directory-is-not-fatal@%s#%d", an.FnName(fn), n), r.Pos(), tolerant,
					"the sweep over the chunks' temp directories is abandoned for any error of enumerateTemp, including `does not exist`: if the stage code removed one chunk's TMPDIR, the temp files of every other chunk are never removed and never reported")
			})
		})
	}
	if n == 0 {
		c.Info("W10", "anchor(error exits after enumerateTemp)", 0, "none found: not decided")
	}
}

// F16 (C06): unreadable outs of a stage without a join are the chunk's failure.  For a stage
// that does not split, doJoin copies the chunk's _outs to the join's metadata.  If it copies them
// unparsed, the parse error is only met in doComplete and recorded on the join; the partial reset
// then resets the join, which copies the same bad file again - the stage code is never re-run and
// every restart fails.
// Rule: in Fork.doJoin every path to the store of the chunk's outs into join_metadata has parsed
// them (Metadata.read / ReadInto of OutsFile on the chunk), unless the stage has no out parameters.
func ruleF16(c *an.Ctx) {
	fn := c.P.Func(pkgCore, "(*Fork).doJoin")
	outs := c.P.Const(pkgCore, "OutsFile")
	if fn == nil || outs == nil {
		c.Info("F16", "anchor(doJoin/OutsFile)", 0, "not found: not decided")
		return
	}
	hasOuts := func(cl ssa.CallInstruction) bool {
		for _, a := range cl.Common().Args {
			if an.IsConst(a, outs) {
				return true
			}
		}
		return false
	}
	parsed := func(in ssa.Instruction) bool {
		cl := an.AsCallAny(in)
		if cl == nil || cl.Common().StaticCallee() == nil {
			return false
		}
		switch cl.Common().StaticCallee().Name() {
		case "read", "ReadInto", "readInto":
			return hasOuts(cl) && strings.Contains(accessKey(cl.Common().Args[0]), ".metadata")
		}
		return false
	}
	n := 0
	an.Instrs(fn, func(in ssa.Instruction) {
		cl := an.AsCallAny(in)
		if cl == nil || cl.Common().StaticCallee() == nil || cl.Common().StaticCallee().Name() != "WriteRawBytes" || !hasOuts(cl) {
			return
		}
		if !strings.HasSuffix(accessKey(cl.Common().Args[0]), ".join_metadata") {
			return
		}
		n++
		w := an.Query{Fn: fn, Target: func(x ssa.Instruction) bool { return x == in }, Barrier: parsed,
			BarrierEdge: func(from, to *ssa.BasicBlock) bool {
				// no out parameters: nothing to validate
				return an.EdgeHolds(from, to, func(rel an.Rel) bool {
					r := rel
					if _, isK := an.ConstVal(r.X); isK {
						r = r.Flip()
					}
					args, isLen := an.IsBuiltinCall(r.X, "len")
					if !isLen || !an.IsIntConst(r.Y, 0) {
						return false
					}
					return (r.Op == token.LEQ || r.Op == token.EQL) && strings.Contains(accessKey(args[0]), "List")
				})
			}}.Find()
		c.Check("F16", fmt.Sprintf("chunk-outs-parsed-before-they-become-the-join's@(*Fork).doJoin#%d", n), in.Pos(), w == nil,
			"the chunk's _outs are copied to the join's metadata without having been parsed: a truncated file is only detected in doComplete and blamed on the join, the partial reset re-copies the same file and the stage code is never re-run; "+c.WitnessString(w))
	})
	if n == 0 {
		c.Info("F16", "anchor(copy of the chunk's outs in doJoin)", 0, "not found: not decided")
	}
}

// P12 (C08): the static merge handles every kind of source with a known length.
// MergeExp.BindingPath merges the results of a statically known map call by switching on the
// source's call mode and panics in the default arm.  Arrays and maps of known length are handled;
// `null` is a source of known length too (its mode is ModeNullMapCall) and reaches the switch when an
// element of an outer split literal is null: MakeCallGraph panicked with "invalid merge kind null"
// and mro check / mrp crashed on an accepted program.
// Rule: in MergeExp.BindingPath every path to the panic of the static-merge switch has compared
// the call mode with ModeNullMapCall (the arm exists).
func ruleP12(c *an.Ctx) {
	fn := c.P.Func(pkgSyntax, "(*MergeExp).BindingPath")
	null := c.P.Const(pkgSyntax, "ModeNullMapCall")
	if fn == nil || null == nil {
		c.Info("P12", "anchor(MergeExp.BindingPath/ModeNullMapCall)", 0, "not found: not decided")
		return
	}
	n := 0
	an.Instrs(fn, func(in ssa.Instruction) {
		pn, ok := in.(*ssa.Panic)
		if !ok {
			return
		}
		// only the panic that reports the call mode
		mentionsMode := false
		seen := map[ssa.Value]bool{}
		var rec func(v ssa.Value, d int)
		rec = func(v ssa.Value, d int) {
			if v == nil || seen[v] || d > 6 {
				return
			}
			seen[v] = true
			if cl, ok := v.(*ssa.Call); ok {
				nm := ""
				if cl.Call.IsInvoke() {
					nm = cl.Call.Method.Name()
				} else if h := cl.Call.StaticCallee(); h != nil {
					nm = h.Name()
				}
				if nm == "CallMode" {
					mentionsMode = true
				}
			}
			if i2, ok := v.(ssa.Instruction); ok {
				for _, op := range i2.Operands(nil) {
					if op != nil && *op != nil {
						rec(*op, d+1)
					}
				}
			}
		}
		rec(pn.X, 0)
		if !mentionsMode {
			return
		}
		n++
		g, _ := an.GuardedBy(pn, func(rel an.Rel) bool {
			return rel.Op == token.NEQ && (an.IsConst(rel.Y, null) || an.IsConst(rel.X, null))
		})
		c.Check("P12", fmt.Sprintf("static-merge-handles-null-sources@(*MergeExp).BindingPath#%d", n), pn.Pos(), g,
			"the panic of the static-merge switch is reachable with the call mode of a null source (ModeNullMapCall is never compared): a null element in the outer split literal of a nested map call makes MakeCallGraph panic - mro check and mrp crash on a program the compiler accepted")
	})
	if n == 0 {
		c.Info("P12", "anchor(call-mode panic in MergeExp.BindingPath)", 0, "none: not decided")
	}
}

// I14 (C16): the members of a struct-typed value are converted with their own types.
// convertToExp turns resolved argument values back into MRO expressions for the recorded
// invocation.  For an object it decides struct-or-map from the type; the entries of a typed map all
// have the element type, the members of a struct each have their declared type.  Converting every
// member with the struct's own type wrote a map<int> member as a struct literal with unquoted keys,
// and the recorded _invocation did not parse.
// Rule: in convertToExp, the type argument of the recursive call made for each entry of an object
// depends on the entry's key (a per-member lookup), not only on values fixed before the loop.
func ruleI14(c *an.Ctx) {
	fn := c.P.Func(pkgCore, "convertToExp")
	if fn == nil {
		c.Info("I14", "anchor(convertToExp)", 0, "not found: not decided")
		return
	}
	tIdx := -1
	for i, prm := range fn.Params {
		if nm, _ := derefNamed(prm.Type()); nm == "TypeId" {
			tIdx = i
		}
	}
	if tIdx < 0 {
		c.Info("I14", "anchor(TypeId parameter of convertToExp)", 0, "not found: not decided")
		return
	}
	n := 0
	// convertToExp itself, or the helper its object arms were merged into (which calls back)
	hosts := []*ssa.Function{fn}
	seenHost := map[*ssa.Function]bool{fn: true}
	an.Instrs(fn, func(in ssa.Instruction) {
		cl := an.AsCallAny(in)
		if cl == nil {
			return
		}
		g := cl.Common().StaticCallee()
		if g == nil || g.Blocks == nil || seenHost[g] {
			return
		}
		// same package, instances of generic functions included (their Pkg is nil)
		pk := g.Pkg
		if pk == nil && g.Origin() != nil {
			pk = g.Origin().Pkg
		}
		if pk != fn.Pkg {
			return
		}
		seenHost[g] = true
		calls := false
		an.Instrs(g, func(x ssa.Instruction) {
			if c2 := an.AsCallAny(x); c2 != nil && c2.Common().StaticCallee() == fn {
				calls = true
			}
		})
		if calls {
			hosts = append(hosts, g)
		}
	})
	for _, host := range hosts {
		for hd, body := range naturalLoops(host) {
			// loops over the sorted keys of an object: the body loads val[k] (a Lookup on a map)
			var keyVals []ssa.Value
			for b := range body {
				for _, in := range b.Instrs {
					if lk, ok := in.(*ssa.Lookup); ok {
						if _, isMap := lk.X.Type().Underlying().(*types.Map); isMap {
							keyVals = append(keyVals, lk.Index)
						}
					}
				}
			}
			if len(keyVals) == 0 {
				continue
			}
			for b := range body {
				for _, in := range b.Instrs {
					cl, ok := in.(*ssa.Call)
					if !ok || cl.Call.StaticCallee() != fn || tIdx >= len(cl.Call.Args) {
						continue
					}
					n++
					// does the type argument depend on a key of this loop?
					dep := false
					seen := map[ssa.Value]bool{}
					var rec func(v ssa.Value, d int)
					rec = func(v ssa.Value, d int) {
						if v == nil || seen[v] || d > 8 || dep {
							return
						}
						seen[v] = true
						for _, k := range keyVals {
							if v == k {
								dep = true
								return
							}
						}
						if i2, ok := v.(ssa.Instruction); ok && body[i2.Block()] {
							for _, op := range i2.Operands(nil) {
								if op != nil && *op != nil {
									rec(*op, d+1)
								}
							}
						}
					}
					rec(cl.Call.Args[tIdx], 0)
					_ = hd
					c.Check("I14", fmt.Sprintf("object-entries-converted-with-their-own-type@convertToExp#%d", n), cl.Pos(), dep,
						"every entry of the object is converted with one type fixed before the loop: right for the values of a typed map, wrong for the members of a struct - a map<int> member of a struct-typed argument is written as a struct literal with unquoted keys and the recorded _invocation does not parse")
				}
			}
		}
	}
	c.Floor("I14", "recursive conversions of object entries in convertToExp", n, 1)
}

// X10 (C03): a split that narrows to null for a fork resolves to that null.  SplitExp.BindingPath
// narrows the split's value to the fork being resolved and dispatches on what it got.  If the arm
// for a null returns the receiver's UN-narrowed value, the static fork expansion of a nested map
// call sees the whole outer literal again - a source of unknown length - leaves a placeholder, and
// the runtime expands it into a fork that runs the inner stage once with a null argument, although
// nothing should run for a null element (an empty array in the same position disables the fork).
// Rule: in SplitExp.BindingPath no return dominated by the successful assertion of the narrowed
// value to *NullExp hands back the receiver's Value field.
func ruleX10(c *an.Ctx) {
	fn := c.P.Func(pkgSyntax, "(*SplitExp).BindingPath")
	if fn == nil || len(fn.Params) == 0 {
		c.Info("X10", "anchor((*SplitExp).BindingPath)", 0, "not found: not decided")
		return
	}
	recv := fn.Params[0]
	n := 0
	an.Instrs(fn, func(in ssa.Instruction) {
		r, ok := in.(*ssa.Return)
		if !ok || len(r.Results) == 0 {
			return
		}
		inNullArm, _ := an.GuardedBy(r, func(rel an.Rel) bool {
			if rel.Op != token.ILLEGAL || !rel.Truth {
				return false
			}
			ex, ok := rel.X.(*ssa.Extract)
			if !ok || ex.Index != 1 {
				return false
			}
			ta, ok := ex.Tuple.(*ssa.TypeAssert)
			if !ok {
				return false
			}
			nm, _ := derefNamed(ta.AssertedType)
			return nm == "NullExp"
		})
		if !inNullArm {
			return
		}
		n++
		v := an.Strip(an.RetVal(r, 0))
		bad := false
		if u, ok := v.(*ssa.UnOp); ok && u.Op == token.MUL {
			if fa, ok := u.X.(*ssa.FieldAddr); ok && an.ParamOf(fa.X) == ssa.Value(recv) || ok && fa.X == ssa.Value(recv) {
				if st := derefStructT(fa.X.Type()); st != nil && st.Field(fa.Field).Name() == "Value" {
					bad = true
				}
			}
		}
		c.Check("X10", fmt.Sprintf("null-narrowing-returns-the-null@(*SplitExp).BindingPath#%d", n), r.Pos(), !bad,
			"the arm for a value that narrowed to null returns the split's un-narrowed Value: for a nested map call whose outer literal has a null element the fork expansion sees a source of unknown length, and the runtime runs one job of the inner stage with a null argument where nothing should run")
	})
	if n == 0 {
		c.Info("X10", "anchor(null arm of SplitExp.BindingPath)", 0, "not found: not decided")
	}
}
