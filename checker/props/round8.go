package props

import (
	"fmt"
	"go/constant"
	"go/token"
	"go/types"
	"regexp"
	"strings"

	"mrocheck/an"

	"golang.org/x/tools/go/ssa"
)

// Rules written in the eighth round for the defects that the round-8 seeding agents reported as side
// observations, that a second agent reproduced with a deterministic demonstration, and that were
// then repaired in /repo (known_findings.json "fixed", findings/<id>/).  Each has a self-test mutant
// that reverts the repair.

func isConstStringPrefix(v ssa.Value, prefix string) bool {
	k, ok := an.ConstVal(v)
	return ok && k.Kind() == constant.String && strings.HasPrefix(constant.StringVal(k), prefix)
}

func staticCalleeIs(in ssa.Instruction, pkgPath, name string) *ssa.CallCommon {
	cl := an.AsCallAny(in)
	if cl == nil {
		return nil
	}
	h := cl.Common().StaticCallee()
	if h == nil || h.Name() != name {
		return nil
	}
	if pkgPath != "" && (h.Pkg == nil || h.Pkg.Pkg.Path() != pkgPath) {
		return nil
	}
	return cl.Common()
}

// P10 (C08): every error produced while registering a type carries a source location.  The type
// table rejects a struct / file type / callable whose name collides with another type; each
// rejection is wrapped with the declaration's location - except that the branches for a builtin
// name returned a bare error ("The parser should prevent this", but `file` is a type name and not a
// keyword): `struct file(...)` gave "type name conflicts with a base type" with no file or line.
// Rule: in TypeLookup.AddUserType and AddStructType every returned error is nil or a *wrapError.
func ruleP10(c *an.Ctx) {
	n := 0
	for _, name := range []string{"(*TypeLookup).AddUserType", "(*TypeLookup).AddStructType"} {
		fn := c.P.Func(pkgSyntax, name)
		if fn == nil {
			c.Info("P10", "anchor("+name+")", 0, "not found: not decided")
			continue
		}
		var located func(v ssa.Value, d int) bool
		located = func(v ssa.Value, d int) bool {
			if v == nil || d > 6 {
				return false
			}
			switch x := v.(type) {
			case *ssa.Const:
				return x.IsNil()
			case *ssa.MakeInterface:
				nm, _ := derefNamed(x.X.Type())
				return nm == "wrapError"
			case *ssa.Phi:
				for _, e := range x.Edges {
					if !located(e, d+1) {
						return false
					}
				}
				return true
			case *ssa.Call:
				// a helper of the package that builds located errors (global.err, ...)
				if h := x.Call.StaticCallee(); h != nil && h.Blocks != nil {
					ok := true
					cnt := 0
					an.Instrs(h, func(in ssa.Instruction) {
						if r, isR := in.(*ssa.Return); isR && len(r.Results) > 0 {
							cnt++
							if !located(r.Results[len(r.Results)-1], d+2) {
								ok = false
							}
						}
					})
					return ok && cnt > 0
				}
			}
			return false
		}
		k := 0
		an.Instrs(fn, func(in ssa.Instruction) {
			r, ok := in.(*ssa.Return)
			if !ok || len(r.Results) == 0 {
				return
			}
			n++
			k++
			c.Check("P10", fmt.Sprintf("type-registration-error-is-located@%s#%d", an.FnName(fn), k), r.Pos(), located(r.Results[len(r.Results)-1], 0),
				"this return hands back an error that is not wrapped with the declaration's location: the compile error is printed without file and line (a struct, file type or stage named like the builtin `file`)")
		})
	}
	c.Floor("P10", "returns of the type registration functions", n, 4)
}

// P11 (C08): cycles of pipeline calls are rejected before anything recurses over the call graph.
// Direct recursion is an error of the pipeline's own compile step; a cycle through other
// pipelines was only rejected because a pipeline that has not been compiled yet has no parameter
// table to bind to - pipelines without inputs formed a cycle that compiled, and MakeCallGraph (mro
// check, mrp) then recursed until the Go runtime killed the process.
// Rule: every path through Ast.compilePipelineDecs that returns a nil error passes a call - other
// than the per-pipeline compile - to a function that can report a RecursiveCallError.
func ruleP11(c *an.Ctx) {
	fn := c.P.Func(pkgSyntax, "(*Ast).compilePipelineDecs")
	if fn == nil {
		c.Info("P11", "anchor(compilePipelineDecs)", 0, "not found: not decided")
		return
	}
	perPipeline := c.P.Func(pkgSyntax, "(*Pipeline).compile")
	reportsRecursion := func(in ssa.Instruction) bool {
		for _, op := range in.Operands(nil) {
			if op != nil && *op != nil && isConstStringPrefix(*op, "RecursiveCallError") {
				return true
			}
		}
		return false
	}
	cycleCheck := func(in ssa.Instruction) bool {
		cl := an.AsCallAny(in)
		if cl == nil {
			return false
		}
		h := cl.Common().StaticCallee()
		if h == nil || h == perPipeline || h.Blocks == nil {
			return false
		}
		return an.MayDo(h, reportsRecursion, 2)
	}
	// a loop (over the pipelines) whose body makes the check: entering it counts - with no
	// pipelines to iterate over there is no cycle
	checkingLoop := map[*ssa.BasicBlock]map[*ssa.BasicBlock]bool{}
	for hd, body := range naturalLoops(fn) {
		for b := range body {
			for _, in := range b.Instrs {
				if cycleCheck(in) {
					checkingLoop[hd] = body
				}
			}
		}
	}
	n := 0
	an.Instrs(fn, func(in ssa.Instruction) {
		r, ok := in.(*ssa.Return)
		if !ok || len(r.Results) == 0 {
			return
		}
		// only returns that can be nil: a constant nil, or the If() of the collected errors
		res := r.Results[len(r.Results)-1]
		if k, isC := res.(*ssa.Const); !isC || !k.IsNil() {
			if cl, isCall := res.(*ssa.Call); !isCall || cl.Call.StaticCallee() == nil || cl.Call.StaticCallee().Name() != "If" {
				return
			}
			if nonNil, _ := an.GuardedBy(r, func(rel an.Rel) bool {
				k, isK := rel.Y.(*ssa.Const)
				return rel.Op == token.NEQ && rel.X == res && isK && k.IsNil()
			}); nonNil {
				return
			}
		}
		n++
		w := an.Query{Fn: fn, Target: func(x ssa.Instruction) bool { return x == ssa.Instruction(r) }, Barrier: cycleCheck,
			BarrierEdge: func(from, to *ssa.BasicBlock) bool {
				body, ok := checkingLoop[to]
				return ok && !body[from]
			}}.Find()
		c.Check("P11", fmt.Sprintf("pipeline-call-cycles-rejected-at-compile-time@compilePipelineDecs#%d", n), r.Pos(), w == nil,
			"the pipeline declarations can be accepted without a search for cycles of pipeline calls: mutually recursive pipelines without inputs compile, and MakeCallGraph then overflows the stack (mro check / mrp die with a Go fatal error instead of a located RecursiveCallError); "+c.WitnessString(w))
	})
	if n == 0 {
		c.Info("P11", "anchor(successful returns of compilePipelineDecs)", 0, "none found: not decided")
	}
}

// G14 (C19): what makes a call "used for its side effects" applies at any depth.  hasSideEffects
// says a stage with a retain list must be kept, and looks through a pipeline at the calls inside
// it.  If the look inside is restricted to called PIPELINES, a retaining stage wrapped in a
// sub-pipeline is not seen and the wrapping call is removed, while the same stage called directly
// is kept.
// Rule: hasSideEffects recurses, and no recursive call receives a value that was narrowed to
// *Pipeline by a type assertion.
func ruleG14(c *an.Ctx) {
	fn := c.P.Func(pkgRefac, "hasSideEffects")
	if fn == nil {
		c.Info("G14", "anchor(hasSideEffects)", 0, "not found: not decided")
		return
	}
	fam := map[*ssa.Function]bool{fn: true}
	for _, g := range familyOf(c.P, fn, 2) {
		if g.Pkg == fn.Pkg {
			fam[g] = true
		}
	}
	n, bad := 0, token.NoPos
	for g := range fam {
		an.Instrs(g, func(in ssa.Instruction) {
			cl := an.AsCallAny(in)
			if cl == nil || !fam[cl.Common().StaticCallee()] || cl.Common().StaticCallee() == g && g != fn && false {
				return
			}
			if cl.Common().StaticCallee() != fn {
				return
			}
			n++
			for _, a := range cl.Common().Args {
				v := a
				for i := 0; i < 4; i++ {
					switch x := v.(type) {
					case *ssa.MakeInterface:
						v = x.X
						continue
					case *ssa.ChangeInterface:
						v = x.X
						continue
					}
					break
				}
				var ta *ssa.TypeAssert
				switch x := v.(type) {
				case *ssa.TypeAssert:
					ta = x
				case *ssa.Extract:
					ta, _ = x.Tuple.(*ssa.TypeAssert)
				}
				if ta != nil {
					if nm, _ := derefNamed(ta.AssertedType); nm == "Pipeline" {
						bad = cl.Pos()
					}
				}
			}
		})
	}
	if n == 0 {
		c.Fail("G14", "side-effects-sought-at-any-depth@hasSideEffects", fn.Pos(),
			"hasSideEffects does not look inside called pipelines at all (no recursive call): a call whose only purpose is a retaining stage or a preflight inside a sub-pipeline is removed as unused")
		return
	}
	c.Check("G14", "side-effects-sought-at-any-depth@hasSideEffects", bad, bad == token.NoPos,
		"the recursion into the calls of a pipeline is restricted to callables that are pipelines: the rule for stages (a non-empty retain list is a side effect) is never applied to a stage inside a sub-pipeline, so a pipeline that only wraps a retaining stage is removed while the direct call of that stage is kept")
}

// I10 (C16): a \uXXXX escape holding a high surrogate is combined with the low surrogate that
// follows.  JSON writers that emit ASCII only (python's json.dumps) write a character outside the
// basic multilingual plane as a surrogate pair of escapes; the raw JSON text of an argument is
// handed to the MRO string decoder.  Decoding each escape on its own turns the pair into two
// U+FFFD and the argument's text is gone.
// Rule: the string decoder (unquoteBytes and the functions it calls in its package) calls
// utf16.DecodeRune (or utf16.Decode).
func ruleI10(c *an.Ctx) {
	root := c.P.Func(pkgSyntax, "unquoteBytes")
	if root == nil {
		c.Info("I10", "anchor(unquoteBytes)", 0, "not found: not decided")
		return
	}
	found := an.MayDo(root, func(in ssa.Instruction) bool {
		return staticCalleeIs(in, "unicode/utf16", "DecodeRune") != nil || staticCalleeIs(in, "unicode/utf16", "Decode") != nil
	}, 2)
	c.Check("I10", "surrogate-pairs-are-combined@unquoteBytes", root.Pos(), found,
		"the string decoder never combines UTF-16 surrogates: the escape pair \\ud83d\\udc0e that JSON writers emit for a character outside the basic multilingual plane is decoded as two U+FFFD, so a string argument taken from invocation JSON loses its text")
}

// I11 (C16): the type table handed out with an uncompiled callable has its types.  GetCallable with
// compile=false parses without checking; the TypeLookup of that AST is empty - not even the
// builtins - until CompileTypes has run.  convertToExp decides "struct or map" for every JSON
// object from that table: with the empty table an untyped `map` argument is written as a struct
// literal and the generated call does not compile.
// Rule: in GetCallable every return of a non-nil type table is preceded on every path by a call of
// Ast.CompileTypes, or lies on a path where `compile` is true.
func ruleI11(c *an.Ctx) {
	fn := c.P.Func(pkgCore, "GetCallable")
	if fn == nil {
		c.Info("I11", "anchor(GetCallable)", 0, "not found: not decided")
		return
	}
	var compileParam ssa.Value
	for _, prm := range fn.Params {
		if b, ok := prm.Type().Underlying().(*types.Basic); ok && b.Kind() == types.Bool {
			compileParam = prm
		}
	}
	n := 0
	an.Instrs(fn, func(in ssa.Instruction) {
		r, ok := in.(*ssa.Return)
		if !ok || len(r.Results) < 2 {
			return
		}
		fa, ok := r.Results[1].(*ssa.FieldAddr)
		if !ok {
			return
		}
		n++
		w := an.Query{Fn: fn, Target: func(x ssa.Instruction) bool { return x == ssa.Instruction(r) },
			Barrier: func(x ssa.Instruction) bool {
				cl := an.AsCallAny(x)
				if cl == nil {
					return false
				}
				h := cl.Common().StaticCallee()
				return h != nil && (h.Name() == "CompileTypes" || h.Name() == "compileTypes")
			},
			BarrierEdge: func(from, to *ssa.BasicBlock) bool {
				return compileParam != nil && an.EdgeHolds(from, to, func(rel an.Rel) bool {
					return rel.Op == token.ILLEGAL && rel.Truth && an.ParamOf(rel.X) == compileParam
				})
			}}.Find()
		_ = fa
		c.Check("I11", fmt.Sprintf("type-table-initialised-before-it-is-returned@GetCallable#%d", n), r.Pos(), w == nil,
			"the type table of an AST that was parsed without compiling is returned without CompileTypes having run: it contains no types at all, every JSON object bound to an untyped map parameter is then taken for a struct and the generated call does not compile; "+c.WitnessString(w))
	})
	if n == 0 {
		c.Info("I11", "anchor(returns of a type table in GetCallable)", 0, "none found: not decided")
	}
}

// I12 (C16): the MRO tokenizer accepts every escape that JSON string syntax has.  Argument values
// arrive as raw JSON and are tokenized as MRO values; the string rule is a regular expression
// constant.  JSON allows \" \\ \/ \b \f \n \r \t \uXXXX; a rule that lacks one of them makes
// BuildCallSource fail with a parse error for a valid argument.
// Rule: the pattern tokStringRule is compiled from (read from the package initialiser, evaluated
// here with the regexp package on constant probes) matches a string literal made of each JSON escape.
func ruleI12(c *an.Ctx) {
	pkg := c.P.SPkg(pkgSyntax)
	if pkg == nil {
		return
	}
	g, _ := pkg.Members["tokStringRule"].(*ssa.Global)
	if g == nil {
		c.Info("I12", "anchor(tokStringRule)", 0, "not found: not decided")
		return
	}
	var pat string
	var pos token.Pos
	for _, m := range pkg.Members {
		fn, ok := m.(*ssa.Function)
		if !ok || fn.Name() != "init" {
			continue
		}
		an.Instrs(fn, func(in ssa.Instruction) {
			st, ok := in.(*ssa.Store)
			if !ok || st.Addr != ssa.Value(g) {
				return
			}
			var find func(v ssa.Value, d int)
			find = func(v ssa.Value, d int) {
				if v == nil || d > 5 || pat != "" {
					return
				}
				if k, isK := an.ConstVal(v); isK && k.Kind() == constant.String {
					pat = constant.StringVal(k)
					return
				}
				if in2, ok := v.(ssa.Instruction); ok {
					for _, op := range in2.Operands(nil) {
						if op != nil && *op != nil {
							find(*op, d+1)
						}
					}
				}
			}
			find(st.Val, 0)
			pos = st.Pos()
		})
	}
	if pat == "" {
		c.Info("I12", "anchor(pattern of tokStringRule)", 0, "the pattern is not a constant: not decided")
		return
	}
	re, err := regexp.Compile(pat)
	if err != nil {
		c.Fail("I12", "string-rule-pattern-compiles", pos, "the pattern "+pat+" does not compile: "+err.Error())
		return
	}
	for _, esc := range []string{`\"`, `\\`, `\/`, `\b`, `\f`, `\n`, `\r`, `\t`, `é`} {
		probe := `"a` + esc + `b"`
		m := re.FindString(probe)
		c.Check("I12", "tokenizer-accepts-json-escape("+esc+")", pos, m == probe,
			"the string rule of the MRO tokenizer ("+pat+") does not accept the JSON escape "+esc+": a string argument containing it, which is valid JSON, makes BuildCallSource / mrg fail with a parse error")
	}
}

// Q14 (C09): rounding a resource request up to the formatter's granularity leaves a request that
// already is a multiple alone.  threads are written with two decimals; the float32 closest to 1.23
// is slightly ABOVE 1.23 once widened to float64, so ceil(1.23*100)/100 is 1.24: the parser reads
// `threads = 1.23` as 1.24 and mro format rewrites it on every pass - its output denotes another
// program.
// Rule: in roundUpTo every return of a value computed with math.Ceil or math.Floor lies on a path
// where a comparison with the parameter has established that the parameter is not already a multiple
// (the false edge of `float32(round(x*g)/g) == value`, or an equivalent != test).
func ruleQ14(c *an.Ctx) {
	fn := c.P.Func(pkgSyntax, "roundUpTo")
	if fn == nil {
		c.Info("Q14", "anchor(roundUpTo)", 0, "not found: not decided")
		return
	}
	if len(fn.Params) == 0 {
		return
	}
	value := fn.Params[0]
	usesCeil := func(v ssa.Value) bool {
		seen := map[ssa.Value]bool{}
		var rec func(v ssa.Value, d int) bool
		rec = func(v ssa.Value, d int) bool {
			if v == nil || seen[v] || d > 8 {
				return false
			}
			seen[v] = true
			if cl, ok := v.(*ssa.Call); ok {
				if h := cl.Call.StaticCallee(); h != nil && h.Pkg != nil && h.Pkg.Pkg.Path() == "math" && (h.Name() == "Ceil" || h.Name() == "Floor") {
					return true
				}
			}
			if in, ok := v.(ssa.Instruction); ok {
				for _, op := range in.Operands(nil) {
					if op != nil && *op != nil && rec(*op, d+1) {
						return true
					}
				}
			}
			return false
		}
		return rec(v, 0)
	}
	n := 0
	an.Instrs(fn, func(in ssa.Instruction) {
		r, ok := in.(*ssa.Return)
		if !ok || len(r.Results) != 1 || !usesCeil(r.Results[0]) {
			return
		}
		n++
		g, _ := an.GuardedBy(r, func(rel an.Rel) bool {
			if rel.Op != token.NEQ {
				return false
			}
			// one side is the parameter, the other a float32 conversion of something computed from it
			other := rel.Y
			if rel.X != ssa.Value(value) {
				if rel.Y != ssa.Value(value) {
					return false
				}
				other = rel.X
			}
			_, isConv := other.(*ssa.Convert)
			return isConv
		})
		c.Check("Q14", fmt.Sprintf("multiples-are-not-rounded-again@roundUpTo#%d", n), r.Pos(), g,
			"the ceiling / floor is taken without first establishing that the value is not already a multiple of the granularity: the float32 nearest to 1.23 widens to 1.2300000190734863, so 1.23 becomes 1.24 and a formatted program denotes a different thread request each pass")
	})
	if n == 0 {
		c.Info("Q14", "anchor(rounded returns of roundUpTo)", 0, "no return computed with math.Ceil / math.Floor: not decided")
	}
}

// Q15 (C09): a memory request is converted to an integer number of MB only if it fits.  formatGB
// prints a float32 GB value via int64(gb*1024); the parser accepts any float32, and for 2^53 GB and
// more the conversion overflows: `mem_gb = 1e30` was printed with the wrong sign, and that output
// does not parse again.
// Rule: in the formatter's functions a float -> integer conversion of a value derived from a
// parameter is dominated by an upper-bound comparison of that value with a constant.
func ruleQ15(c *an.Ctx) {
	fn := c.P.Func(pkgSyntax, "formatGB")
	if fn == nil {
		c.Info("Q15", "anchor(formatGB)", 0, "not found: not decided")
		return
	}
	n := 0
	an.Instrs(fn, func(in ssa.Instruction) {
		cv, ok := in.(*ssa.Convert)
		if !ok {
			return
		}
		from, okF := cv.X.Type().Underlying().(*types.Basic)
		to, okT := cv.Type().Underlying().(*types.Basic)
		if !okF || !okT || from.Info()&types.IsFloat == 0 || to.Info()&types.IsInteger == 0 {
			return
		}
		n++
		// the float operands the converted value is computed from
		srcs := map[ssa.Value]bool{}
		var rec func(v ssa.Value, d int)
		rec = func(v ssa.Value, d int) {
			if v == nil || srcs[v] || d > 6 {
				return
			}
			srcs[v] = true
			switch x := v.(type) {
			case *ssa.BinOp:
				rec(x.X, d+1)
				rec(x.Y, d+1)
			case *ssa.Convert:
				rec(x.X, d+1)
			case *ssa.Phi:
				for _, e := range x.Edges {
					rec(e, d+1)
				}
			case *ssa.UnOp:
				rec(x.X, d+1)
			}
		}
		rec(cv.X, 0)
		g, _ := an.GuardedBy(cv, func(rel an.Rel) bool {
			r := rel
			if _, isK := an.ConstVal(r.X); isK {
				r = r.Flip()
			}
			if _, isK := an.ConstVal(r.Y); !isK {
				return false
			}
			return (r.Op == token.LSS || r.Op == token.LEQ) && srcs[r.X]
		})
		c.Check("Q15", fmt.Sprintf("float-to-integer-conversion-is-bounded@formatGB#%d", n), cv.Pos(), g,
			"a float is converted to an integer without an upper bound having been established: for requests of 2^53 GB and more (which the parser accepts) int64(gb*1024) overflows, the value is printed with the wrong sign and the formatted program no longer parses")
	})
	if n == 0 {
		c.Info("Q15", "anchor(float->integer conversions in formatGB)", 0, "none: not decided")
	}
}

// Q16 (C09): comments handed to the first entry of a list leave the list.  compileComments gives
// the comments in front of a retain / binding list to the list's first entry, which prints them;
// the list node's own format prints its comments too.  Unless the hand-over clears them on the
// list node the comment is printed twice - and once more on every further pass of mro format.
// Rule: in compileComments, after a store that puts `append(container.F, ...)` into another node's
// F (F = Comments, scopeComments), every path to the function's end stores nil into container.F.
func ruleQ16(c *an.Ctx) {
	fn := c.P.Func(pkgSyntax, "compileComments")
	if fn == nil {
		c.Info("Q16", "anchor(compileComments)", 0, "not found: not decided")
		return
	}
	n := 0
	an.Instrs(fn, func(in ssa.Instruction) {
		st, ok := in.(*ssa.Store)
		if !ok {
			return
		}
		fa, ok := st.Addr.(*ssa.FieldAddr)
		if !ok {
			return
		}
		sT := derefStructT(fa.X.Type())
		if sT == nil {
			return
		}
		fname := sT.Field(fa.Field).Name()
		if fname != "Comments" && fname != "scopeComments" {
			return
		}
		args, isApp := an.IsBuiltinCall(st.Val, "append")
		if !isApp || len(args) < 1 {
			return
		}
		ld, ok := args[0].(*ssa.UnOp)
		if !ok || ld.Op != token.MUL {
			return
		}
		src, ok := ld.X.(*ssa.FieldAddr)
		if !ok || derefStructT(src.X.Type()) == nil || derefStructT(src.X.Type()).Field(src.Field).Name() != fname {
			return
		}
		if accessKey(src) == accessKey(fa) {
			return // appending to its own list
		}
		n++
		key := accessKey(src)
		cleared := func(x ssa.Instruction) bool {
			s2, ok := x.(*ssa.Store)
			if !ok {
				return false
			}
			k, isC := s2.Val.(*ssa.Const)
			if !isC || !k.IsNil() {
				return false
			}
			f2, ok := s2.Addr.(*ssa.FieldAddr)
			return ok && accessKey(f2) == key
		}
		w := an.Query{Fn: fn, After: st, Target: func(x ssa.Instruction) bool { _, isR := x.(*ssa.Return); return isR }, Barrier: cleared}.Find()
		c.Check("Q16", "inherited-comments-leave-the-container("+fname+")@compileComments", st.Pos(), w == nil,
			"the container's "+fname+" are copied to its first entry but stay on the container: both nodes print them, a comment in front of `retain (` is duplicated by mro format and once more on every pass; "+c.WitnessString(w))
	})
	c.Floor("Q16", "hand-overs of a container's comments in compileComments", n, 2)
}

// Q17 (C09): the comments of a binding list are printed even when the list is empty.  A comment
// between `call X` and the `(` is attached to the BindStms node.  BindStms.format prints them,
// but CallStm.format only formats a non-empty list, and an empty list has no first entry to
// inherit them.
// Rule: if CallStm.format calls Bindings.format only under a condition, it also prints the
// comments of the Bindings node itself (printComments(&self.Bindings.Node, ..)).
func ruleQ17(c *an.Ctx) {
	fn := c.P.Func(pkgSyntax, "(*CallStm).format")
	if fn == nil {
		c.Info("Q17", "anchor((*CallStm).format)", 0, "not found: not decided")
		return
	}
	var formatCall ssa.Instruction
	printsOwn := false
	an.Instrs(fn, func(in ssa.Instruction) {
		cl := an.AsCallAny(in)
		if cl == nil || cl.Common().StaticCallee() == nil {
			return
		}
		h := cl.Common().StaticCallee()
		switch {
		case h.Name() == "format" && h.Signature.Recv() != nil && strings.Contains(h.Signature.Recv().Type().String(), "BindStms"):
			if len(cl.Common().Args) > 0 && strings.HasSuffix(accessKey(cl.Common().Args[0]), ".Bindings") {
				formatCall = in
			}
		case h.Name() == "printComments":
			for _, a := range cl.Common().Args {
				if strings.HasSuffix(accessKey(a), ".Bindings.Node") {
					printsOwn = true
				}
			}
		}
	})
	if formatCall == nil {
		c.Info("Q17", "anchor(Bindings.format call in CallStm.format)", 0, "not found: not decided")
		return
	}
	w := an.Query{Fn: fn, Target: func(x ssa.Instruction) bool { _, isR := x.(*ssa.Return); return isR },
		Barrier: func(x ssa.Instruction) bool { return x == formatCall }}.Find()
	c.Check("Q17", "comments-of-an-empty-binding-list-are-printed@(*CallStm).format", formatCall.Pos(), w == nil || printsOwn,
		"the binding list is formatted only when it is not empty and nothing else prints the comments attached to the list node: a comment between `call X` and the `(` of an empty list is dropped by mro format")
}

// R12 (C05): the "queued locally" sentinel outlives the submission.  _queued_locally marks a job
// that mrp has accepted but not yet handed to the cluster; a restarted mrp resubmits such jobs.
// Removing it BEFORE the submit command runs opens a window in which a killed mrp leaves a job
// with _jobinfo but neither sentinel nor job id: the restarted mrp takes it for a job waiting in
// the cluster's queue and waits for ever.
// Rule: in RemoteJobManager.sendJob every path to the removal of QueuedLocally has run the submit
// command (exec.Cmd CombinedOutput / Output / Run / Start).
func ruleR12(c *an.Ctx) {
	fn := c.P.Func(pkgCore, "(*RemoteJobManager).sendJob")
	if fn == nil {
		c.Info("R12", "anchor(sendJob)", 0, "not found: not decided")
		return
	}
	ql := c.P.Const(pkgCore, "QueuedLocally")
	ran := func(in ssa.Instruction) bool {
		cl := an.AsCallAny(in)
		if cl == nil {
			return false
		}
		h := cl.Common().StaticCallee()
		if h == nil || h.Pkg == nil || h.Pkg.Pkg.Path() != "os/exec" {
			return false
		}
		switch h.Name() {
		case "CombinedOutput", "Output", "Run", "Start":
			return true
		}
		return false
	}
	n := 0
	for _, g := range an.WithAnon(fn) {
		an.Instrs(g, func(in ssa.Instruction) {
			cl := an.AsCallAny(in)
			if cl == nil || cl.Common().StaticCallee() == nil || cl.Common().StaticCallee().Name() != "remove" {
				return
			}
			isQL := false
			for _, a := range cl.Common().Args {
				if ql != nil && an.IsConst(a, ql) {
					isQL = true
				}
			}
			if !isQL {
				return
			}
			n++
			w := an.Query{Fn: g, Target: func(x ssa.Instruction) bool { return x == in }, Barrier: ran}.Find()
			c.Check("R12", fmt.Sprintf("sentinel-removed-after-the-submit-command@%s#%d", an.FnName(g), n), in.Pos(), w == nil,
				"_queued_locally is removed before the submit command has run: mrp killed in between leaves a job with _jobinfo but neither _queued_locally nor _jobid, which the restarted mrp never resubmits (it waits for ever for a job the cluster never received); "+c.WitnessString(w))
		})
	}
	if n == 0 {
		c.Info("R12", "anchor(removal of QueuedLocally in sendJob)", 0, "not found: not decided")
	}
}

// W8 (C14): a walk never follows a symbolic link, not even its root.  The VDR walks call util.Walk
// on every child of a stage's files/ and tmp/ directories to count what is about to be removed.
// Opened with os.Open, a child that is a link to a directory outside the pipestance is descended
// into: the kill report counts files and bytes that are not removed (RemoveAll removes the link
// only), and with strict volatile a path behind the link can be deleted.
// Rule: in the util package's Walk, the root is opened with O_NOFOLLOW (os.OpenFile with the flag
// constant 0x20000 set), never with os.Open.
func ruleW8(c *an.Ctx) {
	fn := c.P.Func("martian/util", "Walk")
	if fn == nil {
		c.Info("W8", "anchor(util.Walk)", 0, "not found: not decided")
		return
	}
	if len(fn.Params) == 0 {
		return
	}
	root := fn.Params[0]
	n := 0
	an.Instrs(fn, func(in ssa.Instruction) {
		cl := an.AsCallAny(in)
		if cl == nil {
			return
		}
		h := cl.Common().StaticCallee()
		if h == nil || h.Pkg == nil || h.Pkg.Pkg.Path() != "os" || (h.Name() != "Open" && h.Name() != "OpenFile") {
			return
		}
		if len(cl.Common().Args) == 0 || an.ParamOf(cl.Common().Args[0]) != ssa.Value(root) && cl.Common().Args[0] != ssa.Value(root) {
			return
		}
		n++
		ok := false
		if h.Name() == "OpenFile" && len(cl.Common().Args) >= 2 {
			if k, isK := an.ConstVal(cl.Common().Args[1]); isK && k.Kind() == constant.Int {
				if v, exact := constant.Int64Val(k); exact && v&0x20000 != 0 {
					ok = true
				}
			}
		}
		c.Check("W8", fmt.Sprintf("walk-root-not-followed@Walk#%d", n), in.Pos(), ok,
			"the root of the walk is opened in a way that follows a symbolic link: a link to a directory outside the pipestance left in a stage's files/ or tmp/ directory is descended into, its files are counted in the kill report although only the link is removed (and a strict-volatile path behind it can be deleted)")
	})
	if n == 0 {
		// not opened at all (lstat based): fine if Lstat is used on the root
		usesLstat := an.MayDo(fn, func(x ssa.Instruction) bool { return staticCalleeIs(x, "os", "Lstat") != nil }, 1)
		c.Check("W8", "walk-root-not-followed@Walk", fn.Pos(), usesLstat, "the root is neither opened with O_NOFOLLOW nor examined with Lstat: not decided, reported")
	}
}
