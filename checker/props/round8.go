package props

import (
	"fmt"
	"go/constant"
	"go/token"
	"go/types"
	"regexp"
	"strings"

	"mrocheck/an"

	"golang.org/x/tools/go/ssa"
)

// Rules written in the eighth round for the defects that the round-8 seeding agents reported as side
// observations, that a second agent reproduced with a deterministic demonstration, and that were
// then repaired in /repo (known_findings.json "fixed", findings/<id>/).  Each has a self-test mutant
// that reverts the repair.

func isConstStringPrefix(v ssa.Value, prefix string) bool {
	k, ok := an.ConstVal(v)
	return ok && k.Kind() == constant.String && strings.HasPrefix(constant.StringVal(k), prefix)
}

func staticCalleeIs(in ssa.Instruction, pkgPath, name string) *ssa.CallCommon {
	cl := an.AsCallAny(in)
	if cl == nil {
		return nil
	}
	h := cl.Common().StaticCallee()
	if h == nil || h.Name() != name {
		return nil
	}
	if pkgPath != "" && (h.Pkg == nil || h.Pkg.Pkg.Path() != pkgPath) {
		return nil
	}
	return cl.Common()
}

// P10 (C08): every error produced while registering a type carries a source location.  The type
// table rejects a struct / file type / callable whose name collides with another type; each
// rejection is wrapped with the declaration's location - except that the branches for a builtin
// name returned a bare error ("The parser should prevent this", but `file` is a type name and not a
// keyword): `struct file(...)` gave "type name conflicts with a base type" with no file or line.
// Rule: in TypeLookup.AddUserType and AddStructType every returned error is nil or a *wrapError.
func ruleP10(c *an.Ctx) {
	n := 0
	for _, name := range []string{"(*TypeLookup).AddUserType", "(*TypeLookup).AddStructType"} {
		fn := c.P.Func(pkgSyntax, name)
		if fn == nil {
			c.Info("P10", "anchor("+name+")", 0, "not found: not decided")
			continue
		}
		var located func(v ssa.Value, d int) bool
		located = func(v ssa.Value, d int) bool {
			if v == nil || d > 6 {
				return false
			}
			switch x := v.(type) {
			case *ssa.Const:
				return x.IsNil()
			case *ssa.MakeInterface:
				nm, _ := derefNamed(x.X.Type())
				return nm == "wrapError"
			case *ssa.Phi:
				for _, e := range x.Edges {
					if !located(e, d+1) {
						return false
					}
				}
				return true
			case *ssa.Call:
				// a helper of the package that builds located errors (global.err, ...)
				if h := x.Call.StaticCallee(); h != nil && h.Blocks != nil {
					ok := true
					cnt := 0
					an.Instrs(h, func(in ssa.Instruction) {
						if r, isR := in.(*ssa.Return); isR && len(r.Results) > 0 {
							cnt++
							if !located(r.Results[len(r.Results)-1], d+2) {
								ok = false
							}
						}
					})
					return ok && cnt > 0
				}
			}
			return false
		}
		k := 0
		an.Instrs(fn, func(in ssa.Instruction) {
			r, ok := in.(*ssa.Return)
			if !ok || len(r.Results) == 0 {
				return
			}
			n++
			k++
			c.Check("P10", fmt.Sprintf("type-registration-error-is-located@%s#%d", an.FnName(fn), k), r.Pos(), located(r.Results[len(r.Results)-1], 0),
				"this return hands back an error that is not wrapped with the declaration's location: the compile error is printed without file and line (a struct, file type or stage named like the builtin `file`)")
		})
	}
	c.Floor("P10", "returns of the type registration functions", n, 4)
}

// P11 (C08): cycles of pipeline calls are rejected before anything recurses over the call graph.
// Direct recursion is an error of the pipeline's own compile step; a cycle through other
// pipelines was only rejected because a pipeline that has not been compiled yet has no parameter
// table to bind to - pipelines without inputs formed a cycle that compiled, and MakeCallGraph (mro
// check, mrp) then recursed until the Go runtime killed the process.
// Rule: every path through Ast.compilePipelineDecs that returns a nil error passes a call - other
// than the per-pipeline compile - to a function that can report a RecursiveCallError.
func ruleP11(c *an.Ctx) {
	fn := c.P.Func(pkgSyntax, "(*Ast).compilePipelineDecs")
	if fn == nil {
		c.Info("P11", "anchor(compilePipelineDecs)", 0, "not found: not decided")
		return
	}
	perPipeline := c.P.Func(pkgSyntax, "(*Pipeline).compile")
	reportsRecursion := func(in ssa.Instruction) bool {
		for _, op := range in.Operands(nil) {
			if op != nil && *op != nil && isConstStringPrefix(*op, "RecursiveCallError") {
				return true
			}
		}
		return false
	}
	cycleCheck := func(in ssa.Instruction) bool {
		cl := an.AsCallAny(in)
		if cl == nil {
			return false
		}
		h := cl.Common().StaticCallee()
		if h == nil || h == perPipeline || h.Blocks == nil {
			return false
		}
		return an.MayDo(h, reportsRecursion, 2)
	}
	// a loop (over the pipelines) whose body makes the check: entering it counts - with no
	// pipelines to iterate over there is no cycle
	checkingLoop := map[*ssa.BasicBlock]map[*ssa.BasicBlock]bool{}
	for hd, body := range naturalLoops(fn) {
		for b := range body {
			for _, in := range b.Instrs {
				if cycleCheck(in) {
					checkingLoop[hd] = body
				}
			}
		}
	}
	n := 0
	an.Instrs(fn, func(in ssa.Instruction) {
		r, ok := in.(*ssa.Return)
		if !ok || len(r.Results) == 0 {
			return
		}
		// only returns that can be nil: a constant nil, or the If() of the collected errors
		res := r.Results[len(r.Results)-1]
		if k, isC := res.(*ssa.Const); !isC || !k.IsNil() {
			if cl, isCall := res.(*ssa.Call); !isCall || cl.Call.StaticCallee() == nil || cl.Call.StaticCallee().Name() != "If" {
				return
			}
			if nonNil, _ := an.GuardedBy(r, func(rel an.Rel) bool {
				k, isK := rel.Y.(*ssa.Const)
				return rel.Op == token.NEQ && rel.X == res && isK && k.IsNil()
			}); nonNil {
				return
			}
		}
		n++
		w := an.Query{Fn: fn, Target: func(x ssa.Instruction) bool { return x == ssa.Instruction(r) }, Barrier: cycleCheck,
			BarrierEdge: func(from, to *ssa.BasicBlock) bool {
				body, ok := checkingLoop[to]
				return ok && !body[from]
			}}.Find()
		c.Check("P11", fmt.Sprintf("pipeline-call-cycles-rejected-at-compile-time@compilePipelineDecs#%d", n), r.Pos(), w == nil,
			"the pipeline declarations can be accepted without a search for cycles of pipeline calls: mutually recursive pipelines without inputs compile, and MakeCallGraph then overflows the stack (mro check / mrp die with a Go fatal error instead of a located RecursiveCallError); "+c.WitnessString(w))
	})
	if n == 0 {
		c.Info("P11", "anchor(successful returns of compilePipelineDecs)", 0, "none found: not decided")
	}
}

// G14 (C19): what makes a call "used for its side effects" applies at any depth.  hasSideEffects
// says a stage with a retain list must be kept, and looks through a pipeline at the calls inside
// it.  If the look inside is restricted to called PIPELINES, a retaining stage wrapped in a
// sub-pipeline is not seen and the wrapping call is removed, while the same stage called directly
// is kept.
// Rule: hasSideEffects recurses, and no recursive call receives a value that was narrowed to
// *Pipeline by a type assertion.
func ruleG14(c *an.Ctx) {
	fn := c.P.Func(pkgRefac, "hasSideEffects")
	if fn == nil {
		c.Info("G14", "anchor(hasSideEffects)", 0, "not found: not decided")
		return
	}
	fam := map[*ssa.Function]bool{fn: true}
	for _, g := range familyOf(c.P, fn, 2) {
		if g.Pkg == fn.Pkg {
			fam[g] = true
		}
	}
	n, bad := 0, token.NoPos
	for g := range fam {
		an.Instrs(g, func(in ssa.Instruction) {
			cl := an.AsCallAny(in)
			if cl == nil || !fam[cl.Common().StaticCallee()] || cl.Common().StaticCallee() == g && g != fn && false {
				return
			}
			if cl.Common().StaticCallee() != fn {
				return
			}
			n++
			for _, a := range cl.Common().Args {
				v := a
				for i := 0; i < 4; i++ {
					switch x := v.(type) {
					case *ssa.MakeInterface:
						v = x.X
						continue
					case *ssa.ChangeInterface:
						v = x.X
						continue
					}
					break
				}
				var ta *ssa.TypeAssert
				switch x := v.(type) {
				case *ssa.TypeAssert:
					ta = x
				case *ssa.Extract:
					ta, _ = x.Tuple.(*ssa.TypeAssert)
				}
				if ta != nil {
					if nm, _ := derefNamed(ta.AssertedType); nm == "Pipeline" {
						bad = cl.Pos()
					}
				}
			}
		})
	}
	if n == 0 {
		c.Fail("G14", "side-effects-sought-at-any-depth@hasSideEffects", fn.Pos(),
			"hasSideEffects does not look inside called pipelines at all (no recursive call): a call whose only purpose is a retaining stage or a preflight inside a sub-pipeline is removed as unused")
		return
	}
	c.Check("G14", "side-effects-sought-at-any-depth@hasSideEffects", bad, bad == token.NoPos,
		"the recursion into the calls of a pipeline is restricted to callables that are pipelines: the rule for stages (a non-empty retain list is a side effect) is never applied to a stage inside a sub-pipeline, so a pipeline that only wraps a retaining stage is removed while the direct call of that stage is kept")
}

// I10 (C16): a \uXXXX escape holding a high surrogate is combined with the low surrogate that
// follows.  JSON writers that emit ASCII only (python's json.dumps) write a character outside the
// basic multilingual plane as a surrogate pair of escapes; the raw JSON text of an argument is
// handed to the MRO string decoder.  Decoding each escape on its own turns the pair into two
// U+FFFD and the argument's text is gone.
// Rule: the string decoder (unquoteBytes and the functions it calls in its package) calls
// utf16.DecodeRune (or utf16.Decode).
func ruleI10(c *an.Ctx) {
	root := c.P.Func(pkgSyntax, "unquoteBytes")
	if root == nil {
		c.Info("I10", "anchor(unquoteBytes)", 0, "not found: not decided")
		return
	}
	found := an.MayDo(root, func(in ssa.Instruction) bool {
		return staticCalleeIs(in, "unicode/utf16", "DecodeRune") != nil || staticCalleeIs(in, "unicode/utf16", "Decode") != nil
	}, 2)
	c.Check("I10", "surrogate-pairs-are-combined@unquoteBytes", root.Pos(), found,
		"the string decoder never combines UTF-16 surrogates: the escape pair \\ud83d\\udc0e that JSON writers emit for a character outside the basic multilingual plane is decoded as two U+FFFD, so a string argument taken from invocation JSON loses its text")
}

// I11 (C16): the type table handed out with an uncompiled callable has its types.  GetCallable with
// compile=false parses without checking; the TypeLookup of that AST is empty - not even the
// builtins - until CompileTypes has run.  convertToExp decides "struct or map" for every JSON
// object from that table: with the empty table an untyped `map` argument is written as a struct
// literal and the generated call does not compile.
// Rule: in GetCallable every return of a non-nil type table is preceded on every path by a call of
// Ast.CompileTypes, or lies on a path where `compile` is true.
func ruleI11(c *an.Ctx) {
	fn := c.P.Func(pkgCore, "GetCallable")
	if fn == nil {
		c.Info("I11", "anchor(GetCallable)", 0, "not found: not decided")
		return
	}
	var compileParam ssa.Value
	for _, prm := range fn.Params {
		if b, ok := prm.Type().Underlying().(*types.Basic); ok && b.Kind() == types.Bool {
			compileParam = prm
		}
	}
	n := 0
	an.Instrs(fn, func(in ssa.Instruction) {
		r, ok := in.(*ssa.Return)
		if !ok || len(r.Results) < 2 {
			return
		}
		fa, ok := r.Results[1].(*ssa.FieldAddr)
		if !ok {
			return
		}
		n++
		w := an.Query{Fn: fn, Target: func(x ssa.Instruction) bool { return x == ssa.Instruction(r) },
			Barrier: func(x ssa.Instruction) bool {
				cl := an.AsCallAny(x)
				if cl == nil {
					return false
				}
				h := cl.Common().StaticCallee()
				return h != nil && (h.Name() == "CompileTypes" || h.Name() == "compileTypes")
			},
			BarrierEdge: func(from, to *ssa.BasicBlock) bool {
				return compileParam != nil && an.EdgeHolds(from, to, func(rel an.Rel) bool {
					return rel.Op == token.ILLEGAL && rel.Truth && an.ParamOf(rel.X) == compileParam
				})
			}}.Find()
		_ = fa
		c.Check("I11", fmt.Sprintf("type-table-initialised-before-it-is-returned@GetCallable#%d", n), r.Pos(), w == nil,
			"the type table of an AST that was parsed without compiling is returned without CompileTypes having run: it contains no types at all, every JSON object bound to an untyped map parameter is then taken for a struct and the generated call does not compile; "+c.WitnessString(w))
	})
	if n == 0 {
		c.Info("I11", "anchor(returns of a type table in GetCallable)", 0, "none found: not decided")
	}
}

// I12 (C16): the MRO tokenizer accepts every escape that JSON string syntax has.  Argument values
// arrive as raw JSON and are tokenized as MRO values; the string rule is a regular expression
// constant.  JSON allows \" \\ \/ \b \f \n \r \t \uXXXX; a rule that lacks one of them makes
// BuildCallSource fail with a parse error for a valid argument.
// Rule: the pattern tokStringRule is compiled from (read from the package initialiser, evaluated
// here with the regexp package on constant probes) matches a string literal made of each JSON escape.
func ruleI12(c *an.Ctx) {
	pkg := c.P.SPkg(pkgSyntax)
	if pkg == nil {
		return
	}
	g, _ := pkg.Members["tokStringRule"].(*ssa.Global)
	if g == nil {
		c.Info("I12", "anchor(tokStringRule)", 0, "not found: not decided")
		return
	}
	var pat string
	var pos token.Pos
	for _, m := range pkg.Members {
		fn, ok := m.(*ssa.Function)
		if !ok || fn.Name() != "init" {
			continue
		}
		an.Instrs(fn, func(in ssa.Instruction) {
			st, ok := in.(*ssa.Store)
			if !ok || st.Addr != ssa.Value(g) {
				return
			}
			var find func(v ssa.Value, d int)
			find = func(v ssa.Value, d int) {
				if v == nil || d > 5 || pat != "" {
					return
				}
				if k, isK := an.ConstVal(v); isK && k.Kind() == constant.String {
					pat = constant.StringVal(k)
					return
				}
				if in2, ok := v.(ssa.Instruction); ok {
					for _, op := range in2.Operands(nil) {
						if op != nil && *op != nil {
							find(*op, d+1)
						}
					}
				}
			}
			find(st.Val, 0)
			pos = st.Pos()
		})
	}
	if pat == "" {
		c.Info("I12", "anchor(pattern of tokStringRule)", 0, "the pattern is not a constant: not decided")
		return
	}
	re, err := regexp.Compile(pat)
	if err != nil {
		c.Fail("I12", "string-rule-pattern-compiles", pos, "the pattern "+pat+" does not compile: "+err.Error())
		return
	}
	for _, esc := range []string{`\"`, `\\`, `\/`, `\b`, `\f`, `\n`, `\r`, `\t`, `é`} {
		probe := `"a` + esc + `b"`
		m := re.FindString(probe)
		c.Check("I12", "tokenizer-accepts-json-escape("+esc+")", pos, m == probe,
			"the string rule of the MRO tokenizer ("+pat+") does not accept the JSON escape "+esc+": a string argument containing it, which is valid JSON, makes BuildCallSource / mrg fail with a parse error")
	}
}

// Q14 (C09): rounding a resource request up to the formatter's granularity leaves a request that
// already is a multiple alone.  threads are written with two decimals; the float32 closest to 1.23
// is slightly ABOVE 1.23 once widened to float64, so ceil(1.23*100)/100 is 1.24: the parser reads
// `threads = 1.23` as 1.24 and mro format rewrites it on every pass - its output denotes another
// program.
// Rule: in roundUpTo every return of a value computed with math.Ceil or math.Floor lies on a path
// where a comparison with the parameter has established that the parameter is not already a multiple
// (the false edge of `float32(round(x*g)/g) == value`, or an equivalent != test).
func ruleQ14(c *an.Ctx) {
	fn := c.P.Func(pkgSyntax, "roundUpTo")
	if fn == nil {
		c.Info("Q14", "anchor(roundUpTo)", 0, "not found: not decided")
		return
	}
	if len(fn.Params) == 0 {
		return
	}
	value := fn.Params[0]
	usesCeil := func(v ssa.Value) bool {
		seen := map[ssa.Value]bool{}
		var rec func(v ssa.Value, d int) bool
		rec = func(v ssa.Value, d int) bool {
			if v == nil || seen[v] || d > 8 {
				return false
			}
			seen[v] = true
			if cl, ok := v.(*ssa.Call); ok {
				if h := cl.Call.StaticCallee(); h != nil && h.Pkg != nil && h.Pkg.Pkg.Path() == "math" && (h.Name() == "Ceil" || h.Name() == "Floor") {
					return true
				}
			}
			if in, ok := v.(ssa.Instruction); ok {
				for _, op := range in.Operands(nil) {
					if op != nil && *op != nil && rec(*op, d+1) {
						return true
					}
				}
			}
			return false
		}
		return rec(v, 0)
	}
	n := 0
	an.Instrs(fn, func(in ssa.Instruction) {
		r, ok := in.(*ssa.Return)
		if !ok || len(r.Results) != 1 || !usesCeil(r.Results[0]) {
			return
		}
		n++
		g, _ := an.GuardedBy(r, func(rel an.Rel) bool {
			if rel.Op != token.NEQ {
				return false
			}
			// one side is the parameter, the other a float32 conversion of something computed from it
			other := rel.Y
			if rel.X != ssa.Value(value) {
				if rel.Y != ssa.Value(value) {
					return false
				}
				other = rel.X
			}
			_, isConv := other.(*ssa.Convert)
			return isConv
		})
		c.Check("Q14", fmt.Sprintf("multiples-are-not-rounded-again@roundUpTo#%d", n), r.Pos(), g,
			"the ceiling / floor is taken without first establishing that the value is not already a multiple of the granularity: the float32 nearest to 1.23 widens to 1.2300000190734863, so 1.23 becomes 1.24 and a formatted program denotes a different thread request each pass")
	})
	if n == 0 {
		c.Info("Q14", "anchor(rounded returns of roundUpTo)", 0, "no return computed with math.Ceil / math.Floor: not decided")
	}
}

// Q15 (C09): a memory request is converted to an integer number of MB only if it fits.  formatGB
// prints a float32 GB value via int64(gb*1024); the parser accepts any float32, and for 2^53 GB and
// more the conversion overflows: `mem_gb = 1e30` was printed with the wrong sign, and that output
// does not parse again.
// Rule: in the formatter's functions a float -> integer conversion of a value derived from a
// parameter is dominated by an upper-bound comparison of that value with a constant.
func ruleQ15(c *an.Ctx) {
	fn := c.P.Func(pkgSyntax, "formatGB")
	if fn == nil {
		c.Info("Q15", "anchor(formatGB)", 0, "not found: not decided")
		return
	}
	n := 0
	an.Instrs(fn, func(in ssa.Instruction) {
		cv, ok := in.(*ssa.Convert)
		if !ok {
			return
		}
		from, okF := cv.X.Type().Underlying().(*types.Basic)
		to, okT := cv.Type().Underlying().(*types.Basic)
		if !okF || !okT || from.Info()&types.IsFloat == 0 || to.Info()&types.IsInteger == 0 {
			return
		}
		n++
		// the float operands the converted value is computed from
		srcs := map[ssa.Value]bool{}
		var rec func(v ssa.Value, d int)
		rec = func(v ssa.Value, d int) {
			if v == nil || srcs[v] || d > 6 {
				return
			}
			srcs[v] = true
			switch x := v.(type) {
			case *ssa.BinOp:
				rec(x.X, d+1)
				rec(x.Y, d+1)
			case *ssa.Convert:
				rec(x.X, d+1)
			case *ssa.Phi:
				for _, e := range x.Edges {
					rec(e, d+1)
				}
			case *ssa.UnOp:
				rec(x.X, d+1)
			}
		}
		rec(cv.X, 0)
		g, _ := an.GuardedBy(cv, func(rel an.Rel) bool {
			r := rel
			if _, isK := an.ConstVal(r.X); isK {
				r = r.Flip()
			}
			if _, isK := an.ConstVal(r.Y); !isK {
				return false
			}
			return (r.Op == token.LSS || r.Op == token.LEQ) && srcs[r.X]
		})
		c.Check("Q15", fmt.Sprintf("float-to-integer-conversion-is-bounded@formatGB#%d", n), cv.Pos(), g,
			"a float is converted to an integer without an upper bound having been established: for requests of 2^53 GB and more (which the parser accepts) int64(gb*1024) overflows, the value is printed with the wrong sign and the formatted program no longer parses")
	})
	if n == 0 {
		c.Info("Q15", "anchor(float->integer conversions in formatGB)", 0, "none: not decided")
	}
}

// Q16 (C09): comments handed to the first entry of a list leave the list.  compileComments gives
// the comments in front of a retain / binding list to the list's first entry, which prints them;
// the list node's own format prints its comments too.  Unless the hand-over clears them on the
// list node the comment is printed twice - and once more on every further pass of mro format.
// Rule: in compileComments, after a store that puts `append(container.F, ...)` into another node's
// F (F = Comments, scopeComments), every path to the function's end stores nil into container.F.
func ruleQ16(c *an.Ctx) {
	fn := c.P.Func(pkgSyntax, "compileComments")
	if fn == nil {
		c.Info("Q16", "anchor(compileComments)", 0, "not found: not decided")
		return
	}
	n := 0
	hosts := []*ssa.Function{fn}
	for _, g := range familyOf(c.P, fn, 1) {
		if g != fn && g.Pkg == fn.Pkg {
			hosts = append(hosts, g)
		}
	}
	for _, fn := range hosts {
		fn := fn
		an.Instrs(fn, func(in ssa.Instruction) {
			st, ok := in.(*ssa.Store)
			if !ok {
				return
			}
			fa, ok := st.Addr.(*ssa.FieldAddr)
			if !ok {
				return
			}
			sT := derefStructT(fa.X.Type())
			if sT == nil {
				return
			}
			fname := sT.Field(fa.Field).Name()
			if fname != "Comments" && fname != "scopeComments" {
				return
			}
			args, isApp := an.IsBuiltinCall(st.Val, "append")
			if !isApp || len(args) < 1 {
				return
			}
			ld, ok := args[0].(*ssa.UnOp)
			if !ok || ld.Op != token.MUL {
				return
			}
			src, ok := ld.X.(*ssa.FieldAddr)
			if !ok || derefStructT(src.X.Type()) == nil || derefStructT(src.X.Type()).Field(src.Field).Name() != fname {
				return
			}
			if accessKey(src) == accessKey(fa) {
				return // appending to its own list
			}
			n++
			key := accessKey(src)
			cleared := func(x ssa.Instruction) bool {
				s2, ok := x.(*ssa.Store)
				if !ok {
					return false
				}
				k, isC := s2.Val.(*ssa.Const)
				if !isC || !k.IsNil() {
					return false
				}
				f2, ok := s2.Addr.(*ssa.FieldAddr)
				return ok && accessKey(f2) == key
			}
			w := an.Query{Fn: fn, After: st, Target: func(x ssa.Instruction) bool { _, isR := x.(*ssa.Return); return isR }, Barrier: cleared}.Find()
			c.Check("Q16", "inherited-comments-leave-the-container("+fname+")@"+an.FnName(fn), st.Pos(), w == nil,
				"the container's "+fname+" are copied to its first entry but stay on the container: both nodes print them, a comment in front of `retain (` is duplicated by mro format and once more on every pass; "+c.WitnessString(w))
		})
	}
	c.Floor("Q16", "hand-overs of a container's comments in compileComments and its helpers", n, 2)
}

// Q17 (C09): the comments of a binding list are printed even when the list is empty.  A comment
// between `call X` and the `(` is attached to the BindStms node.  BindStms.format prints them,
// but CallStm.format only formats a non-empty list, and an empty list has no first entry to
// inherit them.
// Rule: if CallStm.format calls Bindings.format only under a condition, it also prints the
// comments of the Bindings node itself (printComments(&self.Bindings.Node, ..)).
func ruleQ17(c *an.Ctx) {
	fn := c.P.Func(pkgSyntax, "(*CallStm).format")
	if fn == nil {
		c.Info("Q17", "anchor((*CallStm).format)", 0, "not found: not decided")
		return
	}
	var formatCall ssa.Instruction
	printsOwn := false
	an.Instrs(fn, func(in ssa.Instruction) {
		cl := an.AsCallAny(in)
		if cl == nil || cl.Common().StaticCallee() == nil {
			return
		}
		h := cl.Common().StaticCallee()
		switch {
		case h.Name() == "format" && h.Signature.Recv() != nil && strings.Contains(h.Signature.Recv().Type().String(), "BindStms"):
			if len(cl.Common().Args) > 0 && strings.HasSuffix(accessKey(cl.Common().Args[0]), ".Bindings") {
				formatCall = in
			}
		case h.Name() == "printComments":
			for _, a := range cl.Common().Args {
				if strings.HasSuffix(accessKey(a), ".Bindings.Node") {
					printsOwn = true
				}
			}
		}
	})
	if formatCall == nil {
		c.Info("Q17", "anchor(Bindings.format call in CallStm.format)", 0, "not found: not decided")
		return
	}
	w := an.Query{Fn: fn, Target: func(x ssa.Instruction) bool { _, isR := x.(*ssa.Return); return isR },
		Barrier: func(x ssa.Instruction) bool { return x == formatCall }}.Find()
	c.Check("Q17", "comments-of-an-empty-binding-list-are-printed@(*CallStm).format", formatCall.Pos(), w == nil || printsOwn,
		"the binding list is formatted only when it is not empty and nothing else prints the comments attached to the list node: a comment between `call X` and the `(` of an empty list is dropped by mro format")
}

// R12 (C05): the "queued locally" sentinel outlives the submission.  _queued_locally marks a job
// that mrp has accepted but not yet handed to the cluster; a restarted mrp resubmits such jobs.
// Removing it BEFORE the submit command runs opens a window in which a killed mrp leaves a job
// with _jobinfo but neither sentinel nor job id: the restarted mrp takes it for a job waiting in
// the cluster's queue and waits for ever.
// Rule: in RemoteJobManager.sendJob every path to the removal of QueuedLocally has run the submit
// command (exec.Cmd CombinedOutput / Output / Run / Start).
func ruleR12(c *an.Ctx) {
	fn := c.P.Func(pkgCore, "(*RemoteJobManager).sendJob")
	if fn == nil {
		c.Info("R12", "anchor(sendJob)", 0, "not found: not decided")
		return
	}
	ql := c.P.Const(pkgCore, "QueuedLocally")
	ran := func(in ssa.Instruction) bool {
		cl := an.AsCallAny(in)
		if cl == nil {
			return false
		}
		h := cl.Common().StaticCallee()
		if h == nil || h.Pkg == nil || h.Pkg.Pkg.Path() != "os/exec" {
			return false
		}
		switch h.Name() {
		case "CombinedOutput", "Output", "Run", "Start":
			return true
		}
		return false
	}
	n := 0
	for _, g := range an.WithAnon(fn) {
		an.Instrs(g, func(in ssa.Instruction) {
			cl := an.AsCallAny(in)
			if cl == nil || cl.Common().StaticCallee() == nil || cl.Common().StaticCallee().Name() != "remove" {
				return
			}
			isQL := false
			for _, a := range cl.Common().Args {
				if ql != nil && an.IsConst(a, ql) {
					isQL = true
				}
			}
			if !isQL {
				return
			}
			n++
			w := an.Query{Fn: g, Target: func(x ssa.Instruction) bool { return x == in }, Barrier: ran}.Find()
			c.Check("R12", fmt.Sprintf("sentinel-removed-after-the-submit-command@%s#%d", an.FnName(g), n), in.Pos(), w == nil,
				"_queued_locally is removed before the submit command has run: mrp killed in between leaves a job with _jobinfo but neither _queued_locally nor _jobid, which the restarted mrp never resubmits (it waits for ever for a job the cluster never received); "+c.WitnessString(w))
		})
	}
	if n == 0 {
		c.Info("R12", "anchor(removal of QueuedLocally in sendJob)", 0, "not found: not decided")
	}
}

// W8 (C14): a walk never follows a symbolic link, not even its root.  The VDR walks call util.Walk
// on every child of a stage's files/ and tmp/ directories to count what is about to be removed.
// Opened with os.Open, a child that is a link to a directory outside the pipestance is descended
// into: the kill report counts files and bytes that are not removed (RemoveAll removes the link
// only), and with strict volatile a path behind the link can be deleted.
// Rule: in the util package's Walk, the root is opened with O_NOFOLLOW (os.OpenFile with the flag
// constant 0x20000 set), never with os.Open.
func ruleW8(c *an.Ctx) {
	fn := c.P.Func("martian/util", "Walk")
	if fn == nil {
		c.Info("W8", "anchor(util.Walk)", 0, "not found: not decided")
		return
	}
	if len(fn.Params) == 0 {
		return
	}
	root := fn.Params[0]
	n := 0
	an.Instrs(fn, func(in ssa.Instruction) {
		cl := an.AsCallAny(in)
		if cl == nil {
			return
		}
		h := cl.Common().StaticCallee()
		if h == nil || h.Pkg == nil || h.Pkg.Pkg.Path() != "os" || (h.Name() != "Open" && h.Name() != "OpenFile") {
			return
		}
		if len(cl.Common().Args) == 0 || an.ParamOf(cl.Common().Args[0]) != ssa.Value(root) && cl.Common().Args[0] != ssa.Value(root) {
			return
		}
		n++
		ok := false
		if h.Name() == "OpenFile" && len(cl.Common().Args) >= 2 {
			if k, isK := an.ConstVal(cl.Common().Args[1]); isK && k.Kind() == constant.Int {
				if v, exact := constant.Int64Val(k); exact && v&0x20000 != 0 {
					ok = true
				}
			}
		}
		c.Check("W8", fmt.Sprintf("walk-root-not-followed@Walk#%d", n), in.Pos(), ok,
			"the root of the walk is opened in a way that follows a symbolic link: a link to a directory outside the pipestance left in a stage's files/ or tmp/ directory is descended into, its files are counted in the kill report although only the link is removed (and a strict-volatile path behind it can be deleted)")
	})
	if n == 0 {
		// not opened at all (lstat based): fine if Lstat is used on the root
		usesLstat := an.MayDo(fn, func(x ssa.Instruction) bool { return staticCalleeIs(x, "os", "Lstat") != nil }, 1)
		c.Check("W8", "walk-root-not-followed@Walk", fn.Pos(), usesLstat, "the root is neither opened with O_NOFOLLOW nor examined with Lstat: not decided, reported")
	}
}

// loopEntryBarrier returns a BarrierEdge that holds on the edges entering a loop whose body
// contains an instruction satisfying pred: with nothing to iterate over there is nothing to do.
func loopEntryBarrier(fn *ssa.Function, pred func(ssa.Instruction) bool) func(from, to *ssa.BasicBlock) bool {
	loops := map[*ssa.BasicBlock]map[*ssa.BasicBlock]bool{}
	for hd, body := range naturalLoops(fn) {
		for b := range body {
			for _, in := range b.Instrs {
				if pred(in) {
					loops[hd] = body
				}
			}
		}
	}
	return func(from, to *ssa.BasicBlock) bool {
		body, ok := loops[to]
		return ok && !body[from]
	}
}

// F15 (C06): every refresh of the journal advances the refresh time of every frontier job.
// Metadata.endRefresh is the only writer of lastRefresh, and checkHeartbeat fails a job that has
// gone silent by comparing lastRefresh with the last heartbeat.  If the end-of-refresh pass is made
// conditional (round 9: only for job managers that can query their queue), lastRefresh stays zero
// for everybody else and a job that dies without writing anything is never failed: the pipestance
// hangs in `running`.
// Rule: in Node.refreshState every return other than the one taken when the journal directory
// could not be read has passed the endRefresh pass (the loop over the frontier nodes that calls it).
func ruleF15(c *an.Ctx) {
	fn := c.P.Func(pkgCore, "(*Node).refreshState")
	end := c.P.Func(pkgCore, "(*Metadata).endRefresh")
	if fn == nil || end == nil {
		c.Info("F15", "anchor(refreshState/endRefresh)", 0, "not found: not decided")
		return
	}
	isEnd := func(in ssa.Instruction) bool {
		cl := an.AsCallAny(in)
		if cl == nil {
			return false
		}
		h := cl.Common().StaticCallee()
		if h == end {
			return true
		}
		return h != nil && h.Blocks != nil && h.Pkg == fn.Pkg && h != fn && an.MayDo(h, func(x ssa.Instruction) bool {
			c2 := an.AsCallAny(x)
			return c2 != nil && c2.Common().StaticCallee() == end
		}, 1)
	}
	if !an.MayDo(fn, isEnd, 0) {
		c.Fail("F15", "refresh-time-advanced-on-every-refresh@(*Node).refreshState", fn.Pos(),
			"refreshState never calls Metadata.endRefresh: lastRefresh is never set, the heartbeat timeout cannot fire")
		return
	}
	entry := loopEntryBarrier(fn, isEnd)
	n := 0
	an.Instrs(fn, func(in ssa.Instruction) {
		r, ok := in.(*ssa.Return)
		if !ok {
			return
		}
		// the error exit: guarded by err != nil
		if onErr, _ := an.GuardedBy(r, func(rel an.Rel) bool {
			return rel.Op == token.NEQ && (an.IsNil(rel.Y) && isErrorT(rel.X.Type()) || an.IsNil(rel.X) && isErrorT(rel.Y.Type()))
		}); onErr {
			return
		}
		n++
		w := an.Query{Fn: fn, Target: func(x ssa.Instruction) bool { return x == ssa.Instruction(r) }, Barrier: isEnd, BarrierEdge: entry}.Find()
		pos := r.Pos()
		if !pos.IsValid() {
			pos = fn.Pos()
		}
		c.Check("F15", fmt.Sprintf("refresh-time-advanced-on-every-refresh@(*Node).refreshState#%d", n), pos, w == nil,
			"a refresh can finish without the end-of-refresh pass over the frontier jobs: Metadata.endRefresh is the only writer of lastRefresh, so for the job managers that take this path the heartbeat comparison never fails a job that died silently and the pipestance stays `running` for ever; "+c.WitnessString(w))
	})
	if n == 0 {
		c.Info("F15", "anchor(returns of refreshState)", 0, "none: not decided")
	}
}

// W9 (C14): an empty set of outputs is not a missing one.  cacheParamFileMap builds the table of
// files a fork's VDR may remove (every file of the stage, with what keeps it alive).  It gives up
// only when the outs could not be read at all (nil).  A stage without out parameters has `{}`:
// treated like nil, the table is never built, vdrKillSome finds nothing and still writes its final
// report - every file such a volatile stage wrote survives and the report under-counts.
// Rule: every return of cacheParamFileMap that has not stored Fork.fileParamMap is guarded by a
// comparison of the outs with nil (not by their length).
func ruleW9(c *an.Ctx) {
	fn := c.P.Func(pkgCore, "(*Fork).cacheParamFileMap")
	fpm := c.P.Field(pkgCore, "Fork", "fileParamMap")
	if fn == nil || fpm == nil {
		c.Info("W9", "anchor(cacheParamFileMap)", 0, "not found: not decided")
		return
	}
	stored := func(in ssa.Instruction) bool {
		st, ok := in.(*ssa.Store)
		if !ok {
			return false
		}
		_, f := an.FieldOfAddr(st.Addr)
		return f == fpm
	}
	n := 0
	an.Instrs(fn, func(in ssa.Instruction) {
		r, ok := in.(*ssa.Return)
		if !ok {
			return
		}
		w := an.Query{Fn: fn, Target: func(x ssa.Instruction) bool { return x == ssa.Instruction(r) }, Barrier: stored}.Find()
		if w == nil {
			return
		}
		n++
		g, _ := an.GuardedBy(r, func(rel an.Rel) bool {
			if rel.Op != token.EQL {
				return false
			}
			isMap := func(v ssa.Value) bool { _, ok := v.Type().Underlying().(*types.Map); return ok }
			return an.IsNil(rel.Y) && isMap(rel.X) || an.IsNil(rel.X) && isMap(rel.Y)
		})
		pos := r.Pos()
		if !pos.IsValid() {
			pos = fn.Pos()
		}
		c.Check("W9", fmt.Sprintf("gives-up-only-without-outs@(*Fork).cacheParamFileMap#%d", n), pos, g,
			"the table of removable files is not built on a path that is not restricted to `outs == nil`: a stage whose outs are the empty object (no out parameters) is skipped, its files are never removed although nothing needs them, and the final report under-counts")
	})
	if n == 0 {
		c.Pass("W9", "file-table-always-built@(*Fork).cacheParamFileMap", fn.Pos(), "every return has stored the table")
	}
}

// Q18 (C09): the sign of a resource request survives formatting.  A negative mem_gb is an adaptive
// request (another meaning than the positive value).  formatGB prints the whole GB with AppendInt
// and the fraction separately; the integer part of a value in (-1, 0) is 0 and carries no sign, so
// the sign must be written explicitly.
// Rule: if formatGB formats an integer part (strconv.AppendInt / FormatInt / Itoa), it writes the
// constant '-' on the edge where its parameter is negative.
func ruleQ18(c *an.Ctx) {
	fn := c.P.Func(pkgSyntax, "formatGB")
	if fn == nil {
		c.Info("Q18", "anchor(formatGB)", 0, "not found: not decided")
		return
	}
	var gb ssa.Value
	for _, prm := range fn.Params {
		if b, ok := prm.Type().Underlying().(*types.Basic); ok && b.Info()&types.IsFloat != 0 {
			gb = prm
		}
	}
	if gb == nil {
		c.Info("Q18", "anchor(float parameter of formatGB)", 0, "not found: not decided")
		return
	}
	usesInt := an.MayDo(fn, func(in ssa.Instruction) bool {
		return staticCalleeIs(in, "strconv", "AppendInt") != nil || staticCalleeIs(in, "strconv", "FormatInt") != nil || staticCalleeIs(in, "strconv", "Itoa") != nil
	}, 0)
	if !usesInt {
		c.Pass("Q18", "sign-written-for-negative-requests@formatGB", fn.Pos(), "no integer part is formatted separately")
		return
	}
	found := false
	an.Instrs(fn, func(in ssa.Instruction) {
		cl := an.AsCallAny(in)
		if cl == nil || found {
			return
		}
		minus := false
		for _, a := range cl.Common().Args {
			if k, ok := an.ConstVal(a); ok {
				switch k.Kind() {
				case constant.Int:
					if v, exact := constant.Int64Val(k); exact && v == '-' {
						minus = true
					}
				case constant.String:
					if constant.StringVal(k) == "-" {
						minus = true
					}
				}
			}
		}
		if !minus {
			return
		}
		if g, _ := an.GuardedBy(in, func(rel an.Rel) bool {
			r := rel
			if _, isK := an.ConstVal(r.X); isK {
				r = r.Flip()
			}
			return r.Op == token.LSS && r.X == gb
		}); g {
			found = true
		}
	})
	c.Check("Q18", "sign-written-for-negative-requests@formatGB", fn.Pos(), found,
		"formatGB formats the whole GB as an integer but never writes '-' on the edge where the request is negative: for values between -1 and 0 the integer part is 0 and the sign is lost, `mem_gb = -0.5` (an adaptive request) is rewritten as `mem_gb = 0.5`")
}

// T13 (C07): every binding a wildcard expands to is type-checked.  `* = self` / `* = STRUCT_REF`
// are expanded by compileWildcard into one binding per matching parameter, each of which goes
// through BindStm.compile / compileParam like a binding the user wrote.  For a wildcard over a
// collection of structs the expansion strips the collection dimensions before looking at the
// members, so "the declared types are equal, nothing to check" is wrong exactly there: an `int[]`
// is bound to an `int` parameter and the program is accepted.
// Rule: in compileWildcard every path to the append of an expanded binding to the binding list has
// passed a call that compiles the binding on all of its own paths (MustDo through helpers).
func ruleT13(c *an.Ctx) {
	fn := c.P.Func(pkgSyntax, "(*BindStms).compileWildcard")
	listF := c.P.Field(pkgSyntax, "BindStms", "List")
	if fn == nil || listF == nil {
		c.Info("T13", "anchor(compileWildcard)", 0, "not found: not decided")
		return
	}
	md := &an.MustDo{Pred: func(in ssa.Instruction) bool {
		cl := an.AsCallAny(in)
		if cl == nil {
			return false
		}
		h := cl.Common().StaticCallee()
		if h == nil || h.Signature.Recv() == nil || !strings.Contains(h.Signature.Recv().Type().String(), "BindStm") {
			return false
		}
		return h.Name() == "compile" || h.Name() == "compileParam"
	}, Depth: 3}
	n := 0
	// compileWildcard and the private helpers its loops were split into
	fam := []*ssa.Function{fn}
	for _, g := range familyOf(c.P, fn, 2) {
		if g != fn && g.Pkg == fn.Pkg && g.Name() != "addBinding" && g.Name() != "compile" && g.Name() != "compileParam" {
			fam = append(fam, g)
		}
	}
	for _, host := range fam {
		host := host
		an.Instrs(host, func(in ssa.Instruction) {
			st, ok := in.(*ssa.Store)
			if !ok {
				return
			}
			if _, f := an.FieldOfAddr(st.Addr); f != listF {
				return
			}
			if _, isApp := an.IsBuiltinCall(st.Val, "append"); !isApp {
				return
			}
			n++
			w := an.Query{Fn: host, Target: func(x ssa.Instruction) bool { return x == in },
				Barrier: func(x ssa.Instruction) bool { return md.Instr(x, 0) }}.Find()
			c.Check("T13", fmt.Sprintf("expanded-binding-is-type-checked@%s#%d", an.FnName(host), n), st.Pos(), w == nil,
				"a binding produced by the wildcard expansion is added to the list on a path that has not compiled it (BindStm.compile / compileParam on every path of the helper): the conversion from the source's type to the parameter's type is not checked, e.g. the member of a struct taken from an array of structs (an `int[]`) is accepted for an `int` parameter; "+c.WitnessString(w))
		})
	}
	c.Floor("T13", "appends of expanded bindings in compileWildcard and its helpers", n, 1)
}

// M14 (C13): a struct's file kind only moves upward.  Whether post-processing descends into a
// struct-typed output is decided by StructType.isFile, the join of its members' kinds
// (not-file < may-contain-paths < directory).  It is accumulated member by member in
// StructMember.compile.  If a member's kind simply overwrites the accumulated one ("last member
// wins"), `struct R(txt summary, string label)` ends as may-contain-paths: the nested file is never
// moved to outs/ and _outs keeps pointing into the stage directory.
// Rule: every store to StructType.isFile in StructMember.compile (and its helpers) is dominated by a
// comparison that reads the current value of that field.
func ruleM14(c *an.Ctx) {
	fn := c.P.Func(pkgSyntax, "(*StructMember).compile")
	f := c.P.Field(pkgSyntax, "StructType", "isFile")
	if fn == nil || f == nil {
		c.Info("M14", "anchor(StructMember.compile / StructType.isFile)", 0, "not found: not decided")
		return
	}
	n := 0
	for _, g := range append([]*ssa.Function{fn}, familyOf(c.P, fn, 1)...) {
		if g.Pkg != fn.Pkg {
			continue
		}
		an.Instrs(g, func(in ssa.Instruction) {
			st, ok := in.(*ssa.Store)
			if !ok {
				return
			}
			if _, fld := an.FieldOfAddr(st.Addr); fld != f {
				return
			}
			n++
			key := accessKey(st.Addr)
			readsCurrent := func(v ssa.Value) bool {
				u, ok := v.(*ssa.UnOp)
				return ok && u.Op == token.MUL && accessKey(u.X) == key
			}
			g2, _ := an.GuardedBy(st, func(rel an.Rel) bool {
				return rel.Op != token.ILLEGAL && (readsCurrent(rel.X) || readsCurrent(rel.Y))
			})
			// or the stored value itself is computed from the current one (max(cur, k))
			fromCur := false
			if cl, ok := st.Val.(*ssa.Call); ok {
				for _, a := range cl.Call.Args {
					if readsCurrent(a) {
						fromCur = true
					}
				}
			}
			c.Check("M14", fmt.Sprintf("struct-file-kind-only-moves-up@%s#%d", an.FnName(g), n), st.Pos(), g2 || fromCur,
				"the file kind of the struct is overwritten with a member's kind without looking at the kind accumulated so far: a later non-file-bearing member (string, map) lowers `directory` to `may contain paths`, post-processing then does not descend into the struct and its files are not moved to outs/")
		})
	}
	if n == 0 {
		c.Info("M14", "anchor(stores to StructType.isFile)", 0, "none in StructMember.compile: not decided")
	}
}

// G15 (C19): what a pass changed is accumulated over all files.  Refactor applies each removal
// pass to every AST and records the edit (for the replay on the source files) if any file changed.
// If the verdict of the last file overwrites the others', a pass that edits only an earlier file is
// applied to the compiled ASTs but not recorded: the replay diverges and the edited program no
// longer compiles.
// Rule: in the refactoring package, a loop that calls Edit.Apply and carries a value computed from
// Apply's count out of the loop computes it from the previous iteration's value as well.
func ruleG15(c *an.Ctx) {
	n := 0
	for _, fn := range c.P.FuncsOf(pkgRefac) {
		for hd, body := range naturalLoops(fn) {
			var applies []*ssa.Call
			for b := range body {
				for _, in := range b.Instrs {
					if cl, ok := in.(*ssa.Call); ok && cl.Call.IsInvoke() && cl.Call.Method.Name() == "Apply" {
						applies = append(applies, cl)
					}
				}
			}
			if len(applies) == 0 {
				continue
			}
			derives := func(v ssa.Value, from func(ssa.Value) bool) bool {
				seen := map[ssa.Value]bool{}
				var rec func(v ssa.Value, d int) bool
				rec = func(v ssa.Value, d int) bool {
					if v == nil || seen[v] || d > 10 {
						return false
					}
					seen[v] = true
					if from(v) {
						return true
					}
					in, ok := v.(ssa.Instruction)
					if !ok || !body[in.Block()] {
						return false
					}
					for _, op := range in.Operands(nil) {
						if op != nil && *op != nil && rec(*op, d+1) {
							return true
						}
					}
					return false
				}
				return rec(v, 0)
			}
			isApply := func(v ssa.Value) bool {
				for _, a := range applies {
					if v == ssa.Value(a) {
						return true
					}
				}
				return false
			}
			for _, in := range hd.Instrs {
				ph, ok := in.(*ssa.Phi)
				if !ok {
					break
				}
				for i, e := range ph.Edges {
					if !body[hd.Preds[i]] {
						continue
					}
					// back edge value
					if !derives(e, isApply) {
						continue
					}
					if b, isB := ph.Type().Underlying().(*types.Basic); !isB || b.Info()&(types.IsBoolean|types.IsInteger) == 0 {
						continue
					}
					n++
					acc := e == ssa.Value(ph) || derives(e, func(v ssa.Value) bool { return v == ssa.Value(ph) })
					c.Check("G15", "pass-verdict-accumulated-over-all-files@"+an.FnName(fn), ph.Pos(), acc,
						"the value carried out of the loop over the ASTs is computed from the last Apply result only: a pass that changes an earlier file but not the last one counts as `nothing changed`, its edit is applied to the compiled ASTs but not recorded for the source files, and the replayed program no longer compiles")
				}
			}
		}
	}
	c.Floor("G15", "loop-carried verdicts of Edit.Apply in the refactoring package", n, 2)
}

// I13 (C16): an integer mantissa is converted to float64 only if it is exactly representable.
// Float literals (MRO text and JSON arguments) are converted by strconv.ParseFloat.  A hand-written
// fast path `float64(mantissa) / 10^k` is correctly rounded only if the mantissa is below 2^53 (and
// 10^k is exact); with up to 18 digits accumulated in a uint64 the value is rounded twice and about
// one full-precision double in ten comes out one ulp off - a recorded invocation then shows another
// number than the stage received.  (Seeded twice: rounds 7 and 9.)
// Rule: in parseFloat and the functions of its package it calls, every conversion of a non-constant
// integer to a floating-point type is dominated by an upper-bound comparison of that integer with a
// constant not above 2^53.
func ruleI13(c *an.Ctx) {
	root := c.P.Func(pkgSyntax, "parseFloat")
	if root == nil {
		c.Info("I13", "anchor(parseFloat)", 0, "not found: not decided")
		return
	}
	fam := []*ssa.Function{root}
	an.Instrs(root, func(in ssa.Instruction) {
		if cl := an.AsCallAny(in); cl != nil {
			if h := cl.Common().StaticCallee(); h != nil && h.Blocks != nil && h.Pkg == root.Pkg {
				fam = append(fam, h)
			}
		}
	})
	n := 0
	for _, fn := range fam {
		an.Instrs(fn, func(in ssa.Instruction) {
			cv, ok := in.(*ssa.Convert)
			if !ok {
				return
			}
			from, okF := cv.X.Type().Underlying().(*types.Basic)
			to, okT := cv.Type().Underlying().(*types.Basic)
			if !okF || !okT || from.Info()&types.IsInteger == 0 || to.Info()&types.IsFloat == 0 {
				return
			}
			if _, isC := cv.X.(*ssa.Const); isC {
				return
			}
			n++
			g, _ := an.GuardedBy(cv, func(rel an.Rel) bool {
				r := rel
				if _, isK := an.ConstVal(r.X); isK {
					r = r.Flip()
				}
				k, isK := an.ConstVal(r.Y)
				if !isK || k.Kind() != constant.Int || r.X != cv.X {
					return false
				}
				lim := constant.MakeUint64(1 << 53)
				switch r.Op {
				case token.LSS:
					return constant.Compare(k, token.LEQ, lim)
				case token.LEQ:
					return constant.Compare(k, token.LSS, lim)
				}
				return false
			})
			c.Check("I13", fmt.Sprintf("mantissa-exactly-representable@%s#%d", an.FnName(fn), n), cv.Pos(), g,
				"an integer accumulated from the digits of a float literal is converted to floating point without a bound of 2^53: larger mantissas are rounded by the conversion and again by the scaling, so some 16-18 digit literals come out one ulp off (JSON 94.05090880450125 becomes 94.05090880450123 in the call text)")
		})
	}
	if n == 0 {
		c.Pass("I13", "float-literals-converted-by-the-library@parseFloat", root.Pos(), "no integer-to-float conversion in parseFloat and its helpers")
	}
}

// W10 (C14): one chunk without a temp directory does not stop the cleanup of the others.
// cleanChunkTemp collects every chunk's temp paths and gives up when enumerating fails.  A stage may
// remove its own TMPDIR; the ENOENT for that one chunk used to abort the sweep on every call, so the
// temp directories of all other chunks survived the completed pipestance and appeared in no report.
// Rule: in the per-phase temp cleaners, a return taken because enumerateTemp failed is restricted
// to errors that are not "does not exist" (false edge of os.IsNotExist / errors.Is(.., ErrNotExist)).
func ruleW10(c *an.Ctx) {
	n := 0
	for _, name := range []string{"(*Fork).cleanChunkTemp"} {
		fn := c.P.Func(pkgCore, name)
		if fn == nil {
			c.Info("W10", "anchor("+name+")", 0, "not found: not decided")
			continue
		}
		an.Instrs(fn, func(in ssa.Instruction) {
			cl, ok := in.(*ssa.Call)
			if !ok || cl.Call.StaticCallee() == nil || cl.Call.StaticCallee().Name() != "enumerateTemp" {
				return
			}
			// its error result
			var errv ssa.Value
			for _, r := range an.Referrers(cl) {
				if ex, ok := r.(*ssa.Extract); ok && isErrorT(ex.Type()) {
					errv = ex
				}
			}
			if errv == nil {
				return
			}
			// returns guarded by errv != nil inside the loop
			an.Instrs(fn, func(x ssa.Instruction) {
				r, ok := x.(*ssa.Return)
				if !ok {
					return
				}
				onErr, _ := an.GuardedBy(r, func(rel an.Rel) bool {
					return rel.Op == token.NEQ && (rel.X == errv && an.IsNil(rel.Y) || rel.Y == errv && an.IsNil(rel.X))
				})
				if !onErr {
					return
				}
				n++
				tolerant, _ := an.GuardedBy(r, func(rel an.Rel) bool {
					if rel.Op != token.ILLEGAL || rel.Truth {
						return false
					}
					c2, ok := rel.X.(*ssa.Call)
					if !ok || c2.Call.StaticCallee() == nil {
						return false
					}
					h := c2.Call.StaticCallee()
					if h.Name() == "IsNotExist" && len(c2.Call.Args) == 1 && c2.Call.Args[0] == errv {
						return true
					}
					return h.Name() == "Is" && len(c2.Call.Args) == 2 && c2.Call.Args[0] == errv
				})
				c.Check("W10", fmt.Sprintf("missing-temp-directory-is-not-fatal@%s#%d", an.FnName(fn), n), r.Pos(), tolerant,
					"the sweep over the chunks' temp directories is abandoned for any error of enumerateTemp, including `does not exist`: if the stage code removed one chunk's TMPDIR, the temp files of every other chunk are never removed and never reported")
			})
		})
	}
	if n == 0 {
		c.Info("W10", "anchor(error exits after enumerateTemp)", 0, "none found: not decided")
	}
}

// F16 (C06): unreadable outs of a stage without a join are the chunk's failure.  For a stage
// that does not split, doJoin copies the chunk's _outs to the join's metadata.  If it copies them
// unparsed, the parse error is only met in doComplete and recorded on the join; the partial reset
// then resets the join, which copies the same bad file again - the stage code is never re-run and
// every restart fails.
// Rule: in Fork.doJoin every path to the store of the chunk's outs into join_metadata has parsed
// them (Metadata.read / ReadInto of OutsFile on the chunk), unless the stage has no out parameters.
func ruleF16(c *an.Ctx) {
	fn := c.P.Func(pkgCore, "(*Fork).doJoin")
	outs := c.P.Const(pkgCore, "OutsFile")
	if fn == nil || outs == nil {
		c.Info("F16", "anchor(doJoin/OutsFile)", 0, "not found: not decided")
		return
	}
	hasOuts := func(cl ssa.CallInstruction) bool {
		for _, a := range cl.Common().Args {
			if an.IsConst(a, outs) {
				return true
			}
		}
		return false
	}
	parsed := func(in ssa.Instruction) bool {
		cl := an.AsCallAny(in)
		if cl == nil || cl.Common().StaticCallee() == nil {
			return false
		}
		switch cl.Common().StaticCallee().Name() {
		case "read", "ReadInto", "readInto":
			return hasOuts(cl) && strings.Contains(accessKey(cl.Common().Args[0]), ".metadata")
		}
		return false
	}
	n := 0
	an.Instrs(fn, func(in ssa.Instruction) {
		cl := an.AsCallAny(in)
		if cl == nil || cl.Common().StaticCallee() == nil || cl.Common().StaticCallee().Name() != "WriteRawBytes" || !hasOuts(cl) {
			return
		}
		if !strings.HasSuffix(accessKey(cl.Common().Args[0]), ".join_metadata") {
			return
		}
		n++
		w := an.Query{Fn: fn, Target: func(x ssa.Instruction) bool { return x == in }, Barrier: parsed,
			BarrierEdge: func(from, to *ssa.BasicBlock) bool {
				// no out parameters: nothing to validate
				return an.EdgeHolds(from, to, func(rel an.Rel) bool {
					r := rel
					if _, isK := an.ConstVal(r.X); isK {
						r = r.Flip()
					}
					args, isLen := an.IsBuiltinCall(r.X, "len")
					if !isLen || !an.IsIntConst(r.Y, 0) {
						return false
					}
					return (r.Op == token.LEQ || r.Op == token.EQL) && strings.Contains(accessKey(args[0]), "List")
				})
			}}.Find()
		c.Check("F16", fmt.Sprintf("chunk-outs-parsed-before-they-become-the-join's@(*Fork).doJoin#%d", n), in.Pos(), w == nil,
			"the chunk's _outs are copied to the join's metadata without having been parsed: a truncated file is only detected in doComplete and blamed on the join, the partial reset re-copies the same file and the stage code is never re-run; "+c.WitnessString(w))
	})
	if n == 0 {
		c.Info("F16", "anchor(copy of the chunk's outs in doJoin)", 0, "not found: not decided")
	}
}

// P12 (C08): the static merge handles every kind of source with a known length.
// MergeExp.BindingPath merges the results of a statically known map call by switching on the
// source's call mode and panics in the default arm.  Arrays and maps of known length are handled;
// `null` is a source of known length too (its mode is ModeNullMapCall) and reaches the switch when an
// element of an outer split literal is null: MakeCallGraph panicked with "invalid merge kind null"
// and mro check / mrp crashed on an accepted program.
// Rule: in MergeExp.BindingPath every path to the panic of the static-merge switch has compared
// the call mode with ModeNullMapCall (the arm exists).
func ruleP12(c *an.Ctx) {
	fn := c.P.Func(pkgSyntax, "(*MergeExp).BindingPath")
	null := c.P.Const(pkgSyntax, "ModeNullMapCall")
	if fn == nil || null == nil {
		c.Info("P12", "anchor(MergeExp.BindingPath/ModeNullMapCall)", 0, "not found: not decided")
		return
	}
	n := 0
	an.Instrs(fn, func(in ssa.Instruction) {
		pn, ok := in.(*ssa.Panic)
		if !ok {
			return
		}
		// only the panic that reports the call mode
		mentionsMode := false
		seen := map[ssa.Value]bool{}
		var rec func(v ssa.Value, d int)
		rec = func(v ssa.Value, d int) {
			if v == nil || seen[v] || d > 6 {
				return
			}
			seen[v] = true
			if cl, ok := v.(*ssa.Call); ok {
				nm := ""
				if cl.Call.IsInvoke() {
					nm = cl.Call.Method.Name()
				} else if h := cl.Call.StaticCallee(); h != nil {
					nm = h.Name()
				}
				if nm == "CallMode" {
					mentionsMode = true
				}
			}
			if i2, ok := v.(ssa.Instruction); ok {
				for _, op := range i2.Operands(nil) {
					if op != nil && *op != nil {
						rec(*op, d+1)
					}
				}
			}
		}
		rec(pn.X, 0)
		if !mentionsMode {
			return
		}
		n++
		g, _ := an.GuardedBy(pn, func(rel an.Rel) bool {
			return rel.Op == token.NEQ && (an.IsConst(rel.Y, null) || an.IsConst(rel.X, null))
		})
		c.Check("P12", fmt.Sprintf("static-merge-handles-null-sources@(*MergeExp).BindingPath#%d", n), pn.Pos(), g,
			"the panic of the static-merge switch is reachable with the call mode of a null source (ModeNullMapCall is never compared): a null element in the outer split literal of a nested map call makes MakeCallGraph panic - mro check and mrp crash on a program the compiler accepted")
	})
	if n == 0 {
		c.Info("P12", "anchor(call-mode panic in MergeExp.BindingPath)", 0, "none: not decided")
	}
}

// I14 (C16): the members of a struct-typed value are converted with their own types.
// convertToExp turns resolved argument values back into MRO expressions for the recorded
// invocation.  For an object it decides struct-or-map from the type; the entries of a typed map all
// have the element type, the members of a struct each have their declared type.  Converting every
// member with the struct's own type wrote a map<int> member as a struct literal with unquoted keys,
// and the recorded _invocation did not parse.
// Rule: in convertToExp, the type argument of the recursive call made for each entry of an object
// depends on the entry's key (a per-member lookup), not only on values fixed before the loop.
func ruleI14(c *an.Ctx) {
	fn := c.P.Func(pkgCore, "convertToExp")
	if fn == nil {
		c.Info("I14", "anchor(convertToExp)", 0, "not found: not decided")
		return
	}
	tIdx := -1
	for i, prm := range fn.Params {
		if nm, _ := derefNamed(prm.Type()); nm == "TypeId" {
			tIdx = i
		}
	}
	if tIdx < 0 {
		c.Info("I14", "anchor(TypeId parameter of convertToExp)", 0, "not found: not decided")
		return
	}
	n := 0
	// convertToExp itself, or the helper its object arms were merged into (which calls back)
	hosts := []*ssa.Function{fn}
	seenHost := map[*ssa.Function]bool{fn: true}
	an.Instrs(fn, func(in ssa.Instruction) {
		cl := an.AsCallAny(in)
		if cl == nil {
			return
		}
		g := cl.Common().StaticCallee()
		if g == nil || g.Blocks == nil || seenHost[g] {
			return
		}
		// same package, instances of generic functions included (their Pkg is nil)
		pk := g.Pkg
		if pk == nil && g.Origin() != nil {
			pk = g.Origin().Pkg
		}
		if pk != fn.Pkg {
			return
		}
		seenHost[g] = true
		calls := false
		an.Instrs(g, func(x ssa.Instruction) {
			if c2 := an.AsCallAny(x); c2 != nil && c2.Common().StaticCallee() == fn {
				calls = true
			}
		})
		if calls {
			hosts = append(hosts, g)
		}
	})
	for _, host := range hosts {
		for hd, body := range naturalLoops(host) {
			// loops over the sorted keys of an object: the body loads val[k] (a Lookup on a map)
			var keyVals []ssa.Value
			for b := range body {
				for _, in := range b.Instrs {
					if lk, ok := in.(*ssa.Lookup); ok {
						if _, isMap := lk.X.Type().Underlying().(*types.Map); isMap {
							keyVals = append(keyVals, lk.Index)
						}
					}
				}
			}
			if len(keyVals) == 0 {
				continue
			}
			for b := range body {
				for _, in := range b.Instrs {
					cl, ok := in.(*ssa.Call)
					if !ok || cl.Call.StaticCallee() != fn || tIdx >= len(cl.Call.Args) {
						continue
					}
					n++
					// does the type argument depend on a key of this loop?
					dep := false
					seen := map[ssa.Value]bool{}
					var rec func(v ssa.Value, d int)
					rec = func(v ssa.Value, d int) {
						if v == nil || seen[v] || d > 8 || dep {
							return
						}
						seen[v] = true
						for _, k := range keyVals {
							if v == k {
								dep = true
								return
							}
						}
						if i2, ok := v.(ssa.Instruction); ok && body[i2.Block()] {
							for _, op := range i2.Operands(nil) {
								if op != nil && *op != nil {
									rec(*op, d+1)
								}
							}
						}
					}
					rec(cl.Call.Args[tIdx], 0)
					_ = hd
					c.Check("I14", fmt.Sprintf("object-entries-converted-with-their-own-type@convertToExp#%d", n), cl.Pos(), dep,
						"every entry of the object is converted with one type fixed before the loop: right for the values of a typed map, wrong for the members of a struct - a map<int> member of a struct-typed argument is written as a struct literal with unquoted keys and the recorded _invocation does not parse")
				}
			}
		}
	}
	c.Floor("I14", "recursive conversions of object entries in convertToExp", n, 1)
}

// X10 (C03): a split that narrows to null for a fork resolves to that null.  SplitExp.BindingPath
// narrows the split's value to the fork being resolved and dispatches on what it got.  If the arm
// for a null returns the receiver's UN-narrowed value, the static fork expansion of a nested map
// call sees the whole outer literal again - a source of unknown length - leaves a placeholder, and
// the runtime expands it into a fork that runs the inner stage once with a null argument, although
// nothing should run for a null element (an empty array in the same position disables the fork).
// Rule: in SplitExp.BindingPath no return dominated by the successful assertion of the narrowed
// value to *NullExp hands back the receiver's Value field.
func ruleX10(c *an.Ctx) {
	fn := c.P.Func(pkgSyntax, "(*SplitExp).BindingPath")
	if fn == nil || len(fn.Params) == 0 {
		c.Info("X10", "anchor((*SplitExp).BindingPath)", 0, "not found: not decided")
		return
	}
	recv := fn.Params[0]
	n := 0
	an.Instrs(fn, func(in ssa.Instruction) {
		r, ok := in.(*ssa.Return)
		if !ok || len(r.Results) == 0 {
			return
		}
		inNullArm, _ := an.GuardedBy(r, func(rel an.Rel) bool {
			if rel.Op != token.ILLEGAL || !rel.Truth {
				return false
			}
			ex, ok := rel.X.(*ssa.Extract)
			if !ok || ex.Index != 1 {
				return false
			}
			ta, ok := ex.Tuple.(*ssa.TypeAssert)
			if !ok {
				return false
			}
			nm, _ := derefNamed(ta.AssertedType)
			return nm == "NullExp"
		})
		if !inNullArm {
			return
		}
		n++
		v := an.Strip(an.RetVal(r, 0))
		bad := false
		if u, ok := v.(*ssa.UnOp); ok && u.Op == token.MUL {
			if fa, ok := u.X.(*ssa.FieldAddr); ok && an.ParamOf(fa.X) == ssa.Value(recv) || ok && fa.X == ssa.Value(recv) {
				if st := derefStructT(fa.X.Type()); st != nil && st.Field(fa.Field).Name() == "Value" {
					bad = true
				}
			}
		}
		c.Check("X10", fmt.Sprintf("null-narrowing-returns-the-null@(*SplitExp).BindingPath#%d", n), r.Pos(), !bad,
			"the arm for a value that narrowed to null returns the split's un-narrowed Value: for a nested map call whose outer literal has a null element the fork expansion sees a source of unknown length, and the runtime runs one job of the inner stage with a null argument where nothing should run")
	})
	if n == 0 {
		c.Info("X10", "anchor(null arm of SplitExp.BindingPath)", 0, "not found: not decided")
	}
}

// ---------------------------------------------------------------------------
// Round 10
// ---------------------------------------------------------------------------

// F17 (C06): a deferred function that ends the process is the first one registered.  Deferred calls
// run last-in first-out.  The Go stage adapter reports a panicking stage through a deferred
// recover that writes the stack to the error pipe, and ends the process with os.Exit(0) (the exit
// status says nothing; mrjob looks at the pipe).  If the exiting call is deferred AFTER the
// recovering one, it runs first: the process exits 0 with an empty pipe and the crashed job is
// recorded as complete.
// Rule: in the adapter and mrjob, no defer whose callee can call os.Exit is registered after
// (dominated by) another defer of the same function.
func ruleF17(c *an.Ctx) {
	exits := func(in ssa.Instruction) bool { return staticCalleeIs(in, "os", "Exit") != nil }
	n := 0
	for _, pk := range []string{"martian/adapter", "cmd/mrjob"} {
		for _, fn := range c.P.FuncsOf(pk) {
			var defers []*ssa.Defer
			an.Instrs(fn, func(in ssa.Instruction) {
				if d, ok := in.(*ssa.Defer); ok {
					defers = append(defers, d)
				}
			})
			for _, d2 := range defers {
				var callee *ssa.Function
				switch v := d2.Call.Value.(type) {
				case *ssa.Function:
					callee = v
				case *ssa.MakeClosure:
					callee, _ = v.Fn.(*ssa.Function)
				}
				if callee == nil || !an.MayDo(callee, exits, 2) {
					continue
				}
				n++
				bad := token.NoPos
				for _, d1 := range defers {
					if d1 == d2 {
						continue
					}
					// d1 registered earlier: its block dominates d2's, or same block and earlier
					earlier := false
					if d1.Block() == d2.Block() {
						for _, in := range d1.Block().Instrs {
							if in == ssa.Instruction(d1) {
								earlier = true
								break
							}
							if in == ssa.Instruction(d2) {
								break
							}
						}
					} else if d1.Block().Dominates(d2.Block()) {
						earlier = true
					}
					if earlier {
						bad = d1.Pos()
					}
				}
				c.Check("F17", "exiting-defer-registered-first@"+an.FnName(fn), d2.Pos(), bad == token.NoPos,
					"this deferred call ends the process (os.Exit) and is registered after another deferred call of the same function: deferred calls run last-in first-out, so the earlier one - the recover that reports a panicking stage on the error pipe - never runs and a crashed job exits 0 with an empty pipe, i.e. is recorded as complete")
			}
		}
	}
	if n == 0 {
		c.Info("F17", "anchor(deferred calls that exit)", 0, "none in the adapter or mrjob: not decided")
	}
}

// D1c (C10): compile drivers do not pick the first error to ARRIVE.  `mrc --all` compiles every
// top-level file and reports the first failure.  Compiling the files in goroutines and keeping
// whichever error is delivered first makes the reported error depend on scheduling.
// Rule: no goroutine is started in the command packages that drive compilation (cmd/mro/check).
func ruleD1c(c *an.Ctx) {
	n := 0
	for _, pk := range []string{"cmd/mro/check", "cmd/mro/format", "cmd/mro/graph"} {
		for _, fn := range c.P.FuncsOf(pk) {
			for _, g := range an.WithAnon(fn) {
				an.Instrs(g, func(in ssa.Instruction) {
					if _, ok := in.(*ssa.Go); ok {
						n++
						c.Fail("D1b", "goroutine@"+an.FnName(fn), in.Pos(), "a goroutine is started by a compile driver: which file's error (or output) comes first then depends on scheduling, not on the sources")
					}
				})
			}
		}
	}
	if n == 0 {
		c.Pass("D1b", "no-goroutine-in-compile-drivers", 0, "scanned cmd/mro/check, cmd/mro/format, cmd/mro/graph")
	}
}

// R13 (C05): re-creating a fork's directories includes its chunks'.  After a re-attach the chunks
// are rebuilt from the split's durable _stage_defs in updateId, and the restart branch of doChunks
// does not create directories; Fork.mkdirs is what does.  Without it a restart at the point "split
// complete, chunk directories not yet made" can never write _jobinfo and every restart dies.
// Rule: Fork.mkdirs calls Chunk.mkdirs inside a loop over the fork's chunks.
func ruleR13(c *an.Ctx) {
	fn := c.P.Func(pkgCore, "(*Fork).mkdirs")
	cm := c.P.Func(pkgCore, "(*Chunk).mkdirs")
	chunksF := c.P.Field(pkgCore, "Fork", "chunks")
	if fn == nil || cm == nil || chunksF == nil {
		c.Info("R13", "anchor(Fork.mkdirs/Chunk.mkdirs)", 0, "not found: not decided")
		return
	}
	ok := false
	for _, body := range naturalLoops(fn) {
		over, calls := false, false
		for b := range body {
			for _, in := range b.Instrs {
				if ia, isIA := in.(*ssa.IndexAddr); isIA && an.LoadsField(ia.X, chunksF) {
					over = true
				}
				if cl := an.AsCallAny(in); cl != nil && cl.Common().StaticCallee() == cm {
					calls = true
				}
			}
		}
		if over && calls {
			ok = true
		}
	}
	c.Check("R13", "chunk-directories-recreated@(*Fork).mkdirs", fn.Pos(), ok,
		"Fork.mkdirs does not create the directories of the fork's known chunks: after a restart at the point where the split has completed but the chunk directories were not yet made, the chunks rebuilt from _stage_defs have no directory, runJob cannot write _jobinfo and mrp aborts - on every restart")
}

// R14 (C05): a pipestance directory is created inside a critical section.
func ruleR14(c *an.Ctx) {
	fn := c.P.Func(pkgCore, "(*Runtime).InvokePipeline")
	inst := c.P.Func(pkgCore, "(*Runtime).instantiatePipeline")
	if fn == nil || inst == nil {
		c.Info("R14", "anchor(InvokePipeline)", 0, "not found: not decided")
		return
	}
	n := 0
	for _, cs := range callsTo(fn, inst) {
		n++
		w := an.Query{Fn: fn, Target: func(x ssa.Instruction) bool { return x == cs.(ssa.Instruction) },
			Barrier: func(x ssa.Instruction) bool { return staticCalleeIs(x, "", "EnterCriticalSection") != nil }}.Find()
		c.Check("R14", "pipestance-created-in-a-critical-section@(*Runtime).InvokePipeline", cs.Pos(), w == nil,
			"InvokePipeline creates the lock and the directories and only then writes _invocation; a handled signal in between removes the lock and leaves a directory that can neither be invoked ('already exists') nor re-attached ('is not a pipestance directory'): the creation must run inside a critical section")
	}
	if n == 0 {
		c.Info("R14", "anchor(call of instantiatePipeline)", 0, "not found: not decided")
	}
}

// K11 (C12): a max-jobs slot is released when the job's state actually left running/queued.
// updateState applies a journal entry with Metadata.cache, which ignores entries whose uniquifier is
// stale (a late `.complete` of an attempt that was given up on and retried).  Releasing the slot
// because of the NAME of the journaled file instead of the resulting state frees the slot of the live
// retry; the next waiting job is submitted and more than --maxjobs jobs are on the cluster.
// Rule: every call of JobManager.endJob in the updateState functions is dominated by a comparison of
// a Metadata.getState result with the running/queued states.
func ruleK11(c *an.Ctx) {
	n := 0
	perFn := map[*ssa.Function]int{}
	for _, name := range []string{"(*Chunk).updateState", "(*Fork).updateState"} {
		fn := c.P.Func(pkgCore, name)
		if fn == nil {
			c.Info("K11", "anchor("+name+")", 0, "not found: not decided")
			continue
		}
		an.Instrs(fn, func(in ssa.Instruction) {
			cl := an.AsCallAny(in)
			if cl == nil {
				return
			}
			nm := ""
			if cl.Common().IsInvoke() {
				nm = cl.Common().Method.Name()
			} else if h := cl.Common().StaticCallee(); h != nil {
				nm = h.Name()
			}
			if nm != "endJob" {
				return
			}
			n++
			perFn[fn]++
			isState := func(v ssa.Value) bool {
				ex, ok := v.(*ssa.Extract)
				if !ok {
					return false
				}
				call, ok := ex.Tuple.(*ssa.Call)
				if !ok || call.Call.StaticCallee() == nil {
					return false
				}
				return strings.HasSuffix(call.Call.StaticCallee().Name(), "etState") || strings.HasSuffix(call.Call.StaticCallee().Name(), "etStateNoLock")
			}
			g, _ := an.GuardedBy(in, func(rel an.Rel) bool {
				return rel.Op == token.NEQ && (isState(rel.X) || isState(rel.Y))
			})
			c.Check("K11", fmt.Sprintf("slot-released-on-a-state-change@%s#%d", an.FnName(fn), perFn[fn]), in.Pos(), g,
				"the max-jobs slot is released without looking at the state the journal entry left the metadata in: a stale entry of an attempt that was already retried (ignored by Metadata.cache) frees the slot of the live attempt, and the next job is submitted beyond --maxjobs")
		})
	}
	if n == 0 {
		c.Info("K11", "anchor(endJob calls in updateState)", 0, "none: not decided")
	}
}

// W11 (C14): the cumulative kill report is read under the lock it is written under.
// partialVdrKill loads _vdrkill.partial, extends it and writes it back while holding
// Fork.storageLock.  Reading it (or the final report) before taking the lock lets a caller that had
// to wait work from a stale copy and write it back over the other caller's: the files are removed,
// but count, size and paths of the report no longer say so.
// Rule: in partialVdrKill every call of getPartialKillReport / getVdrKillReport is preceded on every
// path by storageLock.Lock().
func ruleW11(c *an.Ctx) {
	fn := c.P.Func(pkgCore, "(*Fork).partialVdrKill")
	lockF := c.P.Field(pkgCore, "Fork", "storageLock")
	if fn == nil || lockF == nil {
		c.Info("W11", "anchor(partialVdrKill/storageLock)", 0, "not found: not decided")
		return
	}
	locked := func(in ssa.Instruction) bool {
		cl := an.AsCallAny(in)
		if cl == nil || cl.Common().StaticCallee() == nil || cl.Common().StaticCallee().Name() != "Lock" || len(cl.Common().Args) == 0 {
			return false
		}
		_, f := an.FieldOfAddr(cl.Common().Args[0])
		return f == lockF
	}
	n := 0
	an.Instrs(fn, func(in ssa.Instruction) {
		cl := an.AsCallAny(in)
		if cl == nil || cl.Common().StaticCallee() == nil {
			return
		}
		nm := cl.Common().StaticCallee().Name()
		if nm != "getPartialKillReport" && nm != "getVdrKillReport" {
			return
		}
		n++
		w := an.Query{Fn: fn, Target: func(x ssa.Instruction) bool { return x == in }, Barrier: locked}.Find()
		c.Check("W11", fmt.Sprintf("report-read-under-the-storage-lock(%s)@(*Fork).partialVdrKill#%d", nm, n), in.Pos(), w == nil,
			"the cumulative report is read before storageLock is taken: a caller that waits for the lock then extends and writes back a stale copy, overwriting what the other caller recorded - the files are removed but the report's count, size and paths no longer match")
	})
	c.Floor("W11", "reads of the kill reports in partialVdrKill", n, 2)
}

// X11 (C03): the number of forks of a run-time collection is the length of the decoded value.
// getUnknownLength tells the fork expansion how many forks a map call over an upstream stage's
// array needs.  It decodes the JSON and takes len().  A hand-written scanner that counts
// separators (to avoid the allocation) has to re-implement JSON string escapes; one that gets
// `"...\\"` wrong counts too few elements, the remaining elements get no fork, their jobs never run
// and the pipestance still completes.
// Rule: every integer returned by getUnknownLength (and the helpers of its package it returns the
// result of) is a constant, the builtin len of a value, or reflect.Value.Len() - never arithmetic.
func ruleX11(c *an.Ctx) {
	fn := c.P.Func(pkgCore, "getUnknownLength")
	if fn == nil {
		c.Info("X11", "anchor(getUnknownLength)", 0, "not found: not decided")
		return
	}
	var ok func(v ssa.Value, d int) string
	ok = func(v ssa.Value, d int) string {
		if v == nil || d > 6 {
			return "derivation too deep"
		}
		switch x := v.(type) {
		case *ssa.Const:
			return ""
		case *ssa.Phi:
			for _, e := range x.Edges {
				if e == ssa.Value(x) {
					continue
				}
				if r := ok(e, d+1); r != "" {
					return r
				}
			}
			return ""
		case *ssa.Extract:
			return ok(x.Tuple, d+1)
		case *ssa.Call:
			if b, isB := x.Call.Value.(*ssa.Builtin); isB && (b.Name() == "len" || b.Name() == "cap") {
				return ""
			}
			h := x.Call.StaticCallee()
			if h == nil {
				return "result of a dynamic call"
			}
			if h.Pkg != nil && h.Pkg.Pkg.Path() == "reflect" && h.Name() == "Len" {
				return ""
			}
			if h.Blocks != nil && h.Pkg == fn.Pkg {
				res := ""
				an.Instrs(h, func(in ssa.Instruction) {
					if r, isR := in.(*ssa.Return); isR && len(r.Results) > 0 && res == "" {
						res = ok(r.Results[0], d+2)
					}
				})
				if res != "" {
					return res + " (in " + an.FnName(h) + ")"
				}
				return ""
			}
			return "result of " + an.FnName(h)
		case *ssa.BinOp:
			return "a count computed with arithmetic (" + x.Op.String() + ")"
		}
		return "a value of unknown origin"
	}
	n := 0
	an.Instrs(fn, func(in ssa.Instruction) {
		r, isR := in.(*ssa.Return)
		if !isR || len(r.Results) == 0 {
			return
		}
		n++
		why := ok(r.Results[0], 0)
		c.Check("X11", fmt.Sprintf("fork-count-is-the-decoded-length@getUnknownLength#%d", n), r.Pos(), why == "",
			"the number of elements of a run-time collection is not taken from the decoded value: "+why+"; a byte scanner has to re-implement JSON strings (an element ending in an escaped backslash closes the string one character early), counts too few elements, and the remaining elements get no fork - their jobs never run")
	})
	if n == 0 {
		c.Info("X11", "anchor(returns of getUnknownLength)", 0, "none: not decided")
	}
}

// I15 (C16): the text of a string expression reaches JSON only through the quoting function.
// StringExp.MarshalJSON / EncodeJSON write the value with quoteString, which escapes quotes,
// backslashes and control characters.  A fast path that copies a "trivial" value between quotes
// must know every character JSON requires to be escaped; one that only looks for `\` and `"` emits
// raw tabs and newlines - invalid JSON for a top-level string argument of the invocation data.
// Rule: in the methods of *StringExp in the syntax package, every use of the Value field is an
// argument of quoteString, of len, or a comparison.
func ruleI15(c *an.Ctx) {
	valF := c.P.Field(pkgSyntax, "StringExp", "Value")
	if valF == nil {
		c.Info("I15", "anchor(StringExp.Value)", 0, "not found: not decided")
		return
	}
	n := 0
	for _, fn := range c.P.FuncsOf(pkgSyntax) {
		if fn.Signature.Recv() == nil || !strings.Contains(fn.Signature.Recv().Type().String(), "StringExp") {
			continue
		}
		if fn.Name() != "MarshalJSON" && fn.Name() != "EncodeJSON" && fn.Name() != "encodeJSON" {
			continue
		}
		an.Instrs(fn, func(in ssa.Instruction) {
			u, ok := in.(*ssa.UnOp)
			if !ok || u.Op != token.MUL {
				return
			}
			if _, f := an.FieldOfAddr(u.X); f != valF {
				return
			}
			for _, r := range an.Referrers(u) {
				n++
				bad := ""
				switch x := r.(type) {
				case *ssa.BinOp, *ssa.DebugRef:
				case *ssa.Call:
					if b, isB := x.Call.Value.(*ssa.Builtin); isB {
						if b.Name() != "len" {
							bad = "handed to the builtin " + b.Name()
						}
					} else if h := x.Call.StaticCallee(); h == nil || (h.Name() != "quoteString" && h.Name() != "Grow") {
						// any other function: a search (strings.ContainsAny) is harmless by itself; the
						// copy that follows is what is reported
						if h == nil || h.Pkg == nil || h.Pkg.Pkg.Path() != "strings" {
							bad = "handed to " + x.Call.Value.String()
						}
					}
				case *ssa.Slice, *ssa.Convert, *ssa.MakeInterface:
					bad = "converted or sliced for a raw copy"
				default:
					bad = fmt.Sprintf("used by %T", r)
				}
				c.Check("I15", fmt.Sprintf("string-value-leaves-only-through-quoteString@%s#%d", an.FnName(fn), n), r.Pos(), bad == "",
					"the text of the string expression is "+bad+" instead of going through quoteString: characters JSON requires to be escaped (control characters when only `\\` and `\"` are looked for) are copied raw, and the invocation data is not valid JSON")
			}
		})
	}
	if n == 0 {
		c.Info("I15", "anchor(uses of StringExp.Value in its JSON methods)", 0, "none: not decided")
	}
}

// T14 (C07): every call is checked for parameters that nothing binds.  BindStms.compile first
// compiles the bindings that are there and then scans the callee's parameters for ones without a
// binding (ArgumentNotSuppliedError).  Counting entries is no substitute for the scan: a wildcard
// leaves its own `*` entry in the list next to the bindings it expands to, so a call whose wildcard
// misses exactly one parameter has as many entries as the callee has parameters.
// Rule: every return of a nil error from BindStms.compile has entered the loop over the parameters
// that looks each one up in the binding table.
func ruleT14(c *an.Ctx) {
	fn := c.P.Func(pkgSyntax, "(*BindStms).compile")
	tableF := c.P.Field(pkgSyntax, "BindStms", "Table")
	if fn == nil || tableF == nil {
		c.Info("T14", "anchor((*BindStms).compile)", 0, "not found: not decided")
		return
	}
	direct := func(in ssa.Instruction) bool {
		lk, ok := in.(*ssa.Lookup)
		return ok && an.LoadsField(lk.X, tableF)
	}
	scan := func(in ssa.Instruction) bool {
		if direct(in) {
			return true
		}
		// a predicate method that does the lookup (bindings.isBound(id))
		cl := an.AsCallAny(in)
		if cl == nil {
			return false
		}
		h := cl.Common().StaticCallee()
		return h != nil && h.Blocks != nil && h.Pkg == fn.Pkg && h != fn && len(h.Blocks) <= 4 && an.MayDo(h, direct, 0)
	}
	entry := loopEntryBarrier(fn, scan)
	n := 0
	an.Instrs(fn, func(in ssa.Instruction) {
		r, ok := in.(*ssa.Return)
		if !ok || len(r.Results) != 1 {
			return
		}
		v := an.RetVal(r, 0)
		mayBeNil := an.IsNil(v)
		if cl, isC := v.(*ssa.Call); isC && cl.Call.StaticCallee() != nil && cl.Call.StaticCallee().Name() == "If" {
			mayBeNil = true
		}
		if !mayBeNil {
			return
		}
		n++
		w := an.Query{Fn: fn, Target: func(x ssa.Instruction) bool { return x == ssa.Instruction(r) }, Barrier: scan, BarrierEdge: entry}.Find()
		c.Check("T14", fmt.Sprintf("unbound-parameters-are-looked-for@(*BindStms).compile#%d", n), r.Pos(), w == nil,
			"the bindings of a call can be accepted without the scan of the callee's parameters for ones that nothing binds: a `* = ...` wildcard that misses exactly one parameter has as many list entries as there are parameters, the call compiles and the stage would run without a value for that parameter; "+c.WitnessString(w))
	})
	if n == 0 {
		c.Info("T14", "anchor(successful returns of BindStms.compile)", 0, "none: not decided")
	}
}

// O8 (C02): an element of a split `disabled` collection that is only known at run time keeps the
// control binding.  resolveDisableArray/Map classify the elements: all literally false - the call is
// never disabled and the binding is dropped; all literally true - always disabled; otherwise the
// reference is kept, which makes the producer of the flag a prenode of the call.  If a reference
// element does not clear the "all false" verdict, `[FLAG.skip, false]` drops the binding: the call
// no longer waits for FLAG and is never disabled.
// Rule: in the functions of the syntax package that classify the elements of a disable collection
// (a type switch with an arm for *RefExp inside a loop, and boolean accumulators carried by the
// loop), every accumulator is false after an iteration that took the *RefExp arm.
func ruleO8(c *an.Ctx) {
	n := 0
	for _, fn := range c.P.FuncsOf(pkgSyntax) {
		if !strings.Contains(strings.ToLower(fn.Name()), "disable") {
			continue
		}
		for hd, body := range naturalLoops(fn) {
			// the boolean accumulators of the loop
			var accs []*ssa.Phi
			for _, in := range hd.Instrs {
				ph, ok := in.(*ssa.Phi)
				if !ok {
					break
				}
				if b, isB := ph.Type().Underlying().(*types.Basic); isB && b.Kind() == types.Bool {
					accs = append(accs, ph)
				}
			}
			if len(accs) < 2 {
				continue
			}
			// the block taken when the element is a *RefExp
			var refArm *ssa.BasicBlock
			for b := range body {
				if len(b.Instrs) == 0 {
					continue
				}
				iff, ok := b.Instrs[len(b.Instrs)-1].(*ssa.If)
				if !ok {
					continue
				}
				ex, ok := iff.Cond.(*ssa.Extract)
				if !ok || ex.Index != 1 {
					continue
				}
				ta, ok := ex.Tuple.(*ssa.TypeAssert)
				if !ok {
					continue
				}
				if nm, _ := derefNamed(ta.AssertedType); nm == "RefExp" {
					refArm = b.Succs[0]
				}
			}
			if refArm == nil {
				continue
			}
			// follow the arm to the header along single successors, resolving phis on the way
			resolved := map[ssa.Value]ssa.Value{}
			resolve := func(v ssa.Value) ssa.Value {
				for i := 0; i < 8; i++ {
					r, ok := resolved[v]
					if !ok {
						return v
					}
					v = r
				}
				return v
			}
			prev, cur := refArm, refArm
			for steps := 0; steps < 12 && cur != hd; steps++ {
				if len(cur.Succs) != 1 {
					break
				}
				next := cur.Succs[0]
				idx := -1
				for i, p := range next.Preds {
					if p == cur {
						idx = i
					}
				}
				for _, in := range next.Instrs {
					ph, ok := in.(*ssa.Phi)
					if !ok {
						break
					}
					if idx >= 0 {
						resolved[ph] = resolve(ph.Edges[idx])
					}
				}
				prev, cur = cur, next
			}
			_ = prev
			if cur != hd {
				continue
			}
			for _, acc := range accs {
				n++
				v := resolve(acc)
				k, isC := v.(*ssa.Const)
				isFalse := isC && k.Value != nil && k.Value.Kind() == constant.Bool && !constant.BoolVal(k.Value)
				c.Check("O8", fmt.Sprintf("reference-element-clears-every-verdict@%s#%d", an.FnName(fn), n), acc.Pos(), isFalse,
					"after an element that is a reference (known only at run time) one of the loop's verdicts can still be true: a collection such as [FLAG.skip, false] is classified `all false`, the control binding is dropped, the producer of the flag is no prenode of the call any more and the call is never disabled")
			}
		}
	}
	// the same classification kept in a small struct with an `add` method (a tally with one boolean
	// field per verdict): the arm for *RefExp writes every boolean field of the receiver
	for _, fn := range c.P.FuncsOf(pkgSyntax) {
		recv := fn.Signature.Recv()
		if recv == nil || !strings.Contains(strings.ToLower(recv.Type().String()), "disable") || len(fn.Params) == 0 {
			continue
		}
		st := derefStructT(recv.Type())
		if st == nil {
			continue
		}
		var boolFields []string
		for i := 0; i < st.NumFields(); i++ {
			if b, ok := st.Field(i).Type().Underlying().(*types.Basic); ok && b.Kind() == types.Bool {
				boolFields = append(boolFields, st.Field(i).Name())
			}
		}
		if len(boolFields) < 2 {
			continue
		}
		var refArm *ssa.BasicBlock
		for _, b := range fn.Blocks {
			if len(b.Instrs) == 0 {
				continue
			}
			iff, ok := b.Instrs[len(b.Instrs)-1].(*ssa.If)
			if !ok {
				continue
			}
			ex, ok := iff.Cond.(*ssa.Extract)
			if !ok || ex.Index != 1 {
				continue
			}
			ta, ok := ex.Tuple.(*ssa.TypeAssert)
			if !ok {
				continue
			}
			if nm, _ := derefNamed(ta.AssertedType); nm == "RefExp" {
				refArm = b.Succs[0]
			}
		}
		if refArm == nil {
			continue
		}
		written := map[string]bool{}
		for _, b := range fn.Blocks {
			if b != refArm && !refArm.Dominates(b) {
				continue
			}
			for _, in := range b.Instrs {
				if stI, ok := in.(*ssa.Store); ok {
					if fa, ok := stI.Addr.(*ssa.FieldAddr); ok && an.Strip(fa.X) == ssa.Value(fn.Params[0]) {
						written[st.Field(fa.Field).Name()] = true
					}
				}
			}
		}
		for _, bf := range boolFields {
			n++
			c.Check("O8", "reference-element-clears-every-verdict@"+an.FnName(fn)+"."+bf, fn.Pos(), written[bf],
				"the arm for an element that is a reference (known only at run time) does not update the verdict field "+bf+": a collection such as [FLAG.skip, false] can still be classified `all false`, the control binding is dropped and the call no longer waits for the producer of the flag")
		}
	}
	c.Floor("O8", "verdicts of the disable-collection classifiers", n, 2)
}

// P13 (C08): no call is recorded as depending on itself.  directDepsMap records call -> call
// dependencies; a reference to the call's own output is an error reported at once.  A self edge in
// the map hides a cycle through that call from findMissingDeps (it only compares dependencies that
// are not yet in the set), and topoSort then swaps the two calls for ever: mro check hangs on a
// 400-byte input.
// Rule: every insertion into a dependency set (map[*CallStm]struct{}) in directDepsMap and its
// closures is dominated by a comparison of the dependency with the depending call - in the function,
// or at every call of the closure that makes the insertion.
func ruleP13(c *an.Ctx) {
	fn := c.P.Func(pkgSyntax, "(*Pipeline).directDepsMap")
	if fn == nil {
		c.Info("P13", "anchor(directDepsMap)", 0, "not found: not decided")
		return
	}
	isCallStmPtr := func(t types.Type) bool { nm, _ := derefNamed(t); return nm == "CallStm" }
	neq := func(rel an.Rel) bool {
		return rel.Op == token.NEQ && rel.X != nil && rel.Y != nil && isCallStmPtr(rel.X.Type()) && isCallStmPtr(rel.Y.Type())
	}
	n := 0
	for _, g := range an.WithAnon(fn) {
		g := g
		an.Instrs(g, func(in ssa.Instruction) {
			mu, ok := in.(*ssa.MapUpdate)
			if !ok {
				return
			}
			mt, ok := mu.Map.Type().Underlying().(*types.Map)
			if !ok || !isCallStmPtr(mt.Key()) {
				return
			}
			if _, isStruct := mt.Elem().Underlying().(*types.Struct); !isStruct {
				return
			}
			n++
			guarded, _ := an.GuardedBy(mu, neq)
			if !guarded && g != fn {
				// the closure that inserts: every call of it
				all, cnt := true, 0
				for _, host := range an.WithAnon(fn) {
					an.Instrs(host, func(x ssa.Instruction) {
						cl, ok := x.(*ssa.Call)
						if !ok {
							return
						}
						var target *ssa.Function
						switch v := cl.Call.Value.(type) {
						case *ssa.MakeClosure:
							target, _ = v.Fn.(*ssa.Function)
						case *ssa.Function:
							target = v
						default:
							// a closure kept in a local: resolve through the stored MakeClosure
							if u, isU := v.(*ssa.UnOp); isU {
								for _, r := range an.Referrers(u.X) {
									if st, isSt := r.(*ssa.Store); isSt {
										if mc, isMC := st.Val.(*ssa.MakeClosure); isMC {
											target, _ = mc.Fn.(*ssa.Function)
										}
									}
								}
							}
						}
						if target != g {
							return
						}
						cnt++
						if ok2, _ := an.GuardedBy(cl, neq); !ok2 {
							all = false
						}
					})
				}
				guarded = all && cnt > 0
			}
			c.Check("P13", fmt.Sprintf("no-self-dependency-recorded@%s#%d", an.FnName(g), n), mu.Pos(), guarded,
				"a dependency is inserted without having been compared with the depending call: `disabled = SELF.out` records a self edge, which hides a cycle through that call from the missing-dependency search; the in-place topological sort then swaps two calls for ever and mro check / mro format hang")
		})
	}
	if n == 0 {
		c.Info("P13", "anchor(dependency insertions in directDepsMap)", 0, "none: not decided")
	}
}

// N12 (C17): an int is valid only if it decodes as one.  BuiltinType.IsValidJson decides `int` by
// decoding into an int64.  A digit-counting fast path (\"at most 19 digits\") accepts 19-digit
// literals beyond the int64 range, which FilterJson then refuses or rewrites: validation and
// filtering disagree.
// Rule: in BuiltinType.IsValidJson every return of nil inside the arm for KindInt is the result of
// the decode helper (no constant nil).
func ruleN12(c *an.Ctx) {
	fn := c.P.Func(pkgSyntax, "(*BuiltinType).IsValidJson")
	kInt := c.P.Const(pkgSyntax, "KindInt")
	if fn == nil || kInt == nil {
		c.Info("N12", "anchor(BuiltinType.IsValidJson/KindInt)", 0, "not found: not decided")
		return
	}
	n := 0
	an.Instrs(fn, func(in ssa.Instruction) {
		r, ok := in.(*ssa.Return)
		if !ok || len(r.Results) != 1 {
			return
		}
		isKindInt := func(v ssa.Value) bool {
			k, ok := an.ConstVal(v)
			return ok && k.Kind() == constant.String && kInt.Val().Kind() == constant.String && constant.StringVal(k) == constant.StringVal(kInt.Val())
		}
		inArm, _ := an.GuardedBy(r, func(rel an.Rel) bool {
			return rel.Op == token.EQL && (isKindInt(rel.Y) || isKindInt(rel.X))
		})
		if !inArm {
			return
		}
		n++
		c.Check("N12", fmt.Sprintf("int-validated-by-decoding@(*BuiltinType).IsValidJson#%d", n), r.Pos(), !an.IsNil(an.RetVal(r, 0)),
			"the arm for int accepts a value without decoding it: a shortcut that counts digits accepts 19-digit literals beyond the int64 range (9223372036854775808), which the filter of the same type refuses - validation and filtering disagree and an out-of-range value validates cleanly")
	})
	if n == 0 {
		c.Info("N12", "anchor(returns in the int arm)", 0, "none: not decided")
	}
}

// G16 (C19): removing an output removes only what refers to it.  removeRefFromExp rebuilds array and
// map literals without the elements that refer to the removed output.  Whether an element goes is
// decided by shouldRemoveExpCallRef; deciding it by "the rewritten element is null" also drops the
// nulls the user wrote: `[A.x, null, B.y]` loses an element (a fork of a split) when an unrelated
// output is removed.
// Rule: in removeRefFromExp an iteration over a literal's elements ends without keeping the element
// only over an edge on which shouldRemoveExpCallRef holds.
func ruleG16(c *an.Ctx) {
	fn := c.P.Func(pkgRefac, "removeRefFromExp")
	if fn == nil {
		c.Info("G16", "anchor(removeRefFromExp)", 0, "not found: not decided")
		return
	}
	keep := func(in ssa.Instruction) bool {
		if _, ok := in.(*ssa.MapUpdate); ok {
			return true
		}
		if v, ok := in.(ssa.Value); ok {
			if _, isApp := an.IsBuiltinCall(v, "append"); isApp {
				return true
			}
		}
		return false
	}
	shouldRemove := func(from, to *ssa.BasicBlock) bool {
		return an.EdgeHolds(from, to, func(rel an.Rel) bool {
			if rel.Op != token.ILLEGAL || !rel.Truth {
				return false
			}
			cl, ok := rel.X.(*ssa.Call)
			return ok && cl.Call.StaticCallee() != nil && cl.Call.StaticCallee().Name() == "shouldRemoveExpCallRef"
		})
	}
	n := 0
	hosts := []*ssa.Function{fn}
	for _, g := range familyOf(c.P, fn, 1) {
		if g != fn && g.Pkg == fn.Pkg && g.Name() != "shouldRemoveExpCallRef" {
			hosts = append(hosts, g)
		}
	}
	for _, fn := range hosts {
		for hd, body := range naturalLoops(fn) {
			hasKeep := false
			for b := range body {
				for _, in := range b.Instrs {
					if keep(in) {
						hasKeep = true
					}
				}
			}
			if !hasKeep {
				continue
			}
			for _, sc := range hd.Succs {
				if !body[sc] {
					continue
				}
				n++
				first := sc.Instrs[0]
				var w *an.Witness
				if !keep(first) {
					w = an.Query{Fn: fn, After: first, Target: func(x ssa.Instruction) bool { return x == hd.Instrs[0] }, Barrier: keep,
						BarrierEdge: func(from, to *ssa.BasicBlock) bool { return !body[to] || shouldRemove(from, to) }}.Find()
				}
				c.Check("G16", fmt.Sprintf("element-dropped-only-if-it-refers-to-the-output@removeRefFromExp#%d", n), hd.Instrs[0].Pos(), w == nil,
					"an element of an array or map literal can be left out of the rebuilt literal without shouldRemoveExpCallRef having said that it refers to the removed output: a literal `null` that the user wrote is dropped as well, an array loses an element and a split loses a fork; "+c.WitnessString(w))
			}
		}
	}
	c.Floor("G16", "element loops of removeRefFromExp and its helpers", n, 2)
}

// V11 (C04): whether a JSON string names a file is decided on the decoded string.
// getMaybeFileNames looks at value[0] to tell the kind of JSON value and decodes strings before
// asking path.IsAbs.  Looking at further raw bytes (\"the second byte must be '/'\") is wrong for
// every encoder that escapes the slash (`\"\\/a\\/b\"`), so such outs name no files, the keep-alive
// argument is dropped and strict VDR removes the files while they are needed.
// Rule: in getMaybeFileNames no byte of the raw message other than the first is compared.
func ruleV11(c *an.Ctx) {
	fn := c.P.Func(pkgCore, "getMaybeFileNames")
	if fn == nil {
		c.Info("V11", "anchor(getMaybeFileNames)", 0, "not found: not decided")
		return
	}
	n, bad := 0, token.NoPos
	v11hosts := []*ssa.Function{fn}
	for _, g := range familyOf(c.P, fn, 1) {
		if g != fn && g.Pkg == fn.Pkg {
			v11hosts = append(v11hosts, g)
		}
	}
	for _, host := range v11hosts {
		an.Instrs(host, func(in ssa.Instruction) {
			var idx ssa.Value
			var val ssa.Value
			switch x := in.(type) {
			case *ssa.IndexAddr:
				idx, val = x.Index, x
			case *ssa.Index:
				idx, val = x.Index, x
			default:
				return
			}
			if nm, _ := derefNamed(val.Type()); nm != "" {
				_ = nm
			}
			// only raw messages / byte slices
			var elemOK bool
			switch t := in.(type) {
			case *ssa.IndexAddr:
				if sl, ok := t.X.Type().Underlying().(*types.Slice); ok {
					if b, isB := sl.Elem().Underlying().(*types.Basic); isB && b.Kind() == types.Uint8 {
						elemOK = true
					}
				}
			}
			if !elemOK {
				return
			}
			n++
			if !an.IsIntConst(idx, 0) {
				bad = in.Pos()
			}
		})
	}
	c.Check("V11", "file-names-decided-on-decoded-strings@getMaybeFileNames", bad, bad == token.NoPos,
		"a byte of the raw JSON other than the first is examined to decide whether the value can name a file: an encoder that escapes the slash (\"\\/a\\/b\") or writes it as \\u002f produces a path whose raw bytes look different, the argument is judged to name no files and strict VDR removes them before their consumer starts")
	c.Floor("V11", "raw byte inspections in getMaybeFileNames", n, 1)
}

// Q19 (C09): a multi-byte escape is written as a rune, not as a byte.  In the string decoder only the
// \\xNN escape denotes a raw byte; \\uXXXX denotes a code point and must be UTF-8 encoded.  A fast
// path that appends the low byte of \\u00XX directly is right below 0x80 and produces a lone invalid
// byte for \\u0080..\\u00ff, which the formatter then rewrites as \\ufffd: the literal changes.
// Rule: in unquoteBytes and its helpers, a hex-decoded byte is appended directly only in the arm for
// the escape letter 'x'.
func ruleQ19(c *an.Ctx) {
	root := c.P.Func(pkgSyntax, "unquoteBytes")
	if root == nil {
		c.Info("Q19", "anchor(unquoteBytes)", 0, "not found: not decided")
		return
	}
	hosts := []*ssa.Function{root}
	for _, g := range familyOf(c.P, root, 2) {
		if g != root && g.Pkg == root.Pkg {
			hosts = append(hosts, g)
		}
	}
	n := 0
	for _, fn := range hosts {
		an.Instrs(fn, func(in ssa.Instruction) {
			st, ok := in.(*ssa.Store)
			if !ok {
				return
			}
			cl, ok := st.Val.(*ssa.Call)
			if !ok || cl.Call.StaticCallee() == nil || !strings.HasPrefix(cl.Call.StaticCallee().Name(), "parseHexByte") {
				return
			}
			if _, isIA := st.Addr.(*ssa.IndexAddr); !isIA {
				return
			}
			n++
			g, _ := an.GuardedBy(st, func(rel an.Rel) bool {
				if rel.Op != token.EQL {
					return false
				}
				return an.IsIntConst(rel.Y, 'x') || an.IsIntConst(rel.X, 'x')
			})
			c.Check("Q19", fmt.Sprintf("raw-byte-only-for-the-x-escape@%s#%d", an.FnName(fn), n), st.Pos(), g,
				"a hex-decoded byte is appended to the decoded string outside the arm for \\x: for \\u0080..\\u00ff this writes a lone byte that is not valid UTF-8 where the code point's two-byte encoding belongs, and the formatter turns it into \\ufffd - \"caf\\u00e9\" does not survive formatting")
		})
	}
	if n == 0 {
		c.Info("Q19", "anchor(raw hex byte appends in the string decoder)", 0, "none: not decided")
	}
}

// M15 (C13): every exit of moveOutFile has written a value, the error exits too.  The callers that
// rebuild arrays, maps and structs go on after an element's error (they collect the errors) and keep
// writing separators.  An error exit that wrote nothing leaves `[,]` - not JSON, so the rewritten
// _outs is rejected as a whole and outputs that were already moved keep their old paths - or drops
// the only element of an array.
// Rule: every return of moveOutFile is preceded on every path by a write into its buffer parameter
// (a Write* call on it, or a call of a function of the family that is handed the buffer).
func ruleM15(c *an.Ctx) {
	fn := c.P.Func(pkgCore, "moveOutFile")
	if fn == nil || len(fn.Params) == 0 {
		c.Info("M15", "anchor(moveOutFile)", 0, "not found: not decided")
		return
	}
	var w ssa.Value
	for _, prm := range fn.Params {
		if strings.Contains(prm.Type().String(), "bytes.Buffer") {
			w = prm
		}
	}
	if w == nil {
		c.Info("M15", "anchor(buffer parameter of moveOutFile)", 0, "not found: not decided")
		return
	}
	writes := func(in ssa.Instruction) bool {
		cl := an.AsCallAny(in)
		if cl == nil {
			return false
		}
		for _, a := range cl.Common().Args {
			if an.Strip(a) == w {
				return true
			}
		}
		return false
	}
	n := 0
	an.Instrs(fn, func(in ssa.Instruction) {
		r, ok := in.(*ssa.Return)
		if !ok {
			return
		}
		n++
		wt := an.Query{Fn: fn, Target: func(x ssa.Instruction) bool { return x == ssa.Instruction(r) }, Barrier: writes}.Find()
		c.Check("M15", fmt.Sprintf("every-exit-has-written-a-value@moveOutFile#%d", n), r.Pos(), wt == nil,
			"moveOutFile can return without having written anything into the buffer that becomes the rewritten _outs: the container writers continue after an element's error, so the array comes out as `[,]` (not JSON: _outs is not rewritten at all) or loses its only element; "+c.WitnessString(wt))
	})
	c.Floor("M15", "returns of moveOutFile", n, 5)
}

// N13 (C17): the float fallback of the int filter is for values written as floats.
// BuiltinType.FilterJson accepts `1.0` for an int by decoding into a float64 when the int64 decode
// failed.  An integer literal just outside the int64 range also fails the first decode, is rounded
// by the float parse to exactly -2^63 and handed on changed, although IsValidJson rejects it.
// Rule: in BuiltinType.FilterJson a decode into *float64 that follows a failed decode into *int64
// is dominated by a test of the literal's text (bytes.ContainsAny / IndexAny / IndexByte ...).
func ruleN13(c *an.Ctx) {
	fn := c.P.Func(pkgSyntax, "(*BuiltinType).FilterJson")
	if fn == nil {
		c.Info("N13", "anchor(BuiltinType.FilterJson)", 0, "not found: not decided")
		return
	}
	isDecodeInto := func(in ssa.Instruction, kind types.BasicKind) bool {
		cl := an.AsCallAny(in)
		if cl == nil || cl.Common().StaticCallee() == nil || cl.Common().StaticCallee().Name() != "Unmarshal" || len(cl.Common().Args) < 2 {
			return false
		}
		t := an.Strip(cl.Common().Args[1]).Type()
		p, ok := t.Underlying().(*types.Pointer)
		if !ok {
			return false
		}
		b, ok := p.Elem().Underlying().(*types.Basic)
		return ok && b.Kind() == kind
	}
	hasInt := false
	an.Instrs(fn, func(in ssa.Instruction) {
		if isDecodeInto(in, types.Int64) {
			hasInt = true
		}
	})
	n := 0
	an.Instrs(fn, func(in ssa.Instruction) {
		if !hasInt || !isDecodeInto(in, types.Float64) {
			return
		}
		// only the one in the int arm: reachable after the int64 decode
		after := false
		an.Instrs(fn, func(x ssa.Instruction) {
			if isDecodeInto(x, types.Int64) && an.Reachable(fn, x, func(y ssa.Instruction) bool { return y == in }) {
				after = true
			}
		})
		if !after {
			return
		}
		n++
		g, _ := an.GuardedBy(in, func(rel an.Rel) bool {
			var cl *ssa.Call
			if rel.Op == token.ILLEGAL {
				cl, _ = rel.X.(*ssa.Call)
			} else {
				cl, _ = rel.X.(*ssa.Call)
				if cl == nil {
					cl, _ = rel.Y.(*ssa.Call)
				}
			}
			if cl == nil || cl.Call.StaticCallee() == nil || cl.Call.StaticCallee().Pkg == nil || cl.Call.StaticCallee().Pkg.Pkg.Path() != "bytes" {
				return false
			}
			return strings.HasPrefix(cl.Call.StaticCallee().Name(), "Contains") || strings.HasPrefix(cl.Call.StaticCallee().Name(), "Index")
		})
		c.Check("N13", fmt.Sprintf("float-fallback-only-for-literals-written-as-floats@(*BuiltinType).FilterJson#%d", n), in.Pos(), g,
			"after the int64 decode failed the value is decoded as a float whatever it looks like: -9223372036854775809 is rounded to -2^63 and passed on, changed, with fatal=false - the filter accepts (and alters) a value that IsValidJson rejects")
	})
	if n == 0 {
		c.Info("N13", "anchor(float fallback of the int filter)", 0, "not found: not decided")
	}
}

// V12 (C04): the raw-bytes shortcut of getMaybeFileNames allows for \\u escapes.
// Rule: the return taken because the raw value does not contain the (escaped) path separator is
// also guarded by the absence of a `\\u` escape in the raw value.
func ruleV12(c *an.Ctx) {
	fn := c.P.Func(pkgCore, "getMaybeFileNames")
	if fn == nil {
		c.Info("V12", "anchor(getMaybeFileNames)", 0, "not found: not decided")
		return
	}
	containsGlobal := func(rel an.Rel, want func(g *ssa.Global) bool) bool {
		if rel.Op != token.ILLEGAL || rel.Truth {
			return false
		}
		cl, ok := rel.X.(*ssa.Call)
		if !ok || cl.Call.StaticCallee() == nil || cl.Call.StaticCallee().Name() != "Contains" || len(cl.Call.Args) != 2 {
			return false
		}
		u, ok := cl.Call.Args[1].(*ssa.UnOp)
		if !ok {
			return false
		}
		g, ok := u.X.(*ssa.Global)
		return ok && want(g)
	}
	n := 0
	an.Instrs(fn, func(in ssa.Instruction) {
		r, ok := in.(*ssa.Return)
		if !ok {
			return
		}
		sep, _ := an.GuardedBy(r, func(rel an.Rel) bool {
			return containsGlobal(rel, func(g *ssa.Global) bool { return strings.Contains(strings.ToLower(g.Name()), "sep") })
		})
		if !sep {
			return
		}
		n++
		esc, _ := an.GuardedBy(r, func(rel an.Rel) bool {
			return containsGlobal(rel, func(g *ssa.Global) bool {
				nm := strings.ToLower(g.Name())
				return strings.Contains(nm, "unicode") || (strings.Contains(nm, "escape") && !strings.Contains(nm, "sep"))
			})
		})
		c.Check("V12", fmt.Sprintf("separator-shortcut-allows-for-unicode-escapes@getMaybeFileNames#%d", n), r.Pos(), esc,
			"the value is judged to name no files because its raw bytes contain no path separator, without excluding \\u escapes: an outs value that spells its slashes as \\u002f names no files, its keep-alive argument is dropped and strict VDR removes the files before their consumer starts")
	})
	if n == 0 {
		c.Info("V12", "anchor(separator shortcut in getMaybeFileNames)", 0, "not found: not decided")
	}
}

// Q20 (C09): the formatter tells negative zero from zero.  Whole floats are printed without a
// fraction and read back as integers of equal value - except -0.0, which no integer literal denotes:
// printed as `-0` it is read back as the integer 0.
// Rule: FloatExp.format consults math.Signbit.
func ruleQ20(c *an.Ctx) {
	fn := c.P.Func(pkgSyntax, "(*FloatExp).format")
	if fn == nil {
		c.Info("Q20", "anchor((*FloatExp).format)", 0, "not found: not decided")
		return
	}
	ok := an.MayDo(fn, func(in ssa.Instruction) bool { return staticCalleeIs(in, "math", "Signbit") != nil }, 1)
	c.Check("Q20", "negative-zero-keeps-its-fraction@(*FloatExp).format", fn.Pos(), ok,
		"the float formatter never looks at the sign bit: -0.0 is printed as -0, which the tokenizer reads as the integer 0 - the value changes and the next pass prints 0")
}

// X12 (C03): the static fork expansion tolerates an empty fork list.  With two fork sources of which
// one is statically empty MakeForkIds builds no forks; expandStaticForks indexed the first one anyway
// and InvokePipeline panicked.
// Rule: in ForkIdSet.expandStaticForks an element of the fork list at a constant index is accessed
// only under a length guard.
func ruleX12(c *an.Ctx) {
	fn := c.P.Func(pkgCore, "(*ForkIdSet).expandStaticForks")
	listF := c.P.Field(pkgCore, "ForkIdSet", "List")
	if fn == nil || listF == nil {
		c.Info("X12", "anchor(expandStaticForks)", 0, "not found: not decided")
		return
	}
	n := 0
	an.Instrs(fn, func(in ssa.Instruction) {
		ia, ok := in.(*ssa.IndexAddr)
		if !ok || !an.LoadsField(ia.X, listF) {
			return
		}
		if _, isK := ia.Index.(*ssa.Const); !isK {
			return
		}
		n++
		g, _ := an.GuardedBy(ia, func(rel an.Rel) bool {
			r := rel
			if _, isK := an.ConstVal(r.X); isK {
				r = r.Flip()
			}
			args, isLen := an.IsBuiltinCall(r.X, "len")
			if !isLen || !an.LoadsField(args[0], listF) {
				return false
			}
			return (r.Op == token.NEQ || r.Op == token.GTR) && an.IsIntConst(r.Y, 0) || r.Op == token.GEQ && an.IsIntConst(r.Y, 1)
		})
		c.Check("X12", fmt.Sprintf("first-fork-read-only-if-there-is-one@(*ForkIdSet).expandStaticForks#%d", n), ia.Pos(), g,
			"the first element of the fork list is read without a length check: a nested map call with a statically empty source (`ys = []`) has no forks, and InvokePipeline panics with index out of range instead of running nothing")
	})
	if n == 0 {
		c.Pass("X12", "no-constant-index-into-the-fork-list@(*ForkIdSet).expandStaticForks", fn.Pos(), "the fork list is not indexed with a constant")
	}
}

// X13 (C03): the split standing for partly disabled outputs knows its type.  When a split
// `disabled` flag switches a call off in some forks of an enclosing map call, the call's outputs are
// represented as split [null, ref, ...].  Without a type the call mode of that split is guessed
// from its elements (`unknown` for [null, ref], `null` for [ref, null]) and a map call over such an
// output panics in the fork expansion.
// Rule: the two resolvers that build this expression (CallGraphStage.resolve,
// CallGraphPipeline.resolvePipelineOuts) store its Type.
func ruleX13(c *an.Ctx) {
	typeF := c.P.Field(pkgSyntax, "SplitExp", "Type")
	if typeF == nil {
		c.Info("X13", "anchor(SplitExp.Type)", 0, "not found: not decided")
		return
	}
	for _, name := range []string{"(*CallGraphStage).resolve", "(*CallGraphPipeline).resolvePipelineOuts"} {
		fn := c.P.Func(pkgSyntax, name)
		if fn == nil {
			c.Info("X13", "anchor("+name+")", 0, "not found: not decided")
			continue
		}
		found := false
		for _, g := range append([]*ssa.Function{fn}, familyOf(c.P, fn, 1)...) {
			if g.Pkg != fn.Pkg {
				continue
			}
			for _, st := range an.StoresToField(g, typeF) {
				_ = st
				found = true
			}
		}
		c.Check("X13", "partly-disabled-outputs-carry-their-type@"+an.FnName(fn), fn.Pos(), found,
			"the split expression built for the outputs of a call that is disabled in some forks is left without a type: its call mode is then guessed from elements like [null, ref], and mapping over such an output panics with `invalid fork mode unknown`")
	}
}

// X14 (C03): a stage that can never run is marked disabled whether or not it has outputs.
// Rule: every return of CallGraphStage.resolve has consulted isAlwaysDisabled().
func ruleX14(c *an.Ctx) {
	fn := c.P.Func(pkgSyntax, "(*CallGraphStage).resolve")
	if fn == nil {
		c.Info("X14", "anchor((*CallGraphStage).resolve)", 0, "not found: not decided")
		return
	}
	asked := func(in ssa.Instruction) bool { return staticCalleeIs(in, "", "isAlwaysDisabled") != nil }
	n := 0
	an.Instrs(fn, func(in ssa.Instruction) {
		r, ok := in.(*ssa.Return)
		if !ok {
			return
		}
		n++
		w := an.Query{Fn: fn, Target: func(x ssa.Instruction) bool { return x == ssa.Instruction(r) }, Barrier: asked}.Find()
		pos := r.Pos()
		if !pos.IsValid() {
			pos = fn.Pos()
		}
		c.Check("X14", fmt.Sprintf("always-disabled-asked-on-every-path@(*CallGraphStage).resolve#%d", n), pos, w == nil,
			"a stage can be resolved without asking whether it is always disabled: a stage without out parameters mapped over an empty collection that arrives through a pipeline argument gets a default fork with no disable binding, and one job runs with a null input; "+c.WitnessString(w))
	})
}
