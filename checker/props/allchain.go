package props

import (
	"fmt"
	"go/token"

	"mrocheck/an"

	"golang.org/x/tools/go/ssa"
)

// ---------------------------------------------------------------------------
// "all elements conformed" across helper boundaries.
//
// allFlag (c02.go) decides the idiom inside one function: instruction R is
// reached only if every execution of the per-element site S conformed.  The
// loop and the per-element test are often moved into helpers which report the
// verdict as a boolean result:
//
//	func (c *Chunk) readOutput() (outs, bool)     // site: read, verify
//	func (f *Fork) readChunkOuts() ([]outs, bool) // loop over readOutput
//	func (f *Fork) doJoin()                       // if !ok { return Failed }; runJoin
//
// allChain follows that chain.  For a site in a helper h it proves the summary
// "result i of h is true only if every execution of the site inside that call
// conformed" (allCore with a return target), then treats each call of h inside
// the family as a new site whose evidence is that result, until the function
// holding R is reached.
//
// allCore is a path-sensitive product search.  The state is (block, value of
// every phi of the boolean web, phase).  Leaves of the web are the constants
// true/false and the evidence value of the site (false for the non-conforming
// execution considered, unknown for later ones).  The search starts after a
// non-conforming execution of S with every flag assumed true; conforming
// edges are barriers in phase 0; reaching S again moves to phase 1, where the
// flag must stay false.  Reaching the target is a violation.
// ---------------------------------------------------------------------------

type allSite struct {
	fn *ssa.Function
	S  ssa.Instruction
	// ok: the relation means "this execution of S conformed"
	ok   func(an.Rel) bool
	desc string
}

// evidence: the truth value of v tells whether the considered execution conformed (v true =
// conformed, or - a "changed"/"failed" signal - v false = conformed)
func (s allSite) evidence(v ssa.Value) bool {
	_, ok := s.badVal(v)
	return ok
}

// badVal: the value v has for a non-conforming execution.
func (s allSite) badVal(v ssa.Value) (bool, bool) {
	if v == nil {
		return false, false
	}
	if s.ok(an.Rel{Op: token.ILLEGAL, X: v, Truth: true}) {
		return false, true
	}
	if s.ok(an.Rel{Op: token.ILLEGAL, X: v, Truth: false}) {
		return true, true
	}
	return false, false
}

// allCore: R != nil: R (an instruction of site.fn) is not reached after a non-conforming execution
// of S; R == nil: no return of site.fn after a non-conforming execution of S yields a result retIdx
// that may be true.
func allCore(site allSite, R ssa.Instruction, retIdx int) (bool, string) {
	fn := site.fn
	// candidate webs: each boolean phi used as a branch condition or returned, plus the empty web
	var cands []*ssa.Phi
	seenC := map[*ssa.Phi]bool{}
	add := func(v ssa.Value) {
		if ph, ok := v.(*ssa.Phi); ok && isBoolType(ph.Type()) && !seenC[ph] {
			seenC[ph] = true
			cands = append(cands, ph)
		}
	}
	an.Instrs(fn, func(in ssa.Instruction) {
		switch x := in.(type) {
		case *ssa.If:
			add(x.Cond)
			if u, ok := x.Cond.(*ssa.UnOp); ok && u.Op == token.NOT {
				add(u.X)
			}
		case *ssa.Return:
			if R == nil && retIdx < len(x.Results) {
				add(an.RetVal(x, retIdx))
			}
		}
	})
	var last string
	for _, flag := range append([]*ssa.Phi{nil}, cands...) {
		ok, why := allCoreWeb(site, R, retIdx, flag)
		if ok {
			return true, why
		}
		if flag != nil || last == "" {
			last = why
		}
	}
	return false, last
}

func allCoreWeb(site allSite, R ssa.Instruction, retIdx int, flag *ssa.Phi) (bool, string) {
	S := site.S
	var webList []*ssa.Phi
	web := map[*ssa.Phi]int{}
	pure := true
	var collect func(v ssa.Value)
	collect = func(v ssa.Value) {
		switch x := v.(type) {
		case *ssa.Phi:
			if _, ok := web[x]; ok {
				return
			}
			web[x] = len(webList)
			webList = append(webList, x)
			for _, e := range x.Edges {
				collect(e)
			}
		case *ssa.Const:
			if x.Value == nil {
				pure = false
			}
		default:
			if !site.evidence(v) {
				pure = false
			}
		}
	}
	if flag != nil {
		collect(flag)
		_ = pure // a leaf that is neither constant nor the site's verdict takes either value (see step)
		if len(webList) > 30 {
			return false, "flag web too large"
		}
	}
	type st struct {
		b     *ssa.BasicBlock
		mask  uint32
		phase int
	}
	full := uint32(0)
	for i := range webList {
		full |= 1 << uint(i)
	}
	valOf := func(v ssa.Value, mask uint32, phase int) (val bool, known bool) {
		switch x := v.(type) {
		case *ssa.Const:
			if x.Value != nil && isBoolType(x.Type()) {
				return x.Value.String() == "true", true
			}
		case *ssa.Phi:
			if i, ok := web[x]; ok {
				return mask&(1<<uint(i)) != 0, true
			}
		}
		if bv, isEv := site.badVal(v); isEv {
			if phase == 0 {
				return bv, true
			}
			return true, false // a later execution's verdict: unknown
		}
		return true, false
	}
	step := func(from, to *ssa.BasicBlock, mask uint32, phase int) []uint32 {
		outs := []uint32{mask}
		for _, in := range to.Instrs {
			ph, ok := in.(*ssa.Phi)
			if !ok {
				break
			}
			i, inWeb := web[ph]
			if !inWeb {
				continue
			}
			for k, pred := range to.Preds {
				if pred == from {
					v, known := valOf(ph.Edges[k], mask, phase)
					var next []uint32
					for _, n := range outs {
						if v || !known {
							next = append(next, n|1<<uint(i))
						}
						if !v || !known {
							next = append(next, n&^(1<<uint(i)))
						}
					}
					outs = next
				}
			}
		}
		return outs
	}
	hit := func(in ssa.Instruction, mask uint32, phase int) bool {
		if R != nil {
			return in == R
		}
		ret, ok := in.(*ssa.Return)
		if !ok || retIdx >= len(ret.Results) {
			return false
		}
		v, _ := valOf(an.RetVal(ret, retIdx), mask, phase)
		return v
	}
	scan := func(b *ssa.BasicBlock, from int, mask uint32, phase int) (bool, int) {
		for i := from; i < len(b.Instrs); i++ {
			if hit(b.Instrs[i], mask, phase) {
				return true, phase
			}
			if b.Instrs[i] == S {
				phase = 1
			}
		}
		return false, phase
	}
	sb := S.Block()
	si := 0
	for i, in := range sb.Instrs {
		if in == S {
			si = i + 1
		}
	}
	// the flags may hold any value when the non-conforming execution happens (true-is-good and
	// true-is-bad flags alike): every initial valuation is explored
	inits := []uint32{full}
	if len(webList) > 0 && len(webList) <= 6 {
		inits = inits[:0]
		for m := uint32(0); m <= full; m++ {
			inits = append(inits, m)
		}
	}
	for _, init := range inits {
		seen := map[st]bool{}
		var work []st
		push := func(b *ssa.BasicBlock, mask uint32, phase int) {
			for _, s := range b.Succs {
				if cnd, t, ok := an.EdgeCond(b, s); ok {
					if phase == 0 && an.EdgeHolds(b, s, site.ok) {
						continue
					}
					r := an.Normalize(cnd, t)
					if r.Op == token.ILLEGAL {
						if v, known := valOf(r.X, mask, phase); known && v != r.Truth {
							continue // the branch contradicts the tracked value
						}
					}
				}
				for _, nm := range step(b, s, mask, phase) {
					n := st{s, nm, phase}
					if !seen[n] {
						seen[n] = true
						work = append(work, n)
					}
				}
			}
		}
		if h, _ := scan(sb, si, init, 0); h {
			return false, "an element that did not satisfy the condition reaches the guarded site directly"
		}
		push(sb, init, 0)
		for len(work) > 0 {
			cur := work[len(work)-1]
			work = work[:len(work)-1]
			h, nphase := scan(cur.b, 0, cur.mask, cur.phase)
			if h {
				if cur.phase == 0 {
					return false, "an element that did not satisfy the condition leaves the verdict true"
				}
				return false, "the verdict can become true again after a non-conforming element was examined"
			}
			push(cur.b, cur.mask, nphase)
		}
	}
	return true, fmt.Sprintf("%s: every non-conforming execution clears the verdict (%d flag phi(s)) and nothing sets it again", an.FnName(site.fn), len(webList))
}

// allChain: R (an instruction of root) is reached only if every execution of the site - which may
// lie in a private helper of root - conformed.  fam is root's family.
func allChain(p *an.Prog, root *ssa.Function, fam []*ssa.Function, R ssa.Instruction, site allSite, depth int) (bool, string) {
	if site.fn == root {
		return allCore(site, R, 0)
	}
	if depth > 3 {
		return false, "helper chain too deep"
	}
	inFam := map[*ssa.Function]bool{}
	for _, f := range fam {
		inFam[f] = true
	}
	h := site.fn
	res := h.Signature.Results()
	why := "helper " + an.FnName(h) + " has no boolean result that reports the verdict"
	for idx := 0; idx < res.Len(); idx++ {
		if !isBoolType(res.At(idx).Type()) {
			continue
		}
		ok, w := allCore(site, nil, idx)
		if !ok {
			why = an.FnName(h) + ": " + w
			continue
		}
		// every call of the helper inside the family is a site one level up
		n := 0
		all := true
		for _, g := range fam {
			for _, call := range callsTo(g, h) {
				cv := call.Value()
				if cv == nil {
					return false, an.FnName(h) + " is started with go/defer; its verdict is lost"
				}
				n++
				idx := idx
				single := res.Len() == 1
				sub := allSite{fn: call.Parent(), S: call.(ssa.Instruction), desc: "call of " + an.FnName(h),
					ok: func(r an.Rel) bool {
						if r.Op != token.ILLEGAL || !r.Truth {
							return false
						}
						if single {
							return r.X == ssa.Value(cv)
						}
						ex, isEx := r.X.(*ssa.Extract)
						return isEx && ex.Tuple == ssa.Value(cv) && ex.Index == idx
					}}
				if !inFam[sub.fn] && sub.fn.Parent() != nil {
					// a closure inside a family member: not followed
					return false, "call of " + an.FnName(h) + " inside a closure"
				}
				ok2, w2 := allChain(p, root, fam, R, sub, depth+1)
				if !ok2 {
					all = false
					why = w2
				} else {
					w = w + "; " + w2
				}
			}
		}
		if n > 0 && all {
			return true, w
		}
		if n == 0 {
			why = "no call of " + an.FnName(h) + " found in the family"
		}
	}
	return false, why
}
