package props

import (
	"fmt"
	"go/token"
	"go/types"
	"strings"

	"mrocheck/an"

	"golang.org/x/tools/go/ssa"
)

// T3: wrapping a type in a map.  A TypeId is turned into "map of <it>" by the idiom
//
//	id.MapDim = id.ArrayDim + 1 ; id.ArrayDim = 0
//
// which overwrites MapDim.  Applied to a TypeId that already is a map this silently drops a
// dimension (map<map<T>> collapses to map<T>), so a value of the wrong shape type-checks.
// Necessary condition: between the last definition of the struct whose MapDim is not known to be
// zero and the overwrite, the code crosses a test MapDim == 0 of that same struct.
// Sites are found by shape (store to TypeId.MapDim of load(TypeId.ArrayDim of the same base)+1).
func ruleT3(c *an.Ctx) {
	p := c.P
	mapDim := p.Field(pkgSyntax, "TypeId", "MapDim")
	arrDim := p.Field(pkgSyntax, "TypeId", "ArrayDim")
	if mapDim == nil || arrDim == nil {
		c.Undecided("T3", "anchor(TypeId.MapDim)", token.NoPos, "field not found")
		return
	}
	n := 0
	var fns []*ssa.Function
	for _, pk := range []string{pkgSyntax, "martian/syntax/ast_builder", pkgCore} {
		fns = append(fns, p.FuncsOf(pk)...)
	}
	for _, fn := range fns {
		for _, st := range an.StoresToField(fn, mapDim) {
			if st.Parent() != fn {
				continue
			}
			base, _ := an.FieldOfAddr(st.Addr)
			bin, ok := st.Val.(*ssa.BinOp)
			if !ok || bin.Op != token.ADD {
				continue
			}
			isWrap := func(x, y ssa.Value) bool {
				b2, f := an.FieldLoad(an.Strip(x))
				return f == arrDim && b2 == base && an.IsIntConst(y, 1)
			}
			if !isWrap(bin.X, bin.Y) && !isWrap(bin.Y, bin.X) {
				continue
			}
			n++
			key := "map-wrap-guarded@" + an.FnName(fn)
			zeroTest := func(from, to *ssa.BasicBlock) bool {
				return an.EdgeHolds(from, to, func(r an.Rel) bool {
					chk := func(x, y ssa.Value, op token.Token) bool {
						b2, f := an.FieldLoad(an.Strip(x))
						if f != mapDim || b2 != base || !an.IsIntConst(y, 0) {
							return false
						}
						return op == token.EQL || op == token.LEQ
					}
					f := r.Flip()
					return chk(r.X, r.Y, r.Op) || chk(f.X, f.Y, f.Op)
				})
			}
			// definitions after which MapDim of base is not known to be zero
			var defs []ssa.Instruction
			entryUnknown := false
			if _, isAlloc := base.(*ssa.Alloc); !isAlloc {
				entryUnknown = true
			}
			an.Instrs(fn, func(in ssa.Instruction) {
				switch x := in.(type) {
				case *ssa.Store:
					if x == st {
						return
					}
					if x.Addr == base {
						defs = append(defs, x)
					} else if b2, f := an.FieldOfAddr(x.Addr); f == mapDim && b2 == base && !an.IsIntConst(x.Val, 0) {
						defs = append(defs, x)
					}
				case ssa.CallInstruction:
					for _, a := range x.Common().Args {
						if a == base {
							defs = append(defs, x)
						}
					}
				}
			})
			var w *an.Witness
			var from string
			target := func(in ssa.Instruction) bool { return in == ssa.Instruction(st) }
			if entryUnknown {
				if w = (an.Query{Fn: fn, Target: target, BarrierEdge: zeroTest}).Find(); w != nil {
					from = "function entry"
				}
			}
			for _, d := range defs {
				if w != nil {
					break
				}
				if w = (an.Query{Fn: fn, After: d, Target: target, BarrierEdge: zeroTest}).Find(); w != nil {
					from = "the definition at " + p.Pos(d.Pos())
				}
			}
			c.Check("T3", key, st.Pos(), w == nil,
				fmt.Sprintf("MapDim is overwritten with ArrayDim+1 (wrap in a map); on every path from a definition of the type id (%d found) the test MapDim == 0 of the same value must be crossed, otherwise a map of maps collapses to a map and an ill-typed binding is accepted; unguarded from %s %s", len(defs), from, c.WitnessString(w)))
		}
	}
	c.Floor("T3", "wrap-in-map sites (MapDim = ArrayDim + 1)", n, 1)
}

// T4: a merge whose element count is only known at run time is never a constant.  The runtime
// (TopNode.resolve) hands an expression to the stage verbatim when neither HasRef() nor HasSplit()
// holds; a MergeExp over a source of unknown length with a constant value and no fork node would be
// serialised as an expression object instead of the array / map the parameter type demands.
// Necessary condition: (*MergeExp).HasRef may return the value's own HasRef() only on paths where
// KnownLength() of the merge source was tested and true; all other returns are the constant true.
func ruleT4(c *an.Ctx) {
	fn := c.NeedFunc(pkgSyntax, "(*MergeExp).HasRef")
	if fn == nil {
		return
	}
	n := 0
	an.Instrs(fn, func(in ssa.Instruction) {
		ret, ok := in.(*ssa.Return)
		if !ok || len(ret.Results) != 1 {
			return
		}
		v := an.RetVal(ret, 0)
		var vals []ssa.Value
		if phi, ok := v.(*ssa.Phi); ok {
			vals = append(vals, phi.Edges...)
		} else {
			vals = []ssa.Value{v}
		}
		for i, e := range vals {
			if cv, isC := an.ConstVal(e); isC && cv.String() == "true" {
				continue
			}
			n++
			// the instruction whose dominance is tested: the definition of e if it is an instruction, else the return
			site := ssa.Instruction(ret)
			if ei, ok := e.(ssa.Instruction); ok {
				site = ei
			}
			g, w := an.GuardedBy(site, func(r an.Rel) bool {
				if r.Op != token.ILLEGAL || !r.Truth {
					return false
				}
				call, ok := r.X.(*ssa.Call)
				if !ok {
					return false
				}
				name := ""
				if call.Call.IsInvoke() {
					name = call.Call.Method.Name()
				} else if f := call.Call.StaticCallee(); f != nil {
					name = f.Name()
				}
				return name == "KnownLength"
			})
			c.Check("T4", fmt.Sprintf("merge-of-unknown-length-has-ref(result %d)@(*MergeExp).HasRef", i), site.Pos(), g,
				"HasRef may delegate to the merged value only where KnownLength() was tested and true: the runtime passes an expression without references to the stage verbatim, so a merge over a run-time length with a constant value would reach the stage as an expression object, not as the array/map its type demands; "+c.WitnessString(w))
		}
	})
	c.Floor("T4", "non-constant results of (*MergeExp).HasRef", n, 1)
}

// T5: unwrapping a map.  In a TypeId the array dimension is the outer one (`map<int>[]` is
// {ArrayDim:1, MapDim:1}): the element type of a collection is obtained by peeling ArrayDim first
// and only a TypeId without array dimension is turned into its map value type by the idiom
//
//	id.ArrayDim = id.MapDim - 1 ; id.MapDim = 0
//
// which overwrites ArrayDim.  Applied while ArrayDim > 0 it drops the outer array: the element of
// `map<int>[]` becomes `int` and `split` of such a value type-checks against the wrong parameter type.
// Necessary condition: every store of (load of TypeId.MapDim) - 1 into a TypeId.ArrayDim field is
// dominated - in its function, or at every call of a private helper - by a test that a
// TypeId.ArrayDim is zero (== 0, <= 0, < 1, or the false edge of > 0 / != 0).
func ruleT5(c *an.Ctx) {
	p := c.P
	arr := p.Field(pkgSyntax, "TypeId", "ArrayDim")
	mp := p.Field(pkgSyntax, "TypeId", "MapDim")
	if arr == nil || mp == nil {
		c.Undecided("T5", "anchor(TypeId.ArrayDim, TypeId.MapDim)", token.NoPos, "field not found")
		return
	}
	zero := func(r an.Rel) bool {
		if !an.LoadsField(r.X, arr) {
			return false
		}
		switch r.Op {
		case token.EQL, token.LEQ:
			return an.IsIntConst(r.Y, 0)
		case token.LSS:
			return an.IsIntConst(r.Y, 1)
		}
		return false
	}
	n := 0
	for _, fn := range p.FuncsOf(pkgSyntax) {
		for _, st := range an.StoresToField(fn, arr) {
			b, ok := an.Strip(st.Val).(*ssa.BinOp)
			if !ok || b.Op != token.SUB || !an.LoadsField(b.X, mp) || !an.IsIntConst(b.Y, 1) {
				continue
			}
			n++
			g := guardedInFamily(p, familyOf(p, an.Outermost(st.Parent()), 2), st, zero, 0)
			if !g {
				// the site may sit in a helper shared by several callers: every call must be guarded
				g = guardedAtAllCalls(p, st.Parent(), zero, 0)
			}
			c.Check("T5", "map-unwrapped-only-without-array-dimension@"+an.FnName(st.Parent()), st.Pos(), g,
				"ArrayDim is overwritten with MapDim-1 (the map's value type) without a preceding test that the type has no array dimension left: the outer array of map<T>[] is dropped and its element is taken to be T")
		}
	}
	c.Floor("T5", "stores of MapDim-1 into TypeId.ArrayDim in package syntax", n, 1)
}

// guardedAtAllCalls: fn has callers and every static call of fn in the program is dominated by an
// edge satisfying pred (in the caller, recursively for depth 2).
func guardedAtAllCalls(p *an.Prog, fn *ssa.Function, pred func(an.Rel) bool, d int) bool {
	if fn == nil || d > 2 {
		return false
	}
	n := 0
	for caller, sites := range p.Callers(fn) {
		for _, s := range sites {
			n++
			if g, _ := an.GuardedBy(s, pred); g {
				continue
			}
			if caller == fn || !guardedAtAllCalls(p, caller, pred, d+1) {
				return false
			}
		}
	}
	return n > 0
}

// T6: the compile order is computed before the binding tables exist.  (*Pipeline).compile sorts
// the calls topologically (so that the type of a mapped call's output is known when a later call
// refers to it) and only afterwards compiles the call bindings, which is what fills
// BindStms.Table.  Code that runs as part of the sort must therefore find bindings through
// BindStms.List; a look-up in Table sees an empty map, the dependency edge is dropped silently
// and a reference to a later-declared mapped call is typed with the parser's placeholder
// (ill-typed `disabled = LATER.out` is accepted).
//
// The premise is re-established on every run: in every function that calls the sort and also
// (transitively) a function storing BindStms.Table, the sort comes first on all paths.  If the
// premise does not hold (the phases were reordered) the rule says nothing.
func ruleT6(c *an.Ctx) {
	p := c.P
	table := p.Field(pkgSyntax, "BindStms", "Table")
	sortFn := p.Func(pkgSyntax, "(*Pipeline).topoSort")
	if table == nil || sortFn == nil {
		c.Info("T6", "anchor", token.NoPos, "BindStms.Table or (*Pipeline).topoSort not found: not decided")
		return
	}
	fns := p.FuncsOf(pkgSyntax)
	// functions that (transitively, static calls inside the package) store BindStms.Table
	stores := map[*ssa.Function]bool{}
	for _, fn := range fns {
		for _, g := range an.WithAnon(fn) {
			if len(an.StoresToField(g, table)) > 0 {
				stores[fn] = true
			}
		}
	}
	reach := func(root *ssa.Function, depth int) map[*ssa.Function]bool {
		seen := map[*ssa.Function]bool{}
		var rec func(f *ssa.Function, d int)
		rec = func(f *ssa.Function, d int) {
			if f == nil || seen[f] || f.Blocks == nil || f.Pkg != root.Pkg || d > depth {
				return
			}
			seen[f] = true
			for _, g := range an.WithAnon(f) {
				seen[g] = true
				an.Instrs(g, func(in ssa.Instruction) {
					if cl := an.AsCallAny(in); cl != nil {
						rec(cl.Common().StaticCallee(), d+1)
					}
				})
			}
		}
		rec(root, 0)
		return seen
	}
	mayStore := func(f *ssa.Function) bool {
		for g := range reach(f, 6) {
			if stores[an.Outermost(g)] {
				return true
			}
		}
		return false
	}
	// premise
	premise, drivers := true, 0
	for caller, sites := range p.Callers(sortFn) {
		if caller.Pkg != sortFn.Pkg {
			continue
		}
		var storing []ssa.Instruction
		an.Instrs(caller, func(in ssa.Instruction) {
			if cl := an.AsCallAny(in); cl != nil {
				if f := cl.Common().StaticCallee(); f != nil && f != sortFn && f.Pkg == sortFn.Pkg && mayStore(f) {
					storing = append(storing, in)
				}
			}
		})
		if len(storing) == 0 {
			continue
		}
		drivers++
		for _, site := range sites {
			si, _ := site.(ssa.Instruction)
			// no path from entry to the sort passes a storing call
			before := false
			for _, st := range storing {
				st := st
				if an.Reachable(caller, st, func(in ssa.Instruction) bool { return in == si }) {
					before = true
				}
			}
			if before {
				premise = false
			}
		}
	}
	if !premise || drivers == 0 {
		c.Info("T6", "premise(sort-before-binding-tables)", token.NoPos, "the sort no longer precedes the compilation of the bindings in its caller: rule not applicable")
		return
	}
	n := 0
	for g := range reach(sortFn, 6) {
		for _, acc := range an.FieldAccesses(g, table) {
			if fa, ok := acc.(*ssa.FieldAddr); ok {
				read := false
				for _, r := range an.Referrers(fa) {
					if st, isStore := r.(*ssa.Store); isStore && st.Addr == ssa.Value(fa) {
						continue
					}
					read = true
				}
				if !read {
					continue
				}
			}
			n++
			c.Fail("T6", "binding-table-read-before-built@"+an.FnName(g), acc.Pos(),
				"BindStms.Table is read by code that runs as part of the topological sort of a pipeline's calls, which (*Pipeline).compile performs before any call's bindings are compiled: the table is still empty, the look-up finds nothing and the dependency it stands for is dropped (bindings must be found through BindStms.List here)")
		}
	}
	if n == 0 {
		c.Pass("T6", "binding-tables-not-read-during-sort@(*Pipeline).topoSort", sortFn.Pos(),
			fmt.Sprintf("no function reachable from the sort reads BindStms.Table; premise holds in %d caller(s): the sort precedes every call that builds the tables", drivers))
	}
}

// T7 / Q11: the in-place topological sort re-examines the slot it just filled.  Pipeline.topoSort
// keeps a prefix of pipeline.Calls sorted; when the call at the current index depends on a later
// call it is moved down (the slice section is shifted with copy and the call re-inserted) and a
// DIFFERENT call now sits at the current index, which has not been examined yet.  Advancing the
// index on that path skips it: a call can stay ahead of one it depends on, so (C07) a reference to
// a later-declared mapped call is typed with the parser's placeholder and (C09) the formatter's
// output is not in dependency order and not a fixed point.
// Rule: in the loop of topoSort (or a private helper) that contains the shifting copy(), the back
// edge taken after the copy does not carry index+1 into the loop's index phi.
func ruleTopoIndex(c *an.Ctx, rule string) {
	p := c.P
	ts := c.NeedFunc(pkgSyntax, "(*Pipeline).topoSort")
	if ts == nil {
		return
	}
	n := 0
	for _, fn := range familyOf(p, ts, 2) {
		for hd, body := range naturalLoops(fn) {
			// the shifting copy, directly in this loop (not in an inner loop's own body only)
			var copies []ssa.Instruction
			for b := range body {
				for _, in := range b.Instrs {
					if v, ok := in.(ssa.Value); ok {
						if _, isCopy := an.IsBuiltinCall(v, "copy"); isCopy {
							copies = append(copies, in)
						}
					}
				}
			}
			if len(copies) == 0 {
				continue
			}
			for _, in := range hd.Instrs {
				phi, ok := in.(*ssa.Phi)
				if !ok {
					break
				}
				if b, isB := phi.Type().Underlying().(*types.Basic); !isB || b.Info()&types.IsInteger == 0 {
					continue
				}
				for i, pred := range hd.Preds {
					if !body[pred] {
						continue
					}
					inc, isInc := phi.Edges[i].(*ssa.BinOp)
					if !isInc || inc.Op != token.ADD || !((inc.X == ssa.Value(phi) && an.IsIntConst(inc.Y, 1)) || (inc.Y == ssa.Value(phi) && an.IsIntConst(inc.X, 1))) {
						continue
					}
					// is this incrementing back edge reachable from the copy without passing the header?
					for _, cp := range copies {
						n++
						last := pred.Instrs[len(pred.Instrs)-1]
						w := an.Query{Fn: fn, After: cp, Target: func(x ssa.Instruction) bool { return x == last },
							BarrierEdge: func(from, to *ssa.BasicBlock) bool { return to == hd || !body[to] }}.Find()
						reach := w != nil || cp.Block() == pred
						c.Check(rule, "slot-refilled-by-a-move-is-examined-again@"+an.FnName(fn), cp.Pos(), !reach,
							"after a call has been moved down (the copy that shifts the slice), the loop index is incremented before the next iteration: the call that was shifted into the current slot is never examined and can stay ahead of a call it depends on")
					}
				}
			}
		}
	}
	if n == 0 {
		c.Pass(rule, "no-incrementing-back-edge-after-the-shift@(*Pipeline).topoSort", ts.Pos(), "no back edge that increments an index is reachable from a shifting copy (or the sort no longer shifts in place)")
	}
}

// T8: merging the sources of a mapped call keeps what is known about the length.  The compiler
// rejects "inconsistent split collections" by comparing the statically known lengths / key sets
// of every source a call is mapped over; the knowledge is carried by the set that survives
// MergeMapCallSources (MapCallSet.Master).  Necessary condition: wherever the merge hands back a
// set (a *MapCallSet obtained by type assertion from an operand, or a freshly built one) and
// neither operand is of still-unknown mode, KnownLength() is consulted between the point where
// that set was obtained and the return - directly or in a helper.  A survivor chosen without
// looking (by size, by position) can be the one without a known length, and every later
// comparison is skipped.
func ruleT8(c *an.Ctx) {
	p := c.P
	fn := c.NeedFunc(pkgSyntax, "MergeMapCallSources")
	set := p.Named(pkgSyntax, "MapCallSet")
	unknown := p.Const(pkgSyntax, "ModeUnknownMapCall")
	if fn == nil || set == nil || unknown == nil {
		c.Undecided("T8", "anchor(MergeMapCallSources/MapCallSet/ModeUnknownMapCall)", token.NoPos, "not found")
		return
	}
	isSetPtr := func(t types.Type) bool {
		pt, ok := t.(*types.Pointer)
		return ok && types.Identical(pt.Elem(), set)
	}
	isKL := func(in ssa.Instruction) bool {
		cl := an.AsCallAny(in)
		if cl == nil {
			return false
		}
		cc := cl.Common()
		if cc.IsInvoke() {
			return cc.Method.Name() == "KnownLength"
		}
		g := cc.StaticCallee()
		if g == nil {
			return false
		}
		if g.Name() == "KnownLength" && g.Signature.Recv() != nil {
			return true
		}
		// a helper of the package that consults it
		if g.Pkg == fn.Pkg && g != fn {
			return an.MayDo(g, func(x ssa.Instruction) bool {
				if c2 := an.AsCallAny(x); c2 != nil {
					if c2.Common().IsInvoke() {
						return c2.Common().Method.Name() == "KnownLength"
					}
					if h := c2.Common().StaticCallee(); h != nil {
						return h.Name() == "KnownLength" && h.Signature.Recv() != nil
					}
				}
				return false
			}, 2)
		}
		return false
	}
	unknownMode := func(r an.Rel) bool {
		if r.Op != token.EQL {
			return false
		}
		chk := func(x, y ssa.Value) bool {
			cl, ok := an.Strip(x).(*ssa.Call)
			if !ok {
				return false
			}
			cc := cl.Common()
			name := ""
			if cc.IsInvoke() {
				name = cc.Method.Name()
			} else if g := cc.StaticCallee(); g != nil {
				name = g.Name()
			}
			return name == "CallMode" && an.IsConst(y, unknown)
		}
		return chk(r.X, r.Y) || chk(r.Y, r.X)
	}
	n := 0
	for _, g := range an.WithAnon(fn) {
		for _, b := range g.Blocks {
			if len(b.Instrs) == 0 {
				continue
			}
			ret, ok := b.Instrs[len(b.Instrs)-1].(*ssa.Return)
			if !ok || len(ret.Results) != 2 || !an.IsNil(an.RetVal(ret, 1)) {
				continue
			}
			v := an.RetVal(ret, 0)
			if mi, ok := v.(*ssa.MakeInterface); ok {
				v = mi.X
			}
			// where the returned set was obtained (through phis: any of the candidates)
			var origins []ssa.Instruction
			seenV := map[ssa.Value]bool{}
			var find func(v ssa.Value)
			find = func(v ssa.Value) {
				if seenV[v] {
					return
				}
				seenV[v] = true
				switch x := v.(type) {
				case *ssa.Phi:
					for _, e := range x.Edges {
						find(e)
					}
				case *ssa.Extract:
					if ta, ok := x.Tuple.(*ssa.TypeAssert); ok && x.Index == 0 && isSetPtr(ta.AssertedType) {
						origins = append(origins, ta)
					}
				case *ssa.TypeAssert:
					if isSetPtr(x.AssertedType) {
						origins = append(origins, x)
					}
				case *ssa.Alloc:
					if isSetPtr(x.Type()) {
						origins = append(origins, x)
					}
				}
			}
			find(v)
			if len(origins) == 0 {
				continue
			}
			if ok, _ := an.GuardedBy(ret, unknownMode); ok {
				continue
			}
			n++
			var w *an.Witness
			for _, origin := range origins {
				if w = (an.Query{Fn: g, After: origin, Target: func(x ssa.Instruction) bool { return x == ssa.Instruction(ret) }, Barrier: isKL}).Find(); w != nil {
					break
				}
			}
			c.Check("T8", fmt.Sprintf("surviving-set-chosen-by-known-length(%s)@%s", t8name(v), an.FnName(g)), ret.Pos(), w == nil,
				"a merged source set is handed back on a path that never asked KnownLength() after obtaining it: the survivor can be the set without a statically known length, the known length of the other is forgotten, and split collections of provably different lengths are accepted"+c.WitnessString(w))
		}
	}
	c.Floor("T8", "returns of a merged set outside the unknown-mode branches", n, 3)
}

func t8name(v ssa.Value) string {
	if _, ok := v.(*ssa.Phi); ok {
		return "one-of-several"
	}
	return an.Path(v)
}

// T9: a split changes the dimension of the type its value is checked against.  SplitExp.FindTypedRefs
// receives the type of ONE element; the collection the split ranges over has one more array or map
// dimension (or, for a reference, the arm strips it from the reference's own type).  Every arm
// derives the type for the value from t - GetMap, GetArray, AddDim, a decremented TypeId - before
// it delegates.  An arm that hands t itself to the value's FindTypedRefs checks a collection
// against its element type: `split` over a map or array literal that comes out of a disabled
// pipeline is accepted by the compiler and then refused ("unexpected map (expected int)") when the
// call graph is built.
func ruleT9(c *an.Ctx) {
	fn := c.NeedFunc(pkgSyntax, "(*SplitExp).FindTypedRefs")
	if fn == nil || len(fn.Params) < 3 {
		return
	}
	t := fn.Params[2]
	n := 0
	an.Instrs(fn, func(in ssa.Instruction) {
		cl, ok := in.(*ssa.Call)
		if !ok {
			return
		}
		var typeArg ssa.Value
		arm := ""
		if cl.Call.IsInvoke() {
			if cl.Call.Method.Name() != "FindTypedRefs" || len(cl.Call.Args) < 2 {
				return
			}
			typeArg = cl.Call.Args[1]
			arm = an.Path(cl.Call.Value)
		} else {
			f := cl.Call.StaticCallee()
			if f == nil || f.Name() != "FindTypedRefs" || len(cl.Call.Args) < 3 {
				return
			}
			if f == fn {
				return // a split handed to a split adds the dimension itself
			}
			typeArg = cl.Call.Args[2]
			arm = an.Path(cl.Call.Args[0])
		}
		n++
		raw := an.Strip(typeArg) == ssa.Value(t)
		// name the arm by the expression kind it handles, not by how the value is spelled
		if i := strings.Index(arm, ".(*"); i >= 0 {
			rest := arm[i+3:]
			if j := strings.IndexByte(rest, ')'); j > 0 {
				arm = rest[:j]
			}
		}
		c.Check("T9", "split-value-checked-against-collection-type("+arm+")@(*SplitExp).FindTypedRefs", in.Pos(), !raw,
			"the element type of the split is handed unchanged to the FindTypedRefs of the value the split ranges over: the collection is checked against the type of one element, so a program the compiler accepted (split over a map or array literal behind a disabled pipeline) is refused when its call graph is built")
	})
	c.Floor("T9", "delegations of SplitExp.FindTypedRefs to a value", n, 2)
}
