package props

func init() {
	Mutants = append(Mutants,
		Mutant{Name: "c11-replacer-drops-slash", Property: "C11", File: "martian/core/stage.go",
			Old: "strings.NewReplacer(\"%\", \"%25\", \".\", \"%2E\", \"/\", \"%2F\")", New: "strings.NewReplacer(\"%\", \"%25\", \".\", \"%2E\")", Expect: "J1"},
		Mutant{Name: "c11-replacer-ambiguous", Property: "C11", File: "martian/core/stage.go",
			Old: "strings.NewReplacer(\"%\", \"%25\", \".\", \"%2E\", \"/\", \"%2F\")", New: "strings.NewReplacer(\"%\", \"%25\", \".\", \"_\", \"/\", \"%2F\")", Expect: "J1"},
		Mutant{Name: "c11-uniquifier-width", Property: "C11", File: "martian/core/metadata.go",
			Old: "fmt.Sprintf(\"%04x%06x\", pid, trimmedTime)", New: "fmt.Sprintf(\"%04x%07x\", pid, trimmedTime)", Expect: "J1"},
		Mutant{Name: "c11-uniquifier-unmasked-pid", Property: "C11", File: "martian/core/metadata.go",
			Old: "fmt.Sprintf(\"%04x%06x\", pid, trimmedTime)", New: "fmt.Sprintf(\"%04x%06x\", os.Getpid(), trimmedTime)", Expect: "J1"},
		Mutant{Name: "c11-raw-key-in-nested-id", Property: "C11", File: "martian/core/fork.go",
			Old: "\t\t\t\twriteSafeKey(buf, part.Id.MapKey())\n", New: "\t\t\t\tbuf.WriteString(part.Id.MapKey())\n", Expect: "J2"},
		Mutant{Name: "c11-fqname-unencoded", Property: "C11", File: "martian/core/stage.go",
			Old: "self.fqname = self.node.call.GetFqid() + \".\" + encodeJournalName.Replace(self.id)", New: "self.fqname = self.node.call.GetFqid() + \".\" + self.id", Expect: "J2"},
		Mutant{Name: "c11-journal-without-uniquifier", Property: "C11", File: "martian/core/metadata.go",
			Old: "\t} else {\n\t\treturn p + \".u\" + self.uniquifier\n\t}", New: "\t} else if len(self.journalPrefix) > 0 {\n\t\treturn p\n\t} else {\n\t\treturn p + \".u\" + self.uniquifier\n\t}", Expect: "J3"},
		Mutant{Name: "c11-unknown-chunk-goes-to-fork", Property: "C11", File: "martian/core/node.go",
			Old: "\t\t\t\t\t} else {\n\t\t\t\t\t\tutil.LogInfo(\"runtime\",\n\t\t\t\t\t\t\t\"WARNING: Journal update for unknown chunk %s.fork%s.chnk%d\",\n\t\t\t\t\t\t\tfqname, forkIndex, chunkIndex)\n\t\t\t\t\t}", New: "\t\t\t\t\t} else {\n\t\t\t\t\t\tfork.getChunk(0).updateState(MetadataFileName(state), uniquifier)\n\t\t\t\t\t}", Expect: "J4"},
		Mutant{Name: "c11-fork-prefix-match", Property: "C11", File: "martian/core/node.go",
			Old: "if len(f.fqname) > l && f.fqname[l:] == index {", New: "if len(f.fqname) > l && strings.HasPrefix(f.fqname[l:], index) {", Expect: "J4"},
		Mutant{Name: "c11-fork-index-unchecked", Property: "C11", File: "martian/core/node.go",
			Old: "if err == nil && i >= 0 && i < len(self.forks) {", New: "if err == nil && i >= 0 && i <= len(self.forks)-1+len(index)/8 {", Expect: "J4"},
		Mutant{Name: "c11-chunk-name-unpadded", Property: "C11", File: "martian/core/stage.go",
			Old: "chnkNum := fmt.Sprintf(\"chnk%0*d\",\n\t\tchunkIndexWidth, index)", New: "chnkNum := fmt.Sprintf(\"chnk-%0*d\",\n\t\tchunkIndexWidth, index)", Expect: "J1"},
	)
}
