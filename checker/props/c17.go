package props

import (
	"fmt"
	"go/token"
	"go/types"
	"sort"
	"strings"

	"mrocheck/an"

	"golang.org/x/tools/go/ssa"
)

func init() {
	Registry["C17"] = Entry{
		Run: runC17,
		Explanation: "Decides structural necessary conditions of 'JSON validation and filtering agree with the type system' (partial claim): " +
			"N1 null is accepted everywhere: every implementation of Type.IsValidJson returns nil, and every implementation of Type.FilterJson returns its input unchanged with no error, on the edge isNullBytes(data), and that test dominates every other effect of the method (siblings must agree), " +
			"N2 component-wise assignability: in every IsAssignableFrom / CheckEqual implementation each recursive pairing takes the same component of the receiver and of the argument (operand symmetry), " +
			"N3 identity fast path: a FilterJson that rebuilds JSON returns the original bytes when nothing changed, and the 'different' flag is raised on every edge where a component's filtered bytes are not the input slice, " +
			"N4 decoded strings (member names) are written into rebuilt JSON only through an encoder, on the error edge of json.Marshal of the same string, or under guards excluding '\"', '\\' and all control characters, " +
			"N5 a rebuilding FilterJson returns the original bytes only if no component changed: after a component filter whose result is not the input slice (sameSlice false, or a helper's changed signal) no path reaches a return of the data parameter, whatever the flag held before (all-elements engine). " +
			"N6 validators and filters decode each value as the kind they test for (no json.Number, no interface{} destination); N7 StructType.IsAssignableFrom refuses on differing map dimensions only after the member types refused. " +
			"N8 every iteration over a struct's members in an IsAssignableFrom implementation applies the relation, records a failure or found the TypeIds equal; N9 no return after a FilterJson call in package core hands back the call's input. " +
			"N10 in the projection family a reader of ArrayType.Elem also reads ArrayType.Dim. " +
			"N11 memo-key completeness for members skipped in a type relation (the key determines what the skipped check depends on). " +
			"N12 the int arm of BuiltinType.IsValidJson returns no constant nil; N13 the float fallback of the int filter is dominated by a test of the literal's text. " +
			"NOT decided: idempotence, validity of the rebuilt JSON, int/float normalisation - all value-level.",
		Assumptions: commonAssumptions,
	}
	Registry["C07"] = Entry{
		Run: runC07,
		Explanation: "Decides structural necessary conditions of 'accepted programs are type-safe; ill-typed bindings are rejected' (thin claim): " +
			"T1 assignability and type equality recurse on the right operands (operand symmetry over every IsAssignableFrom / CheckEqual implementation), " +
			"T2 in every implementation of Type.IsValidExpression the reference arm returns nil only after resolveType succeeded and IsAssignableFrom(receiver, resolved type) succeeded (sibling agreement over all implementations), and the split / disabled arms delegate, " +
			"T3 wherever a type id is wrapped in a map (MapDim = ArrayDim + 1, found by shape) the test MapDim == 0 of the same value is crossed after its last definition (no silent map<map> collapse), " +
			"T4 (*MergeExp).HasRef delegates to the merged value only under a true KnownLength() test (a merge over a run-time length is never handed to a stage as a constant), " +
			"T5 wherever a typed map is turned into its value type (ArrayDim = MapDim - 1, found by shape, package syntax) a test that the type has no array dimension left dominates the store, in the function or at every call of it (the array dimension is the outer one: the element of map<T>[] is map<T>, not T). " +
			"T6 no function reachable from Pipeline.topoSort reads BindStms.Table (the sort runs before the binding tables are built; premise re-established on every run). " +
			"T7 the in-place topological sort re-examines the slot it filled by shifting; T8 MergeMapCallSources consults KnownLength() between obtaining a source set and handing it back as the survivor. " +
			"T9 no arm of SplitExp.FindTypedRefs hands the element type unchanged to the value's FindTypedRefs (one known finding: the DisabledExp arm); T10 (= N8) every struct member is checked. " +
			"T11 memo-key completeness for skipped members; T12 no ArrayDim test sits only in the not-a-map arm of a MapDim test on the same type (the outer dimension is examined first). " +
			"T13 every expanded wildcard binding is compiled on every path before it joins the binding list. " +
			"T14 every nil return of BindStms.compile has entered the loop that looks the parameters up in the binding table. " +
			"NOT decided: soundness of the whole relation, projection, array dimensions, error locations: this decides a few mechanisms, not the property's behaviour.",
		Assumptions: commonAssumptions,
	}
}

// typeImpls returns the implementations of interface syntax.Type's method `name`.
func typeImpls(c *an.Ctx, name string) []*ssa.Function {
	p := c.P
	tn := p.Named(pkgSyntax, "Type")
	if tn == nil {
		c.Undecided("anchor", "syntax.Type", token.NoPos, "interface not found")
		return nil
	}
	iface := tn.Underlying().(*types.Interface)
	var out []*ssa.Function
	seen := map[*ssa.Function]bool{}
	sc := p.Pkg(pkgSyntax).Types.Scope()
	for _, n := range sc.Names() {
		t, ok := sc.Lookup(n).(*types.TypeName)
		if !ok {
			continue
		}
		if _, isI := t.Type().Underlying().(*types.Interface); isI {
			continue
		}
		for _, T := range []types.Type{t.Type(), types.NewPointer(t.Type())} {
			if !types.Implements(T, iface) {
				continue
			}
			ms := p.SSA.MethodSets.MethodSet(T)
			if sel := ms.Lookup(p.Pkg(pkgSyntax).Types, name); sel != nil {
				if f := p.SSA.MethodValue(sel); f != nil && f.Synthetic == "" && !seen[f] {
					seen[f] = true
					out = append(out, f)
				}
			} else if sel := ms.Lookup(nil, name); sel != nil {
				if f := p.SSA.MethodValue(sel); f != nil && f.Synthetic == "" && !seen[f] {
					seen[f] = true
					out = append(out, f)
				}
			}
			break
		}
	}
	sort.Slice(out, func(i, j int) bool { return out[i].String() < out[j].String() })
	return out
}

func isNullTest(v ssa.Value, data ssa.Value) bool {
	cl, ok := v.(*ssa.Call)
	if !ok || cl.Call.StaticCallee() == nil || cl.Call.StaticCallee().Name() != "isNullBytes" {
		return false
	}
	return isDataOrTrimmed(cl.Call.Args[0], data)
}

// isDataOrTrimmed: v is the data parameter, possibly converted and passed through bytes.TrimSpace.
func isDataOrTrimmed(v, data ssa.Value) bool {
	v = an.Strip(v)
	if v == data {
		return true
	}
	if tc, ok := v.(*ssa.Call); ok && tc.Call.StaticCallee() != nil && tc.Call.StaticCallee().Name() == "TrimSpace" && an.Strip(tc.Call.Args[0]) == data {
		return true
	}
	return false
}

func runC17(c *an.Ctx) {
	ruleN1(c)
	ruleT1(c, "N2")
	ruleN3(c)
	ruleN4(c)
	ruleN5(c)
	ruleN6(c)
	ruleN7(c)
	ruleMembersAll(c, "N8")
	ruleN9(c)
	ruleN10(c)
	ruleMemoKey(c, "N11", "martian/syntax")
	ruleN12(c)
	ruleN13(c)
}

func ruleN1(c *an.Ctx) {
	for _, method := range []string{"IsValidJson", "FilterJson"} {
		impls := typeImpls(c, method)
		c.Floor("N1", "implementations of Type."+method, len(impls), 5)
		for _, fn := range impls {
			name := an.FnName(fn)
			if strings.Contains(name, "nullType") {
				c.Info("N1", "null-type("+name+")", fn.Pos(), "the null type accepts only null: documented exception")
				continue
			}
			data := ssa.Value(fn.Params[1])
			// (a) the null test exists and its true edge returns the accepted answer
			n := 0
			for _, b := range fn.Blocks {
				for _, s := range b.Succs {
					cnd, t, ok := an.EdgeCond(b, s)
					if !ok {
						continue
					}
					r := an.Normalize(cnd, t)
					if !(r.Op == token.ILLEGAL && r.Truth && isNullTest(r.X, data)) {
						// `isNullBytes(data) || !s.CanFilter()`: the true edge of the disjunction still starts at the null test's block
						continue
					}
					n++
					okRet := true
					seen := map[*ssa.BasicBlock]bool{}
					var walk func(x *ssa.BasicBlock)
					walk = func(x *ssa.BasicBlock) {
						if seen[x] {
							return
						}
						seen[x] = true
						for _, in := range x.Instrs {
							if ret, ok := in.(*ssa.Return); ok {
								if method == "IsValidJson" {
									if !an.IsNil(an.RetVal(ret, 0)) {
										okRet = false
									}
								} else {
									same := isDataOrTrimmed(an.RetVal(ret, 0), data)
									cv, isC := an.RetVal(ret, 1).(*ssa.Const)
									if !same || !isC || cv.Value == nil || cv.Value.String() != "false" || !an.IsNil(an.RetVal(ret, 2)) {
										okRet = false
									}
								}
							}
							if cl, ok := in.(*ssa.Call); ok {
								if _, isB := cl.Call.Value.(*ssa.Builtin); !isB {
									okRet = false // an effect on the null path
								}
							}
						}
						for _, y := range x.Succs {
							walk(y)
						}
					}
					walk(s)
					want := "nil"
					if method == "FilterJson" {
						want = "(data, false, nil)"
					}
					c.Check("N1", "null-accepted("+method+")@"+name, s.Instrs[0].Pos(), okRet,
						"on isNullBytes(data) the method must return "+want+" without any other effect")
				}
			}
			if n == 0 {
				c.Fail("N1", "null-test("+method+")@"+name, fn.Pos(), "the method does not test isNullBytes(data): null would not be accepted uniformly")
				continue
			}
			// (b) every other call is dominated by the null test having been false
			okDom := true
			var offender string
			an.Instrs(fn, func(in ssa.Instruction) {
				cl, ok := in.(*ssa.Call)
				if !ok {
					return
				}
				if _, isB := cl.Call.Value.(*ssa.Builtin); isB {
					return
				}
				if f := cl.Call.StaticCallee(); f != nil {
					switch f.Name() {
					case "isNullBytes", "TrimSpace", "CanFilter":
						return
					}
				}
				if cl.Call.IsInvoke() && cl.Call.Method.Name() == "CanFilter" {
					return
				}
				g, _ := an.GuardedBy(in, func(r an.Rel) bool { return r.Op == token.ILLEGAL && !r.Truth && isNullTest(r.X, data) })
				if !g {
					okDom = false
					offender = c.P.Pos(in.Pos())
				}
			})
			c.Check("N1", "null-test-first("+method+")@"+name, fn.Pos(), okDom,
				"the null test must dominate every other effect of the method (offending call at "+offender+")")
		}
	}
}

// ruleT1: operand symmetry of IsAssignableFrom / CheckEqual (shared by C07 T1 and C17 N2).
func ruleT1(c *an.Ctx, rule string) {
	relNames := map[string]bool{"IsAssignableFrom": true, "CheckEqual": true}
	total := 0
	for _, method := range []string{"IsAssignableFrom", "CheckEqual"} {
		impls := typeImpls(c, method)
		c.Floor(rule, "implementations of Type."+method, len(impls), 5)
		for _, fn := range impls {
			rel := an.NewRelationOpt(fn,
				func(p *ssa.Parameter) bool { return strings.HasSuffix(p.Type().String(), "TypeLookup") },
				func(call *ssa.Call) []ssa.Value {
					var name string
					if f := call.Call.StaticCallee(); f != nil {
						name = f.Name()
					} else if call.Call.IsInvoke() {
						name = call.Call.Method.Name()
					}
					switch name {
					case "getMember":
						// member lookup: the result belongs to the struct it was looked up in
						if len(call.Call.Args) > 0 {
							return []ssa.Value{call.Call.Args[0]}
						}
					case "Get":
						// type table lookup: the result belongs to the side the type id came from
						if len(call.Call.Args) > 1 {
							return []ssa.Value{call.Call.Args[1]}
						}
					}
					return nil
				})
			if len(rel.OSet) == 0 {
				continue
			}
			for _, s := range rel.PairSites(relNames) {
				key := fmt.Sprintf("pair(%s %s %s)@%s", an.StablePath(s.X), s.What, an.StablePath(s.Y), an.FnName(fn))
				key = short(key, 170)
				switch {
				case (s.CX == an.ClassR && s.CY == an.ClassR) || (s.CX == an.ClassO && s.CY == an.ClassO):
					// same-side comparisons against constants are filtered by PairSites; receiver-vs-receiver
					// checks like `s.Id == KindFile` compare with constants; anything else is suspicious
					total++
					c.Fail(rule, key, s.Instr.Pos(), "both operands derive from the "+s.CX.String()+" type: the relation compares a type with itself")
				case (s.CX == an.ClassR && s.CY == an.ClassO) || (s.CX == an.ClassO && s.CY == an.ClassR):
					total++
					okSeg := s.SX == "" || s.SY == "" || s.SX == s.SY
					c.Check(rule, key, s.Instr.Pos(), okSeg, fmt.Sprintf("the two operands must be the same component of the two types (found %q vs %q)", s.SX, s.SY))
				}
			}
		}
	}
	c.Floor(rule, "pairing sites in assignability/equality relations", total, 4)
}

func ruleN3(c *an.Ctx) {
	impls := typeImpls(c, "FilterJson")
	n := 0
	for _, fn := range impls {
		name := an.FnName(fn)
		data := ssa.Value(fn.Params[1])
		// rebuilders: functions that return buf.Bytes()
		rebuilds := false
		an.Instrs(fn, func(in ssa.Instruction) {
			if ret, ok := in.(*ssa.Return); ok {
				if cl, ok := an.Strip(an.RetVal(ret, 0)).(*ssa.Call); ok && cl.Call.StaticCallee() != nil && cl.Call.StaticCallee().Name() == "Bytes" {
					rebuilds = true
				}
			}
		})
		if !rebuilds {
			continue
		}
		n++
		// the identity tests: direct sameSlice(...) calls (false = the component changed), or the boolean
		// result of a shared helper that returns !sameSlice(...) (true = changed)
		var tests []*ssa.Call
		var changedSignals []ssa.Value
		an.Instrs(fn, func(in ssa.Instruction) {
			cl, ok := in.(*ssa.Call)
			if !ok || cl.Call.StaticCallee() == nil {
				return
			}
			h := cl.Call.StaticCallee()
			if h.Name() == "sameSlice" {
				tests = append(tests, cl)
				return
			}
			if h.Blocks == nil || h.Pkg != fn.Pkg {
				return
			}
			// which results of h are "not sameSlice(...)"?
			an.Instrs(h, func(hin ssa.Instruction) {
				ret, ok := hin.(*ssa.Return)
				if !ok {
					return
				}
				for i := range ret.Results {
					v := an.RetVal(ret, i)
					if u, ok := v.(*ssa.UnOp); ok && u.Op == token.NOT {
						if sc, ok := u.X.(*ssa.Call); ok && sc.Call.StaticCallee() != nil && sc.Call.StaticCallee().Name() == "sameSlice" {
							for _, r := range an.Referrers(cl) {
								if ex, ok := r.(*ssa.Extract); ok && ex.Index == i {
									changedSignals = append(changedSignals, ex)
								}
							}
							if h.Signature.Results().Len() == 1 {
								changedSignals = append(changedSignals, cl)
							}
						}
					}
				}
			})
		})
		c.Check("N3", "identity-test-present@"+name, fn.Pos(), len(tests)+len(changedSignals) >= 1, "a FilterJson that rebuilds JSON must compare each component's filtered bytes with the input slice (sameSlice, directly or through a helper that reports the difference)")
		// a "changed" signal must feed the flag: it is an incoming value of a boolean phi (different = different || changed)
		for _, sig := range changedSignals {
			feeds := false
			for _, r := range an.Referrers(sig) {
				if ph, ok := r.(*ssa.Phi); ok && ph.Type().String() == "bool" {
					feeds = true
				}
				if st, ok := r.(*ssa.Store); ok && st.Val == sig {
					feeds = true
				}
				if bo, ok := r.(*ssa.BinOp); ok && bo.Op == token.OR {
					feeds = true
				}
			}
			if !feeds {
				// or a branch on the signal whose true edge raises the flag
				for _, b := range fn.Blocks {
					for _, s2 := range b.Succs {
						if an.EdgeHolds(b, s2, func(r an.Rel) bool { return r.Op == token.ILLEGAL && r.Truth && r.X == sig }) && flagSetOnPath(s2, b) {
							feeds = true
						}
					}
				}
			}
			c.Check("N3", "difference-recorded@"+name, sig.Pos(), feeds, "when a component's filtered bytes are not the input slice the 'different' flag must be raised")
		}
		// every edge where sameSlice is false makes the flag true: the successor's flag phi receives `true`
		for _, t := range tests {
			okSet := false
			for _, b := range fn.Blocks {
				for _, s := range b.Succs {
					cnd, tr, ok := an.EdgeCond(b, s)
					if !ok {
						continue
					}
					r := an.Normalize(cnd, tr)
					if !(r.Op == token.ILLEGAL && !r.Truth && r.X == ssa.Value(t)) {
						continue
					}
					// s (or the block it jumps to) merges into a bool phi with `true` from this side
					okSet = flagSetOnPath(s, b)
				}
			}
			c.Check("N3", "difference-recorded@"+name, t.Pos(), okSet, "when a component's filtered bytes are not the input slice the 'different' flag must be raised")
		}
		// returns on the not-different edge give back the input bytes
		for _, b := range fn.Blocks {
			for _, s := range b.Succs {
				cnd, tr, ok := an.EdgeCond(b, s)
				if !ok {
					continue
				}
				r := an.Normalize(cnd, tr)
				ph, isPhi := r.X.(*ssa.Phi)
				if !(r.Op == token.ILLEGAL && !r.Truth && isPhi && ph.Type().String() == "bool") {
					continue
				}
				// is this the flag? it must be fed by `true` on a sameSlice-false path
				if !phiHasTrue(ph, 0) {
					continue
				}
				for _, in := range s.Instrs {
					if ret, ok := in.(*ssa.Return); ok {
						c.Check("N3", "unchanged-returns-input@"+name, ret.Pos(), an.Strip(an.RetVal(ret, 0)) == data,
							"when nothing differed the original bytes must be returned (identity fast path)")
					}
				}
			}
		}
	}
	c.Floor("N3", "FilterJson implementations that rebuild JSON", n, 1)
}

func phiHasTrue(ph *ssa.Phi, d int) bool {
	if d > 4 {
		return false
	}
	for _, e := range ph.Edges {
		if cv, ok := e.(*ssa.Const); ok && cv.Value != nil && cv.Value.String() == "true" {
			return true
		}
		if p2, ok := e.(*ssa.Phi); ok && p2 != ph && phiHasTrue(p2, d+1) {
			return true
		}
	}
	return false
}

// flagSetOnPath: following unconditional jumps from s (entered from pred), a bool phi receives the constant true.
func flagSetOnPath(s, pred *ssa.BasicBlock) bool {
	for i := 0; i < 4; i++ {
		for _, in := range s.Instrs {
			ph, ok := in.(*ssa.Phi)
			if !ok {
				break
			}
			if ph.Type().String() != "bool" {
				continue
			}
			for k, p := range s.Preds {
				if p == pred {
					if cv, ok := ph.Edges[k].(*ssa.Const); ok && cv.Value != nil && cv.Value.String() == "true" {
						return true
					}
				}
			}
		}
		if len(s.Succs) != 1 {
			return false
		}
		pred, s = s, s.Succs[0]
	}
	return false
}

// ---------------------------------------------------------------------------
// C07
// ---------------------------------------------------------------------------

func runC07(c *an.Ctx) {
	ruleT1(c, "T1")
	ruleT2(c)
	ruleT3(c)
	ruleT4(c)
	ruleT5(c)
	ruleT6(c)
	ruleTopoIndex(c, "T7")
	ruleT8(c)
	ruleT9(c)
	ruleMembersAll(c, "T10")
	ruleMemoKey(c, "T11", "martian/syntax")
	ruleT12(c, "T12")
	ruleT13(c)
	ruleT14(c)
}

func ruleT2(c *an.Ctx) {
	impls := typeImpls(c, "IsValidExpression")
	c.Floor("T2", "implementations of Type.IsValidExpression", len(impls), 5)
	for _, fn := range impls {
		name := an.FnName(fn)
		if strings.Contains(name, "nullType") {
			c.Info("T2", "null-type("+name+")", fn.Pos(), "the null type accepts only null literals")
			continue
		}
		// the RefExp arm: type assertion of the expression parameter to *RefExp
		exp := ssa.Value(fn.Params[1])
		var refOK ssa.Value
		var refVal ssa.Value
		an.Instrs(fn, func(in ssa.Instruction) {
			ta, ok := in.(*ssa.TypeAssert)
			if !ok || ta.X != exp || !strings.HasSuffix(ta.AssertedType.String(), "syntax.RefExp") {
				return
			}
			for _, r := range an.Referrers(ta) {
				if ex, ok := r.(*ssa.Extract); ok {
					if ex.Index == 1 {
						refOK = ex
					} else {
						refVal = ex
					}
				}
			}
		})
		if refOK == nil {
			c.Fail("T2", "reference-arm@"+name, fn.Pos(), "IsValidExpression has no *RefExp arm: references would be accepted or rejected without consulting their type")
			continue
		}
		_ = refVal
		isRefArm := func(r an.Rel) bool { return r.Op == token.ILLEGAL && r.Truth && r.X == refOK }
		// returns of nil inside the arm
		n := 0
		an.Instrs(fn, func(in ssa.Instruction) {
			ret, ok := in.(*ssa.Return)
			if !ok || !an.IsNil(an.RetVal(ret, 0)) {
				return
			}
			g, _ := an.GuardedBy(ret, isRefArm)
			if !g {
				return
			}
			n++
			g1, _ := an.GuardedBy(ret, func(r an.Rel) bool {
				if r.Op != token.EQL || !an.IsNil(r.Y) {
					return false
				}
				ex, ok := r.X.(*ssa.Extract)
				if !ok {
					return false
				}
				cl, ok := ex.Tuple.(*ssa.Call)
				return ok && cl.Call.StaticCallee() != nil && cl.Call.StaticCallee().Name() == "resolveType"
			})
			g2, _ := an.GuardedBy(ret, func(r an.Rel) bool {
				if r.Op != token.EQL || !an.IsNil(r.Y) {
					return false
				}
				cl, ok := r.X.(*ssa.Call)
				if !ok {
					return false
				}
				nm := ""
				if f := cl.Call.StaticCallee(); f != nil {
					nm = f.Name()
				} else if cl.Call.IsInvoke() {
					nm = cl.Call.Method.Name()
				}
				return nm == "IsAssignableFrom"
			})
			c.Check("T2", "reference-accepted-only-if-resolved-and-assignable@"+name, ret.Pos(), g1 && g2,
				fmt.Sprintf("a reference may be accepted only after resolveType succeeded (%v) and IsAssignableFrom(receiver, referenced type) succeeded (%v)", g1, g2))
		})
		if n == 0 {
			c.Fail("T2", "reference-arm-accepts@"+name, fn.Pos(), "no accepting return found in the *RefExp arm")
		}
		// IsAssignableFrom is called with the receiver as the target
		an.Instrs(fn, func(in ssa.Instruction) {
			cl, ok := in.(*ssa.Call)
			if !ok {
				return
			}
			var target ssa.Value
			if f := cl.Call.StaticCallee(); f != nil && f.Name() == "IsAssignableFrom" {
				target = cl.Call.Args[0]
			} else if cl.Call.IsInvoke() && cl.Call.Method.Name() == "IsAssignableFrom" {
				target = cl.Call.Value
			} else {
				return
			}
			g, _ := an.GuardedBy(in, isRefArm)
			if !g {
				return
			}
			c.Check("T2", "assignability-target-is-receiver@"+name, in.Pos(), an.Strip(target) == ssa.Value(fn.Params[0]),
				"the referenced type must be tested for assignability TO the receiver type (not the other way round)")
		})
	}
}
