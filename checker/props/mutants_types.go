package props

func init() {
	Mutants = append(Mutants,
		// ---------------- C17 ----------------
		Mutant{Name: "c17-struct-null-rejected", Property: "C17", File: "martian/syntax/struct_type.go",
			Old: "\tlookup *TypeLookup) error {\n\tif isNullBytes(data) {\n\t\treturn nil\n\t}\n\tvar m map[string]json.RawMessage\n\tif err := attemptJsonUnmarshal(data, &m, \"a map\"); err != nil {", New: "\tlookup *TypeLookup) error {\n\tvar m map[string]json.RawMessage\n\tif err := attemptJsonUnmarshal(data, &m, \"a map\"); err != nil {", Expect: "N1"},
		Mutant{Name: "c17-array-filter-null-changed", Property: "C17", File: "martian/syntax/collection_types.go",
			Old: "func (s *ArrayType) FilterJson(data json.RawMessage, lookup *TypeLookup) (json.RawMessage, bool, error) {\n\tif isNullBytes(data) || !s.CanFilter() {\n\t\treturn data, false, nil\n\t}", New: "func (s *ArrayType) FilterJson(data json.RawMessage, lookup *TypeLookup) (json.RawMessage, bool, error) {\n\tif !s.CanFilter() {\n\t\treturn data, false, nil\n\t}\n\tif isNullBytes(data) {\n\t\treturn json.RawMessage(\"[]\"), false, nil\n\t}", Expect: "N1"},
		Mutant{Name: "c17-array-assignability-crossed", Property: "C17", File: "martian/syntax/collection_types.go",
			Old: "\t\tif err := s.Elem.IsAssignableFrom(other.Elem, lookup); err != nil {\n\t\t\treturn &IncompatibleTypeError{\n\t\t\t\tMessage: \"incompatible array types\",", New: "\t\tif err := s.Elem.IsAssignableFrom(s.Elem, lookup); err != nil {\n\t\t\treturn &IncompatibleTypeError{\n\t\t\t\tMessage: \"incompatible array types\",", Expect: "N2"},
		Mutant{Name: "c17-struct-dim-self-compared", Property: "C17", File: "martian/syntax/struct_type.go",
			Old: "} else if member.Tname.ArrayDim != o.Tname.ArrayDim {\n\t\t\t\terrs = append(errs, &IncompatibleTypeError{\n\t\t\t\t\tMessage: fmt.Sprintf(\n\t\t\t\t\t\tmsg+\"member %s: differing array dimensions %d vs %d\",", New: "} else if member.Tname.ArrayDim != member.Tname.ArrayDim {\n\t\t\t\terrs = append(errs, &IncompatibleTypeError{\n\t\t\t\t\tMessage: fmt.Sprintf(\n\t\t\t\t\t\tmsg+\"member %s: differing array dimensions %d vs %d\",", Expect: "N2"},
		Mutant{Name: "c17-identity-fastpath-lost", Property: "C17", File: "martian/syntax/collection_types.go",
			Old: "\t\t\tif !different {\n\t\t\t\treturn data, fatal, errs.If()\n\t\t\t}\n\t\t} else {\n\t\t\taType := ArrayType{", New: "\t\t\tif !different {\n\t\t\t\tbuf.WriteRune(']')\n\t\t\t\treturn buf.Bytes(), fatal, errs.If()\n\t\t\t}\n\t\t} else {\n\t\t\taType := ArrayType{", Expect: "N3"},
		Mutant{Name: "c17-difference-not-recorded", Property: "C17", File: "martian/syntax/struct_type.go",
			Old: "\t\t\tif !different && !sameSlice(b, fm) {\n\t\t\t\tdifferent = true\n\t\t\t}", New: "\t\t\tif !different && !sameSlice(b, fm) {\n\t\t\t\tdifferent = len(errs) > 0\n\t\t\t}", Expect: "N3"},
		Mutant{Name: "c17-map-checkequal-crossed", Property: "C17", File: "martian/syntax/collection_types.go",
			Old: "func (s *TypedMapType) CheckEqual(other Type) error {", New: "func (s *TypedMapType) CheckEqual(other Type) error {\n\tif o, ok := other.(*TypedMapType); ok && o.Elem.CheckEqual(o.Elem) != nil {\n\t\treturn nil\n\t}", Expect: "N2"},
		// ---------------- C07 ----------------
		Mutant{Name: "c07-reference-accepted-unchecked", Property: "C07", File: "martian/syntax/collection_types.go",
			Old: "\t\t} else if err := s.IsAssignableFrom(t, &ast.TypeTable); err != nil {\n\t\t\treturn &IncompatibleTypeError{\n\t\t\t\tMessage: \"ReferenceError: incompatible types\",\n\t\t\t\tReason:  err,\n\t\t\t}\n\t\t} else {\n\t\t\treturn nil\n\t\t}\n\tcase *SplitExp:\n\t\treturn isValidSplit(s, exp, pipeline, ast)\n\tcase *DisabledExp:\n\t\treturn s.IsValidExpression(exp.Value, pipeline, ast)\n\tcase *NullExp:\n\t\treturn nil\n\tcase *ArrayExp:",
			New: "\t\t} else if err := s.IsAssignableFrom(t, &ast.TypeTable); err != nil && s.Dim > 1 {\n\t\t\treturn &IncompatibleTypeError{\n\t\t\t\tMessage: \"ReferenceError: incompatible types\",\n\t\t\t\tReason:  err,\n\t\t\t}\n\t\t} else {\n\t\t\treturn nil\n\t\t}\n\tcase *SplitExp:\n\t\treturn isValidSplit(s, exp, pipeline, ast)\n\tcase *DisabledExp:\n\t\treturn s.IsValidExpression(exp.Value, pipeline, ast)\n\tcase *NullExp:\n\t\treturn nil\n\tcase *ArrayExp:", Expect: "T2"},
		Mutant{Name: "c07-assignability-reversed", Property: "C07", File: "martian/syntax/user_file_type.go",
			Old: "s.IsAssignableFrom(t, &ast.TypeTable)", New: "t.IsAssignableFrom(s, &ast.TypeTable)", Expect: "T2"},
		Mutant{Name: "c07-map-elem-self", Property: "C07", File: "martian/syntax/collection_types.go",
			Old: "func (s *TypedMapType) IsAssignableFrom(other Type, lookup *TypeLookup) error {\n\tif s == other {\n\t\treturn nil\n\t}", New: "func (s *TypedMapType) IsAssignableFrom(other Type, lookup *TypeLookup) error {\n\tif s == other {\n\t\treturn nil\n\t}\n\tif o, ok := other.(*TypedMapType); ok && s.Elem.IsAssignableFrom(s.Elem, lookup) == nil && o.Elem != nil {\n\t\treturn nil\n\t}", Expect: "T1"},
	)
}

func init() {
	Mutants = append(Mutants,
		Mutant{Name: "c19-rename-skips-modifiers", Property: "C19", File: "martian/syntax/refactoring/rename_callable.go",
			Old: "\t\t\tif call.Modifiers != nil && call.Modifiers.Bindings != nil {\n\t\t\t\tfor _, binding := range call.Modifiers.Bindings.List {\n\t\t\t\t\tif binding.Exp.HasRef() {\n\t\t\t\t\t\tedits = updateRefsFromBinding(edits, binding, pipe, call,\n\t\t\t\t\t\t\tnewIds, true)\n\t\t\t\t\t}\n\t\t\t\t}\n\t\t\t}\n", New: "", Expect: "G1"},
		Mutant{Name: "c19-rename-output-skips-retain", Property: "C19", File: "martian/syntax/refactoring/rename_output_param.go",
			Old: "\t\t\tif pipe.Retain != nil {\n\t\t\t\tfor _, ref := range pipe.Retain.Refs {\n\t\t\t\t\tif u := updateRef(ref, syntax.KindCall, cid, oldName, newName); u != ref {", New: "\t\t\tif pipe.Callables == nil {\n\t\t\t\tfor _, ref := range []*syntax.RefExp{} {\n\t\t\t\t\tif u := updateRef(ref, syntax.KindCall, cid, oldName, newName); u != ref {", Expect: "G1"},
		Mutant{Name: "c19-walker-skips-maps", Property: "C19", File: "martian/syntax/refactoring/rename_callable.go",
			Old: "\tcase *syntax.MapExp:\n\t\tm := make(map[string]syntax.Exp, len(exp.Value))", New: "\tcase *syntax.DisabledExp:\n\t\treturn exp\n\tcase *syntax.FloatExp:\n\t\tm := make(map[string]syntax.Exp, 1)\n\t\tif m != nil {\n\t\t\treturn exp\n\t\t}\n\t\treturn exp\n\t}\n\tswitch exp := exp.(type) {\n\tcase *syntax.NullExp:\n\t\treturn exp\n\tcase *syntax.BoolExp:\n\t\treturn exp\n\t}\n\treturn exp\n}\n\nfunc updateRefInExpUnused(exp syntax.Exp, kind syntax.ExpKind,\n\tcallId, oldName, newName string) syntax.Exp {\n\tswitch exp := exp.(type) {\n\tcase *syntax.MapExp:\n\t\tm := make(map[string]syntax.Exp, len(exp.Value))", Expect: "G2"},
		Mutant{Name: "c19-remove-calls-ignores-retain", Property: "C19", File: "martian/syntax/refactoring/remove_calls.go",
			Old: "\tif pipe.Retain != nil {\n\t\tfor _, binding := range pipe.Retain.Refs {\n\t\t\tif binding.Kind == syntax.KindCall {\n\t\t\t\tcalls.Remove(binding.Id)\n\t\t\t}\n\t\t}\n\t}\n", New: "", Expect: "G1"},
		Mutant{Name: "c19-toplevel-call-not-renamed", Property: "C19", File: "martian/syntax/refactoring/rename_callable.go",
			Old: "\tif e.Pipeline == nil {\n\t\tif ast.Call == nil {\n\t\t\treturn 0, nil\n\t\t}\n\t\tif ast.Call.Id != e.OldId ||\n\t\t\tsyntax.DefiningFile(ast.Call) != e.File {\n\t\t\treturn 0, nil\n\t\t}\n\t\tast.Call.DecId = e.DecId\n\t\tast.Call.Id = e.Id\n\t\treturn 1, nil\n\t}", New: "\tif e.Pipeline == nil {\n\t\treturn 0, nil\n\t}", Expect: "G1"},
		Mutant{Name: "c07-mapcheck-on-unprojected-type", Property: "C07", File: "martian/syntax/compile_params.go",
			Old: "\t\t\tif t.MapDim != 0 {", New: "\t\t\tif param.GetTname().MapDim != 0 {", Expect: "T3"},
		Mutant{Name: "c07-getmap-no-nesting-check", Property: "C07", File: "martian/syntax/type_lookup.go",
			Old: "\tif id.MapDim != 0 {\n\t\tpanic(\"map<map> is not allowed!\")\n\t}\n", New: "", Expect: "T3"},
		Mutant{Name: "c07-benign-mapcheck-gt", Property: "C07", File: "martian/syntax/compile_params.go",
			Old: "\t\t\tif t.MapDim != 0 {", New: "\t\t\tif t.MapDim > 0 {", Expect: ""},
		Mutant{Name: "c19-rename-output-prefix-match", Property: "C19", File: "martian/syntax/refactoring/rename_callable.go",
			Old: "\tif len(ref.OutputId) < len(oldName) {\n\t\treturn ref\n\t}\n\tif i := strings.IndexByte(ref.OutputId, '.'); i > 0 && ref.OutputId[:i] == oldName {", New: "\tif len(ref.OutputId) < len(oldName) {\n\t\treturn ref\n\t}\n\tif i := len(oldName); strings.HasPrefix(ref.OutputId, oldName) {", Expect: "G3"},
		Mutant{Name: "c19-rename-output-prefix-slice", Property: "C19", File: "martian/syntax/refactoring/rename_callable.go",
			Old: "\tif i := strings.IndexByte(ref.OutputId, '.'); i > 0 && ref.OutputId[:i] == oldName {", New: "\tif i := len(oldName); strings.IndexByte(ref.OutputId, '.') != 0 && ref.OutputId[:i] == oldName {", Expect: "G3"},
		Mutant{Name: "c19-benign-prefix-with-dot", Property: "C19", File: "martian/syntax/refactoring/rename_callable.go",
			Old: "\tif i := strings.IndexByte(ref.OutputId, '.'); i > 0 && ref.OutputId[:i] == oldName {", New: "\tif i := len(oldName); strings.HasPrefix(ref.OutputId, oldName+\".\") {", Expect: ""},
	)
}
