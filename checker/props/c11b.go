package props

import (
	"go/token"
	"go/types"

	"mrocheck/an"

	"golang.org/x/tools/go/ssa"
)

// J5: percent-encoding is injective only if the escape character itself is escaped.  The two key
// encoders (makeKeySafe returns the text, writeSafeKey writes it) may hand out the key unencoded -
// a fast path for the common case of plain identifiers - only where the guards dominating that path
// exclude '%' (else key "a%20b" and key "a b" get the same fork directory and journal name) and '/'
// (else the key names a nested directory).  Every other value handed out must come from
// url.PathEscape or from the other encoder.
//
// Values: results of makeKeySafe; arguments of WriteString/WriteByte-style writes to the builder
// parameter of writeSafeKey.  Guards are read with the machinery of H1/N4: searches for constant
// needles, and byte-wise predicate helpers folded per byte value (bytepred.go).  A guard that is
// not understood gives "not decided" (info), never an alarm.
func ruleJ5(c *an.Ctx) {
	p := c.P
	required := []rune{'%', '/'}
	n := 0
	for _, name := range []string{"makeKeySafe", "writeSafeKey"} {
		fn := p.Func(pkgCore, name)
		if fn == nil {
			c.Undecided("J5", "anchor("+name+")", token.NoPos, "function not found")
			continue
		}
		var key *ssa.Parameter
		for _, prm := range fn.Params {
			if b, ok := prm.Type().Underlying().(*types.Basic); ok && b.Info()&types.IsString != 0 {
				key = prm
			}
		}
		if key == nil {
			c.Undecided("J5", "key-parameter("+name+")", fn.Pos(), "no string parameter")
			continue
		}
		var isKey func(v ssa.Value, d int) bool
		isKey = func(v ssa.Value, d int) bool {
			if d > 6 {
				return false
			}
			switch x := v.(type) {
			case *ssa.Parameter:
				return x == key
			case *ssa.Slice:
				return isKey(x.X, d+1)
			case *ssa.Convert:
				return isKey(x.X, d+1)
			case *ssa.ChangeType:
				return isKey(x.X, d+1)
			}
			return false
		}
		fromInput := func(v ssa.Value) bool { return isKey(v, 0) }
		// encoded: the result of url.PathEscape or of a package function that is itself one of the encoders
		encoded := func(v ssa.Value) bool {
			call, ok := an.Strip(v).(*ssa.Call)
			if !ok {
				return false
			}
			if _, ok := an.IsPkgFuncCall(call, "net/url", "PathEscape"); ok {
				return true
			}
			if g := call.Call.StaticCallee(); g != nil && g.Pkg == fn.Pkg && (g.Name() == "makeKeySafe") && g != fn {
				return true
			}
			return false
		}
		var judge func(site ssa.Instruction, v ssa.Value, what string, d int)
		judge = func(site ssa.Instruction, v ssa.Value, what string, d int) {
			switch {
			case encoded(v):
				n++
				c.Pass("J5", "key-output-encoded("+what+")@"+name, site.Pos(), "the value handed out is the result of the percent-encoder")
			case fromInput(v):
				n++
				verbatimVerdict(c, "J5", "verbatim-key-guarded("+what+")@"+name, fn, site, fromInput, required,
					"the key is handed out without percent-encoding", "two different keys map to the same fork directory / journal name, or the key names a nested path")
			default:
				if ph, ok := v.(*ssa.Phi); ok && d < 4 {
					for i, e := range ph.Edges {
						pred := ph.Block().Preds[i]
						judge(pred.Instrs[len(pred.Instrs)-1], e, what, d+1)
					}
					return
				}
				if _, isConst := v.(*ssa.Const); isConst {
					return
				}
				n++
				c.Info("J5", "key-output-origin("+what+")@"+name, site.Pos(), "the value handed out is neither the key nor the result of the encoder: "+an.Path(v)+"; not decided")
			}
		}
		an.Instrs(fn, func(in ssa.Instruction) {
			switch x := in.(type) {
			case *ssa.Return:
				for i := range x.Results {
					if b, ok := x.Results[i].Type().Underlying().(*types.Basic); ok && b.Info()&types.IsString != 0 {
						judge(x, an.RetVal(x, i), "result", 0)
					}
				}
			case *ssa.Call:
				g := x.Call.StaticCallee()
				if g == nil || g.Signature.Recv() == nil || len(x.Call.Args) != 2 {
					return
				}
				if _, isParam := x.Call.Args[0].(*ssa.Parameter); !isParam {
					return
				}
				switch g.Name() {
				case "WriteString", "Write":
					judge(x, x.Call.Args[1], g.Name(), 0)
				}
			}
		})
	}
	c.Floor("J5", "values handed out by the key encoders", n, 2)
}

// J7: every map-keyed part of a fork id contributes its key.  ForkId.forkId builds the id string
// part by part; array-indexed parts are folded into one number, a map-keyed part is written as
// `fork_<key>` and the function then recurses for the remaining parts.  A recursive call that
// starts AFTER the current part (`start+i+1`) skips that part; that is right only if the part's key
// has just been written, or if the part cannot distinguish anything (its range has exactly one
// key).  Otherwise two forks that differ only in that key get the same id - the same directory and
// journal name - and the jobs of both keys run on top of each other.
func ruleJ7(c *an.Ctx) {
	p := c.P
	fn := c.NeedFunc(pkgCore, "(ForkId).forkId")
	if fn == nil {
		return
	}
	_ = p
	if len(fn.Params) < 3 {
		c.Undecided("J7", "anchor((ForkId).forkId)", fn.Pos(), "unexpected signature")
		return
	}
	start := ssa.Value(fn.Params[2])
	isStartPlusI := func(v ssa.Value) bool {
		b, ok := v.(*ssa.BinOp)
		return ok && b.Op == token.ADD && (b.X == start || b.Y == start)
	}
	isLength := func(v ssa.Value) bool {
		cl, ok := v.(*ssa.Call)
		if !ok {
			return false
		}
		if cl.Call.IsInvoke() {
			return cl.Call.Method.Name() == "Length"
		}
		return cl.Call.StaticCallee() != nil && cl.Call.StaticCallee().Name() == "Length"
	}
	n := 0
	an.Instrs(fn, func(in ssa.Instruction) {
		cl, ok := in.(*ssa.Call)
		if !ok || cl.Call.StaticCallee() != fn || len(cl.Call.Args) < 3 {
			return
		}
		e := cl.Call.Args[2]
		b, ok := e.(*ssa.BinOp)
		if !ok || b.Op != token.ADD {
			return
		}
		skips := (an.IsIntConst(b.Y, 1) && isStartPlusI(b.X)) || (an.IsIntConst(b.X, 1) && isStartPlusI(b.Y))
		if !skips {
			return // restarts at the current part (start+i): the part is handled by the callee
		}
		n++
		w := an.Query{
			Fn:     fn,
			Target: func(x ssa.Instruction) bool { return x == in },
			Barrier: func(x ssa.Instruction) bool {
				xc, ok := x.(*ssa.Call)
				return ok && xc.Call.StaticCallee() != nil && (xc.Call.StaticCallee().Name() == "writeSafeKey" || xc.Call.StaticCallee().Name() == "makeKeySafe")
			},
			BarrierEdge: func(from, to *ssa.BasicBlock) bool {
				return an.EdgeHolds(from, to, func(r an.Rel) bool {
					return r.Op == token.EQL && ((isLength(r.X) && an.IsIntConst(r.Y, 1)) || (isLength(r.Y) && an.IsIntConst(r.X, 1)))
				})
			},
		}.Find()
		c.Check("J7", "skipped-part-wrote-its-key-or-has-one-key@(ForkId).forkId", in.Pos(), w == nil,
			"the recursion continues after the current part although its key was not written and its range may hold several keys: forks [i,\"a\"] and [i,\"b\"] of a map call nested in an array call get the same id, directory and journal name; "+c.WitnessString(w))
	})
	c.Floor("J7", "recursive calls of forkId that skip the current part", n, 1)
}
