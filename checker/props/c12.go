package props

import (
	"fmt"
	"go/token"
	"go/types"

	"mrocheck/an"

	"golang.org/x/tools/go/ssa"
)

func init() {
	Registry["C12"] = Entry{
		Run: runC12,
		Explanation: "Decides structural necessary conditions of 'resource limits are never exceeded and never stall': " +
			"K1 lockset (ResourceSemaphore.{reserved,curSize,waiters} only under mu; MaxJobsSemaphore.running/Limit only under lock), " +
			"K2 every grant (reserved += x / running[m]=…) is dominated in the same critical section by the capacity test for the same x, fast path also by an empty queue, oversize requests rejected before queuing, " +
			"K3 each successful Acquire in the local job manager is followed on all paths to exit by Release of the same semaphore and amount; remote submission is dominated by a successful slot acquire, " +
			"K4 amounts acquired derive from GetSystemReqs and the stores of Threads/MemGB there are clamped to the configured limits, " +
			"K5 no lost wake-up: each decrease of reserved / change of curSize / delete from running is followed by runJobs / Signal before the unlock; FIFO head-of-line rule in runJobs; a waiter is queued only after the capacity test was crossed since the last acquisition of the mutex (test and enqueue are one critical section); every return after a cond.Wait() passes the wake-up on (explicit or deferred Signal/Broadcast), " +
			"K6 the acquisition order of the four local semaphores is the same on every path. " +
			"K7 with the state assumed Running the insertion into MaxJobsSemaphore.running is reachable in the method RemoteJobManager.reattach calls (re-attached running jobs are counted). " +
			"K8 a fractional reservation is scaled to the semaphore's unit before it is rounded (no float->integer conversion multiplied by a constant afterwards). " +
			"K9 the memory measurement that reaches UpdateFreeUsed excludes the job manager's own process. " +
			"K10 no re-attach call is control dependent on the boolean result of another re-attach call. " +
			"K11 every endJob call in the updateState functions is dominated by a comparison of a getState result. " +
			"NOT decided: arithmetic of UpdateFreeUsed, curSize<=maxSize through UpdateSize, progress of the run loop.",
		Assumptions: commonAssumptions,
	}
}

func runC12(c *an.Ctx) {
	p := c.P
	fns := coreFns(c)

	// ---------------- K1 lockset ----------------
	rsMu := p.Field(pkgCore, "ResourceSemaphore", "mu")
	mjLock := p.Field(pkgCore, "MaxJobsSemaphore", "lock")
	if rsMu == nil || mjLock == nil {
		c.Undecided("anchor", "ResourceSemaphore.mu/MaxJobsSemaphore.lock", token.NoPos, "mutex fields not found")
		return
	}
	k1 := func(typ string, mutex *types.Var, fields []string, exceptions map[string]string) {
		lc := an.NewLockChecker(p, mutex)
		for _, fname := range fields {
			f := p.Field(pkgCore, typ, fname)
			if f == nil {
				c.Undecided("anchor", typ+"."+fname, token.NoPos, "field not found")
				continue
			}
			res := lc.CheckField(fns, f)
			c.Floor("K1", "accesses of "+typ+"."+fname, len(res), 1)
			for _, r := range res {
				kind := "read"
				if r.Write {
					kind = "write"
				}
				key := fmt.Sprintf("%s(%s.%s)@%s", kind, typ, fname, an.FnName(r.Fn))
				if !r.OK {
					if why, ok := exceptions[kind+":"+fname+"@"+an.FnName(r.Fn)]; ok {
						c.Pass("K1", key, r.Instr.Pos(), "tabled exception: "+why)
						continue
					}
				}
				c.Check("K1", key, r.Instr.Pos(), r.OK, r.Reason)
			}
		}
	}
	k1("ResourceSemaphore", rsMu, []string{"reserved", "curSize", "waiters"}, nil)
	k1("MaxJobsSemaphore", mjLock, []string{"running", "Limit"}, map[string]string{
		"read:Limit@(*RemoteJobManager).resetMaxJobs": "plain read of oldSem.Limit; the only post-construction writer is Clear(), called afterwards by the same goroutine",
	})

	// ---------------- K2 guarded grant ----------------
	reserved := p.Field(pkgCore, "ResourceSemaphore", "reserved")
	curSize := p.Field(pkgCore, "ResourceSemaphore", "curSize")
	waiters := p.Field(pkgCore, "ResourceSemaphore", "waiters")
	maxSize := p.Field(pkgCore, "ResourceSemaphore", "maxSize")
	running := p.Field(pkgCore, "MaxJobsSemaphore", "running")
	limit := p.Field(pkgCore, "MaxJobsSemaphore", "Limit")
	runJobs := c.NeedFunc(pkgCore, "(*ResourceSemaphore).runJobs")

	isAvail := func(v ssa.Value) bool { // curSize - reserved of the same object
		if inner, ok := an.ReturnExpr(v); ok {
			v = inner // a one-line accessor such as unreserved()
		}
		b, ok := v.(*ssa.BinOp)
		if !ok || b.Op != token.SUB {
			return false
		}
		return an.LoadsField(b.X, curSize) && an.LoadsField(b.Y, reserved)
	}
	nInc, nDec := 0, 0
	for _, fn := range fns {
		for _, st := range an.StoresToField(fn, reserved) {
			if st.Parent() != fn {
				continue
			}
			bin, ok := st.Val.(*ssa.BinOp)
			if !ok || !(an.LoadsField(bin.X, reserved) || an.LoadsField(bin.Y, reserved)) {
				if an.IsIntConst(st.Val, 0) {
					continue
				}
				c.Undecided("K2", "store(reserved)@"+an.FnName(fn), st.Pos(), "store to reserved that is neither += nor -=: "+st.String())
				continue
			}
			switch bin.Op {
			case token.ADD:
				nInc++
				amt := bin.Y
				if an.LoadsField(bin.Y, reserved) {
					amt = bin.X
				}
				amtPath := an.Path(amt)
				key := "grant(reserved+=" + amtPath + ")@" + an.FnName(fn)
				fits := func(r an.Rel) bool {
					// avail >= amt  |  amt <= avail
					if r.Op == token.GEQ && isAvail(r.X) && an.Path(r.Y) == amtPath {
						return true
					}
					if r.Op == token.LEQ && isAvail(r.Y) && an.Path(r.X) == amtPath {
						return true
					}
					return false
				}
				ok, w := an.GuardedBy(st, fits)
				c.Check("K2", key+":capacity", st.Pos(), ok,
					"grant must be dominated by curSize-reserved >= amount for the same amount; "+c.WitnessString(w))
				// same critical section: after any Unlock the guard must be re-established
				an.Instrs(fn, func(in ssa.Instruction) {
					if _, acq, isLock := an.LockOp(in); isLock && !acq {
						w := an.Query{Fn: fn, After: in, Target: func(x ssa.Instruction) bool { return x == st },
							BarrierEdge: func(from, to *ssa.BasicBlock) bool {
								return an.EdgeHolds(from, to, fits)
							}}.Find()
						c.Check("K2", key+":same-critical-section", in.Pos(), w == nil,
							"capacity test and grant separated by an Unlock; "+c.WitnessString(w))
					}
				})
				// the amount is taken from an element of the waiter queue (structurally: its backward
				// slice contains an access of ResourceSemaphore.waiters), not from a parameter
				fromQueue := false
				{
					sl := newSlice(fn)
					sl.add(amt)
					for v := range sl.seen {
						if an.LoadsField(v, waiters) {
							fromQueue = true
						}
						if fa, ok := v.(*ssa.FieldAddr); ok {
							if _, f := an.FieldOfAddr(fa); f == waiters {
								fromQueue = true
							}
						}
					}
				}
				if r := an.RootOf(amt); r != nil {
					if _, isParam := r.(*ssa.Parameter); isParam {
						fromQueue = false
					}
				}
				if !fromQueue {
					// request order: a grant that bypasses the queue needs the queue to be empty
					ok, w := an.GuardedBy(st, func(r an.Rel) bool {
						if r.Op != token.EQL {
							return false
						}
						chk := func(a, b ssa.Value) bool {
							args, isLen := an.IsBuiltinCall(a, "len")
							return isLen && an.LoadsField(args[0], waiters) && an.IsIntConst(b, 0)
						}
						return chk(r.X, r.Y) || chk(r.Y, r.X)
					})
					c.Check("K2", key+":queue-empty", st.Pos(), ok,
						"a grant not taken from the head of the waiter queue must be dominated by len(waiters)==0 (request order); "+c.WitnessString(w))
				} else {
					// FIFO: once the head does not fit, no later waiter may be granted
					var grantStores []*ssa.Store
					for _, s2 := range an.StoresToField(fn, reserved) {
						if b2, ok := s2.Val.(*ssa.BinOp); ok && b2.Op == token.ADD {
							grantStores = append(grantStores, s2)
						}
					}
					n := 0
					for _, b := range fn.Blocks {
						for _, s := range b.Succs {
							cnd, t, ok := an.EdgeCond(b, s)
							if !ok {
								continue
							}
							r := an.Normalize(cnd, t)
							noFit := (r.Op == token.LSS && isAvail(r.X) && an.Path(r.Y) == amtPath) ||
								(r.Op == token.GTR && isAvail(r.Y) && an.Path(r.X) == amtPath)
							if !noFit || len(s.Instrs) == 0 {
								continue
							}
							n++
							w := an.Query{Fn: fn, After: nil, Target: func(x ssa.Instruction) bool {
								for _, g := range grantStores {
									if x == g {
										return true
									}
								}
								return false
							}}
							// start at the top of the no-fit successor
							w.After = nil
							found := reachFromBlock(s, w.Target)
							c.Check("K5", "fifo(head does not fit => stop)@"+an.FnName(fn), s.Instrs[0].Pos(), !found,
								"after the head waiter does not fit, a later waiter is still granted (barging)")
						}
					}
					c.Floor("K5", "no-fit edge in "+an.FnName(fn), n, 1)
					checkQueueWalk(c, fn, amt, waiters)
				}
			case token.SUB:
				nDec++
				key := "release(reserved-=" + an.Path(bin.Y) + ")@" + an.FnName(fn)
				ok, w := an.MustPass(fn, st,
					func(in ssa.Instruction) bool {
						if _, acq, isLock := an.LockOp(in); isLock && !acq {
							return true
						}
						return an.IsReturn(in)
					},
					func(in ssa.Instruction) bool { return an.CalleeIs(in, runJobs) })
				c.Check("K5", key+":wakeup", st.Pos(), ok, "decrease of reserved must be followed by runJobs() before the unlock; "+c.WitnessString(w))
			default:
				c.Undecided("K2", "store(reserved)@"+an.FnName(fn), st.Pos(), "unexpected operator "+bin.Op.String())
			}
		}
	}
	c.Floor("K2", "stores increasing ResourceSemaphore.reserved", nInc, 1)
	c.Floor("K5", "stores decreasing ResourceSemaphore.reserved", nDec, 1)

	// oversize requests are rejected before being queued
	nAppend := 0
	for _, fn := range fns {
		for _, st := range an.StoresToField(fn, waiters) {
			if st.Parent() != fn {
				continue
			}
			// an enqueue is a store of append(waiters, w)
			isAppend := false
			if _, ok := an.IsBuiltinCall(st.Val, "append"); ok {
				isAppend = true
			}
			if !isAppend {
				continue
			}
			nAppend++
			var amountParam ssa.Value
			for _, prm := range fn.Params {
				if b, ok := prm.Type().Underlying().(*types.Basic); ok && b.Kind() == types.Int64 {
					amountParam = prm
				}
			}
			ok, w := an.GuardedBy(st, func(r an.Rel) bool {
				// n <= maxSize | maxSize >= n
				if r.Op == token.LEQ && r.X == amountParam && an.LoadsField(r.Y, maxSize) {
					return true
				}
				if r.Op == token.GEQ && r.Y == amountParam && an.LoadsField(r.X, maxSize) {
					return true
				}
				return false
			})
			c.Check("K2", "enqueue(waiters=append)@"+an.FnName(fn)+":oversize-rejected", st.Pos(), ok,
				"a request larger than maxSize must be rejected before it is queued (it could never be served: stall); "+c.WitnessString(w))
			// lost wake-up: the decision to wait and the enqueue are one critical section.  After every
			// acquisition of the mutex the capacity test must be crossed again before the waiter is queued;
			// otherwise a Release between test and enqueue finds an empty queue and the waiter sleeps forever.
			nLock := 0
			var lostW *an.Witness
			an.Instrs(fn, func(in ssa.Instruction) {
				if in.Parent() != fn || lostW != nil {
					return
				}
				if _, acq, isLock := an.LockOp(in); isLock && acq {
					nLock++
					lostW = an.Query{Fn: fn, After: in, Target: func(x ssa.Instruction) bool { return x == ssa.Instruction(st) },
						BarrierEdge: func(from, to *ssa.BasicBlock) bool {
							return an.EdgeHolds(from, to, func(r an.Rel) bool {
								switch r.Op {
								case token.GEQ, token.LSS, token.LEQ, token.GTR:
									if (isAvail(r.X) && r.Y == amountParam) || (isAvail(r.Y) && r.X == amountParam) {
										return true
									}
								}
								// the queue was seen non-empty under this lock: queuing behind the others
								// is decided in this critical section as well
								isQLen := func(v ssa.Value) bool {
									args, ok := an.IsBuiltinCall(v, "len")
									return ok && an.LoadsField(args[0], waiters)
								}
								if (isQLen(r.X) && an.IsIntConst(r.Y, 0)) || (isQLen(r.Y) && an.IsIntConst(r.X, 0)) {
									return r.Op == token.NEQ || r.Op == token.GTR || r.Op == token.LSS
								}
								return false
							})
						}}.Find()
				}
			})
			if nLock > 0 {
				c.Check("K5", "enqueue(waiters=append)@"+an.FnName(fn)+":decided-under-same-lock", st.Pos(), lostW == nil,
					"after each acquisition of the mutex the capacity test (curSize-reserved vs the amount) or a non-empty-queue test must be crossed before the waiter is queued; a queue insertion based on a test made in an earlier critical section loses the wake-up of an intervening Release; "+c.WitnessString(lostW))
			} else {
				c.Undecided("K5", "enqueue(waiters=append)@"+an.FnName(fn)+":decided-under-same-lock", st.Pos(), "no mutex acquisition found in the enqueuing function")
			}
		}
	}
	c.Floor("K2", "enqueue sites (append to waiters)", nAppend, 1)

	// MaxJobsSemaphore: insertion into running dominated by len(running) < Limit
	nIns, nDel := 0, 0
	for _, fn := range fns {
		an.Instrs(fn, func(in ssa.Instruction) {
			switch x := in.(type) {
			case *ssa.MapUpdate:
				if !an.LoadsField(x.Map, running) {
					return
				}
				if an.RootOf(x.Map) != nil {
					if _, fresh := an.RootOf(x.Map).(*ssa.Alloc); fresh {
						return
					}
				}
				nIns++
				// exception (one symbol chain, one reason): a method reached only from the re-attach hook counts jobs
				// that are ALREADY submitted to the cluster; they use a slot whether or not there is room for them
				if callers := effectiveCallers(p, fn, []string{"(*RemoteJobManager).reattach"}); len(callers) == 1 && callers[0] == "(*RemoteJobManager).reattach" {
					c.Pass("K2", "slot(running[m]=)@"+an.FnName(fn)+":re-attached-job-is-counted-unconditionally", in.Pos(),
						"only called from RemoteJobManager.reattach: the job is already in the cluster, it is counted without waiting for capacity")
					return
				}
				ok, w := an.GuardedBy(in, func(r an.Rel) bool {
					lenRunning := func(v ssa.Value) bool {
						args, ok := an.IsBuiltinCall(v, "len")
						return ok && an.LoadsField(args[0], running)
					}
					if r.Op == token.LSS && lenRunning(r.X) && an.LoadsField(r.Y, limit) {
						return true
					}
					if r.Op == token.GTR && lenRunning(r.Y) && an.LoadsField(r.X, limit) {
						return true
					}
					// the same test written on the spare capacity Limit-len(running), possibly through a one-line accessor
					if isSpareExpr(r.X, running, limit) && ((r.Op == token.GTR && an.IsIntConst(r.Y, 0)) || (r.Op == token.GEQ && an.IsIntConst(r.Y, 1))) {
						return true
					}
					if isSpareExpr(r.Y, running, limit) && ((r.Op == token.LSS && an.IsIntConst(r.X, 0)) || (r.Op == token.LEQ && an.IsIntConst(r.X, 1))) {
						return true
					}
					return false
				})
				c.Check("K2", "slot(running[m]=)@"+an.FnName(fn)+":capacity", in.Pos(), ok,
					"insertion into running must be dominated by len(running) < Limit; "+c.WitnessString(w))
			case *ssa.Call:
				if args, ok := an.IsBuiltinCall(x, "delete"); ok && an.LoadsField(args[0], running) {
					nDel++
					ok, w := an.MustPass(fn, in, an.IsReturn, func(y ssa.Instruction) bool {
						if _, ok := an.IsMethodCall(y, "sync", "Cond", "Signal"); ok {
							return true
						}
						if _, ok := an.IsMethodCall(y, "sync", "Cond", "Broadcast"); ok {
							return true
						}
						return false
					})
					if !ok {
						// allowed escape: the path established that no capacity is free
						ok = spareEscapeOnly(fn, in, running, limit)
					}
					c.Check("K5", "free-slot(delete running)@"+an.FnName(fn)+":signal", in.Pos(), ok,
						"removing a job from running must be followed by cond.Signal/Broadcast before returning (unless no capacity became free); "+c.WitnessString(w))
				}
			}
		})
	}
	c.Floor("K2", "insertions into MaxJobsSemaphore.running", nIns, 1)
	c.Floor("K5", "deletions from MaxJobsSemaphore.running", nDel, 1)

	// ---------------- K5 curSize updates ----------------
	nCur := 0
	for _, fn := range fns {
		sts := an.StoresToField(fn, curSize)
		if len(sts) == 0 {
			continue
		}
		for _, st := range sts {
			if st.Parent() != fn {
				continue
			}
			if _, fresh := an.RootOf(st.Addr).(*ssa.Alloc); fresh {
				continue // constructor
			}
			nCur++
			ok, w := an.Query{Fn: fn, After: st,
				Target: func(in ssa.Instruction) bool {
					if _, acq, isLock := an.LockOp(in); isLock && !acq {
						return true
					}
					return an.IsReturn(in)
				},
				Barrier: func(in ssa.Instruction) bool { return an.CalleeIs(in, runJobs) },
				BarrierEdge: func(from, to *ssa.BasicBlock) bool {
					return an.EdgeHolds(from, to, func(r an.Rel) bool {
						// not grown: old >= new, where old is a load of curSize before the store and new is a
						// load of curSize after it or the very value that was stored
						isOld := func(v ssa.Value) bool { return an.LoadsField(v, curSize) && loadBefore(v, st) }
						isNew := func(v ssa.Value) bool {
							if v == st.Val {
								return true
							}
							return an.LoadsField(v, curSize) && !loadBefore(v, st)
						}
						if r.Op == token.GEQ && r.X != r.Y {
							return isOld(r.X) && isNew(r.Y)
						}
						if r.Op == token.LEQ && r.X != r.Y {
							return isOld(r.Y) && isNew(r.X)
						}
						return false
					})
				}}.Find(), (*an.Witness)(nil)
			_ = w
			c.Check("K5", "resize(curSize=)@"+an.FnName(fn)+":wakeup", st.Pos(), ok == nil,
				"a change of curSize must be followed by runJobs() before the unlock, unless the size did not grow; "+c.WitnessString(ok))
		}
	}
	c.Floor("K5", "post-construction stores to curSize", nCur, 1)

	c12Local(c)
	c12Remote(c)
	c12Baton(c, fns)
	ruleK7(c)
	ruleK8(c)
	ruleK9(c)
	ruleK10(c)
	ruleK11(c)
	ruleK12(c)
}

// loadBefore reports whether the field load v happens before the store st on
// every path (block order approximation: same block earlier, or dominating block).
func loadBefore(v ssa.Value, st *ssa.Store) bool {
	in, ok := an.Strip(v).(ssa.Instruction)
	if !ok {
		return false
	}
	if in.Block() == st.Block() {
		for _, x := range in.Block().Instrs {
			if x == in {
				return true
			}
			if x == ssa.Instruction(st) {
				return false
			}
		}
	}
	return in.Block().Dominates(st.Block())
}

func reachFromBlock(b *ssa.BasicBlock, target func(ssa.Instruction) bool) bool {
	seen := map[*ssa.BasicBlock]bool{}
	var walk func(x *ssa.BasicBlock) bool
	walk = func(x *ssa.BasicBlock) bool {
		if seen[x] {
			return false
		}
		seen[x] = true
		for _, in := range x.Instrs {
			if target(in) {
				return true
			}
		}
		for _, s := range x.Succs {
			if walk(s) {
				return true
			}
		}
		return false
	}
	return walk(b)
}

// checkQueueWalk: the granted amount comes from waiters[i] where i walks the
// queue from its head, and on the no-fit path the queue is re-sliced at i.
func checkQueueWalk(c *an.Ctx, fn *ssa.Function, amt ssa.Value, waiters *types.Var) {
	// find IndexAddr over a load of waiters
	n := 0
	an.Instrs(fn, func(in ssa.Instruction) {
		ia, ok := in.(*ssa.IndexAddr)
		if !ok || !an.LoadsField(ia.X, waiters) {
			return
		}
		n++
		phi, ok := ia.Index.(*ssa.Phi)
		okStart := false
		if ok {
			for _, e := range phi.Edges {
				if an.IsIntConst(e, -1) || an.IsIntConst(e, 0) {
					okStart = true
				}
			}
		} else if b, isBin := ia.Index.(*ssa.BinOp); isBin && b.Op == token.ADD {
			if ph, isPhi := b.X.(*ssa.Phi); isPhi && an.IsIntConst(b.Y, 1) {
				for _, e := range ph.Edges {
					if an.IsIntConst(e, -1) {
						okStart = true
					}
				}
				phi = ph
			}
		}
		c.Check("K5", "fifo(queue walked from its head)@"+an.FnName(fn), in.Pos(), okStart,
			"the waiter queue must be walked from index 0")
		// re-slice on stop: every store waiters = waiters[lo:] that is reachable inside the loop uses lo == loop index
		for _, st := range an.StoresToField(fn, waiters) {
			sl, isSlice := st.Val.(*ssa.Slice)
			if !isSlice || !an.LoadsField(sl.X, waiters) || sl.Low == nil {
				continue
			}
			if args, isLen := an.IsBuiltinCall(sl.Low, "len"); isLen && an.LoadsField(args[0], waiters) {
				continue // clearing the queue: waiters[len(waiters):]
			}
			same := sl.Low == ia.Index
			c.Check("K5", "fifo(remaining queue starts at first waiter that does not fit)@"+an.FnName(fn), st.Pos(), same,
				"the queue must be re-sliced at the index of the first waiter that was not granted (otherwise a waiter is lost or granted twice)")
		}
	})
	c.Floor("K5", "indexing of waiters in "+an.FnName(fn), n, 1)
}

// spareEscapeOnly: every path from `after` to a return that avoids
// Signal/Broadcast crosses only through edges that test Limit-len(running).
func spareEscapeOnly(fn *ssa.Function, after ssa.Instruction, running, limit *types.Var) bool {
	isSpare := func(v ssa.Value) bool { return isSpareExpr(v, running, limit) }
	// escape requires having crossed both "spare <= 1" and "spare != 1" (=> spare <= 0)
	w := an.Query{Fn: fn, After: after, Target: an.IsReturn,
		Barrier: func(y ssa.Instruction) bool {
			if _, ok := an.IsMethodCall(y, "sync", "Cond", "Signal"); ok {
				return true
			}
			if _, ok := an.IsMethodCall(y, "sync", "Cond", "Broadcast"); ok {
				return true
			}
			return false
		},
		BarrierEdge: func(from, to *ssa.BasicBlock) bool {
			return an.EdgeHolds(from, to, func(r an.Rel) bool {
				// spare != 1 reached after spare <= 1: accept the edge "spare != 1" only when the
				// block is itself dominated by a "spare <= 1" edge
				if r.Op == token.NEQ && isSpare(r.X) && an.IsIntConst(r.Y, 1) {
					g, _ := an.GuardedBy(from.Instrs[len(from.Instrs)-1], func(r2 an.Rel) bool {
						return (r2.Op == token.LEQ && isSpare(r2.X) && an.IsIntConst(r2.Y, 1)) ||
							(r2.Op == token.LSS && isSpare(r2.X) && an.IsIntConst(r2.Y, 2))
					})
					return g
				}
				if (r.Op == token.LEQ && isSpare(r.X) && an.IsIntConst(r.Y, 0)) || (r.Op == token.LSS && isSpare(r.X) && an.IsIntConst(r.Y, 1)) {
					return true
				}
				return false
			})
		}}.Find()
	return w == nil
}

// isSpareExpr: v is Limit - len(running), directly or as the result of a one-line accessor.
func isSpareExpr(v ssa.Value, running, limit *types.Var) bool {
	if e, ok := an.ReturnExpr(v); ok {
		v = e
	}
	b, ok := v.(*ssa.BinOp)
	if !ok || b.Op != token.SUB || !an.LoadsField(b.X, limit) {
		return false
	}
	args, isLen := an.IsBuiltinCall(b.Y, "len")
	return isLen && an.LoadsField(args[0], running)
}
