package props

import (
	"go/ast"
	"go/importer"
	"go/parser"
	"go/token"
	"go/types"

	"mrocheck/an"

	"golang.org/x/tools/go/ssa"
	"golang.org/x/tools/go/ssa/ssautil"
)

// positive / negative examples analysed on every run (D2): the engine must
// flag emission and error accumulation in map order and accept
// collect-then-sort and set insertion.
const c10Examples = `package pos

import (
	"sort"
	"strings"
)

func emitInLoop(m map[string]int) string {
	var b strings.Builder
	for k := range m {
		b.WriteString(k)
	}
	return b.String()
}

func errorsInLoop(m map[string]error) []error {
	var es []error
	for _, e := range m {
		if e != nil {
			es = append(es, e)
		}
	}
	return es
}

func firstMatch(m map[string]int) string {
	for k, v := range m {
		if v > 3 {
			return k
		}
	}
	return ""
}

func collectThenSort(m map[string]int) []string {
	ks := make([]string, 0, len(m))
	for k := range m {
		ks = append(ks, k)
	}
	sort.Strings(ks)
	return ks
}

func setInsert(m map[string]int) map[string]struct{} {
	out := map[string]struct{}{}
	n := 0
	for k, v := range m {
		out[k] = struct{}{}
		n += v
	}
	_ = n
	return out
}
`

func c10PositiveExamples(c *an.Ctx, cfg *an.OrderConfig) {
	fset := token.NewFileSet()
	f, err := parser.ParseFile(fset, "pos.go", c10Examples, 0)
	if err != nil {
		c.Undecided("D2", "examples-parse", 0, err.Error())
		return
	}
	pkg := types.NewPackage("pos", "pos")
	spkg, _, err := ssautil.BuildPackage(&types.Config{Importer: importer.ForCompiler(fset, "source", nil)}, fset, pkg, []*ast.File{f}, ssa.InstantiateGenerics)
	if err != nil {
		c.Undecided("D2", "examples-build", 0, err.Error())
		return
	}
	want := map[string]bool{"emitInLoop": true, "errorsInLoop": true, "firstMatch": true, "collectThenSort": false, "setInsert": false}
	// a config whose callee classification works on the example package too
	ex := *cfg
	ex.Callees = nil
	for name, flagged := range want {
		fn := spkg.Func(name)
		loops := an.FindMapLoops(fn)
		if len(loops) != 1 {
			c.Undecided("D2", "example("+name+")", 0, "no map loop found in the example")
			continue
		}
		loops[0].Analyze(&ex)
		got := len(loops[0].Effects) > 0
		detail := "order-insensitive example must pass"
		if flagged {
			detail = "order-carrying example must be flagged"
		}
		c.Check("D2", "example("+name+")", 0, got == flagged, detail)
	}
}
