package props

import (
	"go/token"
	"go/types"
	"sort"

	"mrocheck/an"

	"golang.org/x/tools/go/ssa"
)

// Q5: the keyword modifiers of a call (`call local preflight volatile X(...)`) are stored as three
// booleans on Modifiers, separately from the `using (...)` bindings.  The formatter prints them as
// bound modifiers inside the using clause, so whether and how the clause is printed must depend on
// each of them: a path through CallStm.format on which a call has modifiers but the value of a
// keyword flag is never looked at prints the same text for `call local X` and `call X` - the
// modifier is dropped from the output and the formatted program is a different program.
//
// Must-pass-through over CallStm.format: every path from entry to a return
//   - executes a read of Modifiers.<flag> (in the function or in a callee all of whose paths read it), or
//   - crosses an edge whose condition - expanded through predicate helpers - tests the flag, or
//   - crosses an edge on which the call's Modifiers pointer is nil.
func ruleQ5(c *an.Ctx) {
	p := c.P
	fn := c.NeedFunc(pkgSyntax, "(*CallStm).format")
	modsF := p.Field(pkgSyntax, "CallStm", "Modifiers")
	if fn == nil || modsF == nil {
		c.Undecided("Q5", "anchor(CallStm.format, CallStm.Modifiers)", token.NoPos, "not found")
		return
	}
	for _, name := range []string{"Local", "Preflight", "Volatile"} {
		f := p.Field(pkgSyntax, "Modifiers", name)
		if f == nil {
			c.Undecided("Q5", "anchor(Modifiers."+name+")", token.NoPos, "field not found")
			continue
		}
		reads := func(in ssa.Instruction) bool {
			switch x := in.(type) {
			case *ssa.UnOp:
				if x.Op == token.MUL {
					_, g := an.FieldOfAddr(x.X)
					return g == f
				}
			case *ssa.Field:
				_, g := an.FieldLoad(x)
				return g == f
			}
			return false
		}
		md := &an.MustDo{Pred: reads, Depth: 3}
		w := an.Query{Fn: fn, Target: an.IsReturn,
			Barrier: func(in ssa.Instruction) bool { return md.Instr(in, 0) },
			BarrierEdge: func(from, to *ssa.BasicBlock) bool {
				return an.EdgeHolds(from, to, func(r an.Rel) bool {
					if an.LoadsField(r.X, f) || (r.Y != nil && an.LoadsField(r.Y, f)) {
						return true
					}
					return r.Op == token.EQL && an.LoadsField(r.X, modsF) && an.IsNil(r.Y)
				})
			}}.Find()
		c.Check("Q5", "keyword-modifier-examined(Modifiers."+name+")@(*CallStm).format", fn.Pos(), w == nil,
			"on every path that formats a call with modifiers the keyword flag must be looked at (it is printed as `"+
				map[string]string{"Local": "local", "Preflight": "preflight", "Volatile": "volatile"}[name]+" = true` in the using clause); "+c.WitnessString(w))
	}
}

// Q6: the same necessary condition for the other AST nodes.  The table lists, per node type with a
// format method, the fields that carry program text and that the method (or a callee all of whose
// paths do) reads on every path to a return on the current tree (mined once with the rule below,
// each confirmed by reading format*.go; fields read only under a presence test - Resources.MemGB
// under MemNode != nil, RefExp.OutputId under a non-empty test, MapExp.Kind - are not listed).
// A path that does not look at such a field prints the same text for programs that differ in it.
var q6Fields = map[string][]string{
	"ArrayExp":        {"Value"},
	"Ast":             {"Call", "Callables", "StructTypes", "UserTypes"},
	"BindStm":         {"Exp", "Id"},
	"BindStms":        {"List"},
	"BoolExp":         {"Value"},
	"CallStm":         {"Bindings", "DecId", "Id", "Mapping", "Modifiers"},
	"DisabledExp":     {"Value"},
	"FloatExp":        {"Value"},
	"InParams":        {"List"},
	"IntExp":          {"Value"},
	"MapExp":          {"Value"},
	"OutParams":       {"List"},
	"Pipeline":        {"Calls", "Id", "InParams", "OutParams", "Ret", "Retain"},
	"PipelineRetains": {"Refs"},
	"RefExp":          {"Id", "Kind"},
	"Resources":       {"MemNode", "SpecialNode", "ThreadNode", "VMemNode", "VolatileNode"},
	"RetainParams":    {"Params"},
	"ReturnStm":       {"Bindings"},
	"SplitExp":        {"Value"},
	"SrcParam":        {"Args", "Lang", "Path"},
	"Stage":           {"ChunkIns", "ChunkOuts", "Id", "InParams", "OutParams", "Resources", "Retain", "Split", "Src"},
	"StringExp":       {"Value"},
	"StructMember":    {"Help", "Id", "OutName"},
	"StructType":      {"Id", "Members"},
	"UserType":        {"Id"},
}

func ruleQ6(c *an.Ctx) {
	p := c.P
	var tnames []string
	for t := range q6Fields {
		tnames = append(tnames, t)
	}
	sort.Strings(tnames)
	n := 0
	for _, tn := range tnames {
		fn := p.Func(pkgSyntax, "(*"+tn+").format")
		if fn == nil {
			c.Undecided("Q6", "anchor((*"+tn+").format)", token.NoPos, "format method not found")
			continue
		}
		var recv ssa.Value
		if len(fn.Params) > 0 {
			recv = fn.Params[0]
		}
		for _, name := range q6Fields[tn] {
			f := p.Field(pkgSyntax, tn, name)
			if f == nil {
				c.Undecided("Q6", "anchor("+tn+"."+name+")", token.NoPos, "field not found")
				continue
			}
			n++
			reads := func(in ssa.Instruction) bool {
				switch x := in.(type) {
				case *ssa.UnOp:
					if x.Op == token.MUL {
						_, g := an.FieldOfAddr(x.X)
						return g == f
					}
				case *ssa.Field:
					_, g := an.FieldLoad(x)
					return g == f
				}
				return false
			}
			md := &an.MustDo{Pred: reads, Depth: 3}
			w := an.Query{Fn: fn, Target: an.IsReturn,
				Barrier: func(in ssa.Instruction) bool { return md.Instr(in, 0) },
				BarrierEdge: func(from, to *ssa.BasicBlock) bool {
					return an.EdgeHolds(from, to, func(r an.Rel) bool {
						if an.LoadsField(r.X, f) || (r.Y != nil && an.LoadsField(r.Y, f)) {
							return true
						}
						// nothing to print for a nil node
						return r.Op == token.EQL && recv != nil && r.X == recv && an.IsNil(r.Y)
					})
				}}.Find()
			c.Check("Q6", "field-examined("+tn+"."+name+")@(*"+tn+").format", fn.Pos(), w == nil,
				"every path through the node's format method must look at this field: a path that does not prints the same text for programs that differ in it; "+c.WitnessString(w))
		}
	}
	c.Floor("Q6", "AST fields that format methods must examine", n, 1)
}

// compileReach: the functions of package syntax statically reachable from (*Ast).compile.
func compileReach(c *an.Ctx) map[*ssa.Function]bool {
	in := map[*ssa.Function]bool{}
	top := c.P.Func(pkgSyntax, "(*Ast).compile")
	if top == nil {
		return in
	}
	work := []*ssa.Function{top}
	in[top] = true
	for len(work) > 0 {
		f := work[0]
		work = work[1:]
		for _, g := range an.WithAnon(f) {
			an.Instrs(g, func(x ssa.Instruction) {
				if cl := an.AsCallAny(x); cl != nil {
					if callee := cl.Common().StaticCallee(); callee != nil && callee.Blocks != nil && callee.Pkg == top.Pkg && !in[callee] {
						in[callee] = true
						work = append(work, callee)
					}
				}
			})
		}
	}
	return in
}

// Q7: the formatter stops at the wildcard.  Compiling `* = self` appends one generated binding per
// matched parameter to the SAME list, after the `*` entry (compileWildcard).  The text a program is
// printed as must not contain them: the grammar allows nothing after `* = …`, so the
// include-expanded source that Compile returns (and mrp records as _mrosource) would not parse
// again.  While the compiler extends BindStms.List in place, every loop of BindStms.format that
// prints bindings must leave the loop on the edge `binding.Id == "*"`.
// The premise (a function reachable from Ast.compile stores append(List, …) back into
// BindStms.List) is re-established on every run; without it the rule says nothing.
func ruleQ7(c *an.Ctx) {
	p := c.P
	list := p.Field(pkgSyntax, "BindStms", "List")
	id := p.Field(pkgSyntax, "BindStm", "Id")
	format := c.NeedFunc(pkgSyntax, "(*BindStms).format")
	elemFormat := p.Func(pkgSyntax, "(*BindStm).format")
	if list == nil || id == nil || format == nil || elemFormat == nil {
		return
	}
	premise := ""
	for fn := range compileReach(c) {
		for _, st := range an.StoresToField(fn, list) {
			if args, ok := an.IsBuiltinCall(an.Strip(st.Val), "append"); ok && len(args) > 0 && an.LoadsField(args[0], list) {
				premise = an.FnName(fn)
			}
		}
	}
	if premise == "" {
		c.Info("Q7", "premise(compiler-extends-binding-list)", 0, "no function reachable from Ast.compile appends to BindStms.List: generated bindings are kept elsewhere, rule not applicable")
		return
	}
	n := 0
	for _, m := range familyOf(p, format, 2) {
		for h, body := range naturalLoops(m) {
			prints := false
			for b := range body {
				for _, in := range b.Instrs {
					if an.CalleeIs(in, elemFormat) {
						prints = true
					}
				}
			}
			if !prints {
				continue
			}
			n++
			stops := false
			for b := range body {
				for _, s := range b.Succs {
					if body[s] {
						continue
					}
					if an.EdgeHolds(b, s, func(r an.Rel) bool {
						return r.Op == token.EQL && ((an.LoadsField(r.X, id) && an.IsStringConst(r.Y, "*")) || (an.LoadsField(r.Y, id) && an.IsStringConst(r.X, "*")))
					}) {
						stops = true
					}
				}
			}
			if !stops {
				// the list may have been cut at the wildcard before the loop (`for _, b := range self.explicitBindings()`):
				// the loop then ranges over a derived slice, and the code that derives it looks at the `*` id
				direct := false
				for b := range body {
					for _, in := range b.Instrs {
						if ia, ok := in.(*ssa.IndexAddr); ok && an.LoadsField(ia.X, list) {
							direct = true
						}
					}
				}
				if !direct {
					looks := false
					seenFn := map[*ssa.Function]bool{}
					var scan func(f *ssa.Function, d int)
					scan = func(f *ssa.Function, d int) {
						if f == nil || seenFn[f] || f.Blocks == nil || (f.Pkg != format.Pkg && f.Synthetic == "") || d > 4 {
							return
						}
						seenFn[f] = true
						for _, g := range an.WithAnon(f) {
							an.Instrs(g, func(in ssa.Instruction) {
								if bo, ok := in.(*ssa.BinOp); ok && (bo.Op == token.EQL || bo.Op == token.NEQ) {
									if (an.LoadsField(bo.X, id) && an.IsStringConst(bo.Y, "*")) || (an.LoadsField(bo.Y, id) && an.IsStringConst(bo.X, "*")) {
										looks = true
									}
								}
								if cl := an.AsCallAny(in); cl != nil {
									scan(cl.Common().StaticCallee(), d+1)
								}
								// predicates handed over as function values (slices.IndexFunc(list, (*BindStm).isWildcard))
								for _, op := range in.Operands(nil) {
									switch fv := (*op).(type) {
									case *ssa.Function:
										scan(fv, d+1)
									case *ssa.MakeClosure:
										if cf, ok := fv.Fn.(*ssa.Function); ok {
											scan(cf, d+1)
										}
									}
								}
							})
						}
					}
					scan(m, 0)
					stops = looks
				}
			}
			c.Check("Q7", "printing-stops-at-the-wildcard@"+an.FnName(m), h.Instrs[0].Pos(), stops,
				"the loop that prints a binding list does not stop at the `*` entry, while "+premise+" appends the bindings generated for the wildcard to the same list: a compiled program is printed with bindings after `* = …`, which the parser rejects (the recorded _mrosource does not compile on its own)")
		}
	}
	c.Floor("Q7", "loops printing bindings in BindStms.format", n, 1)
}

// Q8-Q10 (round 4, three genuine defects in comment handling): "no comment text is lost … each
// comment is kept exactly once and the output is a fixed point".
//
// Q8  A node synthesised by the formatter does not carry the comments of the node being printed.
//
//	CallStm.format builds a `using (...)` block for the keyword modifiers; giving it the call's
//	whole AstNode (`Node: self.Node`) copies the call's comments, which are then printed by the
//	call, by the block and by every synthesised binding (4-6 times; not a fixed point).  In a
//	method of package syntax, the AstNode of the receiver must not be stored as the Node of a
//	freshly allocated AST node.
//
// Q9  Sibling agreement of the two retain formatters: each loop that prints retained elements calls
//
//	printComments (RetainParams.format did, PipelineRetains.format did not: a comment before a
//	retained reference was lost).
//
// Q10 Wherever the formatter decides by `len(n.Comments)` whether an element has comments to
//
//	print, it also looks at `n.scopeComments` of the same node (a comment followed by a blank
//	line is a scope comment; ArrayExp/MapExp.format dropped it).
func ruleQ8Q10(c *an.Ctx) {
	p := c.P
	nodeT := p.Named(pkgSyntax, "AstNode")
	comments := p.Field(pkgSyntax, "AstNode", "Comments")
	scope := p.Field(pkgSyntax, "AstNode", "scopeComments")
	printComments := p.Func(pkgSyntax, "(*printer).printComments")
	if nodeT == nil || comments == nil || scope == nil || printComments == nil {
		c.Info("Q8", "anchor(AstNode, printComments)", 0, "not found: not decided")
		return
	}
	isNodeField := func(v ssa.Value) (ssa.Value, bool) {
		fa, ok := v.(*ssa.FieldAddr)
		if !ok {
			return nil, false
		}
		_, f := an.FieldOfAddr(fa)
		if f == nil || f.Name() != "Node" || !types.Identical(f.Type(), nodeT) {
			return nil, false
		}
		return fa.X, true
	}
	n8 := 0
	for _, fn := range p.FuncsOf(pkgSyntax) {
		if fn.Signature.Recv() == nil || len(fn.Params) == 0 || fn.Name() != "format" {
			continue
		}
		recv := ssa.Value(fn.Params[0])
		an.Instrs(fn, func(in ssa.Instruction) {
			st, ok := in.(*ssa.Store)
			if !ok {
				return
			}
			dst, ok := isNodeField(st.Addr)
			if !ok {
				return
			}
			if _, fresh := an.RootOf(dst).(*ssa.Alloc); !fresh {
				return
			}
			ld, ok := st.Val.(*ssa.UnOp)
			if !ok || ld.Op != token.MUL {
				return
			}
			src, ok := isNodeField(ld.X)
			if !ok {
				return
			}
			n8++
			own := an.Strip(src) == recv || an.Path(src) == an.Path(recv) // the receiver, also when a closure captures it (cell)
			c.Check("Q8", "synthesised-node-does-not-copy-the-printed-node's-comments@"+an.FnName(fn), st.Pos(), !own,
				"a node created by the formatter is given the whole AstNode of the node being printed, comments included: the comments are printed again for the synthesised node (and for every node made from it), several times over and with a different indent, so the output is not a fixed point")
		})
	}
	if n8 == 0 {
		c.Pass("Q8", "no-node-copies-in-format-methods", 0, "no format method stores an existing AstNode into a node it creates")
	}
	// Q9
	n9 := 0
	for _, name := range []string{"(*PipelineRetains).format", "(*RetainParams).format"} {
		fn := p.Func(pkgSyntax, name)
		if fn == nil {
			continue
		}
		for _, m := range familyOf(p, fn, 1) {
			for h, body := range naturalLoops(m) {
				n9++
				has := false
				for b := range body {
					for _, in := range b.Instrs {
						if an.CalleeIs(in, printComments) {
							has = true
						}
					}
				}
				c.Check("Q9", "retained-elements-print-their-comments@"+name, h.Instrs[0].Pos(), has,
					"the loop that prints the retained elements never calls printComments: a comment written before a retained reference is lost")
			}
		}
	}
	c.Floor("Q9", "loops in the retain formatters", n9, 2)
	// Q10
	n10 := 0
	// the format methods and the helper functions / predicate methods they call (hasComments ...)
	var q10fns []*ssa.Function
	q10seen := map[*ssa.Function]bool{}
	for _, fn := range p.FuncsOf(pkgSyntax) {
		if fn.Name() != "format" || fn.Signature.Recv() == nil || q10seen[fn] {
			continue
		}
		q10seen[fn] = true
		q10fns = append(q10fns, fn)
		an.Instrs(fn, func(in ssa.Instruction) {
			if cl := an.AsCallAny(in); cl != nil {
				if h := cl.Common().StaticCallee(); h != nil && h.Blocks != nil && h.Pkg == fn.Pkg && h.Name() != "format" && !q10seen[h] {
					q10seen[h] = true
					q10fns = append(q10fns, h)
				}
			}
		})
	}
	// accessor: a function every return of which is a load of the given field
	accessorOf := func(v ssa.Value, fld *types.Var) (ssa.Value, bool) {
		cl, ok := v.(*ssa.Call)
		if !ok {
			return nil, false
		}
		g := cl.Call.StaticCallee()
		if g == nil || g.Blocks == nil || g.Pkg == nil || len(cl.Call.Args) == 0 {
			return nil, false
		}
		all, any := true, false
		an.Instrs(g, func(x ssa.Instruction) {
			if ret, isRet := x.(*ssa.Return); isRet && len(ret.Results) == 1 {
				if an.IsNil(ret.Results[0]) {
					return
				}
				if _, f := an.FieldLoad(an.Strip(ret.Results[0])); f == fld {
					any = true
				} else {
					all = false
				}
			}
		})
		if all && any {
			return cl.Call.Args[0], true
		}
		return nil, false
	}
	for _, fn := range q10fns {
		var commentBases, scopeBases []string
		var pos []ssa.Instruction
		an.Instrs(fn, func(in ssa.Instruction) {
			v, isVal := in.(ssa.Value)
			if !isVal {
				return
			}
			args, ok := an.IsBuiltinCall(v, "len")
			if !ok || len(args) != 1 {
				return
			}
			base, f := an.FieldLoad(an.Strip(args[0]))
			if f == nil {
				if b, ok := accessorOf(an.Strip(args[0]), comments); ok {
					base, f = b, comments
				} else if b, ok := accessorOf(an.Strip(args[0]), scope); ok {
					base, f = b, scope
				}
			}
			if f == comments {
				commentBases = append(commentBases, an.StablePath(base))
				pos = append(pos, in)
			}
			if f == scope {
				scopeBases = append(scopeBases, an.StablePath(base))
			}
		})
		for i, b := range commentBases {
			n10++
			has := false
			for _, s := range scopeBases {
				if s == b {
					has = true
				}
			}
			c.Check("Q10", "scope-comments-considered-with-comments("+b+")@"+an.FnName(fn), pos[i].Pos(), has,
				"the formatter looks at len(Comments) of this node to decide whether there is anything to print but never at its scopeComments: a comment that is followed by a blank line (a scope comment) on this element is dropped")
		}
	}
	c.Floor("Q10", "len(node.Comments) tests in format methods", n10, 1)
}
