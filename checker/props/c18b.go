package props

import (
	"fmt"
	"go/constant"
	"go/token"
	"go/types"
	"sort"
	"strings"

	"mrocheck/an"

	"golang.org/x/tools/go/ssa"
)

// H1 (bulk copies).  The per-rune switch is the only place where input bytes are
// decided; a path that copies a run of the input verbatim (append(buf, s...),
// append(buf, []byte(s)...), copy(dst, s)) bypasses it.  Such a copy is accepted
// only when the guards dominating it exclude every byte that is special inside
// double quotes.  Guards are read from the code:
//
//	strings.ContainsAny / ContainsRune / Contains / IndexAny / IndexByte / IndexRune / Index
//	with constant needles, directly or through a module helper whose result is true
//	whenever such a call is true.
//
// Verdicts: all specials excluded -> pass; a guard whose meaning is not recognised
// (content-dependent but not one of the forms above) -> info only, no verdict;
// otherwise -> violation naming the specials that can reach the copy.
var shellSpecials = []rune{'$', '`', '"', '\\'}

// predicates over a string that say nothing about ASCII specials
var specialsAgnostic = map[string]bool{
	"unicode/utf8:ValidString": true, "unicode/utf8:Valid": true, "unicode/utf8:RuneCountInString": true,
	"unicode/utf8:RuneCount": true, "unicode/utf8:FullRuneInString": true,
}

type guardInfo struct {
	excluded map[rune]bool
	unknown  []string // content-dependent guards that are not understood
}

func c18BulkCopies(c *an.Ctx, fns []*ssa.Function) {
	nSites := 0
	for _, fn := range fns {
		strParams := map[*ssa.Parameter]bool{}
		for _, p := range fn.Params {
			if b, ok := p.Type().Underlying().(*types.Basic); ok && b.Info()&types.IsString != 0 {
				strParams[p] = true
			}
		}
		if len(strParams) == 0 {
			continue
		}
		var derives func(v ssa.Value, seen map[ssa.Value]bool) bool
		derives = func(v ssa.Value, seen map[ssa.Value]bool) bool {
			if v == nil || seen[v] {
				return false
			}
			seen[v] = true
			switch x := v.(type) {
			case *ssa.Parameter:
				return strParams[x]
			case *ssa.Slice:
				return derives(x.X, seen)
			case *ssa.Convert:
				return derives(x.X, seen)
			case *ssa.ChangeType:
				return derives(x.X, seen)
			case *ssa.Phi:
				for _, e := range x.Edges {
					if derives(e, seen) {
						return true
					}
				}
			}
			return false
		}
		fromInput := func(v ssa.Value) bool { return derives(v, map[ssa.Value]bool{}) }
		an.Instrs(fn, func(in ssa.Instruction) {
			call, ok := in.(*ssa.Call)
			if !ok {
				return
			}
			var src ssa.Value
			if args, ok := an.IsBuiltinCall(call, "append"); ok && len(args) == 2 {
				src = args[1]
			} else if args, ok := an.IsBuiltinCall(call, "copy"); ok && len(args) == 2 {
				src = args[1]
			}
			if src == nil || !fromInput(src) {
				return
			}
			nSites++
			verbatimVerdict(c, "H1", "verbatim-copy-guarded@"+an.FnName(fn), fn, call, fromInput, shellSpecials,
				"a run of the input is copied verbatim between the double quotes, bypassing the escape switch", "a value containing it is handed to the shell unescaped")
		})
	}
	c.Note("verbatim bulk copies of the input in the quoting functions: %d", nSites)
}

// verbatimVerdict decides one verbatim copy: pass when the dominating guards exclude every rune of
// required, info when a guard is not understood, violation otherwise.
func verbatimVerdict(c *an.Ctx, rule, key string, fn *ssa.Function, site ssa.Instruction, fromInput func(ssa.Value) bool, required []rune, what, consequence string) {
	gi := guardsAt(fn, site, fromInput)
	var missing []string
	for _, r := range required {
		if !gi.excluded[r] {
			missing = append(missing, fmt.Sprintf("%q", r))
		}
	}
	if len(missing) > 6 {
		missing = append(missing[:6], fmt.Sprintf("… (%d more)", len(missing)-6))
	}
	switch {
	case len(missing) == 0:
		c.Pass(rule, key, site.Pos(), what+"; the dominating guards exclude every byte that needs escaping")
	case len(gi.unknown) > 0:
		c.Info(rule, key, site.Pos(), fmt.Sprintf("%s under guards this rule does not interpret (%s); not decided", what, strings.Join(gi.unknown, "; ")))
	default:
		c.Fail(rule, key, site.Pos(), fmt.Sprintf("%s, and the guards dominating the copy do not exclude %s: %s", what, strings.Join(missing, " "), consequence))
	}
}

// guardsAt collects what the conditional edges that dominate site say about the content of the input.
func guardsAt(fn *ssa.Function, site ssa.Instruction, fromInput func(ssa.Value) bool) guardInfo {
	gi := guardInfo{excluded: map[rune]bool{}}
	for _, b := range fn.Blocks {
		for _, s := range b.Succs {
			cnd, truth, ok := an.EdgeCond(b, s)
			if !ok {
				continue
			}
			// does this edge guard the site? every path to site crosses b->s
			from, to := b, s
			w := an.Query{Fn: fn, Target: func(in ssa.Instruction) bool { return in == site },
				BarrierEdge: func(f, t *ssa.BasicBlock) bool { return f == from && t == to }}.Find()
			if w != nil {
				continue
			}
			ex, unk := edgeExcludes(an.Normalize(cnd, truth), fromInput, 0)
			for r := range ex {
				gi.excluded[r] = true
			}
			gi.unknown = append(gi.unknown, unk...)
		}
	}
	sort.Strings(gi.unknown)
	return gi
}

// needleOf returns the constant needle set of a strings.* search call on an input-derived haystack.
func needleOf(call *ssa.Call, fromInput func(ssa.Value) bool) (set map[rune]bool, boolResult bool, ok bool) {
	f := call.Call.StaticCallee()
	if f == nil || f.Pkg == nil || (f.Pkg.Pkg.Path() != "strings" && f.Pkg.Pkg.Path() != "bytes") || len(call.Call.Args) != 2 {
		return nil, false, false
	}
	if !fromInput(call.Call.Args[0]) {
		return nil, false, false
	}
	cv, isC := an.ConstVal(call.Call.Args[1])
	if !isC {
		return nil, false, false
	}
	set = map[rune]bool{}
	switch f.Name() {
	case "ContainsAny", "IndexAny":
		if cv.Kind() != constant.String {
			return nil, false, false
		}
		for _, r := range constant.StringVal(cv) {
			set[r] = true
		}
	case "ContainsRune", "IndexRune", "IndexByte":
		if cv.Kind() != constant.Int {
			return nil, false, false
		}
		v, _ := constant.Int64Val(cv)
		set[rune(v)] = true
	case "Contains", "Index":
		if cv.Kind() != constant.String || len([]rune(constant.StringVal(cv))) != 1 {
			return nil, false, false
		}
		set[[]rune(constant.StringVal(cv))[0]] = true
	default:
		return nil, false, false
	}
	return set, strings.HasPrefix(f.Name(), "Contains"), true
}

// edgeExcludes: the runes that cannot occur in the input when relation r holds; unk lists
// content-dependent conditions that are not understood.
func edgeExcludes(r an.Rel, fromInput func(ssa.Value) bool, depth int) (ex map[rune]bool, unk []string) {
	ex = map[rune]bool{}
	if r.Op == token.ILLEGAL {
		call, ok := r.X.(*ssa.Call)
		if !ok {
			// a boolean that is not a call: a flag computed elsewhere (possibly by inspecting the input)
			if _, isParam := r.X.(*ssa.Parameter); !isParam {
				unk = append(unk, "flag "+r.X.Name())
			}
			return
		}
		if set, isBool, ok := needleOf(call, fromInput); ok && isBool {
			if !r.Truth {
				return set, nil
			}
			return
		}
		f := call.Call.StaticCallee()
		anyInput := false
		for _, a := range call.Call.Args {
			if fromInput(a) {
				anyInput = true
			}
		}
		if !anyInput {
			return
		}
		if f == nil {
			return ex, []string{"dynamic call"}
		}
		if specialsAgnostic[an.QName(f)] {
			return
		}
		if f.Blocks != nil && f.Pkg != nil && strings.HasPrefix(f.Pkg.Pkg.Path(), an.ModPath) && depth < 2 {
			// a byte-wise predicate (loop over the input comparing each byte with constants)
			if bex, ok := bytePredicate(f, r.Truth); ok {
				return bex, nil
			}
			if !r.Truth {
				return helperExcludes(f, depth)
			}
		}
		return ex, []string{"call to " + an.FnName(f)}
	}
	// index forms: IndexAny(s,K) < 0, == -1, and flipped
	chk := func(x, y ssa.Value, op token.Token) bool {
		call, ok := x.(*ssa.Call)
		if !ok {
			return false
		}
		set, isBool, ok := needleOf(call, fromInput)
		if !ok || isBool {
			if contentDependent(x, fromInput, map[ssa.Value]bool{}) {
				unk = append(unk, "comparison on "+x.String())
			}
			return true
		}
		neg := (op == token.LSS && an.IsIntConst(y, 0)) || (op == token.EQL && an.IsIntConst(y, -1)) || (op == token.LEQ && an.IsIntConst(y, -1))
		if neg {
			for k := range set {
				ex[k] = true
			}
		}
		return true
	}
	if !chk(r.X, r.Y, r.Op) {
		f := r.Flip()
		if !chk(f.X, f.Y, f.Op) {
			if contentDependent(r.X, fromInput, map[ssa.Value]bool{}) || contentDependent(r.Y, fromInput, map[ssa.Value]bool{}) {
				// len(s) comparisons are not content dependent; s[i] comparisons are
				unk = append(unk, "comparison "+r.X.String()+" "+r.Op.String()+" "+r.Y.String())
			}
		}
	}
	return
}

// helperExcludes: g(s) returned false.  A search call in g whose truth forces g to return true
// (the call is the result, or the true edge of its If feeds a constant true into the result phi)
// is false as well.
func helperExcludes(g *ssa.Function, depth int) (ex map[rune]bool, unk []string) {
	ex = map[rune]bool{}
	strParams := map[*ssa.Parameter]bool{}
	for _, p := range g.Params {
		if b, ok := p.Type().Underlying().(*types.Basic); ok && b.Info()&types.IsString != 0 {
			strParams[p] = true
		}
	}
	fromInput := func(v ssa.Value) bool {
		for {
			switch x := v.(type) {
			case *ssa.Parameter:
				return strParams[x]
			case *ssa.Slice:
				v = x.X
			case *ssa.Convert:
				v = x.X
			default:
				return false
			}
		}
	}
	var results []ssa.Value
	an.Instrs(g, func(in ssa.Instruction) {
		if r, ok := in.(*ssa.Return); ok && len(r.Results) == 1 {
			results = append(results, r.Results[0])
		}
	})
	forcesTrue := func(call *ssa.Call) bool {
		for _, res := range results {
			if res == ssa.Value(call) {
				continue
			}
			phi, ok := res.(*ssa.Phi)
			if !ok {
				return false
			}
			b := call.Block()
			ifi, isIf := b.Instrs[len(b.Instrs)-1].(*ssa.If)
			if !isIf || ifi.Cond != ssa.Value(call) || b.Succs[0] != phi.Block() {
				return false
			}
			okEdge := false
			for i, pred := range phi.Block().Preds {
				if pred == b {
					if cv, isC := an.ConstVal(phi.Edges[i]); isC && cv.Kind() == constant.Bool && constant.BoolVal(cv) {
						okEdge = true
					}
				}
			}
			if !okEdge {
				return false
			}
		}
		return len(results) > 0
	}
	an.Instrs(g, func(in ssa.Instruction) {
		call, ok := in.(*ssa.Call)
		if !ok {
			return
		}
		if _, isB := call.Call.Value.(*ssa.Builtin); isB {
			return
		}
		anyInput := false
		for _, a := range call.Call.Args {
			if fromInput(a) {
				anyInput = true
			}
		}
		if !anyInput {
			return
		}
		if set, isBool, ok := needleOf(call, fromInput); ok {
			if isBool && forcesTrue(call) {
				for k := range set {
					ex[k] = true
				}
			}
			return
		}
		f := call.Call.StaticCallee()
		if f != nil && specialsAgnostic[an.QName(f)] {
			return
		}
		name := "dynamic call"
		if f != nil {
			name = an.FnName(f)
		}
		unk = append(unk, "call to "+name+" in "+an.FnName(g))
	})
	// content inspected byte by byte in the helper: not interpreted
	an.Instrs(g, func(in ssa.Instruction) {
		switch x := in.(type) {
		case *ssa.Index:
			if fromInput(x.X) {
				unk = append(unk, "byte-wise inspection in "+an.FnName(g))
			}
		case *ssa.Range:
			if fromInput(x.X) {
				unk = append(unk, "range over the input in "+an.FnName(g))
			}
		}
	})
	return
}

// contentDependent: v is computed from the bytes of the input (not merely its length).
func contentDependent(v ssa.Value, fromInput func(ssa.Value) bool, seen map[ssa.Value]bool) bool {
	if v == nil || seen[v] {
		return false
	}
	seen[v] = true
	switch x := v.(type) {
	case *ssa.Index:
		return fromInput(x.X)
	case *ssa.Lookup:
		return fromInput(x.X)
	case *ssa.Next:
		return true
	case *ssa.Extract:
		return contentDependent(x.Tuple, fromInput, seen)
	case *ssa.BinOp:
		return contentDependent(x.X, fromInput, seen) || contentDependent(x.Y, fromInput, seen)
	case *ssa.UnOp:
		return contentDependent(x.X, fromInput, seen)
	case *ssa.Convert:
		return contentDependent(x.X, fromInput, seen)
	case *ssa.Phi:
		for _, e := range x.Edges {
			if contentDependent(e, fromInput, seen) {
				return true
			}
		}
	case *ssa.Call:
		if _, ok := an.IsBuiltinCall(x, "len"); ok {
			return false
		}
		for _, a := range x.Call.Args {
			if fromInput(a) || contentDependent(a, fromInput, seen) {
				return true
			}
		}
	}
	return false
}

// H2 (single pass).  The job script is produced by substituting quoted values for placeholders.  The
// text that was substituted in must never be scanned for placeholders again: a path or argument that
// happens to contain the text of another placeholder would be rewritten (or its line deleted).
// Necessary condition: in jobScript no string-replacement call takes as its haystack a value derived
// from the result of a replacement (strings.NewReplacer(...).Replace(template) is one simultaneous pass).
func c18SinglePass(c *an.Ctx, fn *ssa.Function) {
	type rep struct {
		call *ssa.Call
		hay  ssa.Value
	}
	var reps []rep
	var all []ssa.Instruction
	fam := familyOf(c.P, fn, 2)
	inFam := map[*ssa.Function]bool{}
	for _, m := range fam {
		all = append(all, instrsOf(m)...)
		inFam[m] = true
	}
	each := func(f func(ssa.Instruction)) {
		for _, in := range all {
			f(in)
		}
	}
	each(func(in ssa.Instruction) {
		call, ok := in.(*ssa.Call)
		if !ok {
			return
		}
		f := call.Call.StaticCallee()
		if f == nil || f.Pkg == nil || f.Pkg.Pkg.Path() != "strings" {
			return
		}
		switch {
		case f.Signature.Recv() == nil && (f.Name() == "Replace" || f.Name() == "ReplaceAll") && len(call.Call.Args) >= 3:
			reps = append(reps, rep{call, call.Call.Args[0]})
		case f.Signature.Recv() != nil && f.Name() == "Replace" && len(call.Call.Args) == 2:
			reps = append(reps, rep{call, call.Call.Args[1]})
		}
	})
	c.Floor("H2", "string replacement calls in jobScript or its private helpers", len(reps), 1)
	isRep := map[ssa.Value]bool{}
	for _, r := range reps {
		isRep[r.call] = true
	}
	var derived func(v ssa.Value, seen map[ssa.Value]bool) bool
	derived = func(v ssa.Value, seen map[ssa.Value]bool) bool {
		if v == nil || seen[v] {
			return false
		}
		seen[v] = true
		if isRep[v] {
			return true
		}
		switch x := v.(type) {
		case *ssa.Phi:
			for _, e := range x.Edges {
				if derived(e, seen) {
					return true
				}
			}
		case *ssa.Slice:
			return derived(x.X, seen)
		case *ssa.Convert:
			return derived(x.X, seen)
		case *ssa.BinOp:
			return derived(x.X, seen) || derived(x.Y, seen)
		case *ssa.Parameter:
			// a helper of the family: what its callers pass
			h := x.Parent()
			if h == nil || h == fn || !inFam[h] {
				return false
			}
			idx := -1
			for i, p := range h.Params {
				if p == x {
					idx = i
				}
			}
			for _, m := range fam {
				for _, cs := range callsTo(m, h) {
					if idx >= 0 && idx < len(cs.Common().Args) && derived(cs.Common().Args[idx], seen) {
						return true
					}
				}
			}
		case *ssa.Call:
			// pieces of a derived text are derived
			if h := x.Call.StaticCallee(); h != nil && h.Pkg != nil && h.Pkg.Pkg.Path() == "strings" && h.Signature.Recv() == nil && len(x.Call.Args) > 0 {
				switch h.Name() {
				case "Split", "SplitN", "SplitAfter", "SplitAfterN", "Fields", "Join", "TrimSpace", "Trim", "TrimRight", "TrimLeft", "TrimSuffix", "TrimPrefix":
					if derived(x.Call.Args[0], seen) {
						return true
					}
				}
			}
			// the result of a helper of the family: what it returns
			if h := x.Call.StaticCallee(); h != nil && inFam[h] && h != fn {
				found := false
				an.Instrs(h, func(in ssa.Instruction) {
					if ret, ok := in.(*ssa.Return); ok && !found {
						for i := range ret.Results {
							if derived(an.RetVal(ret, i), seen) {
								found = true
							}
						}
					}
				})
				return found
			}
		case *ssa.IndexAddr:
			return derived(x.X, seen)
		case *ssa.Index:
			return derived(x.X, seen)
		case *ssa.UnOp:
			if x.Op == token.MUL {
				if ia, ok := x.X.(*ssa.IndexAddr); ok && derived(ia.X, seen) {
					return true
				}
				// a local variable cell: any value stored into it
				for _, r := range an.Referrers(x.X) {
					if st, ok := r.(*ssa.Store); ok && st.Addr == x.X && derived(st.Val, seen) {
						return true
					}
				}
			}
		}
		return false
	}
	// searching the substituted text for placeholder text is the same mistake without a replacement
	// call: the line is then blanked, cut or rewritten by hand.  A search with a constant needle that
	// is not placeholder text ("\n") says nothing about placeholders and is ignored.
	each(func(in ssa.Instruction) {
		call, ok := in.(*ssa.Call)
		if !ok {
			return
		}
		f := call.Call.StaticCallee()
		if f == nil || f.Pkg == nil || f.Pkg.Pkg.Path() != "strings" || f.Signature.Recv() != nil || len(call.Call.Args) != 2 {
			return
		}
		switch f.Name() {
		case "Contains", "Index", "LastIndex", "HasPrefix", "HasSuffix", "Count", "ContainsAny", "IndexAny":
		default:
			return
		}
		if cv, isC := an.ConstVal(call.Call.Args[1]); isC && !strings.Contains(cv.ExactString(), "__") {
			return
		}
		if derived(call.Call.Args[0], map[ssa.Value]bool{}) {
			c.Fail("H2", "substituted-text-searched-for-placeholders("+f.Name()+" over "+an.StablePath(call.Call.Args[0])+")@"+an.FnName(in.Parent()), call.Pos(),
				"text into which the quoted values have already been substituted is searched for placeholder text: an argument, path or environment value that contains the text of a placeholder is treated as template text (its line deleted or rewritten)")
		}
	})
	for _, r := range reps {
		bad := derived(r.hay, map[ssa.Value]bool{})
		c.Check("H2", "substitution-single-pass("+r.call.Call.StaticCallee().Name()+" over "+an.StablePath(r.hay)+")@(*RemoteJobManager).jobScript", r.call.Pos(), !bad,
			"the text scanned for placeholders derives from the result of an earlier substitution: values already inserted (quoted paths, arguments, environment values) are scanned again and rewritten if they contain placeholder text")
	}
}
