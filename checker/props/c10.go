package props

import (
	"fmt"
	"go/token"
	"go/types"
	"sort"
	"strings"

	"mrocheck/an"

	"golang.org/x/tools/go/ssa"
)

func init() {
	Registry["C10"] = Entry{
		Run: runC10,
		Explanation: "Decides a structural necessary condition of 'compilation, formatting and call-graph resolution are deterministic': " +
			"D1 iteration-order analysis of every `range` over a map in the functions reachable from the deterministic entry points (parse, compile, format, call-graph construction and JSON encoding, fork id construction, per-fork invocation recording): " +
			"a loop passes when every effect of its body is order-insensitive (insertion into a map/set, counters, boolean accumulation, early exit with loop-invariant values, collect-then-sort); every other loop must be listed in the triage table of the checker with a reason why the order cannot reach an output, or is a violation; " +
			"D1b no goroutine, clock, random or pid source is reachable from the syntax entry points; " +
			"D2 a positive example (map loop writing to a builder) must be flagged on every run, " +
			"D3 sibling agreement of key orders: where pointer keys collected from a map are sorted by a comparator, no site orders a key type by a strict subset of the fields another site uses for the same type. " +
			"D4 a comparator of keys taken from a map that compares a location's line also compares its file and column (sort.Slice closures and Less methods, accessors looked through). " +
			"D5 a sort.Slice comparator that indexes a slice with its parameters indexes the slice being sorted. " +
			"D1 (round 8) also: storing the accumulated slice into a field of the receiver makes every return a use (sort first); a returned freshly allocated value counts as loop-variant when a field of it was stored with a loop-variant value; LazyArgumentMap.ValidateInputs/ValidateOutputs are entry points. " +
			"D1 (round 9): the triage of walkExp's map loop is re-validated - every visitor passed to WalkExp returns nil or SkipExp only. " +
			"D1b (round 10): no goroutine in cmd/mro/check, format, graph. " +
			"NOT decided: order dependence through pointer identity, whether a comparator is a total order on the values it meets (only the sibling contradiction is), stability of topoSort.",
		Assumptions: commonAssumptions,
	}
}

// c10Triage: loops whose body has an order-carrying effect by the automatic
// classification but which were confirmed by reading to be order-insensitive.
// Keyed by function + ranged expression; one reason per entry.
type triage struct {
	Effects string // the effect signature the triage was made for; a different signature voids it
	Reason  string
	// Check re-validates the structural fact the reason relies on (nil = purely semantic reason).
	Check func(c *an.Ctx, l *an.MapLoop, cfg *an.OrderConfig) (bool, string)
}

func sortAfterLoop(c *an.Ctx, l *an.MapLoop, cfg *an.OrderConfig) (bool, string) {
	found := false
	an.Instrs(l.Fn, func(in ssa.Instruction) {
		cl, ok := in.(ssa.CallInstruction)
		if !ok {
			return
		}
		if _, isSort := cfg.IsSort(cl); isSort && an.Reachable(l.Fn, l.Next, func(x ssa.Instruction) bool { return x == in }) {
			found = true
		}
	})
	return found, "a sort call must follow the loop"
}

// callerSorts: fn's only callers are `callers`, and each sorts the value it receives from fn.
func callerSorts(callers ...string) func(c *an.Ctx, l *an.MapLoop, cfg *an.OrderConfig) (bool, string) {
	return func(c *an.Ctx, l *an.MapLoop, cfg *an.OrderConfig) (bool, string) {
		if len(callers) > 0 {
			got := effectiveCallers(c.P, l.Fn, callers)
			if ok, extra := subset(got, callers); !ok || len(got) == 0 {
				return false, "unexpected caller " + extra
			}
		} else if len(c.P.Callers(l.Fn)) == 0 || l.Fn.Object() == nil || l.Fn.Object().Exported() {
			return false, "no callers / exported"
		}
		for caller, sites := range c.P.Callers(l.Fn) {
			for _, site := range sites {
				v := site.Value()
				if v == nil {
					return false, "result not used"
				}
				t := an.NewTaint(0, nil)
				t.Add(v)
				t.Run()
				sorted := false
				an.Instrs(caller, func(in ssa.Instruction) {
					cl, ok := in.(ssa.CallInstruction)
					if !ok {
						return
					}
					if arg, isSort := cfg.IsSort(cl); isSort && (t.Has(arg) || t.Has(an.Strip(arg))) {
						sorted = true
					} else if isSort {
						// the result was stored into a place and the place is what gets sorted
						ap := an.Path(an.Strip(arg))
						for _, r := range an.Referrers(v) {
							if st, ok := r.(*ssa.Store); ok && st.Val == ssa.Value(v) && strings.TrimPrefix(an.Path(st.Addr), "&") == strings.TrimPrefix(ap, "*") {
								sorted = true
							}
						}
					}
				})
				if !sorted && len(callers) == 0 {
					// the caller hands the slice on unchanged: its own callers may be the ones that sort
					// (one more level: getUnknownKeys -> expandForkFromObj)
					passesOn := false
					an.Instrs(caller, func(in ssa.Instruction) {
						if r, ok := in.(*ssa.Return); ok {
							for _, res := range r.Results {
								if t.Has(res) || t.Has(an.Strip(res)) {
									passesOn = true
								}
							}
						}
					})
					if passesOn && caller.Object() != nil && !caller.Object().Exported() {
						up := c.P.Callers(caller)
						allUp := len(up) > 0
						for upCaller, upSites := range up {
							for _, us := range upSites {
								uv := us.Value()
								if uv == nil {
									allUp = false
									continue
								}
								t2 := an.NewTaint(0, nil)
								t2.Add(uv)
								t2.Run()
								found := false
								an.Instrs(upCaller, func(in ssa.Instruction) {
									cl, ok := in.(ssa.CallInstruction)
									if !ok {
										return
									}
									if arg, isSort := cfg.IsSort(cl); isSort && (t2.Has(arg) || t2.Has(an.Strip(arg))) {
										found = true
									}
								})
								if !found {
									allUp = false
								}
							}
						}
						sorted = allUp
					}
				}
				if !sorted {
					return false, "caller " + an.FnName(caller) + " does not sort the returned slice"
				}
			}
		}
		return true, ""
	}
}

// paramSortedIn: the value returned by the loop's function reaches parameter `param` of function fnName, which sorts it.
func paramSortedIn(pkg, fnName, param string) func(c *an.Ctx, l *an.MapLoop, cfg *an.OrderConfig) (bool, string) {
	return func(c *an.Ctx, l *an.MapLoop, cfg *an.OrderConfig) (bool, string) {
		fn := c.P.Func(pkg, fnName)
		if fn == nil {
			return false, fnName + " not found"
		}
		prm := paramNamed(fn, param)
		if prm == nil {
			return false, "parameter " + param + " not found"
		}
		sorted := false
		an.Instrs(fn, func(in ssa.Instruction) {
			cl, ok := in.(ssa.CallInstruction)
			if !ok {
				return
			}
			if arg, isSort := cfg.IsSort(cl); isSort && (an.Strip(arg) == ssa.Value(prm) || an.Path(an.Strip(arg)) == prm.Name()) {
				sorted = true
			}
		})
		return sorted, fnName + " must sort its parameter " + param
	}
}

// c10Triage: loops whose body has an order-carrying effect by the automatic
// classification but which were confirmed by reading to be order-insensitive.
// Keyed by function + ranged expression; one reason per entry.
var c10Triage = map[string]triage{
	"(*Modifiers).compile#range(mods.Bindings.Table)":  {"append(ErrorList)", "every error appended in this loop has the identical text (PreflightBindingError with the call id); their relative order cannot change the rendered error", nil},
	"(*MapExp).equal#range(exp.Value)":                 {"first-match-return", "the returned error is only tested for nil (disabled_exp.go, resolve_stage.go) or logged through util.PrintInfo by BindStm.Equals; its text is not a compile/format/call-graph output", nil},
	"(*RefExp).equal#range(exp.Forks)":                 {"first-match-return", "same as MapExp.equal: error value only nil-tested or logged", nil},
	"(*Parser).FixIncludes#range(source.Files)":        {"append", "FixIncludes is applied to the AST returned by UncheckedParse, whose Files map holds exactly the one source file", nil},
	"getRequiredIncludes#range(_)":                     {"append", "the slice `excess` is only used as a set: its elements are deleted from the unknownTypes map and its length compared", nil},
	"(*Parser).findMissingIncludes#range(neededTypes)": {"append", "the returned []Type is sorted by fixIncludes (sort.Slice over extraTypes) before it is used", paramSortedIn(pkgSyntax, "fixIncludes", "extraTypes")},
	"fixIncludes#range(source.Files)":                  {"first-match-store", "single-file AST (see FixIncludes): picks the only entry", nil},
	"resolveDisableMap#range(v)#3":                     {"first-match-return", "reached only when every element is the BoolExp `true`; any element is an equivalent representative", nil},
	"countForkParts#range(local:src.Source.Keys()@_)":  {"call(BindingPath),call(countForkParts)", "the loop sums per-key counts (commutative); the only shared-state effect in the callee chain is SourceList.Add, an idempotent set insertion whose slice order is never serialised (field tagged json:\"-\")", nil},
	"makeForkIdParts#range(split.Source.Keys()@_)":     {"append", "`result` is sorted by key with sort.Slice before it is returned; `re` is only the backing array the result elements point into", sortAfterLoop},
	"(ForkId).Match#range(ref)":                        {"first-match-panic,first-match-return", "at most one key equals src (pointer identity: the body is guarded by s == src), so at most one iteration has an effect - the error returned for it names that one element; the panic guards an internal invariant and is not an output", nil},
	"getUnknownKeys#range(v.(*MapExp)#0.Value)":        {"append", "the only caller, expandForkFromObj, sorts the returned slice in place (sort.Strings) before any fork id is built; part.Range shares that backing array and is only used for membership and length", callerSorts("(*Fork).expandForkFromObj")},
	"getUnknownKeys#range(v.(MarshalerMap)#0)":         {"append", "see getUnknownKeys (MapExp arm)", callerSorts("(*Fork).expandForkFromObj")},
	"getUnknownKeys#range(v.(LazyArgumentMap)#0)":      {"append", "see getUnknownKeys (MapExp arm)", callerSorts("(*Fork).expandForkFromObj")},
	"walkExp#range(exp.(*MapExp)#0.Value)":             {"first-match-return", "only an error returned by the visitor is passed on; every visitor handed to WalkExp in the program (today: graph.addEdgeBindings, reached from `mro graph`) returns nil or SkipExp only, so there is no error - and no early stop - whose choice could depend on the order (re-validated: the returns of every function value passed to WalkExp)", visitorsNeverStopTheWalk},
	"getUnknownKeys#range(local:m)":                    {"append", "see getUnknownKeys (MapExp arm)", callerSorts("(*Fork).expandForkFromObj")},
}

// c10Scope returns the functions in scope.
func c10Scope(c *an.Ctx) (map[*ssa.Function]bool, []string) {
	p := c.P
	var roots []*ssa.Function
	var rootNames []string
	add := func(pkg, name string) {
		if f := p.Func(pkg, name); f != nil {
			roots = append(roots, f)
			rootNames = append(rootNames, pkg+":"+name)
		} else {
			c.Undecided("anchor", "entry:"+pkg+":"+name, 0, "deterministic entry point not found")
		}
	}
	for _, n := range []string{"(*Parser).ParseSourceBytes", "(*Parser).Compile", "(*Parser).UncheckedParse", "(*Parser).UncheckedParseIncludes", "(*Parser).ParseValExp",
		"(*Ast).format", "(*Ast).Format", "(*Parser).FormatSrcBytes", "(*Ast).MakeCallGraph", "(*Ast).MakePipelineCallGraph"} {
		add(pkgSyntax, n)
	}
	for _, n := range []string{"(*ForkIdSet).MakeForkIds", "(ForkId).ForkIdString", "(*Fork).expand", "(*Fork).writeInvocation", "BuildCallSource", "BuildCallAst"} {
		add(pkgCore, n)
	}
	// the validation text written to _errors / _alarm for a stage's arguments and outputs (round 8:
	// its "Missing ..." lines came out in map order); argument_map.go is one of the property's anchors
	for _, n := range []string{"(LazyArgumentMap).ValidateInputs", "(LazyArgumentMap).ValidateOutputs"} {
		add(pkgCore, n)
	}
	// `mro graph` renders the resolved call graph as text (round 7: its input trace printed in map order)
	if p.Func("cmd/mro/graph", "Main") != nil {
		add("cmd/mro/graph", "Main")
	}
	// every JSON encoder method of packages syntax and core
	for _, pk := range []string{pkgSyntax, pkgCore} {
		for _, fn := range p.FuncsOf(pk) {
			switch fn.Name() {
			case "MarshalJSON", "EncodeJSON", "encodeJSON", "MarshalText", "GoString", "String":
				if fn.Parent() == nil {
					roots = append(roots, fn)
				}
			}
		}
	}
	scope := map[*ssa.Function]bool{}
	cg := p.CG()
	// A call through a function-typed parameter (a callback handed to a shared traversal or to a
	// helper that two callers were merged into) is followed only into the function values that
	// callers in scope actually pass: the call graph alone would connect every caller's callback
	// to every other caller.  When some caller in scope reaches the function through a dynamic
	// call, or passes something that is not a closure or a named function, all call-graph targets
	// are followed.
	type pkey struct {
		fn  *ssa.Function
		idx int
	}
	passed := map[pkey]map[*ssa.Function]bool{}
	anyArg := map[pkey]bool{}
	dynCalled := map[*ssa.Function]bool{}
	pend := map[pkey][]*ssa.Function{}
	isFuncT := func(t types.Type) bool {
		_, ok := t.Underlying().(*types.Signature)
		return ok
	}
	var funcValue func(v ssa.Value) *ssa.Function
	funcValue = func(v ssa.Value) *ssa.Function {
		switch x := v.(type) {
		case *ssa.MakeClosure:
			f, _ := x.Fn.(*ssa.Function)
			return f
		case *ssa.Function:
			return x
		case *ssa.ChangeType:
			return funcValue(x.X)
		}
		return nil
	}
	inScopePkg := func(fn *ssa.Function) bool {
		pk := fn.Package()
		if pk == nil && fn.Origin() != nil {
			pk = fn.Origin().Package()
		}
		if pk == nil || !strings.HasPrefix(pk.Pkg.Path(), an.ModPath) {
			return false
		}
		// logging/util are not outputs
		return !strings.HasSuffix(pk.Pkg.Path(), "/util")
	}
	var walk func(fn *ssa.Function)
	walk = func(fn *ssa.Function) {
		if scope[fn] || !inScopePkg(fn) {
			return
		}
		scope[fn] = true
		if n := cg.Nodes[fn]; n != nil {
			for _, e := range n.Out {
				callee := e.Callee.Func
				if e.Site != nil {
					cc := e.Site.Common()
					if !cc.IsInvoke() {
						if prm, isP := cc.Value.(*ssa.Parameter); isP && prm.Parent() == fn && isFuncT(prm.Type()) {
							for i, q := range fn.Params {
								if q == prm {
									k := pkey{fn, i}
									pend[k] = append(pend[k], callee)
								}
							}
							continue
						}
					}
					if cc.StaticCallee() == callee && !cc.IsInvoke() {
						for j, a := range cc.Args {
							if j >= len(callee.Params) || !isFuncT(a.Type()) {
								continue
							}
							k := pkey{callee, j}
							if t := funcValue(a); t != nil {
								if passed[k] == nil {
									passed[k] = map[*ssa.Function]bool{}
								}
								passed[k][t] = true
							} else if !an.IsNil(a) {
								anyArg[k] = true
							}
						}
					} else {
						dynCalled[callee] = true
					}
				} else {
					dynCalled[callee] = true
				}
				walk(callee)
			}
		}
		for _, a := range fn.AnonFuncs {
			walk(a)
		}
	}
	for _, r := range roots {
		dynCalled[r] = true
		walk(r)
	}
	for changed := true; changed; {
		changed = false
		for k, targets := range pend {
			for _, t := range targets {
				if scope[t] {
					continue
				}
				if dynCalled[k.fn] || anyArg[k] || passed[k][t] {
					walk(t)
					changed = changed || scope[t]
				}
			}
		}
	}
	return scope, rootNames
}

func c10Config(p *an.Prog) *an.OrderConfig {
	return &an.OrderConfig{
		IsEmitter: func(c ssa.CallInstruction) bool {
			cc := c.Common()
			var name string
			if cc.IsInvoke() {
				name = cc.Method.Name()
			} else if f := cc.StaticCallee(); f != nil {
				name = f.Name()
			}
			switch name {
			case "mustWriteString", "mustWrite", "mustWriteRune", "mustWriteByte", "WriteString", "Write", "WriteRune", "WriteByte",
				"Fprintf", "Fprint", "Fprintln", "quoteString", "Grow":
				return name != "Grow"
			}
			return false
		},
		IsSort: func(c ssa.CallInstruction) (ssa.Value, bool) {
			if v, ok := stdSortArg(c); ok {
				return v, true
			}
			// a helper of this module that sorts one of its slice parameters on every path
			// (sortRetainParams(params) { sort.Slice(params, ...) })
			h := c.Common().StaticCallee()
			if h == nil || h.Blocks == nil || h.Pkg == nil || !strings.HasPrefix(h.Pkg.Pkg.Path(), an.ModPath) || c.Common().IsInvoke() {
				return nil, false
			}
			for j, prm := range h.Params {
				if j >= len(c.Common().Args) {
					break
				}
				if _, isSlice := prm.Type().Underlying().(*types.Slice); !isSlice {
					continue
				}
				md := &an.MustDo{Pred: func(x ssa.Instruction) bool {
					cl := an.AsCallAny(x)
					if cl == nil {
						return false
					}
					v, ok := stdSortArg(cl)
					if !ok {
						return false
					}
					if mi, isMI := v.(*ssa.MakeInterface); isMI {
						v = mi.X
					}
					if v == ssa.Value(prm) {
						return true
					}
					// a parameter captured by the comparator closure lives in a cell
					if ld, isLd := v.(*ssa.UnOp); isLd && ld.Op == token.MUL {
						if a, isA := ld.X.(*ssa.Alloc); isA {
							stores, fromPrm := 0, false
							for _, r := range an.Referrers(a) {
								if st, isSt := r.(*ssa.Store); isSt && st.Addr == ssa.Value(a) {
									stores++
									fromPrm = st.Val == ssa.Value(prm)
								}
							}
							return stores == 1 && fromPrm
						}
					}
					return false
				}, Depth: 0}
				if md.Fn(h) {
					return c.Common().Args[j], true
				}
			}
			return nil, false
		},
		IsErrorList: func(t types.Type) bool {
			n, ok := t.(*types.Named)
			return ok && n.Obj().Name() == "ErrorList"
		},
		Insensitive: func(f *ssa.Function) bool { return pureFn(f, 0, map[*ssa.Function]bool{}) },
		Universe: func() []*ssa.Function {
			var out []*ssa.Function
			for f := range p.AllFns {
				out = append(out, f)
			}
			sort.Slice(out, func(i, j int) bool { return out[i].String() < out[j].String() })
			return out
		}(),
		Callees: func(site ssa.CallInstruction) []*ssa.Function {
			var out []*ssa.Function
			n := p.CG().Nodes[site.Parent()]
			if n == nil {
				return nil
			}
			for _, e := range n.Out {
				if e.Site == site {
					out = append(out, e.Callee.Func)
				}
			}
			return out
		},
	}
}

// pureFn: no stores to non-local memory, no map updates on non-fresh maps,
// no channel operations, no calls other than to pure functions (depth 3).
func pureFn(f *ssa.Function, d int, seen map[*ssa.Function]bool) bool {
	if f == nil {
		return false
	}
	if f.Blocks == nil || f.Pkg == nil || !strings.HasPrefix(f.Pkg.Pkg.Path(), an.ModPath) {
		// outside the module: a few well-known pure packages
		if f.Pkg == nil && f.Origin() != nil && f.Origin().Pkg != nil {
			f = f.Origin()
		}
		if f.Pkg != nil {
			switch f.Pkg.Pkg.Path() {
			case "strings", "strconv", "unicode", "unicode/utf8", "math", "path", "path/filepath", "bytes", "errors", "reflect", "encoding/json", "sort", "slices", "maps", "net/url":
				n := f.Name()
				if strings.HasPrefix(n, "Write") || n == "Grow" || n == "Reset" {
					return false
				}
				return true
			case "fmt":
				return strings.HasPrefix(f.Name(), "Sprint") || f.Name() == "Errorf"
			}
		}
		return false
	}
	if seen[f] {
		return true
	}
	seen[f] = true
	if d > 3 {
		return false
	}
	pure := true
	an.Instrs(f, func(in ssa.Instruction) {
		if !pure {
			return
		}
		switch x := in.(type) {
		case *ssa.Store:
			if a, ok := an.RootOf(x.Addr).(*ssa.Alloc); ok {
				_ = a
				return
			}
			pure = false
		case *ssa.MapUpdate:
			if _, ok := an.RootOf(x.Map).(*ssa.MakeMap); ok {
				return
			}
			pure = false
		case *ssa.Send, *ssa.Go, *ssa.Defer:
			pure = false
		case *ssa.Panic:
			// a panic message is an output, but invariant-violation panics are not part of the property
		case *ssa.Call:
			if b, ok := x.Call.Value.(*ssa.Builtin); ok {
				if b.Name() == "delete" {
					pure = false
				}
				return
			}
			if x.Call.IsInvoke() {
				// interface method: conservatively pure only for known query-style names
				switch x.Call.Method.Name() {
				case "Error", "String", "GoString", "TypeId", "IsFile", "GetId", "GetTname", "GetArrayDim", "GetMapDim", "IsAssignableFrom", "CheckEqual",
					"Len", "Less", "CallMode", "KnownLength", "ArrayLength", "Keys", "getNode", "Callable", "Call", "Kind", "GetFqid", "GetChildren", "HasRef", "HasSplit", "GetOutName", "GetHelp", "IsDirectory":
					return
				}
				pure = false
				return
			}
			if !pureFn(x.Call.StaticCallee(), d+1, seen) {
				pure = false
			}
		}
	})
	return pure
}

func runC10(c *an.Ctx) {
	p := c.P
	scope, roots := c10Scope(c)
	c.Note("entry points: %s", strings.Join(roots, " "))
	c.Floor("D1", "functions reachable from the deterministic entry points", len(scope), 200)
	cfg := c10Config(p)
	var fns []*ssa.Function
	for fn := range scope {
		fns = append(fns, fn)
	}
	sort.Slice(fns, func(i, j int) bool {
		if fns[i].Pos() != fns[j].Pos() {
			return fns[i].Pos() < fns[j].Pos()
		}
		return fns[i].String() < fns[j].String()
	})
	nLoops, nAuto, nTriaged := 0, 0, 0
	seenKeys := map[string]int{}
	usedTriage := map[string]bool{}
	for _, fn := range fns {
		for _, l := range an.FindMapLoops(fn) {
			nLoops++
			l.Analyze(cfg)
			key := l.Key()
			seenKeys[key]++
			if n := seenKeys[key]; n > 1 {
				key = fmt.Sprintf("%s#%d", key, n)
			}
			if len(l.Effects) == 0 {
				nAuto++
				c.Pass("D1", "loop("+key+")", l.Range.Pos(), "every effect of the body is order-insensitive (map/set insertion, counters, flags, invariant early exit, collect-then-sort)")
				continue
			}
			eff := strings.Join(uniqStr(l.Effects), ",")
			if tr, ok := c10Triage[key]; ok {
				usedTriage[key] = true
				if tr.Effects != eff {
					c.Fail("D1", "loop("+key+")", l.Range.Pos(),
						fmt.Sprintf("the loop was triaged for effects [%s] but now has [%s]: %s", tr.Effects, eff, strings.Join(l.Notes, "; ")))
					continue
				}
				if tr.Check != nil {
					if ok, why := tr.Check(c, l, cfg); !ok {
						c.Fail("D1", "loop("+key+")", l.Range.Pos(),
							fmt.Sprintf("map iteration order can reach an output [%s]: the fact the triage relied on no longer holds (%s); triage reason was: %s", eff, why, tr.Reason))
						continue
					}
				}
				nTriaged++
				c.Pass("D1", "loop("+key+")", l.Range.Pos(), "triaged ["+eff+"]: "+tr.Reason)
				continue
			}
			// the accumulated slice is handed back and every caller sorts it before anything else
			// (a collect loop extracted into a helper, the sort left with the caller)
			if eff == "append" {
				if ok, _ := callerSorts()(c, l, cfg); ok {
					nAuto++
					c.Pass("D1", "loop("+key+")", l.Range.Pos(), "elements are collected in map order, returned, and sorted by every caller before any other use")
					continue
				}
			}
			// a loop moved into a private helper of a function whose own loop was triaged: the
			// triage reasons are about what becomes of the value the function returns, and the
			// only caller passes the helper's verdict on unchanged
			if via, tr, ok := triagedThroughOnlyCaller(c, l, eff); ok {
				usedTriage[via] = true
				nTriaged++
				c.Pass("D1", "loop("+key+")", l.Range.Pos(), "triaged through its only caller ["+via+"]: "+tr.Reason)
				continue
			}
			c.Fail("D1", "loop("+key+")", l.Range.Pos(),
				fmt.Sprintf("map iteration order can reach an output [%s]: %s", eff, strings.Join(l.Notes, "; ")))
		}
	}
	c.Stats["D1:map loops in scope"] = nLoops
	c.Stats["D1:automatically order-insensitive"] = nAuto
	c.Stats["D1:triaged by reading"] = nTriaged
	c.Floor("D1", "range-over-map loops in scope", nLoops, 40)
	for k := range c10Triage {
		if !usedTriage[k] {
			c.Info("D1", "stale-triage("+k+")", 0, "triage entry matches no loop any more")
		}
	}
	// D1b: no other nondeterminism source reachable from the syntax entry points
	for _, fn := range fns {
		pk := fn.Package()
		if pk == nil || !strings.HasPrefix(pk.Pkg.Path(), syntaxPath) {
			continue
		}
		an.Instrs(fn, func(in ssa.Instruction) {
			if _, ok := in.(*ssa.Go); ok {
				c.Fail("D1b", "goroutine@"+an.FnName(fn), in.Pos(), "goroutine started in compile/format code: scheduling order may reach an output")
				return
			}
			cl, ok := in.(ssa.CallInstruction)
			if !ok || cl.Common().StaticCallee() == nil || cl.Common().StaticCallee().Pkg == nil {
				return
			}
			f := cl.Common().StaticCallee()
			pp := f.Pkg.Pkg.Path()
			if (pp == "time" && f.Name() == "Now") || strings.HasPrefix(pp, "math/rand") || (pp == "os" && (f.Name() == "Getpid" || f.Name() == "Hostname")) {
				c.Fail("D1b", "nondeterministic-source("+pp+"."+f.Name()+")@"+an.FnName(fn), in.Pos(), "clock/random/pid consulted in compile/format code")
			}
		})
	}
	c.Pass("D1b", "no-goroutine-clock-random-in-syntax", 0, "scanned every in-scope function of package syntax")
	ruleD1c(c)
	ruleD3(c, fns, cfg)
	ruleD5(c)
	c10PositiveExamples(c, cfg)
}

// stdSortArg: c is a call of a sorting function of package sort or slices; the value sorted.
func stdSortArg(c ssa.CallInstruction) (ssa.Value, bool) {
	f := c.Common().StaticCallee()
	if f != nil && f.Origin() != nil {
		f = f.Origin() // slices.Sort[[]string] is an instantiation without a package of its own
	}
	if f == nil || f.Pkg == nil {
		return nil, false
	}
	pp := f.Pkg.Pkg.Path()
	if (pp == "sort" || pp == "slices") && len(c.Common().Args) > 0 {
		switch f.Name() {
		case "Strings", "Ints", "Slice", "SliceStable", "Sort", "Stable", "SortFunc", "SortStableFunc", "Float64s":
			return c.Common().Args[0], true
		}
	}
	return nil, false
}

// visitorsNeverStopTheWalk re-validates the triage of walkExp's map loop: every function value
// that the program passes to WalkExp / walkExp returns only nil or the SkipExp sentinel.  A visitor
// that returns another error stops the walk at the first element it meets - in map order (round 9:
// a `firstRef` helper built on WalkExp made the reference named in an error text vary).
func visitorsNeverStopTheWalk(c *an.Ctx, l *an.MapLoop, cfg *an.OrderConfig) (bool, string) {
	p := c.P
	walk := p.Func(pkgSyntax, "WalkExp")
	inner := l.Fn
	skip := p.Global(pkgSyntax, "SkipExp")
	n := 0
	bad := ""
	check := func(target *ssa.Function) {
		for caller, sites := range p.Callers(target) {
			if caller == inner || caller == walk {
				continue // the recursion and the exported wrapper pass their own parameter on
			}
			for _, s := range sites {
				args := s.Common().Args
				if len(args) < 2 {
					continue
				}
				n++
				var fv *ssa.Function
				switch x := args[1].(type) {
				case *ssa.MakeClosure:
					fv, _ = x.Fn.(*ssa.Function)
				case *ssa.Function:
					fv = x
				case *ssa.ChangeType:
					switch y := x.X.(type) {
					case *ssa.MakeClosure:
						fv, _ = y.Fn.(*ssa.Function)
					case *ssa.Function:
						fv = y
					}
				}
				if fv == nil || fv.Blocks == nil {
					bad = "a visitor passed in " + an.FnName(caller) + " is not a function literal or named function"
					continue
				}
				an.Instrs(fv, func(in ssa.Instruction) {
					r, ok := in.(*ssa.Return)
					if !ok || len(r.Results) != 1 {
						return
					}
					v := an.RetVal(r, 0)
					if an.IsNil(v) {
						return
					}
					if u, ok := v.(*ssa.UnOp); ok && skip != nil && u.X == ssa.Value(skip) {
						return
					}
					bad = "the visitor " + an.FnName(fv) + " passed in " + an.FnName(caller) + " can return an error other than SkipExp: the walk stops at the first element it meets in map order"
				})
			}
		}
	}
	if walk != nil {
		check(walk)
	}
	check(inner)
	if bad != "" {
		return false, bad
	}
	return n > 0, "no call of WalkExp with a visitor found"
}

// triagedThroughOnlyCaller: the loop sits in an unexported function with exactly one caller, that
// caller returns the helper's result as its own, and a triage entry exists for a loop of the caller
// with the same effect signature.
func triagedThroughOnlyCaller(c *an.Ctx, l *an.MapLoop, eff string) (string, triage, bool) {
	fn := l.Fn
	if fn == nil || fn.Object() == nil || fn.Object().Exported() {
		return "", triage{}, false
	}
	callers := c.P.Callers(fn)
	if len(callers) != 1 {
		return "", triage{}, false
	}
	for caller, sites := range callers {
		// the verdict is passed on: some return of the caller hands back the call's value
		passes := false
		for _, s := range sites {
			v := s.Value()
			if v == nil {
				continue
			}
			an.Instrs(caller, func(in ssa.Instruction) {
				if r, ok := in.(*ssa.Return); ok {
					for _, res := range r.Results {
						if an.Strip(res) == ssa.Value(v) {
							passes = true
						}
						if ph, ok := res.(*ssa.Phi); ok {
							for _, e := range ph.Edges {
								if an.Strip(e) == ssa.Value(v) {
									passes = true
								}
							}
						}
					}
				}
			})
		}
		if !passes {
			return "", triage{}, false
		}
		prefix := an.FnName(caller) + "#range("
		for k, tr := range c10Triage {
			if strings.HasPrefix(k, prefix) && tr.Effects == eff && tr.Check == nil {
				return k, tr, true
			}
		}
	}
	return "", triage{}, false
}
