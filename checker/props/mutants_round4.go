package props

// Self-test mutants for the rules added in the fourth seeding round.
func init() {
	Mutants = append(Mutants,
		Mutant{Name: "c18-unset-lines-blanked-after-substitution", Property: "C18", File: "martian/core/jobmanager_remote.go",
			Old: "\tr := strings.NewReplacer(args...)\n\treturn r.Replace(template)\n}",
			New: "\tr := strings.NewReplacer(args...)\n\tlines := strings.Split(r.Replace(template), \"\\n\")\n\tfor i, line := range lines {\n\t\tfor _, vals := range params {\n\t\t\tif len(vals[1]) == 0 && strings.Contains(line, vals[0]) {\n\t\t\t\tlines[i] = \"\"\n\t\t\t}\n\t\t}\n\t}\n\treturn strings.Join(lines, \"\\n\")\n}", Expect: "H2"},
		Mutant{Name: "c18-benign-unset-lines-blanked-before-substitution", Property: "C18", File: "martian/core/jobmanager_remote.go",
			Old: "\tr := strings.NewReplacer(args...)\n\treturn r.Replace(template)\n}",
			New: "\tlines := strings.Split(template, \"\\n\")\n\tfor i, line := range lines {\n\t\tfor _, vals := range params {\n\t\t\tif len(vals[1]) == 0 && strings.Contains(line, vals[0]) {\n\t\t\t\tlines[i] = \"\"\n\t\t\t}\n\t\t}\n\t}\n\tr := strings.NewReplacer(args...)\n\treturn r.Replace(strings.Join(lines, \"\\n\"))\n}", Expect: ""},
		Mutant{Name: "c07-modifier-dependency-looked-up-in-table", Property: "C07", File: "martian/syntax/compile_pipelines.go",
			Old: "\t\tif call.Modifiers.Bindings != nil {\n\t\t\tfor _, bind := range call.Modifiers.Bindings.List {\n\t\t\t\tif err := findDeps(call, bind.Exp); err != nil {\n\t\t\t\t\terrs = append(errs, err)\n\t\t\t\t}\n\t\t\t}\n\t\t}",
			New: "\t\tif mods := call.Modifiers.Bindings; mods != nil {\n\t\t\tif bind := mods.Table[disabled]; bind != nil {\n\t\t\t\tif err := findDeps(call, bind.Exp); err != nil {\n\t\t\t\t\terrs = append(errs, err)\n\t\t\t\t}\n\t\t\t}\n\t\t}", Expect: "T6"},
		Mutant{Name: "c11-journal-regexp-splits-at-first-fork", Property: "C11", File: "martian/core/node.go",
			Old: "regexp.MustCompile(`(.*)\\.fork([^.]+)", New: "regexp.MustCompile(`^(.*?)\\.fork([^.]+)", Expect: "J1"},
	)
}
