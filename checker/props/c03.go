package props

import (
	"fmt"
	"go/token"
	"go/types"
	"strings"

	"mrocheck/an"

	"golang.org/x/tools/go/ssa"
)

func init() {
	Registry["C03"] = Entry{
		Run: runC03,
		Explanation: "Decides structural necessary conditions of 'every enabled job runs exactly once; disabled calls never run': " +
			"X1 at-most-once submission (each of the three submission sites is protected by a test-and-set flag OR runJob records the job synchronously before handing it to the job manager - a disjunction on purpose, the code calls the flags belt and suspenders), " +
			"X2 the disabled test precedes every submission / completion write in doSplit and stepPipeline and a disabled fork writes the disabled marker, " +
			"X3 an empty or null mapped collection reaches writeDisable in the fork-expansion functions and Fork.disabled reports a zero-length range, " +
			"X4 skipping preflights is guarded by Preflight && SkipPreflight and skip() has no other callers; X5 a node's list of disabling conditions, which children and siblings share, is never extended in place (may-alias analysis: no append whose first operand can share the backing array of a CallGraphStage.Disable); O1 (shared with C02) bounds where jobs can be submitted. " +
			"X6 a fork-id part shared with sibling forks of an outer run-time dimension is resolved only through the join of the caller's part and a private copy taken on an edge that compares len(node.forks) with this fork's index. " +
			"X3 also: every path of Fork.disabled to an 'enabled' verdict has passed the loop that examines the fork's ranges for zero length. " +
			"X8 every creator of a fork's chunk objects (first run, re-attach) pads the chunk directory names to a width computed from the same expression. " +
			"X9 the static fork enumeration never stores through the *ForkSourcePart it was handed (shared placeholder). " +
			"X10 in SplitExp.BindingPath the arm for a value that narrowed to null does not return the un-narrowed Value. " +
			"X11 getUnknownLength returns only constants, len(..) or reflect Len; X6 (corrected in round 10) the private copy of a shared fork-id part is taken whenever the node has more than one fork. " +
			"X12 a constant index into ForkIdSet.List is guarded by its length; X13 the resolvers store SplitExp.Type for partly disabled outputs; X14 every return of CallGraphStage.resolve has passed isAlwaysDisabled(). " +
			"NOT decided: one fork per element/key (run-time counts), liveness (no job skipped).",
		Assumptions: commonAssumptions,
	}
}

func runC03(c *an.Ctx) {
	ruleO1(c)
	ruleX1(c)
	ruleX2(c)
	ruleX3(c)
	ruleX4(c)
	ruleX5(c)
	ruleX6(c)
	ruleChunkWidth(c, "X8")
	ruleX9(c)
	ruleX10(c)
	ruleX11(c)
	ruleX12(c)
	ruleX13(c)
	ruleX14(c)
	ruleX15(c)
}

// ---------------------------------------------------------------------------
// X1 at-most-once submission
// ---------------------------------------------------------------------------

func ruleX1(c *an.Ctx) {
	p := c.P
	runJob := c.NeedFunc(pkgCore, "(*Node).runJob")
	if runJob == nil {
		return
	}
	// mechanism B: runJob writes JobInfoFile synchronously before execJob
	var execSites []ssa.Instruction
	an.Instrs(runJob, func(in ssa.Instruction) {
		if call := an.AsCall(in); call != nil && call.Common().IsInvoke() && call.Common().Method.Name() == "execJob" {
			execSites = append(execSites, in)
		}
	})
	c.Floor("X1", "execJob invocations in runJob", len(execSites), 1)
	writesJobInfo := func(in ssa.Instruction) bool { return writesFile(p, in, "JobInfoFile") }
	mechB := len(execSites) > 0
	var whyB string
	for _, site := range execSites {
		if _, isGo := site.(*ssa.Go); isGo {
			// handing over in a goroutine is fine; the record must precede it
		}
		ok, w := an.MustPass(runJob, nil, func(in ssa.Instruction) bool { return in == site },
			func(in ssa.Instruction) bool {
				if writesJobInfo(in) {
					return true
				}
				// immediately invoked closure that writes it (error path must return non-nil)
				if call, isCall := in.(*ssa.Call); isCall {
					if f := call.Call.StaticCallee(); f != nil && (f.Parent() == runJob || isPrivateHelperOf(p, runJob, f)) {
						return closureWritesOrFails(f, writesJobInfo)
					}
				}
				return false
			})
		if !ok {
			mechB = false
			whyB = "runJob can reach execJob without a synchronous write of _jobinfo; " + c.WitnessString(w)
		}
	}
	// a `go` statement between must not wrap the write
	an.InstrsDeep(runJob, func(fn *ssa.Function, in ssa.Instruction) {
		if g, ok := in.(*ssa.Go); ok {
			if f := g.Call.StaticCallee(); f != nil && an.MayDo(f, writesJobInfo, 2) {
				mechB = false
				whyB = "the _jobinfo write happens in a goroutine"
			}
		}
	})
	// mechanism A per site
	sites := []struct {
		callee, holder, caller string
	}{
		{"(*Node).runSplit", "Fork", "(*Fork).doSplit"},
		{"(*Node).runJoin", "Fork", "(*Fork).doJoin"},
		{"(*Node).runChunk", "Chunk", "(*Chunk).step"},
	}
	for _, s := range sites {
		callee := c.NeedFunc(pkgCore, s.callee)
		caller := c.NeedFunc(pkgCore, s.caller)
		if callee == nil || caller == nil {
			continue
		}
		calls := callsTo(caller, callee)
		// exact: one submission site per phase
		c.Check("X1", "submission-sites("+s.callee+")@"+s.caller, caller.Pos(), len(calls) == 1,
			fmt.Sprintf("exactly one submission site expected, found %d", len(calls)))
		for _, call := range calls {
			in := call.(ssa.Instruction)
			mechA, flagName := testAndSet(in, s.holder)
			key := "at-most-once(" + s.callee + ")@" + s.caller
			detail := fmt.Sprintf("flag test-and-set=%v (%s); synchronous _jobinfo record before execJob=%v %s", mechA, flagName, mechB, whyB)
			c.Check("X1", key, in.Pos(), mechA || mechB,
				"a job must not be submitted twice: "+detail)
		}
	}
	// the state machine only re-enters a phase from Ready / <prev>_complete: the
	// _jobinfo record moves the metadata state to Queued (checked in _getStateNoLock)
	gs := c.NeedFunc(pkgCore, "(*Metadata)._getStateNoLock")
	if gs != nil {
		found := false
		an.Instrs(gs, func(in ssa.Instruction) {
			if r, ok := in.(*ssa.Return); ok && len(r.Results) == 2 && isState(p, an.RetVal(r, 0), "Queued") {
				g, _ := an.GuardedBy(r, func(rel an.Rel) bool {
					if rel.Op != token.ILLEGAL || !rel.Truth {
						return false
					}
					call, ok := rel.X.(*ssa.Call)
					return ok && call.Call.StaticCallee() != nil && call.Call.StaticCallee().Name() == "_existsNoLock" &&
						len(call.Call.Args) == 2 && an.IsConst(call.Call.Args[1], p.Const(pkgCore, "JobInfoFile"))
				})
				if g {
					found = true
				}
			}
		})
		c.Check("X1", "jobinfo-means-queued@(*Metadata)._getStateNoLock", gs.Pos(), found,
			"the presence of _jobinfo must turn the metadata state into Queued (so a recorded job is not Ready any more)")
	}
}

// closureWritesOrFails: every return of the closure either passed the write or
// returns a value that is not the nil constant.
func closureWritesOrFails(f *ssa.Function, write func(ssa.Instruction) bool) bool {
	w := an.Query{Fn: f, Target: func(in ssa.Instruction) bool {
		r, ok := in.(*ssa.Return)
		if !ok {
			return false
		}
		if len(r.Results) == 0 {
			return true
		}
		return an.IsNil(r.Results[len(r.Results)-1])
	}, Barrier: write}.Find()
	if w != nil {
		return false
	}
	// and some path does write
	return an.MayDo(f, write, 0)
}

// testAndSet: site is dominated by the false edge of a bool field of the
// holder type, and the field is set to true on every path to the site.
func testAndSet(site ssa.Instruction, holder string) (bool, string) {
	fn := site.Parent()
	var flag *types.Var
	g, _ := an.GuardedBy(site, func(r an.Rel) bool {
		if r.Op != token.ILLEGAL || r.Truth {
			return false
		}
		_, f := an.FieldLoad(r.X)
		if f == nil {
			return false
		}
		if b, ok := f.Type().Underlying().(*types.Basic); !ok || b.Kind() != types.Bool {
			return false
		}
		flag = f
		return true
	})
	if !g || flag == nil {
		return false, "no flag test"
	}
	ok, _ := an.MustPass(fn, nil, func(in ssa.Instruction) bool { return in == site }, func(in ssa.Instruction) bool {
		st, isStore := in.(*ssa.Store)
		if !isStore {
			return false
		}
		_, f := an.FieldOfAddr(st.Addr)
		if f != flag {
			return false
		}
		cv, isC := st.Val.(*ssa.Const)
		return isC && cv.Value != nil && cv.Value.String() == "true"
	})
	return ok, flag.Name()
}

// ---------------------------------------------------------------------------
// X2 disabled before anything is submitted
// ---------------------------------------------------------------------------

func ruleX2(c *an.Ctx) {
	p := c.P
	disabled := c.NeedFunc(pkgCore, "(*Fork).disabled")
	writeDisable := c.NeedFunc(pkgCore, "(*Fork).writeDisable")
	if disabled == nil || writeDisable == nil {
		return
	}
	isDisabledFalse := func(r an.Rel) bool {
		if r.Op != token.ILLEGAL || r.Truth {
			return false
		}
		ex, ok := r.X.(*ssa.Extract)
		if !ok || ex.Index != 0 {
			return false
		}
		call, ok := ex.Tuple.(*ssa.Call)
		return ok && call.Call.StaticCallee() == disabled
	}
	isDisabledTrue := func(r an.Rel) bool {
		if r.Op != token.ILLEGAL || !r.Truth {
			return false
		}
		ex, ok := r.X.(*ssa.Extract)
		if !ok || ex.Index != 0 {
			return false
		}
		call, ok := ex.Tuple.(*ssa.Call)
		return ok && call.Call.StaticCallee() == disabled
	}
	check := func(fnName string, sitePred func(ssa.Instruction) (string, bool), minSites int) {
		fn := c.NeedFunc(pkgCore, fnName)
		if fn == nil {
			return
		}
		n := 0
		fam := map[*ssa.Function]bool{}
		for _, h := range familyOf(p, fn, 2) {
			fam[h] = h != fn
		}
		an.Instrs(fn, func(in ssa.Instruction) {
			what, ok := sitePred(in)
			if !ok {
				// the effect may have been moved into a private helper: the call is the site
				if cl := an.AsCallAny(in); cl != nil {
					if h := cl.Common().StaticCallee(); h != nil && fam[h] {
						an.Instrs(h, func(x ssa.Instruction) {
							if w2, ok2 := sitePred(x); ok2 && !ok {
								what, ok = w2+" in "+h.Name(), true
							}
						})
					}
				}
			}
			if !ok {
				return
			}
			n++
			g, w := an.GuardedBy(in, isDisabledFalse)
			c.Check("X2", "enabled-before("+what+")@"+fnName, in.Pos(), g,
				"nothing may be submitted or completed for a fork before self.disabled() returned false; "+c.WitnessString(w))
		})
		c.Floor("X2", "guarded effects in "+fnName, n, minSites)
		// the true edge reaches writeDisable on every path to return
		m := 0
		for _, b := range fn.Blocks {
			for _, s := range b.Succs {
				cnd, t, ok := an.EdgeCond(b, s)
				if !ok || !isDisabledTrue(an.Normalize(cnd, t)) {
					continue
				}
				m++
				hit := !reachExitAvoiding(s, func(in ssa.Instruction) bool { return an.CalleeIs(in, writeDisable) })
				c.Check("X2", "disabled-marks-fork@"+fnName, s.Instrs[0].Pos(), hit,
					"when disabled() is true the fork must be marked disabled (writeDisable) before returning")
			}
		}
		c.Floor("X2", "disabled()==true edges in "+fnName, m, 1)
	}
	runSplit := c.NeedFunc(pkgCore, "(*Node).runSplit")
	check("(*Fork).doSplit", func(in ssa.Instruction) (string, bool) {
		if an.CalleeIs(in, runSplit) {
			return "runSplit", true
		}
		if writesFile(p, in, "ArgsFile") {
			return "write(args)", true
		}
		if writesFile(p, in, "CompleteFile") {
			return "write(complete)", true
		}
		return "", false
	}, 3)
	check("(*Fork).stepPipeline", func(in ssa.Instruction) (string, bool) {
		if writesFile(p, in, "CompleteFile") {
			return "write(complete)", true
		}
		return "", false
	}, 2)
	// doSplit: an error while evaluating disabled() fails the fork instead of running it
	doSplit := c.NeedFunc(pkgCore, "(*Fork).doSplit")
	if doSplit != nil && runSplit != nil {
		for _, call := range callsTo(doSplit, runSplit) {
			g, w := an.GuardedBy(call.(ssa.Instruction), func(r an.Rel) bool {
				if r.Op != token.EQL || !an.IsNil(r.Y) {
					return false
				}
				ex, ok := r.X.(*ssa.Extract)
				if !ok || ex.Index != 1 {
					return false
				}
				cl, ok := ex.Tuple.(*ssa.Call)
				return ok && cl.Call.StaticCallee() == disabled
			})
			c.Check("X2", "enabled-before(runSplit):no-error@(*Fork).doSplit", call.Pos(), g,
				"a fork whose disabled state could not be evaluated must not run; "+c.WitnessString(w))
		}
	}
	// writeDisable -> skip -> WriteTime(DisabledFile)
	md := &an.MustDo{Pred: func(in ssa.Instruction) bool { return writesFile(p, in, "DisabledFile") }, Depth: 3}
	c.Check("X2", "writeDisable-writes-disabled-marker", writeDisable.Pos(), md.Fn(writeDisable),
		"writeDisable must write the _disabled marker on every path")
}

// ---------------------------------------------------------------------------
// X3 empty or null collection => disabled
// ---------------------------------------------------------------------------

func ruleX3(c *an.Ctx) {
	writeDisable := c.NeedFunc(pkgCore, "(*Fork).writeDisable")
	getLen := c.NeedFunc(pkgCore, "getUnknownLength")
	getKeys := c.NeedFunc(pkgCore, "getUnknownKeys")
	if writeDisable == nil || getLen == nil || getKeys == nil {
		return
	}
	// the disable may be performed by a helper every path of which calls writeDisable
	mdWD := &an.MustDo{Pred: func(in ssa.Instruction) bool { return an.CalleeIs(in, writeDisable) }, Depth: 2}
	hits := func(s *ssa.BasicBlock) bool {
		return !reachExitAvoiding(s, func(in ssa.Instruction) bool { return mdWD.Instr(in, 0) })
	}
	nLen, nKeys, nNil, nNull := 0, 0, 0, 0
	for _, fn := range coreFns(c) {
		if fn.Signature.Recv() == nil || !strings.Contains(fn.Signature.Recv().Type().String(), "core.Fork") {
			continue
		}
		if !strings.HasPrefix(fn.Name(), "expand") {
			continue
		}
		callsWD := an.MayDo(fn, func(in ssa.Instruction) bool { return an.CalleeIs(in, writeDisable) }, 2)
		for _, b := range fn.Blocks {
			for _, s := range b.Succs {
				cnd, t, ok := an.EdgeCond(b, s)
				if !ok || len(s.Instrs) == 0 {
					continue
				}
				r := an.Normalize(cnd, t)
				// n == 0 with n from getUnknownLength
				isLenRes := func(v ssa.Value) bool {
					ex, ok := throughCell(v).(*ssa.Extract)
					if !ok || ex.Index != 0 {
						return false
					}
					call, ok := ex.Tuple.(*ssa.Call)
					return ok && call.Call.StaticCallee() == getLen
				}
				isKeysLen := func(v ssa.Value) bool {
					args, ok := an.IsBuiltinCall(v, "len")
					if !ok {
						return false
					}
					ex, ok := throughCell(an.Strip(args[0])).(*ssa.Extract)
					if !ok || ex.Index != 0 {
						return false
					}
					call, ok := ex.Tuple.(*ssa.Call)
					return ok && call.Call.StaticCallee() == getKeys
				}
				zero := func(v ssa.Value) bool { return an.IsIntConst(v, 0) }
				switch {
				case relEq(r, isLenRes, zero):
					nLen++
					c.Check("X3", "empty-array=>disabled@"+an.FnName(fn), s.Instrs[0].Pos(), hits(s),
						"mapping over an array of length 0 must disable the fork (writeDisable) on every path")
				case relEq(r, isKeysLen, zero):
					nKeys++
					c.Check("X3", "empty-map=>disabled@"+an.FnName(fn), s.Instrs[0].Pos(), hits(s),
						"mapping over a map without keys must disable the fork (writeDisable) on every path")
				case callsWD && r.Op == token.EQL && an.IsNil(r.Y) && isCollectionParam(r.X):
					nNil++
					c.Check("X3", "null-collection=>disabled("+an.Path(r.X)+")@"+an.FnName(fn), s.Instrs[0].Pos(), hits(s),
						"mapping over a null collection must disable the fork (writeDisable) on every path")
				case callsWD && r.Op == token.ILLEGAL && r.Truth && isNullExpAssert(r.X):
					nNull++
					c.Check("X3", "null-literal=>disabled@"+an.FnName(fn), s.Instrs[0].Pos(), hits(s),
						"mapping over a null literal must disable the fork (writeDisable) on every path")
				}
			}
		}
	}
	c.Floor("X3", "n==0 edges after getUnknownLength", nLen, 1)
	c.Floor("X3", "len(keys)==0 edges after getUnknownKeys", nKeys, 1)
	c.Floor("X3", "nil-collection edges", nNil, 1)
	c.Floor("X3", "NullExp arms", nNull, 1)

	// Fork.disabled: a zero-length range part means disabled
	disabled := c.NeedFunc(pkgCore, "(*Fork).disabled")
	if disabled != nil {
		n := 0
		for _, b := range disabled.Blocks {
			for _, s := range b.Succs {
				cnd, t, ok := an.EdgeCond(b, s)
				if !ok {
					continue
				}
				r := an.Normalize(cnd, t)
				isLength := func(v ssa.Value) bool {
					call, ok := v.(*ssa.Call)
					return ok && call.Call.IsInvoke() && call.Call.Method.Name() == "Length"
				}
				if relEq(r, isLength, func(v ssa.Value) bool { return an.IsIntConst(v, 0) }) || (r.Op == token.ILLEGAL && r.Truth && emptyRangePredicate(r.X) != nil) {
					n++
					// every return reachable from here returns (true, nil)
					bad := false
					seen := map[*ssa.BasicBlock]bool{}
					var walk func(x *ssa.BasicBlock)
					walk = func(x *ssa.BasicBlock) {
						if seen[x] {
							return
						}
						seen[x] = true
						for _, in := range x.Instrs {
							if ret, ok := in.(*ssa.Return); ok {
								cv, isC := an.RetVal(ret, 0).(*ssa.Const)
								if !isC || cv.Value == nil || cv.Value.String() != "true" {
									bad = true
								}
							}
						}
						for _, y := range x.Succs {
							walk(y)
						}
					}
					walk(s)
					c.Check("X3", "zero-length-range=>disabled@(*Fork).disabled", s.Instrs[0].Pos(), !bad,
						"a fork id part whose range has length 0 must report disabled=true")
				}
			}
		}
		c.Floor("X3", "Range.Length()==0 test in Fork.disabled", n, 1)
		// ... and the fork id is examined before ANY "enabled" verdict: a fork that the static enumeration
		// marked empty has no _disabled sentinel, the zero-length range is the only thing that disables it.
		// Every path to a return of (false, nil) passes the head of the loop that tests the ranges.
		var heads []ssa.Instruction
		for hd, body := range naturalLoops(disabled) {
			tests := false
			for b := range body {
				for _, in := range b.Instrs {
					if cl, ok := in.(*ssa.Call); ok && cl.Call.IsInvoke() && cl.Call.Method.Name() == "Length" {
						tests = true
					}
				}
			}
			if tests {
				heads = append(heads, hd.Instrs[0])
			}
		}
		// the examination may live in a predicate helper (a loop or slices.ContainsFunc over the parts)
		an.Instrs(disabled, func(in ssa.Instruction) {
			if v, ok := in.(ssa.Value); ok && emptyRangePredicate(v) != nil {
				heads = append(heads, in)
			}
		})
		if len(heads) > 0 {
			w := an.Query{Fn: disabled,
				Target: func(in ssa.Instruction) bool {
					ret, ok := in.(*ssa.Return)
					if !ok || len(ret.Results) < 2 {
						return false
					}
					cv, isC := an.RetVal(ret, 0).(*ssa.Const)
					return isC && cv.Value != nil && cv.Value.String() == "false" && an.IsNil(an.RetVal(ret, 1))
				},
				Barrier: func(in ssa.Instruction) bool {
					for _, h := range heads {
						if in == h {
							return true
						}
					}
					return false
				}}.Find()
			c.Check("X3", "ranges-examined-before-enabled-verdict@(*Fork).disabled", disabled.Pos(), w == nil,
				"Fork.disabled can answer (false, nil) without having looked at the ranges of the fork id: a fork for an empty element of a statically known nested collection is then treated as enabled and its job is submitted; "+c.WitnessString(w))
		}
	}
}

func isCollectionParam(v ssa.Value) bool {
	prm, ok := v.(*ssa.Parameter)
	if !ok {
		return false
	}
	s := prm.Type().String()
	return strings.HasSuffix(s, "json.Marshaler") || strings.HasSuffix(s, "syntax.Exp")
}

func isNullExpAssert(v ssa.Value) bool {
	ex, ok := v.(*ssa.Extract)
	if !ok || ex.Index != 1 {
		return false
	}
	ta, ok := ex.Tuple.(*ssa.TypeAssert)
	if !ok {
		return false
	}
	return strings.HasSuffix(ta.AssertedType.String(), "syntax.NullExp")
}

// ---------------------------------------------------------------------------
// X4 skip of preflight
// ---------------------------------------------------------------------------

func ruleX4(c *an.Ctx) {
	p := c.P
	skip := c.NeedFunc(pkgCore, "(*Fork).skip")
	nodeStep := c.NeedFunc(pkgCore, "(*Node).step")
	preflight := p.Field(pkgSyntax, "Modifiers", "Preflight")
	skipPre := p.Field(pkgCore, "RuntimeOptions", "SkipPreflight")
	if skip == nil || nodeStep == nil || preflight == nil {
		return
	}
	if skipPre == nil {
		c.Undecided("anchor", "RuntimeOptions.SkipPreflight", token.NoPos, "field not found")
		return
	}
	got := effectiveCallers(p, skip, []string{"(*Fork).writeDisable", "(*Node).step"})
	ok, extra := subset(got, []string{"(*Fork).writeDisable", "(*Node).step"})
	c.Check("X4", "callers((*Fork).skip)", skip.Pos(), ok, fmt.Sprintf("skip() marks a fork disabled without running it; callers %v, unexpected %q", got, extra))
	for _, call := range callsTo(nodeStep, skip) {
		in := call.(ssa.Instruction)
		g1, _ := an.GuardedBy(in, func(r an.Rel) bool { return r.Op == token.ILLEGAL && r.Truth && an.LoadsField(r.X, preflight) })
		g2, _ := an.GuardedBy(in, func(r an.Rel) bool { return r.Op == token.ILLEGAL && r.Truth && an.LoadsField(r.X, skipPre) })
		c.Check("X4", "skip-guard(Preflight && SkipPreflight)@(*Node).step", in.Pos(), g1 && g2,
			"only preflight stages may be skipped, and only when SkipPreflight is configured")
	}
}

// throughCell: a load of a local variable cell that is stored to exactly once (a local captured by a
// closure lives in such a cell) stands for the stored value.
func throughCell(v ssa.Value) ssa.Value {
	u, ok := v.(*ssa.UnOp)
	if !ok || u.Op != token.MUL {
		return v
	}
	a, ok := u.X.(*ssa.Alloc)
	if !ok {
		return v
	}
	var val ssa.Value
	n := 0
	for _, r := range an.Referrers(a) {
		if st, ok := r.(*ssa.Store); ok && st.Addr == ssa.Value(a) {
			val = st.Val
			n++
		}
	}
	if n == 1 {
		return val
	}
	return v
}

// emptyRangePredicate: v is the boolean result of a call to a function of the same module that
// compares a Length() result with zero (in its body, a closure of it, or a callee one level down):
// "some part of the fork id ranges over nothing", written as a predicate.
func emptyRangePredicate(v ssa.Value) *ssa.Function {
	cl, ok := v.(*ssa.Call)
	if !ok {
		return nil
	}
	h := cl.Call.StaticCallee()
	if h == nil || h.Blocks == nil || h.Signature.Results().Len() != 1 || !isBoolType(h.Signature.Results().At(0).Type()) {
		return nil
	}
	isLength := func(v ssa.Value) bool {
		call, ok := v.(*ssa.Call)
		return ok && call.Call.IsInvoke() && call.Call.Method.Name() == "Length"
	}
	if an.MayDo(h, func(in ssa.Instruction) bool {
		b, ok := in.(*ssa.BinOp)
		if !ok || (b.Op != token.EQL && b.Op != token.NEQ) {
			return false
		}
		return (isLength(b.X) && an.IsIntConst(b.Y, 0)) || (isLength(b.Y) && an.IsIntConst(b.X, 0))
	}, 1) {
		return h
	}
	return nil
}
