package props

import (
	"fmt"
	"go/token"
	"go/types"
	"sort"
	"strings"

	"mrocheck/an"

	"golang.org/x/tools/go/ssa"
)

// acquireSite is one call X.Acquire(n) on a *ResourceSemaphore.
type acquireSite struct {
	call     *ssa.Call
	fn       *ssa.Function
	recv     ssa.Value
	recvPath string
	amount   ssa.Value
	// inner: the Acquire call inside a helper (acquireCores(n, ...) bool) when `call` is a call of
	// that helper in the job path; nil for a direct Acquire
	inner *acquireSite
}

// releaseHelperMatches: site calls (or defers) a method of the job manager that releases, on every
// path, the semaphore of acq with the amount that the caller acquired.
func releaseHelperMatches(site ssa.CallInstruction, release *ssa.Function, acq acquireSite) bool {
	cc := site.Common()
	g := cc.StaticCallee()
	if g == nil || g.Blocks == nil || g == release {
		return false
	}
	want := semName(acq)
	md := &an.MustDo{Depth: 0, Pred: func(in ssa.Instruction) bool {
		c, ok := in.(*ssa.Call)
		if !ok || c.Call.StaticCallee() != release || len(c.Call.Args) != 2 {
			return false
		}
		// the same semaphore: a field of the receiver with the same name, or a parameter that
		// receives the caller's semaphore value
		recvOK := false
		if prm, isP := c.Call.Args[0].(*ssa.Parameter); isP {
			for i, q := range g.Params {
				if q == prm && i < len(cc.Args) && acq.recv != nil && (cc.Args[i] == acq.recv || an.Path(cc.Args[i]) == acq.recvPath) {
					recvOK = true
				}
			}
		} else {
			pth := an.Path(c.Call.Args[0])
			if i := strings.LastIndex(pth, "."); i >= 0 {
				pth = pth[i+1:]
			}
			recvOK = pth == want
		}
		if !recvOK {
			return false
		}
		prm, isP := c.Call.Args[1].(*ssa.Parameter)
		if !isP {
			return false
		}
		for i, q := range g.Params {
			if q == prm && i < len(cc.Args) && cc.Args[i] == acq.amount {
				return true
			}
		}
		return false
	}}
	return md.Fn(g)
}

// closureCallsRelease: does the (deferred / called) function value call
// (*ResourceSemaphore).Release(recv, amount) where recv/amount map back to the
// given caller-side values?
func releaseMatches(site ssa.CallInstruction, release *ssa.Function, acq acquireSite) bool {
	cc := site.Common()
	// direct: defer sem.Release(n) / sem.Release(n)
	if f := cc.StaticCallee(); f != nil && f == release {
		return len(cc.Args) == 2 && sameValue(cc.Args[0], acq.recv, acq.recvPath) && cc.Args[1] == acq.amount
	}
	// closure
	var fn *ssa.Function
	var mc *ssa.MakeClosure
	switch v := cc.Value.(type) {
	case *ssa.MakeClosure:
		mc = v
		fn, _ = v.Fn.(*ssa.Function)
	case *ssa.Function:
		fn = v
	}
	if fn == nil || fn.Blocks == nil {
		return false
	}
	_ = mc
	// every path from closure entry to return passes a matching Release
	matching := func(in ssa.Instruction) bool {
		c, ok := in.(*ssa.Call)
		if !ok || c.Call.StaticCallee() != release || len(c.Call.Args) != 2 {
			return false
		}
		// receiver
		r := c.Call.Args[0]
		recvOK := false
		if prm, isParam := r.(*ssa.Parameter); isParam {
			for i, q := range fn.Params {
				if q == prm && i < len(cc.Args) && sameValue(cc.Args[i], acq.recv, acq.recvPath) {
					recvOK = true
				}
			}
		} else if an.Path(r) == acq.recvPath {
			recvOK = true
		}
		if !recvOK {
			return false
		}
		a := c.Call.Args[1]
		if prm, isParam := a.(*ssa.Parameter); isParam {
			for i, q := range fn.Params {
				if q == prm && i < len(cc.Args) && cc.Args[i] == acq.amount {
					return true
				}
			}
		}
		return false
	}
	ok, _ := an.MustPass(fn, nil, an.IsReturn, matching)
	return ok
}

func sameValue(v, want ssa.Value, wantPath string) bool {
	return v == want || an.Path(v) == wantPath
}

func c12Local(c *an.Ctx) {
	p := c.P
	enqueue := c.NeedFunc(pkgCore, "(*LocalJobManager).Enqueue")
	acquire := c.NeedFunc(pkgCore, "(*ResourceSemaphore).Acquire")
	release := c.NeedFunc(pkgCore, "(*ResourceSemaphore).Release")
	getReqs := c.NeedFunc(pkgCore, "(*LocalJobManager).GetSystemReqs")
	if enqueue == nil || acquire == nil || release == nil || getReqs == nil {
		return
	}
	// ---------------- K3 / K6 : all Acquire sites in package core ----------------
	var sites []acquireSite
	for _, fn := range coreFns(c) {
		an.Instrs(fn, func(in ssa.Instruction) {
			if call, ok := in.(*ssa.Call); ok && call.Call.StaticCallee() == acquire {
				sites = append(sites, acquireSite{call: call, fn: fn, recv: call.Call.Args[0],
					recvPath: an.Path(call.Call.Args[0]), amount: call.Call.Args[1]})
			}
		})
	}
	// an Acquire inside a helper of the job path (acquireCores(n, res, md) bool): every call of the
	// helper in Enqueue is a site whose amount / semaphore are the call's arguments
	{
		var extra []acquireSite
		for i := range sites {
			in := sites[i]
			h := in.fn
			if an.Outermost(h) == enqueue || h.Parent() != nil {
				continue
			}
			ai, ri := -1, -1
			for k, q := range h.Params {
				if ssa.Value(q) == in.amount {
					ai = k
				}
				if ssa.Value(q) == in.recv {
					ri = k
				}
			}
			if ai < 0 || h.Signature.Results().Len() != 1 || !isBoolType(h.Signature.Results().At(0).Type()) {
				continue
			}
			for caller, css := range p.Callers(h) {
				if an.Outermost(caller) != enqueue {
					continue
				}
				for _, cs := range css {
					call, ok := cs.(*ssa.Call)
					if !ok || ai >= len(call.Call.Args) {
						continue
					}
					v := acquireSite{call: call, fn: caller, amount: call.Call.Args[ai], recvPath: in.recvPath, inner: &sites[i]}
					if ri >= 0 && ri < len(call.Call.Args) {
						v.recv = call.Call.Args[ri]
						v.recvPath = an.Path(v.recv)
					}
					extra = append(extra, v)
				}
			}
		}
		if len(extra) > 0 {
			// the inner sites are judged through their callers
			var kept []acquireSite
			for i := range sites {
				isInner := false
				for _, e := range extra {
					if e.inner == &sites[i] {
						isInner = true
					}
				}
				if !isInner {
					kept = append(kept, sites[i])
				}
			}
			sites = append(kept, extra...)
		}
	}
	inEnqueue := 0
	for _, s := range sites {
		if an.Outermost(s.fn) != enqueue {
			// setupSemaphores reserves the starting thread count for the life of mrp
			c.Info("K3", "acquire("+s.recvPath+")@"+an.FnName(s.fn), s.call.Pos(), "acquire outside the job path (permanent reservation); not paired by design")
			continue
		}
		inEnqueue++
		key := "acquire(" + s.recvPath + ")@" + an.FnName(s.fn)
		// after a successful acquire, every path to exit passes a matching release (deferred or direct)
		site := s
		w := an.Query{Fn: s.fn, After: s.call, Target: an.IsExit,
			Barrier: func(in ssa.Instruction) bool {
				switch x := in.(type) {
				case *ssa.Defer:
					return releaseMatches(x, release, site) || releaseHelperMatches(x, release, site)
				case *ssa.Call:
					return releaseMatches(x, release, site) || releaseHelperMatches(x, release, site)
				}
				return false
			},
			BarrierEdge: func(from, to *ssa.BasicBlock) bool {
				return an.EdgeHolds(from, to, func(r an.Rel) bool {
					if site.inner != nil {
						// the helper reported failure
						return r.Op == token.ILLEGAL && !r.Truth && r.X == ssa.Value(site.call)
					}
					// err != nil edge of this acquire
					return r.Op == token.NEQ && r.X == ssa.Value(site.call) && an.IsNil(r.Y)
				})
			}}.Find()
		c.Check("K3", key+":released", s.call.Pos(), w == nil,
			"after a successful Acquire every path to the end of the job closure must release the same semaphore with the same amount; "+c.WitnessString(w))
		// failure is reported
		werr := c.NeedFunc(pkgCore, "(*Metadata).WriteErrorString")
		if werr != nil {
			// on the err != nil edge every path to return passes WriteErrorString
			fs := s
			if s.inner != nil {
				fs = *s.inner
			}
			for _, b := range fs.fn.Blocks {
				for _, succ := range b.Succs {
					cnd, t, ok := an.EdgeCond(b, succ)
					if !ok {
						continue
					}
					r := an.Normalize(cnd, t)
					if r.Op == token.NEQ && r.X == ssa.Value(fs.call) && an.IsNil(r.Y) {
						hit := !reachExitAvoiding(succ, func(in ssa.Instruction) bool { return an.CalleeIs(in, werr) })
						c.Check("K3", key+":failure-reported", s.call.Pos(), hit,
							"a failed Acquire (request larger than the limit) must be reported through WriteErrorString, otherwise the job is silently lost")
					}
				}
			}
		}
		// ---------------- K4 : amount derives from GetSystemReqs ----------------
		sl := newSlice(s.fn)
		sl.add(s.amount)
		fromReqs, fromRaw := false, false
		for v := range sl.seen {
			if call, ok := v.(*ssa.Call); ok && call.Call.StaticCallee() == getReqs {
				fromReqs = true
			}
			// raw request: a load through the resRequest parameter/free variable
			if fv, ok := v.(*ssa.FreeVar); ok && isJobResourcesPtr(fv.Type()) {
				fromRaw = true
			}
			if prm, ok := v.(*ssa.Parameter); ok && isJobResourcesPtr(prm.Type()) {
				fromRaw = true
			}
		}
		// the raw request reaches the slice only as the argument of GetSystemReqs
		c.Check("K4", key+":amount-from-GetSystemReqs", s.call.Pos(), fromReqs && !fromRaw,
			fmt.Sprintf("the amount acquired must derive from GetSystemReqs(request) (clamped), not from the raw request (fromReqs=%v raw=%v)", fromReqs, fromRaw))
	}
	c.Floor("K3", "Acquire sites in LocalJobManager.Enqueue", inEnqueue, 4)

	// ---------------- K6 acquisition order ----------------
	type pair struct{ a, b string }
	order := map[pair]bool{}
	var enqSites []acquireSite
	for _, s := range sites {
		if an.Outermost(s.fn) == enqueue {
			enqSites = append(enqSites, s)
		}
	}
	for _, a := range enqSites {
		for _, b := range enqSites {
			if a.call == b.call || a.fn != b.fn {
				continue
			}
			if an.Reachable(a.fn, a.call, func(in ssa.Instruction) bool { return in == ssa.Instruction(b.call) }) {
				order[pair{semName(a), semName(b)}] = true
			}
		}
	}
	var ps []string
	bad := false
	for pr := range order {
		ps = append(ps, pr.a+"<"+pr.b)
		if order[pair{pr.b, pr.a}] {
			bad = true
		}
	}
	sort.Strings(ps)
	c.Check("K6", "acquisition-order@"+an.FnName(enqueue), enqueue.Pos(), !bad && len(ps) >= 3,
		"the semaphores must be acquired in one global order on every path (no a<b and b<a); observed: "+strings.Join(ps, " "))

	// ---------------- K4 clamp inside GetSystemReqs ----------------
	c12Clamp(c, getReqs)
	_ = p
}

func semName(s acquireSite) string {
	p := s.recvPath
	if i := strings.LastIndex(p, "."); i >= 0 {
		p = p[i+1:]
	}
	return p
}

func isJobResourcesPtr(t types.Type) bool {
	for i := 0; i < 2; i++ {
		if p, ok := t.(*types.Pointer); ok {
			t = p.Elem()
		}
	}
	n, ok := t.(*types.Named)
	return ok && n.Obj().Name() == "JobResources"
}

func reachExitAvoiding(b *ssa.BasicBlock, barrier func(ssa.Instruction) bool) bool {
	seen := map[*ssa.BasicBlock]bool{}
	var walk func(x *ssa.BasicBlock) bool
	walk = func(x *ssa.BasicBlock) bool {
		if seen[x] {
			return false
		}
		seen[x] = true
		for _, in := range x.Instrs {
			if barrier(in) {
				return false
			}
			if an.IsExit(in) {
				return true
			}
		}
		for _, s := range x.Succs {
			if walk(s) {
				return true
			}
		}
		return false
	}
	return walk(b)
}

// ---------------------------------------------------------------------------
// backward slice within one function (E8, intra-procedural)
// ---------------------------------------------------------------------------

type slice struct {
	fn   *ssa.Function
	seen map[ssa.Value]bool
}

func newSlice(fn *ssa.Function) *slice { return &slice{fn: fn, seen: map[ssa.Value]bool{}} }

func (s *slice) add(v ssa.Value) {
	if v == nil || s.seen[v] {
		return
	}
	s.seen[v] = true
	switch x := v.(type) {
	case *ssa.BinOp:
		s.add(x.X)
		s.add(x.Y)
	case *ssa.UnOp:
		s.add(x.X)
		if x.Op == token.MUL {
			s.addStoresTo(x.X)
		}
	case *ssa.Convert:
		s.add(x.X)
	case *ssa.ChangeType:
		s.add(x.X)
	case *ssa.MakeInterface:
		s.add(x.X)
	case *ssa.Phi:
		for _, e := range x.Edges {
			s.add(e)
		}
	case *ssa.FieldAddr:
		s.add(x.X)
	case *ssa.Field:
		s.add(x.X)
	case *ssa.IndexAddr:
		s.add(x.X)
	case *ssa.Index:
		s.add(x.X)
	case *ssa.Extract:
		s.add(x.Tuple)
	case *ssa.Slice:
		s.add(x.X)
	case *ssa.Lookup:
		s.add(x.X)
		s.add(x.Index)
	case *ssa.Call:
		// arguments of pure helpers (math.Ceil, conversions); the call itself stays in the slice
		if f := x.Call.StaticCallee(); f != nil && f.Pkg != nil && f.Pkg.Pkg.Path() == "math" {
			for _, a := range x.Call.Args {
				s.add(a)
			}
		}
	}
}

// addStoresTo adds the values stored into the object addr points into.
func (s *slice) addStoresTo(addr ssa.Value) {
	root := an.RootOf(addr)
	alloc, ok := root.(*ssa.Alloc)
	if !ok {
		return
	}
	for _, g := range an.WithAnon(an.Outermost(s.fn)) {
		an.Instrs(g, func(in ssa.Instruction) {
			if st, ok := in.(*ssa.Store); ok && an.RootOf(st.Addr) == ssa.Value(alloc) {
				s.add(st.Val)
			}
		})
	}
}

// ---------------------------------------------------------------------------
// K4 clamp idiom in GetSystemReqs
// ---------------------------------------------------------------------------

func c12Clamp(c *an.Ctx, fn *ssa.Function) {
	p := c.P
	type tgt struct {
		field string
		limit *types.Var
	}
	targets := []tgt{
		{"Threads", p.Field(pkgCore, "LocalJobManager", "maxCores")},
		{"MemGB", p.Field(pkgCore, "LocalJobManager", "maxMemGB")},
	}
	for _, t := range targets {
		f := p.Field(pkgCore, "JobResources", t.field)
		if f == nil || t.limit == nil {
			c.Undecided("anchor", "JobResources."+t.field, token.NoPos, "field not found")
			continue
		}
		sts := an.StoresToField(fn, f)
		c.Floor("K4", "stores to result."+t.field+" in GetSystemReqs", len(sts), 1)
		for _, st := range sts {
			key := "clamp(result." + t.field + "<=" + t.limit.Name() + ")@" + an.FnName(fn)
			ok, why := clamped(st, st.Val, t.limit, 0)
			c.Check("K4", key, st.Pos(), ok, "the value stored must be bounded by the configured limit on every path: "+why)
		}
	}
}

// derivesOnlyFromLimit: v is built from limit leaves (loads of the limit field, or - inside a
// clamping helper - the parameter the limit is passed in) and constants.
func derivesOnlyFromLimit(v ssa.Value, leaf func(ssa.Value) bool, d int) bool {
	if d > 8 {
		return false
	}
	v = an.Strip(v)
	if _, ok := v.(*ssa.Const); ok {
		return false // a bare constant is not a limit
	}
	if leaf(v) {
		return true
	}
	if b, ok := v.(*ssa.BinOp); ok && (b.Op == token.MUL || b.Op == token.QUO) {
		_, cx := an.Strip(b.X).(*ssa.Const)
		_, cy := an.Strip(b.Y).(*ssa.Const)
		if cy {
			return derivesOnlyFromLimit(b.X, leaf, d+1)
		}
		if cx {
			return derivesOnlyFromLimit(b.Y, leaf, d+1)
		}
	}
	return false
}

// scaledVar strips monotone scaling (conversion, * const, / const) down to the variable.
func scaledVar(v ssa.Value) ssa.Value {
	for i := 0; i < 8; i++ {
		v = an.Strip(v)
		b, ok := v.(*ssa.BinOp)
		if !ok || (b.Op != token.MUL && b.Op != token.QUO) {
			return v
		}
		if _, cy := an.Strip(b.Y).(*ssa.Const); cy {
			v = b.X
			continue
		}
		return v
	}
	return v
}

// clamped: at instruction `at`, value v is bounded by the limit.
func clamped(at ssa.Instruction, v ssa.Value, limit *types.Var, d int) (bool, string) {
	return clampedBy(at, v, func(x ssa.Value) bool { return an.LoadsField(x, limit) }, d)
}

func clampedBy(at ssa.Instruction, v ssa.Value, leaf func(ssa.Value) bool, d int) (bool, string) {
	if d > 6 {
		return false, "too deep"
	}
	if derivesOnlyFromLimit(v, leaf, 0) {
		return true, "is the limit itself"
	}
	x := scaledVar(v)
	isLim := func(y ssa.Value) bool { return derivesOnlyFromLimit(y, leaf, 0) }
	// x <= L
	leX := func(x ssa.Value) func(r an.Rel) bool {
		return func(r an.Rel) bool {
			if r.Op == token.LEQ && r.X == x && isLim(r.Y) {
				return true
			}
			if r.Op == token.GEQ && r.Y == x && isLim(r.X) {
				return true
			}
			return false
		}
	}
	le := leX(x)
	if g, _ := an.GuardedBy(at, le); g {
		return true, "guarded by <= limit"
	}
	// every path to `at` crosses x <= L, or L <= 0 (the repository's convention for "no limit":
	// `if limit > 0 && x > limit { x = limit }`)
	unlimited := func(r an.Rel) bool {
		if (r.Op == token.LEQ || r.Op == token.LSS) && isLim(r.X) && (an.IsIntConst(r.Y, 0) || (r.Op == token.LSS && an.IsIntConst(r.Y, 1))) {
			return true
		}
		return false
	}
	if fn := at.Parent(); fn != nil {
		w := an.Query{Fn: fn, Target: func(in ssa.Instruction) bool { return in == at },
			BarrierEdge: func(from, to *ssa.BasicBlock) bool {
				return an.EdgeHolds(from, to, func(r an.Rel) bool { return le(r) || unlimited(r) })
			}}.Find()
		if w == nil {
			return true, "every path crosses <= limit (or limit <= 0: unlimited)"
		}
	}
	if phi, ok := x.(*ssa.Phi); ok {
		for i, e := range phi.Edges {
			pred := phi.Block().Preds[i]
			term := pred.Instrs[len(pred.Instrs)-1]
			// the edge itself may be the guarding edge
			if an.EdgeHolds(pred, phi.Block(), leX(scaledVar(e))) {
				continue
			}
			ok2, why := clampedBy(term, e, leaf, d+1)
			if !ok2 {
				return false, fmt.Sprintf("phi edge %d (%s) not bounded: %s", i, an.Path(e), why)
			}
		}
		return true, "all phi edges bounded"
	}
	// a clamping helper: h(..., limit, ...) - every value it returns is bounded by that parameter
	if call, ok := x.(*ssa.Call); ok {
		h := call.Call.StaticCallee()
		if h != nil && h.Blocks != nil && h.Pkg != nil && call.Parent() != nil && call.Parent().Pkg == h.Pkg && h.Signature.Results().Len() == 1 {
			lim := map[ssa.Value]bool{}
			for i, a := range call.Call.Args {
				if i < len(h.Params) && isLim(a) {
					lim[h.Params[i]] = true
				}
			}
			if len(lim) == 0 {
				return false, "value " + an.Path(v) + " comes from " + an.FnName(h) + ", which is not given the limit"
			}
			n := 0
			var bad string
			an.Instrs(h, func(in ssa.Instruction) {
				ret, isRet := in.(*ssa.Return)
				if !isRet || bad != "" {
					return
				}
				n++
				ok2, why := clampedBy(ret, an.RetVal(ret, 0), func(y ssa.Value) bool { return lim[y] }, d+1)
				if !ok2 {
					bad = fmt.Sprintf("%s returns a value not bounded by its limit parameter: %s", an.FnName(h), why)
				}
			})
			if bad != "" {
				return false, bad
			}
			if n > 0 {
				return true, "returned by clamping helper " + an.FnName(h)
			}
		}
	}
	return false, "value " + an.Path(v) + " is neither the limit nor guarded by a comparison with it"
}

// ---------------------------------------------------------------------------
// Remote mode
// ---------------------------------------------------------------------------

func c12Remote(c *an.Ctx) {
	p := c.P
	sendJob := c.NeedFunc(pkgCore, "(*RemoteJobManager).sendJob")
	execJob := c.NeedFunc(pkgCore, "(*RemoteJobManager).execJob")
	endJob := c.NeedFunc(pkgCore, "(*RemoteJobManager).endJob")
	mjAcquire := c.NeedFunc(pkgCore, "(*MaxJobsSemaphore).Acquire")
	mjRelease := c.NeedFunc(pkgCore, "(*MaxJobsSemaphore).Release")
	maxJobs := p.Field(pkgCore, "RemoteJobManager", "maxJobs")
	jobSem := p.Field(pkgCore, "RemoteJobManager", "jobSem")
	if sendJob == nil || execJob == nil || endJob == nil || mjAcquire == nil || mjRelease == nil || maxJobs == nil || jobSem == nil {
		return
	}
	n := 0
	for _, fn := range coreFns(c) {
		an.Instrs(fn, func(in ssa.Instruction) {
			call := an.AsCall(in)
			if call == nil || call.Common().StaticCallee() != sendJob {
				return
			}
			n++
			key := "submit(sendJob)@" + an.FnName(fn)
			if host := an.Outermost(fn); host != execJob {
				// the goroutine body of execJob may have been extracted into a private method that only execJob starts
				only := host.Object() != nil && !host.Object().Exported()
				nCallers := 0
				for caller := range p.Callers(host) {
					nCallers++
					if an.Outermost(caller) != execJob {
						only = false
					}
				}
				if !only || nCallers == 0 {
					c.Fail("K3", key+":who-may-submit", in.Pos(), "sendJob may only be called from RemoteJobManager.execJob (slot accounting)")
					return
				}
			}
			ok, w := an.GuardedBy(in, func(r an.Rel) bool {
				// unlimited: maxJobs <= 0
				if r.Op == token.LEQ && an.LoadsField(r.X, maxJobs) && an.IsIntConst(r.Y, 0) {
					return true
				}
				if r.Op == token.LSS && an.LoadsField(r.X, maxJobs) && an.IsIntConst(r.Y, 1) {
					return true
				}
				// slot acquired
				if r.Op == token.ILLEGAL && r.Truth {
					if call, ok := r.X.(*ssa.Call); ok && call.Call.StaticCallee() == mjAcquire {
						return true
					}
				}
				return false
			})
			c.Check("K3", key+":slot-acquired", in.Pos(), ok,
				"a cluster submission must be dominated by maxJobs<=0 or by a successful jobSem.Acquire; "+c.WitnessString(w))
		})
	}
	c.Floor("K3", "sendJob call sites", n, 1)
	// endJob releases the slot
	w := an.Query{Fn: endJob, Target: an.IsReturn,
		Barrier: func(in ssa.Instruction) bool {
			if !an.CalleeIs(in, mjRelease) {
				return false
			}
			call := in.(*ssa.Call)
			return len(call.Call.Args) == 2 && call.Call.Args[1] == ssa.Value(endJob.Params[1])
		},
		BarrierEdge: func(from, to *ssa.BasicBlock) bool {
			return an.EdgeHolds(from, to, func(r an.Rel) bool {
				return r.Op == token.EQL && an.LoadsField(r.X, jobSem) && an.IsNil(r.Y)
			})
		}}.Find()
	c.Check("K3", "endJob:releases-slot", endJob.Pos(), w == nil,
		"endJob must release the job's slot whenever a semaphore exists; "+c.WitnessString(w))
}

// K5 (baton passing).  Release wakes exactly one waiter (cond.Signal).  A waiter that returns from
// cond.Wait() has consumed that wake-up; if it then leaves Acquire without taking the slot (its job
// was cancelled or failed meanwhile) and without signalling again, the slot stays free while the
// remaining waiters sleep forever.  Necessary condition: every path from a Wait() to a return crosses
// a Signal/Broadcast of a condition variable - explicitly, or because a deferred Signal/Broadcast was
// registered on every path before the Wait.
func c12Baton(c *an.Ctx, fns []*ssa.Function) {
	isSig := func(x ssa.Instruction) bool {
		if _, ok := an.IsMethodCall(x, "sync", "Cond", "Signal"); ok {
			return true
		}
		_, ok := an.IsMethodCall(x, "sync", "Cond", "Broadcast")
		return ok
	}
	n := 0
	for _, fn := range fns {
		an.Instrs(fn, func(in ssa.Instruction) {
			if _, ok := an.IsMethodCall(in, "sync", "Cond", "Wait"); !ok {
				return
			}
			if _, isDefer := in.(*ssa.Defer); isDefer {
				return
			}
			n++
			key := "baton-passed-after-wait@" + an.FnName(fn)
			deferred, _ := an.MustPass(fn, nil, func(x ssa.Instruction) bool { return x == in }, func(x ssa.Instruction) bool {
				d, ok := x.(*ssa.Defer)
				if !ok {
					return false
				}
				f := d.Call.StaticCallee()
				return f != nil && f.Pkg != nil && f.Pkg.Pkg.Path() == "sync" && (f.Name() == "Signal" || f.Name() == "Broadcast")
			})
			if deferred {
				c.Pass("K5", key, in.Pos(), "a deferred Signal/Broadcast is registered on every path before the Wait: every return passes the wake-up on")
				return
			}
			w := an.Query{Fn: fn, After: in, Target: an.IsReturn, Barrier: func(x ssa.Instruction) bool {
				return isSig(x) || x == in
			}}.Find()
			c.Check("K5", key, in.Pos(), w == nil,
				"a waiter that was woken by Signal and returns without taking the slot must wake the next waiter (Signal/Broadcast on every path from Wait to return, or a deferred one); otherwise a freed slot is never granted again; "+c.WitnessString(w))
		})
	}
	c.Floor("K5", "cond.Wait() sites in package core", n, 1)
}

// K7: a job that is already running when mrp re-attaches is counted against --maxjobs.
// Metadata.reattachJob hands every Queued or Running job to JobManager.reattach, whose remote
// implementation must put it into MaxJobsSemaphore.running - otherwise the rebuilt semaphore is
// empty after a restart and up to Limit more jobs are submitted on top of those still in the
// cluster.  Decided by assuming the state read in the semaphore method to be Running: under that
// assumption (conditional edges that contradict it pruned) the insertion must be reachable.
func ruleK7(c *an.Ctx) {
	p := c.P
	reattach := c.NeedFunc(pkgCore, "(*RemoteJobManager).reattach")
	running := p.Field(pkgCore, "MaxJobsSemaphore", "running")
	runningState := p.Const(pkgCore, "Running")
	if reattach == nil || running == nil || runningState == nil {
		return
	}
	n := 0
	an.Instrs(reattach, func(in ssa.Instruction) {
		cl, ok := in.(*ssa.Call)
		if !ok {
			return
		}
		h := cl.Call.StaticCallee()
		if h == nil || h.Blocks == nil || h.Signature.Recv() == nil || !strings.Contains(h.Signature.Recv().Type().String(), "MaxJobsSemaphore") {
			return
		}
		n++
		var facts []an.Rel
		an.Instrs(h, func(x ssa.Instruction) {
			gc, ok := x.(*ssa.Call)
			if !ok || gc.Call.StaticCallee() == nil || gc.Call.StaticCallee().Name() != "getState" {
				return
			}
			for _, r := range an.Referrers(gc) {
				if ex, isEx := r.(*ssa.Extract); isEx {
					if ex.Index == 0 {
						facts = append(facts, an.Rel{Op: token.EQL, X: ex, Y: ssa.NewConst(runningState.Val(), runningState.Type())})
					} else {
						facts = append(facts, an.Rel{Op: token.ILLEGAL, X: ex, Truth: true})
					}
				}
			}
		})
		w := an.Query{
			Fn: h,
			Target: func(x ssa.Instruction) bool {
				mu, ok := x.(*ssa.MapUpdate)
				return ok && an.LoadsField(mu.Map, running)
			},
			BarrierEdge: func(from, to *ssa.BasicBlock) bool {
				cnd, t, ok := an.EdgeCond(from, to)
				if !ok {
					return false
				}
				r := an.Normalize(cnd, t)
				for _, f := range facts {
					if contradicts(f, r, false) {
						return true
					}
				}
				return false
			},
		}.Find()
		c.Check("K7", "running-job-counted-on-reattach("+an.FnName(h)+")@(*RemoteJobManager).reattach", cl.Pos(), w != nil,
			"reattachJob hands Running (and Queued) jobs to this hook after a restart, but with the state assumed to be Running no path through "+an.FnName(h)+" reaches the insertion into MaxJobsSemaphore.running: jobs still running in the cluster are not counted and --maxjobs more are submitted on top of them")
	})
	c.Floor("K7", "semaphore calls in RemoteJobManager.reattach", n, 1)
}
