package props

import (
	"fmt"
	"go/token"
	"go/types"
	"sort"
	"strings"

	"mrocheck/an"

	"golang.org/x/tools/go/ssa"
)

func init() {
	Registry["C05"] = Entry{
		Run: runC05,
		Explanation: "Decides structural necessary conditions of 'an interrupted pipestance resumes to the same result, not redoing finished work' - the ordering and ownership rules that make a crash at any point recoverable: " +
			"R1 durable before announced (mrjob: outputs and directories are fsynced and the marker file written before the journal entry; _errors before its journal entry; the final jobinfo before its journal entry; mrp: _jobinfo before execJob), " +
			"R2 only unfinished work is reset (uncheckedReset only from the three checked entry points, each dominated by Failed / queued_locally / Queued / Running-and-dead; Node.reset only for Failed or orphaned Running nodes; no path resets a Complete object), " +
			"R3 a new attempt gets a new directory (uniquifier cleared before uniquify) and stale journal entries are ignored, " +
			"R4 lock life-cycle (handler registered before the lock is written, handled signals run every registered handler before exiting and after critical sections drained), " +
			"R5 critical sections are balanced on all paths, no HandleSignal implementation enters one, and the multi-file updates named by the property are inside one, " +
			"R6 a reset node re-reads its state, R7 unfinished work found at restart IS reset (once state == Failed in checkedReset / queued_locally exists in restartQueuedLocal / state == Queued or the recorded pid is dead in restartLocal holds on an edge, every path to the entry point's return passes uncheckedReset; verdict-returning helpers are followed into their callers). " +
			"Round 4: R7 also for a Running job without a recorded pid (search with known facts through the shared else-if block) and with the state assumed Queued (edges contradicting the assumption pruned); R3 the uniquifier of a reset attempt is computed from, compared with, or independent of the previous one (not a pure function of pid and seconds). " +
			"Round 5: R6b node states are derived only after every node has loaded its metadata; R9 the metadata archive gets its final name by a rename after it was written completely; R3b a full stage reset stores new uniquifiers. " +
			"Round 6: R10 (= X8) chunk directories are named alike by doChunks and updateId; R7b an orphaned local node found Running at re-attach is reset on every path. " +
			"Round 7: R11 extracted metadata files are renamed into place when complete; R3c (= J8) the uniquifier generator orders attempts. " +
			"R12 in RemoteJobManager.sendJob the queue sentinel is removed only after the submit command has run (must-pass-through). " +
			"R6 (round 9) also covers returns of a helper's verdict that can be nil. " +
			"R13 Fork.mkdirs calls Chunk.mkdirs in a loop over the chunks; R14 InvokePipeline calls instantiatePipeline after EnterCriticalSection. " +
			"NOT decided: equality of final outputs with an uninterrupted run, behaviour at each individual crash prefix, PID reuse.",
		Assumptions: commonAssumptions,
	}
}

func runC05(c *an.Ctx) {
	ruleR1(c)
	ruleR2(c)
	ruleR3(c)
	ruleR4(c)
	ruleR5(c)
	ruleR6(c)
	ruleR6b(c)
	ruleR9(c)
	ruleR3b(c)
	ruleChunkWidth(c, "R10")
	ruleOrphanReset(c, "R7b")
	ruleUniqOrder(c, "R3c")
	ruleR12(c)
	ruleR13(c)
	ruleR14(c)
	ruleR15(c)
	ruleR7(c)
	ruleR7Assume(c)
}

func callNamed(in ssa.Instruction, name string) (ssa.CallInstruction, bool) {
	cl := an.AsCall(in)
	if cl == nil || cl.Common().StaticCallee() == nil || cl.Common().StaticCallee().Name() != name {
		return nil, false
	}
	return cl, true
}

func journalOf(p *an.Prog, in ssa.Instruction, names ...string) bool {
	cl, ok := callNamed(in, "UpdateJournal")
	if !ok || len(cl.Common().Args) < 2 {
		return false
	}
	if len(names) == 0 {
		return true
	}
	return onlyConsts(p, cl.Common().Args[1], names, 0) || mayBeConst(p, cl.Common().Args[1], names)
}

func mayBeConst(p *an.Prog, v ssa.Value, names []string) bool {
	if ph, ok := v.(*ssa.Phi); ok {
		for _, e := range ph.Edges {
			if mayBeConst(p, e, names) {
				return true
			}
		}
		return false
	}
	for _, n := range names {
		if an.IsConst(v, p.Const(pkgCore, n)) {
			return true
		}
	}
	return false
}

func ruleR1(c *an.Ctx) {
	p := c.P
	complete := c.NeedFunc(pkgMrjob, "(*runner).Complete")
	syncFn := c.NeedFunc(pkgMrjob, "(*runner).sync")
	fail := c.NeedFunc(pkgMrjob, "(*runner).Fail")
	hs := c.NeedFunc(pkgMrjob, "(*runner).HandleSignal")
	done := c.NeedFunc(pkgMrjob, "(*runner).done")
	syncFile := c.NeedFunc(pkgMrjob, "syncFile")
	if complete == nil || syncFn == nil || fail == nil || hs == nil || done == nil || syncFile == nil {
		return
	}
	n := 0
	an.Instrs(complete, func(in ssa.Instruction) {
		if !journalOf(p, in) {
			return
		}
		n++
		ok, w := an.MustPass(complete, nil, func(x ssa.Instruction) bool { return x == in }, func(x ssa.Instruction) bool { return an.CalleeIs(x, syncFn) })
		c.Check("R1", "sync-before-journal@(*runner).Complete", in.Pos(), ok, "outputs must be flushed to stable storage before completion is announced in the journal; "+c.WitnessString(w))
		// the marker file is written before it is announced: no journal(CompleteFile) without write(CompleteFile)
		// The write of _complete is skipped only on the edge target != CompleteFile; target can differ
		// from CompleteFile only where _errors was written (checked next), so that edge is a barrier too.
		completeFile := p.Const(pkgCore, "CompleteFile")
		w2 := an.Query{Fn: complete, Target: func(x ssa.Instruction) bool { return x == in },
			Barrier: func(x ssa.Instruction) bool {
				return mayWriteFile(p, x, "CompleteFile") || mayWriteFile(p, x, "Errors")
			},
			BarrierEdge: func(from, to *ssa.BasicBlock) bool {
				return an.EdgeHolds(from, to, func(r an.Rel) bool {
					return r.Op == token.NEQ && (an.IsConst(r.Y, completeFile) || an.IsConst(r.X, completeFile))
				})
			}}.Find()
		c.Check("R1", "marker-before-journal@(*runner).Complete", in.Pos(), w2 == nil, "the _complete/_errors file must be written before its journal entry; "+c.WitnessString(w2))
		// every phi edge that gives the target variable the value Errors comes from a block reached only after writing _errors
		cl := an.AsCall(in)
		okErr := true
		var visit func(v ssa.Value, d int)
		visit = func(v ssa.Value, d int) {
			ph, isPhi := v.(*ssa.Phi)
			if !isPhi || d > 4 {
				return
			}
			for i, e := range ph.Edges {
				if an.IsConst(e, p.Const(pkgCore, "Errors")) {
					pred := ph.Block().Preds[i]
					term := pred.Instrs[len(pred.Instrs)-1]
					ok, _ := an.MustPass(complete, nil, func(x ssa.Instruction) bool { return x == term }, func(x ssa.Instruction) bool { return mayWriteFile(p, x, "Errors") })
					if !ok {
						okErr = false
					}
				} else {
					visit(e, d+1)
				}
			}
		}
		visit(cl.Common().Args[1], 0)
		c.Check("R1", "errors-target-implies-errors-written@(*runner).Complete", in.Pos(), okErr, "whenever the journal target becomes Errors the _errors file has been written")
	})
	c.Floor("R1", "journal updates in runner.Complete", n, 1)
	// sync(): outs / stage_defs file and both directories
	syncCalls := callsTo(syncFn, syncFile)
	okFile, okDir := false, 0
	mfp := func(v ssa.Value, names ...string) bool {
		for _, l := range stringOrigins(v) {
			cl, ok := l.(*ssa.Call)
			if !ok || cl.Call.StaticCallee() == nil || cl.Call.StaticCallee().Name() != "MetadataFilePath" {
				continue
			}
			if len(names) == 0 || mayBeConst(p, cl.Call.Args[1], names) {
				return true
			}
		}
		return false
	}
	for _, sc := range syncCalls {
		arg := sc.Common().Args[0]
		if cl, ok := arg.(*ssa.Call); ok && cl.Call.StaticCallee() != nil && cl.Call.StaticCallee().Name() == "Dir" {
			okDir++
			continue
		}
		if mfp(arg, "OutsFile", "StageDefsFile") {
			okFile = true
		}
	}
	mdFile := &an.MustDo{Pred: func(in ssa.Instruction) bool {
		if !an.CalleeIs(in, syncFile) {
			return false
		}
		return mfp(in.(*ssa.Call).Call.Args[0], "OutsFile", "StageDefsFile")
	}, Depth: 0}
	c.Check("R1", "sync-covers-result-file@(*runner).sync", syncFn.Pos(), okFile && mdFile.Fn(syncFn), "sync must fsync the _outs (or _stage_defs) file on every path")
	c.Check("R1", "sync-covers-directories@(*runner).sync", syncFn.Pos(), okDir >= 2, fmt.Sprintf("sync must fsync the files directory and the metadata directory (directory syncs found: %d)", okDir))
	body := c.NeedFunc(pkgMrjob, "syncFile")
	if body != nil {
		hasFsync := an.MayDo(body, func(in ssa.Instruction) bool {
			_, ok := an.IsPkgFuncCall(in, "syscall", "Fsync")
			return ok
		}, 0)
		c.Check("R1", "syncFile-fsyncs", body.Pos(), hasFsync, "syncFile must call fsync")
	}
	// failure paths: marker before journal
	for _, fn := range []*ssa.Function{fail, hs} {
		m := 0
		an.Instrs(fn, func(in ssa.Instruction) {
			if !journalOf(p, in) {
				return
			}
			m++
			ok, w := an.MustPass(fn, nil, func(x ssa.Instruction) bool { return x == in }, func(x ssa.Instruction) bool {
				return mayWriteFile(p, x, "Errors") || mayWriteFile(p, x, "Assert")
			})
			c.Check("R1", "error-file-before-journal@"+an.FnName(fn), in.Pos(), ok, "the _errors/_assert file must exist before mrp is told about it; "+c.WitnessString(w))
		})
		c.Floor("R1", "journal updates in "+an.FnName(fn), m, 1)
	}
	// done(): final jobinfo before its journal entry
	an.Instrs(done, func(in ssa.Instruction) {
		if !journalOf(p, in, "JobInfoFile") {
			return
		}
		ok, w := an.MustPass(done, nil, func(x ssa.Instruction) bool { return x == in }, func(x ssa.Instruction) bool { return writesFile(p, x, "JobInfoFile") })
		c.Check("R1", "jobinfo-before-journal@(*runner).done", in.Pos(), ok, "the final jobinfo must be written (atomically) before its journal entry; "+c.WitnessString(w))
		cl, _ := callNamed(func() ssa.Instruction {
			var w ssa.Instruction
			an.Instrs(done, func(x ssa.Instruction) {
				if writesFile(p, x, "JobInfoFile") {
					w = x
				}
			})
			return w
		}(), "WriteAtomic")
		c.Check("R1", "jobinfo-written-atomically@(*runner).done", in.Pos(), cl != nil, "the jobinfo rewrite must be atomic (mrp may read it at any time)")
	})
	// writeAtomic: temp + rename
	wa := c.P.Func(pkgCore, "writeAtomic")
	if wa != nil {
		hasRename := an.MayDo(wa, func(in ssa.Instruction) bool {
			if _, ok := an.IsPkgFuncCall(in, "os", "Rename"); ok {
				return true
			}
			if _, ok := an.IsPkgFuncCall(in, "os", "Link"); ok {
				return true
			}
			if cl := an.AsCall(in); cl != nil && cl.Common().StaticCallee() != nil {
				n := cl.Common().StaticCallee().Name()
				return n == "Linkat" || n == "Renameat" || n == "Rename"
			}
			return false
		}, 2)
		c.Check("R1", "writeAtomic-publishes-by-rename", wa.Pos(), hasRename, "writeAtomic must publish the new content with an atomic rename/link")
	} else {
		c.Undecided("R1", "writeAtomic", token.NoPos, "function not found")
	}
	// mrp side: _jobinfo recorded before the job is handed over (shared with C03 X1 mechanism B)
	runJob := c.NeedFunc(pkgCore, "(*Node).runJob")
	if runJob != nil {
		an.Instrs(runJob, func(in ssa.Instruction) {
			cl := an.AsCall(in)
			if cl == nil || !cl.Common().IsInvoke() || cl.Common().Method.Name() != "execJob" {
				return
			}
			write := func(x ssa.Instruction) bool { return writesFile(p, x, "JobInfoFile") }
			ok, w := an.MustPass(runJob, nil, func(x ssa.Instruction) bool { return x == in }, func(x ssa.Instruction) bool {
				if write(x) {
					return true
				}
				if call, isCall := x.(*ssa.Call); isCall {
					if f := call.Call.StaticCallee(); f != nil && (f.Parent() == runJob || isPrivateHelperOf(p, runJob, f)) {
						return closureWritesOrFails(f, write)
					}
				}
				return false
			})
			c.Check("R1", "jobinfo-before-execJob@(*Node).runJob", in.Pos(), ok, "the job must be recorded (_jobinfo) before it is handed to the job manager, so a crash in between is seen as queued, not as never started; "+c.WitnessString(w))
		})
	}
}

func ruleR2(c *an.Ctx) {
	p := c.P
	unchecked := c.NeedFunc(pkgCore, "(*Metadata).uncheckedReset")
	if unchecked == nil {
		return
	}
	allowed := []string{"(*Metadata).checkedReset", "(*Metadata).restartQueuedLocal", "(*Metadata).restartLocal"}
	got := effectiveCallers(p, unchecked, allowed)
	ok, extra := subset(got, allowed)
	c.Check("R2", "callers((*Metadata).uncheckedReset)", unchecked.Pos(), ok && len(got) > 0, fmt.Sprintf("allowed %v, found %v (unexpected %q)", allowed, got, extra))
	stateOf := func(v ssa.Value) bool {
		ex, ok := v.(*ssa.Extract)
		if !ok || ex.Index != 0 {
			return false
		}
		cl, ok := ex.Tuple.(*ssa.Call)
		return ok && cl.Call.StaticCallee() != nil && (cl.Call.StaticCallee().Name() == "_getStateNoLock" || cl.Call.StaticCallee().Name() == "getState")
	}
	stIs := func(name string) func(an.Rel) bool {
		return func(r an.Rel) bool { return relEq(r, stateOf, func(v ssa.Value) bool { return isState(p, v, name) }) }
	}
	for _, name := range allowed {
		fn := c.NeedFunc(pkgCore, name)
		if fn == nil {
			continue
		}
		// the reset may sit in a private helper of the allowed caller; a guard then holds either in the
		// helper or at every call of it
		fam := familyOf(p, fn, 2)
		var sites []ssa.CallInstruction
		for _, m := range fam {
			if m == unchecked {
				continue
			}
			sites = append(sites, callsTo(m, unchecked)...)
		}
		guarded := func(in ssa.Instruction, pred func(an.Rel) bool) bool { return guardedInFamily(p, fam, in, pred, 0) }
		for _, call := range sites {
			in := call.(ssa.Instruction)
			var g bool
			var want string
			switch name {
			case "(*Metadata).checkedReset":
				g = guarded(in, stIs("Failed"))
				want = "state == Failed"
			case "(*Metadata).restartQueuedLocal":
				g = guarded(in, func(r an.Rel) bool { return r.Op == token.ILLEGAL && r.Truth && existsCallOf(p, r.X, "QueuedLocally") })
				want = "exists(queued_locally)"
			case "(*Metadata).restartLocal":
				gq := guarded(in, stIs("Queued"))
				gr := guarded(in, stIs("Running"))
				gdead := guarded(in, func(r an.Rel) bool {
					if r.Op != token.NEQ || !an.IsNil(r.Y) {
						return false
					}
					cl, ok := r.X.(*ssa.Call)
					return ok && cl.Call.StaticCallee() != nil && cl.Call.StaticCallee().Name() == "Signal"
				})
				gnopid := guarded(in, noPidRecorded(p))
				// the two reasons may share one reset site: every path to it crosses one of the two edges
				isNoPid := noPidRecorded(p)
				geither := guarded(in, func(r an.Rel) bool {
					if isNoPid(r) {
						return true
					}
					if r.Op != token.NEQ || !an.IsNil(r.Y) {
						return false
					}
					cl, ok := r.X.(*ssa.Call)
					return ok && cl.Call.StaticCallee() != nil && cl.Call.StaticCallee().Name() == "Signal"
				})
				g = gq || (gr && gdead) || (gr && gnopid) || (gr && geither)
				want = "state == Queued, or state == Running and the recorded pid does not answer signal 0 (or no pid was recorded)"
			}
			c.Check("R2", "reset-guard@"+name, in.Pos(), g, "a metadata object may be reset only under "+want)
			// never for a complete object
			gc := guarded(in, stIs("Complete"))
			c.Check("R2", "never-reset-complete@"+name, in.Pos(), !gc, "completed work must not be reset")
		}
	}
	// node level
	nodeReset := c.NeedFunc(pkgCore, "(*Node).reset")
	nodeState := p.Field(pkgCore, "Node", "state")
	if nodeReset != nil && nodeState != nil {
		got := effectiveCallers(p, nodeReset, []string{"(*Pipestance).Reset", "(*Pipestance).RestartRunningNodes"})
		ok, extra := subset(got, []string{"(*Pipestance).Reset", "(*Pipestance).RestartRunningNodes"})
		c.Check("R2", "callers((*Node).reset)", nodeReset.Pos(), ok && len(got) > 0, fmt.Sprintf("found %v (unexpected %q)", got, extra))
		isNS := func(v ssa.Value) bool { return an.LoadsField(v, nodeState) }
		for caller, want := range map[string]string{"(*Pipestance).Reset": "Failed", "(*Pipestance).RestartRunningNodes": "Running"} {
			fn := c.NeedFunc(pkgCore, caller)
			if fn == nil {
				continue
			}
			for _, call := range callsTo(fn, nodeReset) {
				g, w := an.GuardedBy(call.(ssa.Instruction), func(r an.Rel) bool {
					return relEq(r, isNS, func(v ssa.Value) bool { return isState(p, v, want) })
				})
				c.Check("R2", "node-reset-guard("+want+")@"+caller, call.Pos(), g, "a node may be reset here only under node.state == "+want+"; "+c.WitnessString(w))
			}
		}
		// os.RemoveAll(self.path) only in Node.reset under FullStageReset
		for _, name := range []string{"(*Node).restartLocalJobs", "(*Node).restartLocallyQueuedJobs"} {
			fn := c.NeedFunc(pkgCore, name)
			if fn == nil {
				continue
			}
			got := effectiveCallers(p, fn, []string{"(*Pipestance).RestartLocalJobs"})
			ok, extra := subset(got, []string{"(*Pipestance).RestartLocalJobs"})
			c.Check("R2", "callers("+name+")", fn.Pos(), ok && len(got) > 0, fmt.Sprintf("found %v (unexpected %q)", got, extra))
		}
		rlj := c.NeedFunc(pkgCore, "(*Pipestance).RestartLocalJobs")
		if rlj != nil {
			for _, callee := range []string{"(*Node).restartLocalJobs", "(*Node).restartLocallyQueuedJobs"} {
				for _, call := range callsTo(rlj, c.P.Func(pkgCore, callee)) {
					g, w := an.GuardedBy(call.(ssa.Instruction), func(r an.Rel) bool {
						return relEq(r, isNS, func(v ssa.Value) bool { return isState(p, v, "Running") })
					})
					c.Check("R2", "restart-only-running-nodes("+callee+")@(*Pipestance).RestartLocalJobs", call.Pos(), g, "only nodes that were Running are examined for orphaned jobs; "+c.WitnessString(w))
				}
			}
		}
	}
	// Fork.resetPartial / restart* only via Node
	for fnName, allowedCallers := range map[string][]string{
		"(*Fork).resetPartial":             {"(*Node).reset"},
		"(*Fork).reset":                    {"(*Node).reset"},
		"(*Fork).restartLocalJobs":         {"(*Node).restartLocalJobs"},
		"(*Fork).restartLocallyQueuedJobs": {"(*Node).restartLocallyQueuedJobs", "(*Fork).reattachJobs"},
		"(*Metadata).checkedReset":         {"(*Fork).resetPartial"},
		"(*Metadata).restartLocal":         {"(*Fork).restartLocalJobs"},
		"(*Metadata).restartQueuedLocal":   {"(*Fork).restartLocallyQueuedJobs"},
	} {
		fn := c.NeedFunc(pkgCore, fnName)
		if fn == nil {
			continue
		}
		got := effectiveCallers(p, fn, allowedCallers)
		ok, extra := subset(got, allowedCallers)
		c.Check("R2", "callers("+fnName+")", fn.Pos(), ok && len(got) > 0, fmt.Sprintf("allowed %v, found %v (unexpected %q)", allowedCallers, got, extra))
	}
}

func ruleR3(c *an.Ctx) {
	p := c.P
	unchecked := c.NeedFunc(pkgCore, "(*Metadata).uncheckedReset")
	uniquify := c.NeedFunc(pkgCore, "(*Metadata).uniquify")
	uniq := p.Field(pkgCore, "Metadata", "uniquifier")
	cache := c.NeedFunc(pkgCore, "(*Metadata).cache")
	if unchecked == nil || uniquify == nil || uniq == nil || cache == nil {
		return
	}
	for _, call := range callsTo(unchecked, uniquify) {
		ok, w := an.MustPass(unchecked, nil, func(x ssa.Instruction) bool { return x == call.(ssa.Instruction) }, func(x ssa.Instruction) bool {
			st, isSt := x.(*ssa.Store)
			if !isSt {
				return false
			}
			_, f := an.FieldOfAddr(st.Addr)
			if f != uniq {
				return false
			}
			if an.IsStringConst(st.Val, "") {
				return true
			}
			_, isCall := an.Strip(st.Val).(*ssa.Call)
			return isCall
		})
		c.Check("R3", "fresh-uniquifier-on-reset@(*Metadata).uncheckedReset", call.Pos(), ok, "a reset attempt must get a new uniquifier (the field is cleared or regenerated before uniquify()), so a surviving old process cannot clobber the new attempt; "+c.WitnessString(w))
	}
	// the new uniquifier must be able to differ from the previous one even when the process id and the
	// clock reading are the same (a reset in the same second as the first attempt): the generator has
	// to know the previous value, compare with it, or draw on a source that changes between two calls
	// (a counter, random bits).  A pure function of (pid, time) gives the second attempt the first
	// one's directory and journal name: the stale attempt's notifications pass the cache() test.
	{
		gen := c.P.Func(pkgCore, "makeUniquifier")
		knows := ""
		loadsUniq := func(v ssa.Value) bool { return an.LoadsField(an.Strip(v), uniq) }
		for _, fn := range []*ssa.Function{unchecked, uniquify} {
			an.Instrs(fn, func(in ssa.Instruction) {
				switch x := in.(type) {
				case *ssa.Store:
					if _, f := an.FieldOfAddr(x.Addr); f != uniq {
						return
					}
					if cl, ok := an.Strip(x.Val).(*ssa.Call); ok && fn == unchecked {
						for _, a := range cl.Call.Args {
							if loadsUniq(a) {
								knows = "the regenerated value is computed from the previous one (" + an.FnName(fn) + ")"
							}
						}
					}
				case *ssa.BinOp:
					if (x.Op == token.EQL || x.Op == token.NEQ) && (loadsUniq(x.X) || loadsUniq(x.Y)) {
						other := x.X
						if loadsUniq(x.X) {
							other = x.Y
						}
						if cl, isCall := an.Strip(other).(*ssa.Call); isCall && gen != nil && cl.Call.StaticCallee() == gen {
							knows = "a generated value is compared with the current one (" + an.FnName(fn) + ")"
						}
					}
				}
			})
		}
		if gen != nil && knows == "" {
			an.Instrs(gen, func(in ssa.Instruction) {
				if cl := an.AsCallAny(in); cl != nil {
					if f := cl.Common().StaticCallee(); f != nil && f.Pkg != nil {
						switch f.Pkg.Pkg.Path() {
						case "sync/atomic", "math/rand", "math/rand/v2", "crypto/rand":
							knows = "the generator draws on " + f.Pkg.Pkg.Path()
						}
					}
				}
				if st, ok := in.(*ssa.Store); ok {
					if _, isG := st.Addr.(*ssa.Global); isG {
						knows = "the generator advances a package-level counter"
					}
				}
			})
		}
		detail := knows
		if knows == "" {
			detail = "the uniquifier of a reset attempt is generated without reference to the previous one, from values (process id, clock in seconds) that are the same when the reset happens within the second in which the first attempt was started: both attempts get the same directory and journal name, and a notification written by the stale attempt is accepted for the new one"
		}
		c.Check("R3", "new-uniquifier-can-differ-from-previous@(*Metadata).uncheckedReset", unchecked.Pos(), knows != "", detail)
	}
	// uniquify generates one when empty
	gen := c.P.Func(pkgCore, "makeUniquifier")
	if gen != nil {
		okGen := false
		for _, call := range callsTo(uniquify, gen) {
			g, _ := an.GuardedBy(call.(ssa.Instruction), func(r an.Rel) bool {
				return relEq(r, func(v ssa.Value) bool { return an.LoadsField(v, uniq) }, func(v ssa.Value) bool { return an.IsStringConst(v, "") })
			})
			okGen = g
		}
		c.Check("R3", "uniquify-generates-when-empty@(*Metadata).uniquify", uniquify.Pos(), okGen, "uniquify must generate a new uniquifier exactly when none is set")
	}
	// removeAll(true) precedes uniquify/mkdirs in uncheckedReset
	removeAll := c.P.Func(pkgCore, "(*Metadata).removeAll")
	if removeAll != nil {
		for _, call := range callsTo(unchecked, uniquify) {
			ok, _ := an.MustPass(unchecked, nil, func(x ssa.Instruction) bool { return x == call.(ssa.Instruction) }, func(x ssa.Instruction) bool { return an.CalleeIs(x, removeAll) })
			c.Check("R3", "old-attempt-removed-before-new@(*Metadata).uncheckedReset", call.Pos(), ok, "the old attempt's files are removed before the new directory is created")
		}
	}
	// stale journal entries are ignored (shared with C11 J3)
	contents := p.Field(pkgCore, "Metadata", "contents")
	cacheNoLock := c.P.Func(pkgCore, "(*Metadata)._cacheNoLock")
	n := 0
	an.Instrs(cache, func(in ssa.Instruction) {
		isIns := false
		if mu, ok := in.(*ssa.MapUpdate); ok && an.LoadsField(mu.Map, contents) {
			isIns = true
		}
		if an.CalleeIs(in, cacheNoLock) {
			isIns = true
		}
		if !isIns {
			return
		}
		n++
		g, w := an.GuardedBy(in, func(r an.Rel) bool {
			return relEq(r, func(v ssa.Value) bool { return an.LoadsField(v, uniq) }, func(v ssa.Value) bool { return v == ssa.Value(cache.Params[2]) })
		})
		c.Check("R3", "stale-attempt-ignored@(*Metadata).cache", in.Pos(), g, "a journal notification is applied only if its uniquifier equals the current attempt's; "+c.WitnessString(w))
	})
	c.Floor("R3", "insertions in Metadata.cache", n, 1)
}

func ruleR4(c *an.Ctx) {
	p := c.P
	// lock written after handler registration etc.: S4 of C15 (shared)
	ruleS4(c)
	setup := c.NeedFunc(pkgUtil, "SetupSignalHandlers")
	if setup == nil {
		return
	}
	// in the signal goroutine: every os.Exit is preceded by criticalSection.Lock() and by the handler loop + Wait
	n := 0
	for _, fn := range an.WithAnon(setup) {
		an.Instrs(fn, func(in ssa.Instruction) {
			if _, ok := an.IsPkgFuncCall(in, "os", "Exit"); !ok {
				return
			}
			n++
			okLock, w := an.MustPass(fn, nil, func(x ssa.Instruction) bool { return x == in }, func(x ssa.Instruction) bool {
				lp, acq, ok := an.LockOp(x)
				return ok && acq && strings.HasSuffix(lp, "criticalSection")
			})
			c.Check("R4", "exit-after-critical-sections-drained@"+an.FnName(fn), in.Pos(), okLock, "a handled signal may terminate the process only after acquiring the critical-section lock exclusively; "+c.WitnessString(w))
			okWait, w2 := an.MustPass(fn, nil, func(x ssa.Instruction) bool { return x == in }, func(x ssa.Instruction) bool {
				_, ok := an.IsMethodCall(x, "sync", "WaitGroup", "Wait")
				return ok
			})
			c.Check("R4", "exit-after-handlers-finished@"+an.FnName(fn), in.Pos(), okWait, "the process may exit only after every registered handler returned (WaitGroup.Wait); "+c.WitnessString(w2))
		})
	}
	c.Floor("R4", "os.Exit sites in the signal goroutine", n, 1)
	// every registered object is handled: the loop ranges over signalHandler.objects and invokes HandleSignal
	objects := p.Field(pkgUtil, "sigHandler", "objects")
	okLoop := false
	for _, fn := range an.WithAnon(setup) {
		an.Instrs(fn, func(in ssa.Instruction) {
			if r, ok := in.(*ssa.Range); ok && objects != nil && an.LoadsField(r.X, objects) {
				// per iteration: a goroutine / call that invokes HandleSignal
				for _, ref := range an.Referrers(r) {
					nx, ok := ref.(*ssa.Next)
					if !ok {
						continue
					}
					w := an.Query{Fn: fn, After: nx, Target: func(x ssa.Instruction) bool { return x == ssa.Instruction(nx) },
						Barrier: func(x ssa.Instruction) bool {
							cl, ok := x.(ssa.CallInstruction)
							if !ok {
								return false
							}
							if cl.Common().IsInvoke() && cl.Common().Method.Name() == "HandleSignal" {
								return true
							}
							if f := cl.Common().StaticCallee(); f != nil {
								return an.MayDo(f, func(y ssa.Instruction) bool {
									c2, ok := y.(ssa.CallInstruction)
									return ok && c2.Common().IsInvoke() && c2.Common().Method.Name() == "HandleSignal"
								}, 1)
							}
							return false
						},
						BarrierEdge: func(from, to *ssa.BasicBlock) bool {
							cnd, tr, ok := an.EdgeCond(from, to)
							if !ok {
								return false
							}
							ex, isEx := cnd.(*ssa.Extract)
							return isEx && ex.Tuple == ssa.Value(nx) && ex.Index == 0 && !tr
						}}.Find()
					if w == nil {
						okLoop = true
					}
				}
			}
		})
	}
	c.Check("R4", "every-registered-handler-runs@SetupSignalHandlers", setup.Pos(), okLoop, "on a handled signal HandleSignal must be invoked for every registered object")
}

func ruleR5(c *an.Ctx) {
	p := c.P
	enterPkgs := []string{pkgCore, pkgMrjob, pkgMrp, pkgUtil}
	isEnter := func(in ssa.Instruction) bool {
		_, ok := an.IsPkgFuncCall(in, utilPath, "EnterCriticalSection")
		if ok {
			_, isCall := in.(*ssa.Call)
			return isCall
		}
		return false
	}
	isExit := func(in ssa.Instruction) bool {
		_, ok := an.IsPkgFuncCall(in, utilPath, "ExitCriticalSection")
		return ok // call or defer
	}
	n := 0
	for _, pk := range enterPkgs {
		for _, fn := range p.FuncsOf(pk) {
			an.Instrs(fn, func(in ssa.Instruction) {
				if !isEnter(in) {
					return
				}
				n++
				// process-terminating calls end the obligation
				w := an.Query{Fn: fn, After: in, Target: an.IsExit, Barrier: func(x ssa.Instruction) bool {
					if isExit(x) {
						return true
					}
					if _, ok := an.IsPkgFuncCall(x, "os", "Exit"); ok {
						return true
					}
					return false
				}}.Find()
				c.Check("R5", "critical-section-balanced@"+an.QName(fn), in.Pos(), w == nil,
					"every EnterCriticalSection must be followed by ExitCriticalSection (deferred or explicit) on all paths; "+c.WitnessString(w))
			})
		}
	}
	c.Floor("R5", "EnterCriticalSection sites", n, 3)
	// no HandleSignal implementation may enter a critical section
	handler := p.Named(pkgUtil, "HandlerObject")
	var impls []*ssa.Function
	if handler != nil {
		iface := handler.Underlying().(*types.Interface)
		for _, pk := range p.Pkgs {
			scope := pk.Types.Scope()
			for _, name := range scope.Names() {
				tn, ok := scope.Lookup(name).(*types.TypeName)
				if !ok {
					continue
				}
				for _, T := range []types.Type{tn.Type(), types.NewPointer(tn.Type())} {
					if _, isIface := tn.Type().Underlying().(*types.Interface); isIface {
						continue
					}
					if types.Implements(T, iface) {
						ms := p.SSA.MethodSets.MethodSet(T)
						if sel := ms.Lookup(nil, "HandleSignal"); sel != nil {
							if f := p.SSA.MethodValue(sel); f != nil && f.Synthetic == "" {
								impls = append(impls, f)
							}
						}
					}
				}
			}
		}
	}
	seen := map[*ssa.Function]bool{}
	var names []string
	for _, f := range impls {
		if seen[f] {
			continue
		}
		seen[f] = true
		names = append(names, an.QName(f))
		enters := an.MayDo(f, func(in ssa.Instruction) bool { return isEnter(in) }, 6)
		c.Check("R5", "handler-never-enters-critical-section@"+an.QName(f), f.Pos(), !enters,
			"a HandleSignal implementation runs while the critical-section lock is held exclusively; entering a critical section would dead-lock the shutdown")
	}
	sort.Strings(names)
	c.Floor("R5", "HandleSignal implementations", len(seen), 5)
	c.Note("HandleSignal implementations: %s", strings.Join(names, ", "))
	// multi-file updates inside one critical section
	inCS := func(fnName, pkg string, what string, site func(ssa.Instruction) bool, min int) {
		root := c.NeedFunc(pkg, fnName)
		if root == nil {
			return
		}
		m := 0
		var hosts []*ssa.Function
		for _, m := range familyOf(p, root, 2) {
			hosts = append(hosts, an.WithAnon(m)...)
		}
		for _, fn := range hosts {
			an.Instrs(fn, func(in ssa.Instruction) {
				if !site(in) {
					return
				}
				m++
				ok, w := an.MustPass(fn, nil, func(x ssa.Instruction) bool { return x == in }, isEnter)
				c.Check("R5", "in-critical-section("+what+")@"+an.FnName(fn), in.Pos(), ok, what+" must happen inside a critical section; "+c.WitnessString(w))
			})
		}
		c.Floor("R5", what+" sites in "+fnName, m, min)
	}
	inCS("(*Node).runJob", pkgCore, "write of _queued_locally/_jobinfo", func(in ssa.Instruction) bool {
		return writesFile(p, in, "JobInfoFile") || writesFile(p, in, "QueuedLocally")
	}, 2)
	inCS("executeLocal", pkgCore, "process start + removal of _queued_locally", func(in ssa.Instruction) bool {
		if cl, ok := callNamed(in, "remove"); ok && len(cl.Common().Args) == 2 && an.IsConst(cl.Common().Args[1], p.Const(pkgCore, "QueuedLocally")) {
			return true
		}
		if _, ok := an.IsMethodCall(in, "os/exec", "Cmd", "Start"); ok {
			return true
		}
		return false
	}, 2)
	inCS("(*RemoteJobManager).sendJob", pkgCore, "submission + removal of _queued_locally", func(in ssa.Instruction) bool {
		if cl, ok := callNamed(in, "remove"); ok && len(cl.Common().Args) == 2 && an.IsConst(cl.Common().Args[1], p.Const(pkgCore, "QueuedLocally")) {
			return true
		}
		if _, ok := an.IsMethodCall(in, "os/exec", "Cmd", "CombinedOutput"); ok {
			return true
		}
		return false
	}, 2)
	inCS("(*runner).WaitLoop", pkgMrjob, "recording the job outcome", func(in ssa.Instruction) bool {
		return an.CalleeIs(in, p.Func(pkgMrjob, "(*runner).Fail"), p.Func(pkgMrjob, "(*runner).Complete"))
	}, 2)
}

// R6: the restart sequence (Reset, then RestartLocalJobs) selects nodes by the cached Node.state.
// A node that Reset has just re-initialised must therefore carry the state derived from what is now
// on disk; otherwise it is skipped and its orphaned jobs are never restarted (the resumed pipestance
// hangs).  Necessary condition, applied only while RestartLocalJobs reads the cached field: every
// successful return of (*Node).reset is preceded by an assignment of Node.state from getState().
func ruleR6(c *an.Ctx) {
	p := c.P
	stateF := p.Field(pkgCore, "Node", "state")
	restart := c.NeedFunc(pkgCore, "(*Pipestance).RestartLocalJobs")
	reset := c.NeedFunc(pkgCore, "(*Node).reset")
	getState := c.NeedFunc(pkgCore, "(*Node).getState")
	if stateF == nil || restart == nil || reset == nil || getState == nil {
		if stateF == nil {
			c.Undecided("R6", "anchor(Node.state)", token.NoPos, "field not found")
		}
		return
	}
	readsCached := false
	an.Instrs(restart, func(in ssa.Instruction) {
		if fa, ok := in.(*ssa.FieldAddr); ok {
			if _, f := an.FieldOfAddr(fa); f == stateF {
				readsCached = true
			}
		}
	})
	if !readsCached {
		c.Pass("R6", "state-fresh-after-reset@(*Node).reset", reset.Pos(), "RestartLocalJobs does not read the cached Node.state: nothing to require")
		return
	}
	md := &an.MustDo{Pred: func(in ssa.Instruction) bool {
		st, ok := in.(*ssa.Store)
		if !ok {
			return false
		}
		if _, f := an.FieldOfAddr(st.Addr); f != stateF {
			return false
		}
		call, ok := st.Val.(*ssa.Call)
		return ok && call.Call.StaticCallee() == getState
	}, Depth: 2}
	w := an.Query{Fn: reset,
		Target: func(x ssa.Instruction) bool {
			r, ok := x.(*ssa.Return)
			if !ok || len(r.Results) != 1 {
				return false
			}
			// a nil error, or the verdict of a helper of the package that can be nil
			// (`return self.resetPartial()`, round 9)
			if an.IsNil(an.RetVal(r, 0)) {
				return true
			}
			v := an.RetVal(r, 0)
			if !mayBeNilResultOfHelper(v) {
				return false
			}
			nonNil, _ := an.GuardedBy(r, func(rel an.Rel) bool {
				return rel.Op == token.NEQ && (rel.X == v && an.IsNil(rel.Y) || rel.Y == v && an.IsNil(rel.X))
			})
			return !nonNil
		},
		Barrier: func(x ssa.Instruction) bool { return md.Instr(x, 0) }}.Find()
	c.Check("R6", "state-fresh-after-reset@(*Node).reset", reset.Pos(), w == nil,
		"RestartLocalJobs picks nodes by the cached Node.state; a successful (*Node).reset must re-derive it (Node.state = getState(), directly or through loadMetadata) or the just-reset node keeps its stale Failed state and its orphaned jobs are never restarted; "+c.WitnessString(w))
}

// R7: the dual of R2 - unfinished work found at restart IS reset.  R2 says a reset happens only
// under its condition; a restart that does not reset a job which can never finish leaves the
// pipestance waiting forever.  In each of the three restart entry points, once its condition holds
// on an edge, every path to the entry point's return passes Metadata.uncheckedReset:
//
//	checkedReset:       state == Failed
//	restartQueuedLocal: exists(queued_locally)
//	restartLocal:       state == Queued;  Signal(0) on the recorded pid returned an error
//
// (mustAfterEdge: conditions in predicate helpers are expanded, verdict-returning helpers followed).
func ruleR7(c *an.Ctx) {
	p := c.P
	unchecked := c.NeedFunc(pkgCore, "(*Metadata).uncheckedReset")
	if unchecked == nil {
		return
	}
	stateOf := func(v ssa.Value) bool {
		ex, ok := v.(*ssa.Extract)
		if !ok || ex.Index != 0 {
			return false
		}
		cl, ok := ex.Tuple.(*ssa.Call)
		return ok && cl.Call.StaticCallee() != nil && (cl.Call.StaticCallee().Name() == "_getStateNoLock" || cl.Call.StaticCallee().Name() == "getState")
	}
	stIs := func(name string) func(an.Rel) bool {
		return func(r an.Rel) bool { return relEq(r, stateOf, func(v ssa.Value) bool { return isState(p, v, name) }) }
	}
	resets := func(in ssa.Instruction) bool { return an.CalleeIs(in, unchecked) }
	type inst struct {
		fn, what string
		cond     func(an.Rel) bool
		shared   bool
	}
	for _, it := range []inst{
		{"(*Metadata).checkedReset", "state == Failed", stIs("Failed"), false},
		{"(*Metadata).restartQueuedLocal", "exists(queued_locally)", func(r an.Rel) bool {
			return r.Op == token.ILLEGAL && r.Truth && existsCallOf(p, r.X, "QueuedLocally")
		}, false},
		{"(*Metadata).restartLocal", "state == Queued", stIs("Queued"), false},
		{"(*Metadata).restartLocal", "pid does not answer signal 0", func(r an.Rel) bool {
			if r.Op != token.NEQ || !an.IsNil(r.Y) {
				return false
			}
			cl, ok := r.X.(*ssa.Call)
			return ok && cl.Call.StaticCallee() != nil && cl.Call.StaticCallee().Name() == "Signal"
		}, false},
		// the job monitor creates _log (state Running) before it records its pid in _jobinfo: a job
		// killed in between has state Running and pid 0 - there is no process to probe and nothing
		// will ever finish it
		{"(*Metadata).restartLocal", "state Running, jobinfo readable, no pid recorded", noPidRecorded(p), true},
	} {
		fn := c.NeedFunc(pkgCore, it.fn)
		if fn == nil {
			continue
		}
		n, pos, why := mustAfterEdge(p, fn, it.cond, resets)
		if it.shared {
			n, pos, why = mustAfterEdgeShared(p, fn, it.cond, resets)
		}
		key := "reset-follows(" + it.what + ")@" + it.fn
		if n == 0 {
			c.Info("R7", key, fn.Pos(), "no edge with this condition found in the entry point or its private helpers; not decided")
			continue
		}
		if pos == token.NoPos {
			pos = fn.Pos()
		}
		c.Check("R7", key, pos, why == "", "once "+it.what+" holds, every path to the entry point's return must reset the metadata object (the job can never finish otherwise and the restarted pipestance waits forever): "+why)
	}
}

// ruleR7Assume: whatever way restartLocal tests the state, a Queued job is reset.  R7's edge-based
// instances say nothing when the edge they look for no longer exists (`if state != Running { return }`
// has no `state == Queued` edge at all); here the state value is assumed to be Queued and every
// conditional edge that contradicts the assumption is pruned.
func ruleR7Assume(c *an.Ctx) {
	p := c.P
	fn := c.NeedFunc(pkgCore, "(*Metadata).restartLocal")
	unchecked := c.NeedFunc(pkgCore, "(*Metadata).uncheckedReset")
	queued := p.Const(pkgCore, "Queued")
	if fn == nil || unchecked == nil || queued == nil {
		return
	}
	resets := func(in ssa.Instruction) bool { return an.CalleeIs(in, unchecked) }
	n := 0
	for _, m := range familyOf(p, fn, 2) {
		an.Instrs(m, func(in ssa.Instruction) {
			cl, ok := in.(*ssa.Call)
			if !ok || cl.Call.StaticCallee() == nil || (cl.Call.StaticCallee().Name() != "getState" && cl.Call.StaticCallee().Name() != "_getStateNoLock") {
				return
			}
			var st, okv ssa.Value
			var last ssa.Instruction = cl
			for _, r := range an.Referrers(cl) {
				if ex, isEx := r.(*ssa.Extract); isEx {
					if ex.Index == 0 {
						st = ex
					} else {
						okv = ex
					}
					if ex.Block() == cl.Block() {
						last = ex
					}
				}
			}
			if st == nil {
				return
			}
			// start after the later of the extracts in the call's block
			for _, x := range cl.Block().Instrs {
				if ex, isEx := x.(*ssa.Extract); isEx && ex.Tuple == ssa.Value(cl) {
					last = ex
				}
			}
			n++
			facts := []an.Rel{{Op: token.EQL, X: st, Y: ssa.NewConst(queued.Val(), queued.Type())}}
			if okv != nil {
				facts = append(facts, an.Rel{Op: token.ILLEGAL, X: okv, Truth: true})
			}
			why := mustAssuming(p, fn, last, facts, resets)
			c.Check("R7", "reset-follows(assuming state == Queued)@(*Metadata).restartLocal", cl.Pos(), why == "",
				"a job that was handed to the local job manager but whose process never wrote its log is Queued; after a restart no process exists for it, so every path through restartLocal on which the state is Queued must reset it (otherwise the restarted pipestance waits forever): "+why)
		})
	}
	c.Floor("R7", "state reads in restartLocal", n, 1)
}

// noPidRecorded: the relation JobInfo.Pid == 0.
func noPidRecorded(p *an.Prog) func(an.Rel) bool {
	pid := p.Field(pkgCore, "JobInfo", "Pid")
	return func(r an.Rel) bool {
		if r.Op != token.EQL || pid == nil {
			return false
		}
		isPid := func(v ssa.Value) bool { _, f := an.FieldLoad(an.Strip(v)); return f == pid }
		return (isPid(r.X) && an.IsIntConst(r.Y, 0)) || (isPid(r.Y) && an.IsIntConst(r.X, 0))
	}
}

// R6b: node states are derived after ALL metadata has been loaded.  Node.getState() looks at the
// states of the node's prenodes, which are derived from their metadata caches.  When mrp re-attaches,
// Pipestance.LoadMetadata fills those caches node by node (in alphabetical, not dependency, order);
// a state computed inside that loop sees prenodes whose caches are still empty and comes out
// Waiting instead of Running, so RestartRunningNodes / RestartLocalJobs - which select nodes by the
// cached state - skip the node and its dead job is never reset (the restarted pipestance hangs).
// Rule: LoadMetadata stores Node.state from getState() in a loop that is entered only after the
// loop calling Node.loadMetadata has finished.
func ruleR6b(c *an.Ctx) {
	p := c.P
	lm := c.NeedFunc(pkgCore, "(*Pipestance).LoadMetadata")
	nodeLoad := c.NeedFunc(pkgCore, "(*Node).loadMetadata")
	getState := c.NeedFunc(pkgCore, "(*Node).getState")
	stateF := p.Field(pkgCore, "Node", "state")
	if lm == nil || nodeLoad == nil || getState == nil || stateF == nil {
		return
	}
	loops := naturalLoops(lm)
	var loadHeads []*ssa.BasicBlock
	loadBody := map[*ssa.BasicBlock]bool{}
	for hd, body := range loops {
		has := false
		for b := range body {
			for _, in := range b.Instrs {
				if an.CalleeIs(in, nodeLoad) {
					has = true
				}
				if g, ok := in.(*ssa.Go); ok && g.Call.StaticCallee() == nodeLoad {
					has = true
				}
			}
		}
		if has {
			loadHeads = append(loadHeads, hd)
			for b := range body {
				loadBody[b] = true
			}
		}
	}
	if len(loadHeads) == 0 {
		c.Info("R6", "states-derived-after-all-metadata-loaded@(*Pipestance).LoadMetadata", lm.Pos(), "no loop calling Node.loadMetadata found: not decided")
		return
	}
	after := false
	for _, st := range an.StoresToField(lm, stateF) {
		if st.Parent() != lm {
			continue
		}
		cl, ok := an.Strip(st.Val).(*ssa.Call)
		if !ok || cl.Call.StaticCallee() != getState {
			continue
		}
		if loadBody[st.Block()] {
			continue
		}
		for _, hd := range loadHeads {
			if hd.Dominates(st.Block()) {
				after = true
			}
		}
	}
	c.Check("R6", "states-derived-after-all-metadata-loaded@(*Pipestance).LoadMetadata", lm.Pos(), after,
		"Pipestance.LoadMetadata has no pass that re-derives Node.state from getState() after the loop that loads every node's metadata: a state computed while later nodes' caches are still empty is Waiting instead of Running for a node whose upstream sorts after it, and the restart logic (which selects nodes by this cached state) never resets its dead job")
}

// R9: the metadata archive appears under its final name only when it is complete.  With --zip mrp
// replaces a finished pipestance's metadata files by _metadata.zip; on re-attach the presence of
// that file makes mrp unzip it first.  A zip archive is unreadable until its central directory is
// written at the very end, so an archive streamed directly into its final name and interrupted
// (SIGKILL while zipping) makes every later re-attach fail with "zip: not a valid zip file".
// Rule: in util.CreateZip every path to a return that may carry a nil error passes an os.Rename
// whose destination is the zip path parameter (write to a temporary name, rename when complete).
func ruleR9(c *an.Ctx) {
	ruleRenamedWhenComplete(c, "R9", "CreateZip", "archive-renamed-into-place-when-complete@CreateZip",
		"CreateZip can return success without having renamed a completed temporary file to the archive's final name: the archive is written in place, and a kill while it is being written leaves an invalid _metadata.zip that makes every re-attach fail; ")
	// R11 (round 7): the same for every metadata file that a re-attach extracts from the archive:
	// unzip skips names that already exist ("ignore existing"), so a name must only ever appear
	// with its complete content - a kill between creating the file and writing it left an empty
	// _outs that the next restart kept, and the archive was then deleted.
	ruleRenamedWhenComplete(c, "R11", "unzipFile", "extracted-file-renamed-into-place-when-complete@unzipFile",
		"unzipFile can return success without having renamed a completed temporary file to the entry's final name: the file is created under its final name and filled afterwards; mrp killed in between leaves an empty metadata file which the next re-attach takes for already extracted (existing names are skipped) before it deletes the archive; ")
}

func ruleRenamedWhenComplete(c *an.Ctx, rule, fname, key, detail string) {
	fn := c.P.Func(pkgUtil, fname)
	if fn == nil || len(fn.Params) == 0 {
		c.Info(rule, "anchor(util."+fname+")", 0, "not found: not decided")
		return
	}
	dest := ssa.Value(fn.Params[0])
	isRename := func(in ssa.Instruction) bool {
		cl, ok := an.IsPkgFuncCall(in, "os", "Rename")
		if !ok {
			return false
		}
		a := cl.Common().Args[1]
		return a == dest || an.Path(a) == an.Path(dest)
	}
	w := an.Query{Fn: fn, Barrier: isRename,
		Target: func(in ssa.Instruction) bool {
			ret, ok := in.(*ssa.Return)
			if !ok || len(ret.Results) == 0 {
				return false
			}
			v := an.RetVal(ret, 0)
			if an.IsNil(v) {
				return true
			}
			// `return err` under err != nil is a failing return
			same := func(x ssa.Value) bool { return x == v || an.Path(x) == an.Path(v) } // a named result is re-loaded from its cell
			g, _ := an.GuardedBy(ret, func(r an.Rel) bool {
				return r.Op == token.NEQ && ((same(r.X) && an.IsNil(r.Y)) || (same(r.Y) && an.IsNil(r.X)))
			})
			if g {
				return false
			}
			// the result of the final rename itself
			if cl, ok := v.(*ssa.Call); ok && isRename(cl) {
				return false
			}
			// a freshly built error value (&os.PathError{...}) is a failing return
			if mi, ok := v.(*ssa.MakeInterface); ok {
				if _, isAlloc := mi.X.(*ssa.Alloc); isAlloc {
					return false
				}
			}
			return true
		}}.Find()
	c.Check(rule, key, fn.Pos(), w == nil, detail+c.WitnessString(w))
}

// R3b: a full stage reset starts the new attempt under a new uniquifier.  Under FullStageReset
// Node.reset wipes the stage directory and calls Fork.reset; uniquify() only mints a uniquifier when
// the field is empty, and after a re-attach the field holds the failed attempt's value (read back
// from the symlink).  If Fork.reset leaves it, the new split and join run in the old directory
// under the old journal name and a late notification of the stale attempt is accepted as theirs.
// Rule: Fork.reset (or a private helper) stores into Metadata.uniquifier.
func ruleR3b(c *an.Ctx) {
	p := c.P
	fr := c.NeedFunc(pkgCore, "(*Fork).reset")
	uniq := p.Field(pkgCore, "Metadata", "uniquifier")
	if fr == nil || uniq == nil {
		return
	}
	n := 0
	for _, m := range familyOf(p, fr, 2) {
		n += len(an.StoresToField(m, uniq))
	}
	c.Check("R3", "full-reset-renews-uniquifiers@(*Fork).reset", fr.Pos(), n > 0,
		"Fork.reset, which re-creates the split and join metadata of a stage under full stage reset, never assigns Metadata.uniquifier: the new attempt keeps the directory and journal name of the failed one, and a late notification from the stale attempt (split_complete, join_complete) is taken for the new attempt's")
}

// mayBeNilResultOfHelper: v is the (last) result of a call of a function of the program one of
// whose returns hands back a nil constant in that position.
func mayBeNilResultOfHelper(v ssa.Value) bool {
	var call *ssa.Call
	idx := -1
	switch x := v.(type) {
	case *ssa.Call:
		call = x
	case *ssa.Extract:
		call, _ = x.Tuple.(*ssa.Call)
		idx = x.Index
	}
	if call == nil {
		return false
	}
	h := call.Call.StaticCallee()
	if h == nil || h.Blocks == nil {
		return false
	}
	found := false
	an.Instrs(h, func(in ssa.Instruction) {
		r, ok := in.(*ssa.Return)
		if !ok || len(r.Results) == 0 {
			return
		}
		i := idx
		if i < 0 {
			i = len(r.Results) - 1
		}
		if i < len(r.Results) && an.IsNil(an.RetVal(r, i)) {
			found = true
		}
	})
	return found
}
