package props

import (
	"fmt"
	"go/constant"
	"go/token"

	"mrocheck/an"

	"golang.org/x/tools/go/ssa"
)

// ---------------------------------------------------------------------------
// "Once the condition held, the action follows" across helper boundaries.
//
// mustAfterEdge: in root's family, every conditional edge on which cond holds is followed - on every
// path to a return of root - by an instruction satisfying must (directly or in a callee all of
// whose paths do).  When the edge lies in a helper that reports its verdict as a result
// (`func (m *Metadata) orphaned() string`), the helper's returns that are reached without the
// action are followed into the callers: the returned constants are assumed for the call's value
// and branches that compare it with a constant are pruned accordingly.
// ---------------------------------------------------------------------------

type mustAfter struct {
	p     *an.Prog
	root  *ssa.Function
	fam   []*ssa.Function
	must  *an.MustDo
	depth int
}

// escapes: the returns of fn reachable from (b, idx) without the action, under the assumed values.
func (m *mustAfter) escapes(fn *ssa.Function, b *ssa.BasicBlock, idx int, assume map[ssa.Value]constant.Value) []*ssa.Return {
	return m.escapesF(fn, b, idx, assume, nil)
}

// knownFacts: relations that hold whenever control is at the head of block s having arrived over
// the edge from->s: the edge's own relation and those of the edges on the dominator chain of
// `from` (an SSA value does not change, so a relation between two SSA values that held stays
// true as long as the values are not re-defined, i.e. as long as their blocks are not re-entered;
// facts whose operands are defined in a block reachable from s are dropped).
func knownFacts(from, s *ssa.BasicBlock) []an.Rel {
	var facts []an.Rel
	add := func(a, b *ssa.BasicBlock) {
		if cnd, t, ok := an.EdgeCond(a, b); ok {
			facts = append(facts, an.Normalize(cnd, t))
		}
	}
	add(from, s)
	for x := from; x != nil; x = x.Idom() {
		if len(x.Preds) == 1 {
			add(x.Preds[0], x)
		}
	}
	// blocks reachable from s
	reach := map[*ssa.BasicBlock]bool{}
	work := []*ssa.BasicBlock{s}
	for len(work) > 0 {
		x := work[len(work)-1]
		work = work[:len(work)-1]
		if reach[x] {
			continue
		}
		reach[x] = true
		work = append(work, x.Succs...)
	}
	defBlock := func(v ssa.Value) *ssa.BasicBlock {
		if in, ok := v.(ssa.Instruction); ok {
			return in.Block()
		}
		return nil
	}
	var out []an.Rel
	for _, f := range facts {
		stable := true
		for _, v := range []ssa.Value{f.X, f.Y} {
			if v == nil {
				continue
			}
			// a load is only as stable as the memory it reads: handled separately (sameOperand)
			if db := defBlock(v); db != nil && reach[db] && db != from {
				stable = false
			}
		}
		if stable {
			out = append(out, f)
		}
	}
	return out
}

// sameOperand: identical SSA value, equal constants, or two loads of the same access path.
func sameOperand(a, b ssa.Value, loadsOK bool) bool {
	if a == b {
		return true
	}
	if a == nil || b == nil {
		return false
	}
	if ca, ok := an.ConstVal(a); ok {
		if cb, ok := an.ConstVal(b); ok {
			return ca.Kind() == cb.Kind() && constant.Compare(ca, token.EQL, cb)
		}
		return false
	}
	if an.IsNil(a) && an.IsNil(b) {
		return true
	}
	if !loadsOK {
		return false
	}
	ua, ok1 := a.(*ssa.UnOp)
	ub, ok2 := b.(*ssa.UnOp)
	if ok1 && ok2 && ua.Op == token.MUL && ub.Op == token.MUL {
		pa, pb := an.Path(ua.X), an.Path(ub.X)
		return pa != "" && pa == pb
	}
	return false
}

// contradicts: r cannot hold given fact f.
func contradicts(f, r an.Rel, loadsOK bool) bool {
	if f.Op == token.ILLEGAL || r.Op == token.ILLEGAL {
		return f.Op == token.ILLEGAL && r.Op == token.ILLEGAL && f.X == r.X && f.Truth != r.Truth
	}
	// X == c1 rules out X == c2 for a different constant (and is compatible with X != c2)
	if f.Op == token.EQL && sameOperand(f.X, r.X, loadsOK) {
		if c1, ok1 := an.ConstVal(f.Y); ok1 {
			if c2, ok2 := an.ConstVal(r.Y); ok2 && c1.Kind() == c2.Kind() && !constant.Compare(c1, token.EQL, c2) {
				return r.Op == token.EQL
			}
		}
	}
	same := sameOperand(f.X, r.X, loadsOK) && sameOperand(f.Y, r.Y, loadsOK)
	if !same {
		return false
	}
	switch {
	case f.Op == token.EQL && r.Op == token.NEQ, f.Op == token.NEQ && r.Op == token.EQL:
		return true
	case f.Op == token.EQL && (r.Op == token.LSS || r.Op == token.GTR):
		return true
	}
	return false
}

// escapesF is escapes with known facts: an edge whose relation contradicts a fact is not taken.
// Facts about loads are used only in blocks that cannot be reached from the start over a call or a
// store (memory unchanged since the fact was established).
func (m *mustAfter) escapesF(fn *ssa.Function, b *ssa.BasicBlock, idx int, assume map[ssa.Value]constant.Value, facts []an.Rel) []*ssa.Return {
	type st struct {
		b   *ssa.BasicBlock
		idx int
	}
	// blocks reachable only through call/store-free code
	impure := map[*ssa.BasicBlock]bool{}
	if len(facts) > 0 {
		dirty := func(x *ssa.BasicBlock, from int) bool {
			for i := from; i < len(x.Instrs); i++ {
				switch x.Instrs[i].(type) {
				case *ssa.Call, *ssa.Store, *ssa.Go, *ssa.Defer, *ssa.MapUpdate, *ssa.Send:
					return true
				}
			}
			return false
		}
		var mark func(x *ssa.BasicBlock)
		mark = func(x *ssa.BasicBlock) {
			if impure[x] {
				return
			}
			impure[x] = true
			for _, y := range x.Succs {
				mark(y)
			}
		}
		seenP := map[*ssa.BasicBlock]bool{}
		var walk func(x *ssa.BasicBlock, from int)
		walk = func(x *ssa.BasicBlock, from int) {
			if dirty(x, from) {
				for _, y := range x.Succs {
					mark(y)
				}
				return
			}
			for _, y := range x.Succs {
				if !seenP[y] {
					seenP[y] = true
					walk(y, 0)
				}
			}
		}
		walk(b, idx)
	}
	seen := map[*ssa.BasicBlock]bool{}
	work := []st{{b, idx}}
	var out []*ssa.Return
	for len(work) > 0 {
		cur := work[len(work)-1]
		work = work[:len(work)-1]
		stopped := false
		for i := cur.idx; i < len(cur.b.Instrs); i++ {
			in := cur.b.Instrs[i]
			if m.must.Instr(in, 0) {
				stopped = true
				break
			}
			if r, ok := in.(*ssa.Return); ok {
				out = append(out, r)
			}
		}
		if stopped {
			continue
		}
		for _, s := range cur.b.Succs {
			if cnd, t, ok := an.EdgeCond(cur.b, s); ok && len(facts) > 0 {
				r := an.Normalize(cnd, t)
				pruned := false
				for _, f := range facts {
					if contradicts(f, r, !impure[cur.b]) {
						pruned = true
					}
				}
				if pruned {
					continue
				}
			}
			if cnd, t, ok := an.EdgeCond(cur.b, s); ok && len(assume) > 0 {
				r := an.Normalize(cnd, t)
				if (r.Op == token.EQL || r.Op == token.NEQ) && r.Y != nil {
					if xv, okx := assume[an.Strip(r.X)]; okx {
						if yv, oky := an.ConstVal(r.Y); oky && xv.Kind() == yv.Kind() && (xv.Kind() == constant.String || xv.Kind() == constant.Int || xv.Kind() == constant.Bool) {
							if !constant.Compare(xv, r.Op, yv) {
								continue
							}
						}
					}
				}
				if r.Op == token.ILLEGAL {
					if xv, okx := assume[an.Strip(r.X)]; okx && xv.Kind() == constant.Bool && constant.BoolVal(xv) != r.Truth {
						continue
					}
				}
			}
			if !seen[s] {
				seen[s] = true
				work = append(work, st{s, 0})
			}
		}
	}
	return out
}

// follow: a return of helper fn was reached without the action; does some caller path reach a
// return of root without it?  Returns a description of the escaping path or "".
func (m *mustAfter) follow(fn *ssa.Function, rets []*ssa.Return, d int) string {
	if len(rets) == 0 {
		return ""
	}
	if fn == m.root {
		return fmt.Sprintf("%s returns at line %d without it", an.FnName(fn), m.p.Fset.Position(rets[0].Pos()).Line)
	}
	if d > m.depth {
		return "helper chain too deep after " + an.FnName(fn)
	}
	nCalls := 0
	for _, g := range m.fam {
		for _, call := range callsTo(g, fn) {
			nCalls++
			cv := call.Value()
			in := call.(ssa.Instruction)
			blk := in.Block()
			idx := 0
			for i, x := range blk.Instrs {
				if x == in {
					idx = i + 1
				}
			}
			for _, r := range rets {
				assume := map[ssa.Value]constant.Value{}
				if cv != nil {
					if len(r.Results) == 1 {
						if k, ok := an.ConstVal(an.RetVal(r, 0)); ok {
							assume[cv] = k
						}
					} else {
						for _, ref := range an.Referrers(cv) {
							if ex, ok := ref.(*ssa.Extract); ok && ex.Index < len(r.Results) {
								if k, ok := an.ConstVal(an.RetVal(r, ex.Index)); ok {
									assume[ex] = k
								}
							}
						}
					}
				}
				host := call.Parent()
				esc := m.escapes(host, blk, idx, assume)
				top := host
				for top.Parent() != nil {
					top = top.Parent()
				}
				if w := m.follow(top, esc, d+1); w != "" {
					return fmt.Sprintf("%s returns at line %d without it; then %s", an.FnName(fn), m.p.Fset.Position(r.Pos()).Line, w)
				}
			}
		}
	}
	if nCalls == 0 {
		return "no call of " + an.FnName(fn) + " in the family"
	}
	return ""
}

// mustAfterEdge returns the number of edges on which cond held and, for the first failing one, why.
func mustAfterEdge(p *an.Prog, root *ssa.Function, cond func(an.Rel) bool, must func(ssa.Instruction) bool) (n int, pos token.Pos, why string) {
	m := &mustAfter{p: p, root: root, fam: familyOf(p, root, 3), must: &an.MustDo{Pred: must, Depth: 3}, depth: 3}
	for _, fn := range m.fam {
		for _, b := range fn.Blocks {
			for _, s := range b.Succs {
				if !an.EdgeHolds(b, s, cond) || len(s.Preds) != 1 {
					// a successor shared with other predecessors also carries paths on which the
					// condition did not hold: not examined
					continue
				}
				n++
				esc := m.escapes(fn, s, 0, nil)
				if w := m.follow(fn, esc, 0); w != "" && why == "" {
					why = w
					pos = b.Instrs[len(b.Instrs)-1].Pos()
					for k := len(b.Instrs) - 1; k >= 0 && pos == token.NoPos; k-- {
						pos = b.Instrs[k].Pos()
					}
				}
			}
		}
	}
	return
}

// mustAfterEdgeShared is mustAfterEdge for edges whose successor is shared with other
// predecessors (`if a && b {…} else if …`: the else block is entered from both tests).  The search
// starts at the successor knowing what held on the edge and on the dominator chain of its source
// (knownFacts), so that the re-tests of the same values in the else-if chain are decided.
func mustAfterEdgeShared(p *an.Prog, root *ssa.Function, cond func(an.Rel) bool, must func(ssa.Instruction) bool) (n int, pos token.Pos, why string) {
	m := &mustAfter{p: p, root: root, fam: familyOf(p, root, 3), must: &an.MustDo{Pred: must, Depth: 3}, depth: 3}
	for _, fn := range m.fam {
		for _, b := range fn.Blocks {
			for _, s := range b.Succs {
				if !an.EdgeHolds(b, s, cond) {
					continue
				}
				n++
				esc := m.escapesF(fn, s, 0, nil, knownFacts(b, s))
				if w := m.follow(fn, esc, 0); w != "" && why == "" {
					why = w
					pos = b.Instrs[len(b.Instrs)-1].Pos()
					for k := len(b.Instrs) - 1; k >= 0 && pos == token.NoPos; k-- {
						pos = b.Instrs[k].Pos()
					}
				}
			}
		}
	}
	return
}

// mustAssuming: starting just after instruction `after` of fn and assuming the given facts, every
// path to a return of root passes must.  Returns "" or the escaping path.
func mustAssuming(p *an.Prog, root *ssa.Function, after ssa.Instruction, facts []an.Rel, must func(ssa.Instruction) bool) string {
	m := &mustAfter{p: p, root: root, fam: familyOf(p, root, 3), must: &an.MustDo{Pred: must, Depth: 3}, depth: 3}
	fn := after.Parent()
	b := after.Block()
	idx := 0
	for i, x := range b.Instrs {
		if x == after {
			idx = i + 1
		}
	}
	esc := m.escapesF(fn, b, idx, nil, facts)
	top := fn
	for top.Parent() != nil {
		top = top.Parent()
	}
	return m.follow(top, esc, 0)
}
