package props

import (
	"fmt"
	"go/constant"
	"go/token"

	"mrocheck/an"

	"golang.org/x/tools/go/ssa"
)

// ---------------------------------------------------------------------------
// "Once the condition held, the action follows" across helper boundaries.
//
// mustAfterEdge: in root's family, every conditional edge on which cond holds is followed - on every
// path to a return of root - by an instruction satisfying must (directly or in a callee all of
// whose paths do).  When the edge lies in a helper that reports its verdict as a result
// (`func (m *Metadata) orphaned() string`), the helper's returns that are reached without the
// action are followed into the callers: the returned constants are assumed for the call's value
// and branches that compare it with a constant are pruned accordingly.
// ---------------------------------------------------------------------------

type mustAfter struct {
	p     *an.Prog
	root  *ssa.Function
	fam   []*ssa.Function
	must  *an.MustDo
	depth int
}

// escapes: the returns of fn reachable from (b, idx) without the action, under the assumed values.
func (m *mustAfter) escapes(fn *ssa.Function, b *ssa.BasicBlock, idx int, assume map[ssa.Value]constant.Value) []*ssa.Return {
	type st struct {
		b   *ssa.BasicBlock
		idx int
	}
	seen := map[*ssa.BasicBlock]bool{}
	work := []st{{b, idx}}
	var out []*ssa.Return
	for len(work) > 0 {
		cur := work[len(work)-1]
		work = work[:len(work)-1]
		stopped := false
		for i := cur.idx; i < len(cur.b.Instrs); i++ {
			in := cur.b.Instrs[i]
			if m.must.Instr(in, 0) {
				stopped = true
				break
			}
			if r, ok := in.(*ssa.Return); ok {
				out = append(out, r)
			}
		}
		if stopped {
			continue
		}
		for _, s := range cur.b.Succs {
			if cnd, t, ok := an.EdgeCond(cur.b, s); ok && len(assume) > 0 {
				r := an.Normalize(cnd, t)
				if (r.Op == token.EQL || r.Op == token.NEQ) && r.Y != nil {
					if xv, okx := assume[an.Strip(r.X)]; okx {
						if yv, oky := an.ConstVal(r.Y); oky && xv.Kind() == yv.Kind() && (xv.Kind() == constant.String || xv.Kind() == constant.Int || xv.Kind() == constant.Bool) {
							if !constant.Compare(xv, r.Op, yv) {
								continue
							}
						}
					}
				}
				if r.Op == token.ILLEGAL {
					if xv, okx := assume[an.Strip(r.X)]; okx && xv.Kind() == constant.Bool && constant.BoolVal(xv) != r.Truth {
						continue
					}
				}
			}
			if !seen[s] {
				seen[s] = true
				work = append(work, st{s, 0})
			}
		}
	}
	return out
}

// follow: a return of helper fn was reached without the action; does some caller path reach a
// return of root without it?  Returns a description of the escaping path or "".
func (m *mustAfter) follow(fn *ssa.Function, rets []*ssa.Return, d int) string {
	if len(rets) == 0 {
		return ""
	}
	if fn == m.root {
		return fmt.Sprintf("%s returns at line %d without it", an.FnName(fn), m.p.Fset.Position(rets[0].Pos()).Line)
	}
	if d > m.depth {
		return "helper chain too deep after " + an.FnName(fn)
	}
	nCalls := 0
	for _, g := range m.fam {
		for _, call := range callsTo(g, fn) {
			nCalls++
			cv := call.Value()
			in := call.(ssa.Instruction)
			blk := in.Block()
			idx := 0
			for i, x := range blk.Instrs {
				if x == in {
					idx = i + 1
				}
			}
			for _, r := range rets {
				assume := map[ssa.Value]constant.Value{}
				if cv != nil {
					if len(r.Results) == 1 {
						if k, ok := an.ConstVal(an.RetVal(r, 0)); ok {
							assume[cv] = k
						}
					} else {
						for _, ref := range an.Referrers(cv) {
							if ex, ok := ref.(*ssa.Extract); ok && ex.Index < len(r.Results) {
								if k, ok := an.ConstVal(an.RetVal(r, ex.Index)); ok {
									assume[ex] = k
								}
							}
						}
					}
				}
				host := call.Parent()
				esc := m.escapes(host, blk, idx, assume)
				top := host
				for top.Parent() != nil {
					top = top.Parent()
				}
				if w := m.follow(top, esc, d+1); w != "" {
					return fmt.Sprintf("%s returns at line %d without it; then %s", an.FnName(fn), m.p.Fset.Position(r.Pos()).Line, w)
				}
			}
		}
	}
	if nCalls == 0 {
		return "no call of " + an.FnName(fn) + " in the family"
	}
	return ""
}

// mustAfterEdge returns the number of edges on which cond held and, for the first failing one, why.
func mustAfterEdge(p *an.Prog, root *ssa.Function, cond func(an.Rel) bool, must func(ssa.Instruction) bool) (n int, pos token.Pos, why string) {
	m := &mustAfter{p: p, root: root, fam: familyOf(p, root, 3), must: &an.MustDo{Pred: must, Depth: 3}, depth: 3}
	for _, fn := range m.fam {
		for _, b := range fn.Blocks {
			for _, s := range b.Succs {
				if !an.EdgeHolds(b, s, cond) || len(s.Preds) != 1 {
					// a successor shared with other predecessors also carries paths on which the
					// condition did not hold: not examined
					continue
				}
				n++
				esc := m.escapes(fn, s, 0, nil)
				if w := m.follow(fn, esc, 0); w != "" && why == "" {
					why = w
					pos = b.Instrs[len(b.Instrs)-1].Pos()
					for k := len(b.Instrs) - 1; k >= 0 && pos == token.NoPos; k-- {
						pos = b.Instrs[k].Pos()
					}
				}
			}
		}
	}
	return
}
