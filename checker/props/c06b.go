package props

import (
	"go/constant"
	"go/types"
	"strings"

	"mrocheck/an"

	"golang.org/x/tools/go/ssa"
)

// F7: a recorded failure is a failed verdict.  A function of package core that reports a boolean
// verdict (first result bool) and writes the failure marker of a job (`Metadata.WriteErrorString`,
// the file the state function treats as Failed) must return false on every path after that write.
// Recording `_errors` and returning true lets the caller go on: doJoin starts the join, the join's
// state then hides the failed chunk (Fork.getState looks at the join first) and the pipestance
// completes although a job is marked failed - the failure is neither propagated nor reported.
func ruleF7(c *an.Ctx) {
	n := 0
	for _, fn := range coreFns(c) {
		res := fn.Signature.Results()
		if res.Len() == 0 {
			continue
		}
		if b, ok := res.At(0).Type().Underlying().(*types.Basic); !ok || b.Kind() != types.Bool {
			continue
		}
		an.Instrs(fn, func(in ssa.Instruction) {
			cl, ok := an.IsMethodCall(in, corePath, "Metadata", "WriteErrorString")
			if !ok {
				return
			}
			if _, isCall := cl.(*ssa.Call); !isCall {
				return
			}
			n++
			var bad *ssa.Return
			an.Instrs(fn, func(x ssa.Instruction) {
				r, ok := x.(*ssa.Return)
				if !ok || bad != nil || len(r.Results) == 0 {
					return
				}
				if !an.Reachable(fn, in, func(y ssa.Instruction) bool { return y == x }) {
					return
				}
				v := an.RetVal(r, 0)
				if cv, isC := an.ConstVal(v); isC && cv.Kind() == constant.Bool && !constant.BoolVal(cv) {
					return
				}
				bad = r
			})
			detail := "every return after the failure was recorded reports false"
			if bad != nil {
				// the verdict may be a flag rather than a constant: path-sensitive search over the
				// boolean phi web, started after the marker was written with every flag valuation
				if ok, _ := allCore(allSite{fn: fn, S: in, ok: func(an.Rel) bool { return false }, desc: "failure recorded"}, nil, 0); ok {
					bad = nil
					detail = "after the failure was recorded no return can yield true (flag web explored path-sensitively)"
				}
			}
			if bad != nil {
				detail = "the job's failure marker is written, but a return reachable afterwards (" + c.P.Pos(bad.Pos()) + ") does not report false: the caller treats the outputs as verified and carries on, and the recorded failure is hidden by the state of the next phase"
			}
			c.Check("F7", "recorded-failure-is-a-false-verdict@"+an.FnName(fn), in.Pos(), bad == nil, detail)
		})
	}
	c.Floor("F7", "failure markers written in verdict-returning functions of package core", n, 1)
}

// F8: the list of a fork's metadata objects is rebuilt whenever the objects are replaced.
// Failure reporting (Node.getFatalError, isErrorTransient), heartbeat and queue checks walk
// Fork.collectMetadatas(), which caches its result in Fork.metadatasCache.  A function that
// replaces Fork.metadata / split_metadata / join_metadata of a live fork (updateId does, when a
// dynamically mapped fork learns its id) must drop the cache on every path on which it replaces
// them; otherwise the state of the fork is computed from the new objects (Failed) while the error
// is looked for in the orphaned ones: the pipestance fails with an empty error report and the
// failure counts as transient.  Constructors (the fork is a fresh object) are exempt.
func ruleF8(c *an.Ctx) {
	p := c.P
	cache := p.Field(pkgCore, "Fork", "metadatasCache")
	if cache == nil {
		c.Info("F8", "anchor(Fork.metadatasCache)", 0, "no metadata cache field: nothing to invalidate")
		return
	}
	n := 0
	for _, fn := range coreFns(c) {
		inval := func(in ssa.Instruction) bool {
			st, ok := in.(*ssa.Store)
			if !ok {
				return false
			}
			_, f := an.FieldOfAddr(st.Addr)
			return f == cache
		}
		seen := map[string]bool{}
		for _, fname := range []string{"metadata", "split_metadata", "join_metadata"} {
			f := p.Field(pkgCore, "Fork", fname)
			if f == nil {
				continue
			}
			for _, st := range an.StoresToField(fn, f) {
				if st.Parent() != fn {
					continue
				}
				base, _ := an.FieldOfAddr(st.Addr)
				if _, fresh := an.Strip(base).(*ssa.Alloc); fresh {
					continue
				}
				n++
				before := an.Query{Fn: fn, Target: func(in ssa.Instruction) bool { return in == ssa.Instruction(st) }, Barrier: inval}.Find()
				after := an.Query{Fn: fn, After: st, Target: an.IsReturn, Barrier: inval}.Find()
				key := "metadata-cache-dropped-when-objects-replaced(" + fname + ")@" + an.FnName(fn)
				if seen[key] {
					continue
				}
				seen[key] = true
				c.Check("F8", key, st.Pos(), before == nil || after == nil,
					"Fork."+fname+" of a live fork is replaced on a path that never resets Fork.metadatasCache: collectMetadatas keeps returning the orphaned objects, so a failure of this fork is not found by getFatalError (empty error report, counted as transient) and heartbeat/queue checks skip its jobs")
			}
		}
	}
	c.Floor("F8", "replacements of a live fork's metadata objects", n, 1)
}

// F9: every place where mrp records a fork-level failure is covered by the partial reset.
// "Once the fault is removed, restarting re-executes only the failed work and completes": the
// default restart path is Pipestance.Reset -> Node.reset -> Fork.resetPartial, which clears the
// failure markers of the metadata objects it knows about.  mrp itself writes `_errors` into
// several of a fork's metadata objects (split, join, the fork's own - e.g. when the final outputs
// fail validation in doComplete).  A metadata object of the fork that can receive `_errors` but is
// never reset/cleared by resetPartial keeps the fork Failed for ever: the restart fails again at
// once and runs nothing.
func ruleF9(c *an.Ctx) {
	p := c.P
	rp := c.NeedFunc(pkgCore, "(*Fork).resetPartial")
	if rp == nil {
		return
	}
	fields := map[string]bool{}
	forkField := func(v ssa.Value) string {
		_, f := an.FieldLoad(an.Strip(v))
		if f == nil {
			return ""
		}
		for _, name := range []string{"metadata", "split_metadata", "join_metadata"} {
			if f == p.Field(pkgCore, "Fork", name) {
				return name
			}
		}
		return ""
	}
	written := map[string]ssa.Instruction{}
	for _, fn := range coreFns(c) {
		an.Instrs(fn, func(in ssa.Instruction) {
			cl, ok := an.IsMethodCall(in, corePath, "Metadata", "WriteErrorString")
			if !ok || len(cl.Common().Args) == 0 {
				return
			}
			if name := forkField(cl.Common().Args[0]); name != "" {
				if _, seen := written[name]; !seen {
					written[name] = in
				}
				fields[name] = true
			}
		})
	}
	cleared := map[string]bool{}
	isResetName := func(n string) bool {
		n = strings.TrimSuffix(strings.TrimSuffix(n, "$thunk"), "$bound")
		switch n {
		case "checkedReset", "uncheckedReset", "remove", "removeAll", "reset":
			return true
		}
		return false
	}
	// everything resetPartial does, directly or in the functions of the package it calls (depth 2) -
	// not only private helpers: the traversal may be shared with the other restart entry points
	fam := []*ssa.Function{rp}
	inFam := map[*ssa.Function]int{rp: 0}
	for i := 0; i < len(fam); i++ {
		if inFam[fam[i]] >= 2 {
			continue
		}
		an.Instrs(fam[i], func(in ssa.Instruction) {
			if cl := an.AsCallAny(in); cl != nil {
				if g := cl.Common().StaticCallee(); g != nil && g.Blocks != nil && g.Pkg == rp.Pkg && g.Signature.Recv() != nil && strings.Contains(g.Signature.Recv().Type().String(), "core.Fork") {
					if _, seen := inFam[g]; !seen {
						inFam[g] = inFam[fam[i]] + 1
						fam = append(fam, g)
					}
				}
			}
		})
	}
	// a reset method handed on as a value (`self.eachJobMetadata((*Metadata).checkedReset)`) and applied by a helper
	resetValue := false
	for _, m := range fam {
		an.Instrs(m, func(in ssa.Instruction) {
			for _, op := range in.Operands(nil) {
				if fv, ok := (*op).(*ssa.Function); ok && isResetName(fv.Name()) {
					if cl := an.AsCallAny(in); cl == nil || cl.Common().Value != ssa.Value(fv) {
						resetValue = true
					}
				}
			}
		})
	}
	for _, m := range fam {
		an.Instrs(m, func(in ssa.Instruction) {
			cl := an.AsCallAny(in)
			if cl == nil || len(cl.Common().Args) == 0 {
				return
			}
			if cl.Common().StaticCallee() == nil {
				if resetValue && !cl.Common().IsInvoke() {
					if name := forkField(cl.Common().Args[0]); name != "" {
						cleared[name] = true
					}
				}
				return
			}
			switch cl.Common().StaticCallee().Name() {
			case "checkedReset", "uncheckedReset", "remove", "removeAll", "reset":
				if name := forkField(cl.Common().Args[0]); name != "" {
					cleared[name] = true
				}
			}
		})
	}
	n := 0
	for _, name := range []string{"metadata", "split_metadata", "join_metadata"} {
		if !fields[name] {
			continue
		}
		n++
		c.Check("F9", "recorded-fork-failure-cleared-by-partial-reset(Fork."+name+")@(*Fork).resetPartial", written[name].Pos(), cleared[name],
			"mrp writes _errors into Fork."+name+" ("+c.P.Pos(written[name].Pos())+") but Fork.resetPartial never resets or clears that metadata object: after the cause is removed the restarted pipestance reads the old marker, is Failed at once and runs nothing")
	}
	c.Floor("F9", "fork metadata objects that receive _errors from mrp", n, 2)
}

// F10: a split that is submitted again discards what an abandoned attempt left behind.  On
// re-attach Fork.updateId loads Fork.stageDefs and Fork.chunks from whatever `_stage_defs` is on
// disk - also from a split that wrote it and then failed.  doChunks builds the chunk list only when
// it is empty (premise, re-established on every run).  If doSplit submits the split again without
// clearing the list, the chunks of the failed attempt are reused: with 2 old chunks and 3 new ones
// only 2 run and the restarted pipestance completes with a wrong result.
// Rule: every path from the entry of Fork.doSplit to a call of Node.runSplit stores into Fork.chunks.
func ruleF10(c *an.Ctx) {
	p := c.P
	doSplit := c.NeedFunc(pkgCore, "(*Fork).doSplit")
	doChunks := c.NeedFunc(pkgCore, "(*Fork).doChunks")
	runSplit := c.NeedFunc(pkgCore, "(*Node).runSplit")
	chunks := p.Field(pkgCore, "Fork", "chunks")
	if doSplit == nil || doChunks == nil || runSplit == nil || chunks == nil {
		return
	}
	premise := false
	for _, m := range familyOf(p, doChunks, 2) {
		for _, b := range m.Blocks {
			for _, s := range b.Succs {
				if an.EdgeHolds(b, s, func(r an.Rel) bool {
					args, ok := an.IsBuiltinCall(r.X, "len")
					return ok && an.LoadsField(args[0], chunks) && an.IsIntConst(r.Y, 0)
				}) {
					premise = true
				}
			}
		}
	}
	if !premise {
		c.Info("F10", "premise(chunks-built-only-when-list-empty)", doChunks.Pos(), "doChunks no longer decides by len(Fork.chunks): rule not applicable")
		return
	}
	n := 0
	for _, m := range familyOf(p, doSplit, 2) {
		for _, cs := range callsTo(m, runSplit) {
			n++
			in := cs.(ssa.Instruction)
			w := an.Query{Fn: m, Target: func(x ssa.Instruction) bool { return x == in },
				Barrier: func(x ssa.Instruction) bool {
					isStore := func(y ssa.Instruction) bool {
						st, ok := y.(*ssa.Store)
						if !ok {
							return false
						}
						_, f := an.FieldOfAddr(st.Addr)
						return f == chunks
					}
					if isStore(x) {
						return true
					}
					// a private helper that resets the list on every path
					if cl := an.AsCallAny(x); cl != nil {
						if h := cl.Common().StaticCallee(); h != nil && h.Blocks != nil && h.Pkg == m.Pkg && h != runSplit {
							md := &an.MustDo{Pred: isStore, Depth: 1}
							return md.Fn(h)
						}
					}
					return false
				}}.Find()
			c.Check("F10", "resubmitted-split-discards-old-chunk-list@"+an.FnName(m), in.Pos(), w == nil,
				"the split job is submitted without Fork.chunks having been reset: doChunks builds the chunk list only when it is empty, so chunks loaded at re-attach from the `_stage_defs` of a split that failed afterwards are reused and the new split's chunks are never created; "+c.WitnessString(w))
		}
	}
	c.Floor("F10", "submissions of the split job", n, 1)
}
