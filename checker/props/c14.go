package props

import (
	"fmt"
	"go/constant"
	"go/token"
	"go/types"
	"strings"

	"mrocheck/an"

	"golang.org/x/tools/go/ssa"
)

func init() {
	Registry["C14"] = Entry{
		Run: runC14,
		Explanation: "Decides structural necessary conditions of 'VDR reclaims what it may and reports exactly what it removed' (partial claim): " +
			"W1 nothing outside the pipestance is touched: every path handed to os.RemoveAll by the VDR functions originates from Metadata path accessors (TempDir/enumerateFiles/enumerateTemp) or from keys of fileParamMap, whose keys are the paths produced by walking enumerateFiles(); Node.vdrKill touches no fork when an ancestor directory is a symlink; path containment by string prefix uses a separator-terminated prefix everywhere in the VDR file, " +
			"W2 what is reported is what is removed: the slice appended to a report's Paths is the slice the removal loop ranges over (or the content of the temp directory removed for the same metadata object), removal happens between the append and the report write, inside a critical section for the kill functions; removal errors of the per-file kill are recorded; a cache entry whose size was added to a report leaves fileParamMap in the same call (directly or via a list whose every element is deleted), so a later vdrKillSome cannot count it again, " +
			"W3 temp directories go with their phase: each clean*Temp is called only in the states that make it safe, sets its done-flag together with the removal and writes the partial report. " +
			"W4 no path that wrote the final VDR report returns done == false. " +
			"W5 every destructive callee of the per-fork sweep is preceded by the symlinked-ancestor check; W6 a map stored into Fork.filePostNodes in a loop over forks is created in that loop; W7 the symlink check reaches every ancestor (recursion on the parent, or a loop whose stat depends on the loop's node). " +
			"W8 util.Walk opens its root with O_NOFOLLOW. " +
			"W9 cacheParamFileMap gives up only for nil outs; W10 the chunk temp sweep tolerates a missing temp directory. " +
			"W11 getPartialKillReport / getVdrKillReport in partialVdrKill are called after storageLock.Lock(). " +
			"NOT decided: equality of Count/Size with the bytes removed, completeness (no volatile file survives), merge arithmetic.",
		Assumptions: commonAssumptions,
	}
}

var vdrFuncs = []string{"(*Fork).vdrKillSome", "(*Fork).vdrKill", "(*Fork).cleanSplitTemp", "(*Fork).cleanChunkTemp", "(*Fork).cleanJoinTemp"}

func runC14(c *an.Ctx) {
	p := c.P
	fileParamMap := p.Field(pkgCore, "Fork", "fileParamMap")
	if fileParamMap == nil {
		c.Undecided("anchor", "Fork.fileParamMap", token.NoPos, "field not found")
		return
	}
	isAccessor := func(v ssa.Value) (string, bool) {
		var call *ssa.Call
		switch x := v.(type) {
		case *ssa.Call:
			call = x
		case *ssa.Extract:
			call, _ = x.Tuple.(*ssa.Call)
		}
		if call == nil || call.Call.StaticCallee() == nil {
			return "", false
		}
		n := call.Call.StaticCallee().Name()
		if n == "TempDir" || n == "enumerateFiles" || n == "enumerateTemp" {
			if _, ok := an.IsMethodCall(call, corePath, "Metadata", n); ok {
				return n, true
			}
		}
		return "", false
	}
	isParamMapKey := func(v ssa.Value) bool {
		ex, ok := v.(*ssa.Extract)
		if !ok || ex.Index != 1 {
			return false
		}
		nx, ok := ex.Tuple.(*ssa.Next)
		if !ok {
			return false
		}
		rg, ok := nx.Iter.(*ssa.Range)
		return ok && an.LoadsField(rg.X, fileParamMap)
	}
	// ---------------- W1 ----------------
	nRemove := 0
	for _, name := range vdrFuncs {
		fn := c.NeedFunc(pkgCore, name)
		if fn == nil {
			continue
		}
		for _, in := range instrsOf(fn) {
			call, ok := isRemoveCall(in)
			if !ok {
				continue
			}
			nRemove++
			leaves := stringOrigins(call.Common().Args[0])
			okAll := len(leaves) > 0
			var desc []string
			for _, l := range leaves {
				if n, ok := isAccessor(l); ok {
					desc = append(desc, n+"()")
					continue
				}
				if isParamMapKey(l) {
					desc = append(desc, "key(fileParamMap)")
					continue
				}
				okAll = false
				desc = append(desc, "?"+an.StablePath(l))
			}
			c.Check("W1", "removal-target-owned@"+name, in.Pos(), okAll,
				"paths removed by VDR must originate from the stage's own metadata directories: origins "+strings.Join(desc, ","))
		}
	}
	c.Floor("W1", "os.RemoveAll sites in the VDR functions", nRemove, 1)
	// fileParamMap keys are walk paths under enumerateFiles()
	add := c.NeedFunc(pkgCore, "addFilesToArgsMappings")
	cache := c.NeedFunc(pkgCore, "(*Fork).cacheParamFileMap")
	if add != nil && cache != nil {
		n := 0
		an.InstrsDeep(add, func(fn *ssa.Function, in ssa.Instruction) {
			mu, ok := in.(*ssa.MapUpdate)
			if !ok || !strings.Contains(mu.Map.Type().String(), "vdrFileCache") {
				return
			}
			n++
			okKey := fn.Parent() != nil && len(fn.Params) > 0 && mu.Key == ssa.Value(fn.Params[0])
			c.Check("W1", "cache-key-is-walked-path@addFilesToArgsMappings", in.Pos(), okKey,
				"the key inserted into the file cache must be the path handed to the directory walk callback (never a string taken from a stage's _outs)")
		})
		c.Floor("W1", "insertions into the file cache", n, 1)
		// the walk is rooted at the first parameter
		rooted := false
		an.Instrs(add, func(in ssa.Instruction) {
			if call, ok := an.IsPkgFuncCall(in, utilPath, "Walk"); ok && call.Common().Args[0] == ssa.Value(add.Params[0]) {
				rooted = true
			}
		})
		c.Check("W1", "walk-rooted-at-argument@addFilesToArgsMappings", add.Pos(), rooted, "the directory walk must start at the path given by the caller")
		// callers pass enumerateFiles() entries
		for _, call := range func() []ssa.CallInstruction {
			var out []ssa.CallInstruction
			an.InstrsDeep(cache, func(_ *ssa.Function, in ssa.Instruction) {
				if cl := an.AsCall(in); cl != nil && cl.Common().StaticCallee() == add {
					out = append(out, cl)
				}
			})
			// ... or in a private helper the per-metadata closure was turned into
			for _, hs := range helperCallsTo(cache, add) {
				out = append(out, hs.inner)
			}
			return out
		}() {
			leaves := stringOrigins(call.Common().Args[0])
			ok := len(leaves) > 0
			for _, l := range leaves {
				if n, isA := isAccessor(l); !isA || n != "enumerateFiles" {
					ok = false
				}
			}
			c.Check("W1", "walk-roots-are-stage-files@(*Fork).cacheParamFileMap", call.Pos(), ok,
				"the file cache must be filled by walking the stage's own files directories (enumerateFiles())")
		}
		// the cache stored into the fork is the one that was filled
		for _, st := range an.StoresToField(cache, fileParamMap) {
			filled := false
			an.InstrsDeep(cache, func(_ *ssa.Function, in ssa.Instruction) {
				if cl := an.AsCall(in); cl != nil && cl.Common().StaticCallee() == add {
					for _, a := range cl.Common().Args {
						if strings.TrimPrefix(an.Path(a), "local:") == strings.TrimPrefix(an.Path(st.Val), "local:") || a == st.Val {
							filled = true
						}
					}
				}
			})
			for _, hs := range helperCallsTo(cache, add) {
				for _, a := range hs.effective {
					if a != nil && (strings.TrimPrefix(an.Path(a), "local:") == strings.TrimPrefix(an.Path(st.Val), "local:") || a == st.Val) {
						filled = true
					}
				}
			}
			c.Check("W1", "cache-is-the-walked-map@(*Fork).cacheParamFileMap", st.Pos(), filled, "fileParamMap must be the map that addFilesToArgsMappings filled")
		}
	}
	// Node.vdrKill: no fork is touched across a symlink
	nodeKill := c.NeedFunc(pkgCore, "(*Node).vdrKill")
	partial := c.NeedFunc(pkgCore, "(*Fork).partialVdrKill")
	check := c.NeedFunc(pkgCore, "(*Node).vdrCheckSymlink")
	if nodeKill != nil && partial != nil && check != nil {
		for _, call := range callsTo(nodeKill, partial) {
			fromCheck := func(v ssa.Value, idx int) bool {
				ex, ok := v.(*ssa.Extract)
				if !ok || ex.Index != idx {
					return false
				}
				cl, ok := ex.Tuple.(*ssa.Call)
				return ok && cl.Call.StaticCallee() == check
			}
			g1, _ := an.GuardedBy(call.(ssa.Instruction), func(r an.Rel) bool {
				return relEq(r, func(v ssa.Value) bool { return fromCheck(v, 0) }, func(v ssa.Value) bool { return an.IsStringConst(v, "") })
			})
			g2, _ := an.GuardedBy(call.(ssa.Instruction), func(r an.Rel) bool {
				return r.Op == token.EQL && fromCheck(r.X, 1) && an.IsNil(r.Y)
			})
			c.Check("W1", "no-vdr-across-symlink@(*Node).vdrKill", call.Pos(), g1 && g2,
				"forks are reclaimed only when neither the node directory nor an ancestor is a symlink and the check did not fail")
		}
	}

	// ---------------- W2 ----------------
	pathsF := p.Field(pkgCore, "VDRKillReport", "Paths")
	errorsF := p.Field(pkgCore, "VDRKillReport", "Errors")
	if pathsF == nil || errorsF == nil {
		c.Undecided("anchor", "VDRKillReport.Paths/Errors", token.NoPos, "fields not found")
		return
	}
	directReportWrite := func(in ssa.Instruction) bool {
		return writesFile(p, in, "VdrKill") || writesFile(p, in, "PartialVdr")
	}
	reportWriter := &an.MustDo{Pred: directReportWrite, Depth: 1}
	isReportWrite := func(in ssa.Instruction) bool {
		if directReportWrite(in) {
			return true
		}
		if cl := an.AsCall(in); cl != nil && cl.Common().StaticCallee() != nil {
			h := cl.Common().StaticCallee()
			if h.Name() == "writePartialKill" {
				return true
			}
			// a helper of the package that writes the report on every path (finalizePartialKill)
			if h.Blocks != nil && h.Pkg != nil && h.Pkg.Pkg.Path() == corePath && reportWriter.Fn(h) {
				return true
			}
		}
		return false
	}
	nPaths := 0
	for _, name := range vdrFuncs {
		fn := c.NeedFunc(pkgCore, name)
		if fn == nil {
			continue
		}
		var removes []ssa.Instruction
		for _, in := range instrsOf(fn) {
			if _, ok := isRemoveCall(in); ok {
				removes = append(removes, in)
			}
		}
		for _, st := range an.StoresToField(fn, pathsF) {
			if st.Parent() != fn {
				continue
			}
			args, isApp := an.IsBuiltinCall(st.Val, "append")
			if !isApp {
				if _, isMk := st.Val.(*ssa.MakeSlice); isMk {
					continue
				}
				continue
			}
			nPaths++
			key := "reported-paths-are-removed@" + name
			// what is appended?
			appended := args[1]
			base := sliceBase(appended)
			matched := false
			var why string
			for _, rm := range removes {
				rmArg := an.AsCall(rm).Common().Args[0]
				// (a) the removal loop indexes the same slice
				if b := elemBase(rmArg); b != nil && base != nil && sameSliceValue(b, base) {
					matched = true
					why = "the removal loop ranges over the reported slice"
				}
				// (b) temp directory of the same metadata whose content listing was reported
				if recvA, okA := accessorRecv(base, "enumerateTemp"); okA {
					if recvB, okB := accessorRecvOfValue(rmArg, "TempDir"); okB && recvA == recvB {
						matched = true
						why = "the temp directory of " + recvA + " whose listing was reported is removed"
					}
				}
				if name == "(*Fork).cleanChunkTemp" {
					// per-chunk listings are concatenated; the removal loop ranges over the same chunks
					if strings.Contains(an.Path(base), "temps") || base != nil {
						if _, okB := accessorRecvOfValue(rmArg, "TempDir"); okB && chunkTempsFromEnumerate(fn, base) {
							matched = true
							why = "every chunk's temp directory is removed; the reported list is the concatenation of their listings"
						}
					}
				}
			}
			c.Check("W2", key, st.Pos(), matched, "each path added to a kill report must be removed by the same function: "+why)
			// removal lies between the append and the report write
			between := false
			for _, rm := range removes {
				if an.Reachable(fn, st, func(x ssa.Instruction) bool { return x == rm }) &&
					an.Reachable(fn, rm, isReportWrite) {
					between = true
				}
			}
			c.Check("W2", "removal-before-report-written@"+name, st.Pos(), between,
				"the removal must happen after the paths are recorded and before the report is written")
		}
		// the report is written on every path after a removal
		for _, rm := range removes {
			ok, w := an.MustPass(fn, rm, an.IsReturn, isReportWrite)
			c.Check("W2", "report-written-after-removal@"+name, rm.Pos(), ok, "after removing files the kill report must be written on every path; "+c.WitnessString(w))
		}
		// kill functions: removal inside a critical section
		if name == "(*Fork).vdrKillSome" || name == "(*Fork).vdrKill" {
			for _, rm := range removes {
				ok, w := an.MustPass(fn, nil, func(x ssa.Instruction) bool { return x == rm }, func(x ssa.Instruction) bool {
					_, ok := an.IsPkgFuncCall(x, utilPath, "EnterCriticalSection")
					return ok
				})
				c.Check("W2", "removal-in-critical-section@"+name, rm.Pos(), ok, "removal and report must not be separated by a handled signal; "+c.WitnessString(w))
			}
		}
		// errors recorded where the error value is tested
		for _, rm := range removes {
			call := rm.(*ssa.Call)
			tested := false
			for _, b := range fn.Blocks {
				for _, s := range b.Succs {
					cnd, t, ok := an.EdgeCond(b, s)
					if !ok {
						continue
					}
					r := an.Normalize(cnd, t)
					if r.Op == token.NEQ && r.X == ssa.Value(call) && an.IsNil(r.Y) {
						tested = true
						hit := !reachExitAvoidingLoop(s, func(x ssa.Instruction) bool {
							st, ok := x.(*ssa.Store)
							if !ok {
								return false
							}
							_, f := an.FieldOfAddr(st.Addr)
							return f == errorsF
						}, b)
						c.Check("W2", "removal-error-recorded@"+name, rm.Pos(), hit, "a failed removal must be appended to the report's Errors")
					}
				}
			}
			if !tested {
				c.Info("W2", "removal-error-ignored@"+name, rm.Pos(), "the error of os.RemoveAll is not examined (chunk files of a splitting stage): information only")
			}
		}
	}
	c.Floor("W2", "appends to a report's Paths", nPaths, 1)

	ruleW2CountedOnce(c)
	ruleW1Containment(c)
	ruleW4(c)
	ruleW5(c)
	ruleW6(c)
	ruleW7(c)
	ruleW8(c)
	ruleW9(c)
	ruleW10(c)
	ruleW11(c)
	ruleW12(c)
	// ---------------- W3 ----------------
	ruleW3(c)
}

// reachExitAvoidingLoop: from block b, can the loop header `back` or a return
// be reached without executing a barrier?
func reachExitAvoidingLoop(b *ssa.BasicBlock, barrier func(ssa.Instruction) bool, guardBlock *ssa.BasicBlock) bool {
	seen := map[*ssa.BasicBlock]bool{}
	var walk func(x *ssa.BasicBlock) bool
	walk = func(x *ssa.BasicBlock) bool {
		if seen[x] {
			return false
		}
		seen[x] = true
		for _, in := range x.Instrs {
			if barrier(in) {
				return false
			}
			if an.IsExit(in) {
				return true
			}
		}
		for _, s := range x.Succs {
			if s == guardBlock || s.Dominates(guardBlock) && s != x {
				// left the error arm (back to the loop): counts as escaping without recording
				return true
			}
			if walk(s) {
				return true
			}
		}
		return false
	}
	return walk(b)
}

// sliceBase: for append(x, s...) returns s; for append(x, e) returns the slice e was loaded from.
func sliceBase(spread ssa.Value) ssa.Value {
	if sl, ok := spread.(*ssa.Slice); ok {
		if al, ok := sl.X.(*ssa.Alloc); ok {
			// one-element temp array: find the stored element
			for _, r := range an.Referrers(al) {
				if ia, ok := r.(*ssa.IndexAddr); ok {
					for _, r2 := range an.Referrers(ia) {
						if st, ok := r2.(*ssa.Store); ok {
							if b := elemBase(st.Val); b != nil {
								return b
							}
							return st.Val
						}
					}
				}
			}
		}
		return sl.X
	}
	return spread
}

// elemBase: v is a load of s[i]; returns s.
func elemBase(v ssa.Value) ssa.Value {
	u, ok := v.(*ssa.UnOp)
	if !ok || u.Op != token.MUL {
		return nil
	}
	ia, ok := u.X.(*ssa.IndexAddr)
	if !ok {
		return nil
	}
	return ia.X
}

// sameSliceValue: the two values are the same slice (same SSA value, or phis
// of the same append chain rooted at the same variable).
func sameSliceValue(a, b ssa.Value) bool {
	if a == b {
		return true
	}
	ra, rb := chainRoots(a), chainRoots(b)
	for x := range ra {
		if rb[x] {
			return true
		}
	}
	return false
}

func chainRoots(v ssa.Value) map[ssa.Value]bool {
	out := map[ssa.Value]bool{}
	seen := map[ssa.Value]bool{}
	var rec func(v ssa.Value)
	rec = func(v ssa.Value) {
		if v == nil || seen[v] {
			return
		}
		seen[v] = true
		out[v] = true
		switch x := v.(type) {
		case *ssa.Phi:
			for _, e := range x.Edges {
				rec(e)
			}
		case *ssa.Call:
			if args, ok := an.IsBuiltinCall(x, "append"); ok {
				rec(args[0])
			}
		}
	}
	rec(v)
	return out
}

// accessorRecv: v is (an extract of) recv.<name>(); returns the receiver's path.
func accessorRecv(v ssa.Value, name string) (string, bool) {
	if v == nil {
		return "", false
	}
	if ex, ok := v.(*ssa.Extract); ok {
		v = ex.Tuple
	}
	call, ok := v.(*ssa.Call)
	if !ok || call.Call.StaticCallee() == nil || call.Call.StaticCallee().Name() != name || len(call.Call.Args) == 0 {
		return "", false
	}
	return an.Path(call.Call.Args[0]), true
}

func accessorRecvOfValue(v ssa.Value, name string) (string, bool) {
	for _, l := range stringOrigins(v) {
		if r, ok := accessorRecv(l, name); ok {
			return r, true
		}
	}
	return "", false
}

// chunkTempsFromEnumerate: the slice is built only by appending enumerateTemp() results.
func chunkTempsFromEnumerate(fn *ssa.Function, base ssa.Value) bool {
	leaves := stringOrigins(base)
	if len(leaves) == 0 {
		return false
	}
	for _, l := range leaves {
		if _, ok := accessorRecv(l, "enumerateTemp"); !ok {
			return false
		}
	}
	return true
}

func ruleW3(c *an.Ctx) {
	p := c.P
	partial := c.NeedFunc(pkgCore, "(*Fork).partialVdrKill")
	forkGetState := c.NeedFunc(pkgCore, "(*Fork).getState")
	if partial == nil || forkGetState == nil {
		return
	}
	isForkState := func(v ssa.Value) bool {
		call, ok := v.(*ssa.Call)
		return ok && call.Call.StaticCallee() == forkGetState
	}
	hasPrefix := func(r an.Rel, prefix string) bool {
		if r.Op != token.ILLEGAL || !r.Truth {
			return false
		}
		call, ok := r.X.(*ssa.Call)
		if !ok || call.Call.StaticCallee() == nil || call.Call.StaticCallee().Name() != "HasPrefix" || len(call.Call.Args) != 2 {
			return false
		}
		return isForkState(r.Arg(call.Call.Args[0])) && an.IsConst(call.Call.Args[1], p.Const(pkgCore, prefix))
	}
	eqState := func(r an.Rel, name string) bool {
		return relEq(r, isForkState, func(v ssa.Value) bool { return isState(p, v, name) })
	}
	eqPrefixed := func(r an.Rel, state, prefix string) bool {
		return relEq(r, isForkState, func(v ssa.Value) bool { return isPrefixed(p, v, state, prefix) })
	}
	phases := []struct {
		fn      string
		flag    string
		allowed func(an.Rel) bool
		desc    string
	}{
		{"(*Fork).cleanSplitTemp", "Split", func(r an.Rel) bool {
			return eqState(r, "Complete") || eqPrefixed(r, "Complete", "SplitPrefix") || hasPrefix(r, "ChunksPrefix") || hasPrefix(r, "JoinPrefix")
		}, "split finished (split_complete, any chunks_* / join_* state, complete)"},
		{"(*Fork).cleanChunkTemp", "Chunks", func(r an.Rel) bool {
			return eqState(r, "Complete") || eqPrefixed(r, "Complete", "ChunksPrefix") || hasPrefix(r, "JoinPrefix")
		}, "all chunks finished (chunks_complete, any join_* state, complete)"},
		{"(*Fork).cleanJoinTemp", "Join", func(r an.Rel) bool {
			return eqState(r, "Complete") || eqPrefixed(r, "Complete", "JoinPrefix")
		}, "join finished (join_complete, complete)"},
	}
	for _, ph := range phases {
		fn := c.NeedFunc(pkgCore, ph.fn)
		if fn == nil {
			continue
		}
		sites := callsTo(partial, fn)
		c.Floor("W3", "calls of "+ph.fn+" in partialVdrKill", len(sites), 1)
		for _, s := range sites {
			g, w := an.GuardedBy(s.(ssa.Instruction), ph.allowed)
			c.Check("W3", "phase-guard("+ph.fn+")@(*Fork).partialVdrKill", s.Pos(), g,
				"the temp directory of a phase may be removed only once "+ph.desc+"; "+c.WitnessString(w))
			// not repeated: guarded by the done-flag being unset (partial == nil || !partial.<flag>)
			flagF := p.Field(pkgCore, "PartialVdrKillReport", ph.flag)
			g2, _ := an.GuardedBy(s.(ssa.Instruction), func(r an.Rel) bool {
				if r.Op == token.EQL && an.IsNil(r.Y) && strings.HasSuffix(r.X.Type().String(), "PartialVdrKillReport") {
					return true
				}
				return r.Op == token.ILLEGAL && !r.Truth && an.LoadsField(r.X, flagF)
			})
			c.Check("W3", "phase-once("+ph.fn+")@(*Fork).partialVdrKill", s.Pos(), g2, "a phase's temp cleanup is skipped once its done-flag is recorded in the partial report")
		}
		// the done-flag is set together with the removal and the partial report is written
		flagF := p.Field(pkgCore, "PartialVdrKillReport", ph.flag)
		n := 0
		for _, st := range an.StoresToField(fn, flagF) {
			if st.Parent() != fn {
				continue
			}
			n++
			ok, w := an.Query{Fn: fn, After: st, Target: an.IsReturn,
				Barrier: func(in ssa.Instruction) bool { _, ok := isRemoveCall(in); return ok },
				BarrierEdge: func(from, to *ssa.BasicBlock) bool {
					return an.EdgeHolds(from, to, func(r an.Rel) bool {
						// td == "" : nothing to remove; loop over zero chunks
						if r.Op == token.EQL && an.IsStringConst(r.Y, "") {
							return true
						}
						return false
					})
				}}.Find(), 0
			_ = w
			if ph.flag == "Chunks" {
				// removal is inside a loop over the chunks (may be empty): require reachability instead
				reach := an.Reachable(fn, st, func(in ssa.Instruction) bool { _, ok := isRemoveCall(in); return ok })
				c.Check("W3", "flag-with-removal("+ph.flag+")@"+ph.fn, st.Pos(), reach, "setting the done-flag must be followed by the removal of the temp directories")
			} else {
				c.Check("W3", "flag-with-removal("+ph.flag+")@"+ph.fn, st.Pos(), ok == nil,
					"setting the done-flag must be followed by the removal of the temp directory on every path; "+c.WitnessString(ok))
			}
			okW, w2 := an.MustPass(fn, st, an.IsReturn, func(in ssa.Instruction) bool {
				cl := an.AsCall(in)
				return cl != nil && cl.Common().StaticCallee() != nil && cl.Common().StaticCallee().Name() == "writePartialKill"
			})
			c.Check("W3", "flag-persisted("+ph.flag+")@"+ph.fn, st.Pos(), okW, "the done-flag must be persisted in the partial kill report (so a restart neither repeats nor skips the cleanup); "+c.WitnessString(w2))
		}
		c.Floor("W3", "stores of PartialVdrKillReport."+ph.flag+" in "+ph.fn, n, 1)
	}
	// the doChunks goroutine cleans the split temp under the storage lock
	doChunks := c.NeedFunc(pkgCore, "(*Fork).doChunks")
	cst := c.NeedFunc(pkgCore, "(*Fork).cleanSplitTemp")
	if doChunks != nil && cst != nil {
		for _, g := range an.WithAnon(doChunks) {
			for _, call := range callsTo(g, cst) {
				if call.Parent() != g {
					continue
				}
				held := an.ComputeLocksets(g).HeldAt(call.(ssa.Instruction))
				ok := false
				for l := range held {
					if strings.HasSuffix(l, ".storageLock") {
						ok = true
					}
				}
				c.Check("W3", "split-temp-cleanup-under-storage-lock@"+an.FnName(g), call.Pos(), ok, fmt.Sprintf("cleanSplitTemp outside partialVdrKill must hold the storage lock (held: %v)", keysOf(held)))
			}
		}
	}
}

func keysOf(m map[string]bool) []string {
	var out []string
	for k := range m {
		out = append(out, k)
	}
	return out
}

// W2 (counted once).  vdrKillSome runs repeatedly for the same fork (rolling removal).  A cache entry
// whose size/count has been added to the report must leave the file cache in the same call - directly
// (delete(fileParamMap, path)) or by being put on a list whose every element is deleted later in the
// function.  An entry that stays behind with no keep-alive arguments is selected and counted again by
// the next call: the report's count and byte total then exceed what was removed.
func ruleW2CountedOnce(c *an.Ctx) {
	p := c.P
	fn := c.NeedFunc(pkgCore, "(*Fork).vdrKillSome")
	cache := p.Field(pkgCore, "Fork", "fileParamMap")
	sizeF := p.Field(pkgCore, "VDRKillReport", "Size")
	if fn == nil || cache == nil || sizeF == nil {
		c.Undecided("W2", "counted-once@(*Fork).vdrKillSome", token.NoPos, "anchor not found (function, Fork.fileParamMap or VDRKillReport.Size)")
		return
	}
	isCacheMap := func(v ssa.Value) bool { return an.LoadsField(v, cache) }
	fam := familyOf(p, fn, 2)
	// deletedListsIn(m): slices of m every element of which is deleted from the cache in m
	deletedListsIn := func(m *ssa.Function) []ssa.Value {
		var out []ssa.Value
		an.Instrs(m, func(in ssa.Instruction) {
			call, ok := in.(*ssa.Call)
			if !ok {
				return
			}
			args, isDel := an.IsBuiltinCall(call, "delete")
			if !isDel || len(args) != 2 || !isCacheMap(args[0]) {
				return
			}
			base := elemBase(args[1])
			elemLoad, _ := args[1].(ssa.Instruction)
			if base == nil || elemLoad == nil {
				return
			}
			// the delete is crossed on every iteration that loads the element
			w := an.Query{Fn: m, After: elemLoad,
				Target:  func(x ssa.Instruction) bool { return x == elemLoad || an.IsReturn(x) },
				Barrier: func(x ssa.Instruction) bool { return x == ssa.Instruction(call) }}.Find()
			if w == nil {
				out = append(out, base)
			}
		})
		return out
	}
	// counted entries: lookups cache[K] with K an element of a list, whose entry is only read (its size
	// and count go into a sum); the entry that absorbs a nested one is written to and is not "counted"
	n := 0
	for _, m := range fam {
		m := m
		deleted := deletedListsIn(m)
		// a list returned by m whose every element is deleted by the caller counts as deleted as well
		returnedAndDeleted := func(v ssa.Value) bool {
			for caller, sites := range p.Callers(m) {
				callerDeleted := deletedListsIn(caller)
				for _, cs := range sites {
					cv := cs.Value()
					if cv == nil {
						continue
					}
					an.Instrs(m, func(in ssa.Instruction) {})
					for i := 0; i < m.Signature.Results().Len(); i++ {
						// does result i of m carry v?
						carries := false
						an.Instrs(m, func(in ssa.Instruction) {
							if r, ok := in.(*ssa.Return); ok && i < len(r.Results) && sameSliceValue(an.RetVal(r, i), v) {
								carries = true
							}
						})
						if !carries {
							continue
						}
						var res ssa.Value = cv
						if m.Signature.Results().Len() > 1 {
							res = nil
							for _, r := range an.Referrers(cv) {
								if ex, ok := r.(*ssa.Extract); ok && ex.Index == i {
									res = ex
								}
							}
						}
						for _, dl := range callerDeleted {
							if res != nil && sameSliceValue(dl, res) {
								return true
							}
						}
					}
				}
			}
			return false
		}
		an.Instrs(m, func(in ssa.Instruction) {
			lk, ok := in.(*ssa.Lookup)
			if !ok || !isCacheMap(lk.X) || lk.CommaOk || elemBase(lk.Index) == nil {
				return
			}
			// only read?
			written := false
			for _, r := range an.Referrers(lk) {
				if fa, ok := r.(*ssa.FieldAddr); ok {
					for _, r2 := range an.Referrers(fa) {
						if st, ok := r2.(*ssa.Store); ok && st.Addr == ssa.Value(fa) {
							written = true
						}
					}
				}
			}
			if written {
				return
			}
			n++
			key := lk.Index
			barrier := func(x ssa.Instruction) bool {
				call, ok := x.(*ssa.Call)
				if !ok {
					return false
				}
				if args, isDel := an.IsBuiltinCall(call, "delete"); isDel && len(args) == 2 && isCacheMap(args[0]) && args[1] == key {
					return true
				}
				if args, isApp := an.IsBuiltinCall(call, "append"); isApp && len(args) == 2 {
					if sliceBase(args[1]) == key || storedElem(args[1]) == key {
						for _, dl := range deleted {
							if sameSliceValue(dl, call) || sameSliceValue(dl, args[0]) {
								return true
							}
						}
						if returnedAndDeleted(call) {
							return true
						}
					}
				}
				return false
			}
			w := an.Query{Fn: m, After: lk,
				Target:  func(x ssa.Instruction) bool { return x == ssa.Instruction(lk) || an.IsReturn(x) },
				Barrier: barrier}.Find()
			c.Check("W2", "counted-entry-leaves-cache@"+an.FnName(m), lk.Pos(), w == nil,
				"an entry of the file cache that is counted into the kill report must be deleted from fileParamMap in the same call (directly, or via a list whose elements are all deleted, here or by the caller the list is returned to); otherwise the next vdrKillSome counts it again; "+c.WitnessString(w))
		})
	}
	c.Floor("W2", "counted cache entries in vdrKillSome or its private helpers", n, 1)
	_ = sizeF
}

// storedElem: spread is the one-element temporary of append(s, x); returns x.
func storedElem(spread ssa.Value) ssa.Value {
	sl, ok := spread.(*ssa.Slice)
	if !ok {
		return nil
	}
	al, ok := sl.X.(*ssa.Alloc)
	if !ok {
		return nil
	}
	for _, r := range an.Referrers(al) {
		if ia, ok := r.(*ssa.IndexAddr); ok {
			for _, r2 := range an.Referrers(ia) {
				if st, ok := r2.(*ssa.Store); ok {
					return st.Val
				}
			}
		}
	}
	return nil
}

// W1 (containment).  Whether one path lies inside another decides which cache entries collapse into
// their parent directory (vdrKillSome) and which files an argument keeps alive (anyOverlap).  A
// containment test by string prefix is correct only if the prefix ends with the path separator;
// otherwise a sibling whose name merely starts with the other's name ("reads.bam.bai" next to
// "reads.bam") counts as inside it: it is dropped from the removal list while still being counted.
// In the file that holds the VDR code every strings.HasPrefix with a non-constant needle must have a
// needle of the form x + "/".
func ruleW1Containment(c *an.Ctx) {
	p := c.P
	anchor := c.NeedFunc(pkgCore, "(*Fork).vdrKillSome")
	if anchor == nil {
		return
	}
	file := p.SSA.Fset.Position(anchor.Pos()).Filename
	n := 0
	for _, fn := range p.FuncsOf(pkgCore) {
		if !fn.Pos().IsValid() || p.SSA.Fset.Position(fn.Pos()).Filename != file {
			continue
		}
		an.Instrs(fn, func(in ssa.Instruction) {
			call, ok := in.(*ssa.Call)
			if !ok {
				return
			}
			f := call.Call.StaticCallee()
			if f == nil || f.Pkg == nil || f.Pkg.Pkg.Path() != "strings" || f.Name() != "HasPrefix" || len(call.Call.Args) != 2 {
				return
			}
			needle := call.Call.Args[1]
			if _, isC := an.ConstVal(needle); isC {
				return
			}
			n++
			terminated := false
			if b, ok := needle.(*ssa.BinOp); ok && b.Op == token.ADD {
				if cv, isC := an.ConstVal(b.Y); isC && cv.Kind() == constant.String && strings.HasSuffix(constant.StringVal(cv), "/") {
					terminated = true
				}
			}
			c.Check("W1", "containment-prefix-ends-with-separator("+an.StablePath(needle)+")@"+an.FnName(fn), call.Pos(), terminated,
				"a path containment test by prefix must use a prefix that ends with the separator (x + \"/\"); without it a sibling entry whose name starts with the other's name is treated as nested: it is not removed but still counted in the kill report, and keep-alive matching goes wrong the same way")
		})
	}
	c.Floor("W1", "prefix containment tests in the VDR file", n, 1)
}

// W4: a fork whose final kill report has been written says so.  Fork.vdrKillSome(partial, done)
// writes the fork's final `_vdrkill` when `done` is set and reports with its boolean result
// whether the fork is finished; Node.vdrKill adds a fork's report to the stage's and the
// pipestance's totals only when that result is true.  A path that writes the final report and
// then returns the constant false drops the fork's numbers: the pipestance `_vdrkill` under-reports
// what was removed.  Rule: in every function of package core whose second result is a bool, no
// return reachable after a Write of the VdrKill file yields the constant false as that result.
func ruleW4(c *an.Ctx) {
	p := c.P
	vdrKillFile := p.Const(pkgCore, "VdrKill")
	if vdrKillFile == nil {
		c.Info("W4", "anchor(VdrKill)", token.NoPos, "constant not found: not decided")
		return
	}
	n := 0
	for _, fn := range coreFns(c) {
		res := fn.Signature.Results()
		if res.Len() != 2 {
			continue
		}
		if b, ok := res.At(1).Type().Underlying().(*types.Basic); !ok || b.Kind() != types.Bool {
			continue
		}
		an.Instrs(fn, func(in ssa.Instruction) {
			cl, ok := an.IsMethodCall(in, corePath, "Metadata", "Write")
			if !ok || len(cl.Common().Args) < 2 || !an.IsConst(cl.Common().Args[1], vdrKillFile) {
				return
			}
			n++
			var bad *ssa.Return
			an.Instrs(fn, func(x ssa.Instruction) {
				ret, ok := x.(*ssa.Return)
				if !ok || bad != nil || len(ret.Results) < 2 {
					return
				}
				if !an.Reachable(fn, in, func(y ssa.Instruction) bool { return y == x }) {
					return
				}
				if cv, isC := an.ConstVal(an.RetVal(ret, 1)); isC && cv.Kind() == constant.Bool && !constant.BoolVal(cv) {
					bad = ret
				}
			})
			where := ""
			if bad != nil {
				where = c.P.Pos(bad.Pos())
			}
			c.Check("W4", "final-report-written-means-done@"+an.FnName(fn), in.Pos(), bad == nil,
				"the fork's final _vdrkill is written, but a return reachable afterwards ("+where+") reports `false` (not finished): Node.vdrKill then leaves this fork's report out of the stage and pipestance totals, which under-report what was removed")
		})
	}
	c.Floor("W4", "final kill reports written in functions that report completion", n, 1)
}

// helperCallsTo finds the calls of target made inside private helpers that host calls directly
// (one level): for each, the inner call and its arguments expressed in host's values where they
// are the helper's parameters.
type helperCall struct {
	inner     ssa.CallInstruction
	effective []ssa.Value
}

func helperCallsTo(host, target *ssa.Function) []helperCall {
	var out []helperCall
	an.InstrsDeep(host, func(_ *ssa.Function, in ssa.Instruction) {
		outer := an.AsCall(in)
		if outer == nil {
			return
		}
		h := outer.Common().StaticCallee()
		if h == nil || h.Blocks == nil || h == target || h == host || h.Pkg != host.Pkg {
			return
		}
		an.InstrsDeep(h, func(_ *ssa.Function, in2 ssa.Instruction) {
			cl := an.AsCall(in2)
			if cl == nil || cl.Common().StaticCallee() != target {
				return
			}
			eff := make([]ssa.Value, len(cl.Common().Args))
			for i, a := range cl.Common().Args {
				for j, prm := range h.Params {
					if an.Strip(a) == ssa.Value(prm) && j < len(outer.Common().Args) {
						eff[i] = outer.Common().Args[j]
					}
				}
			}
			out = append(out, helperCall{cl, eff})
		})
	})
	return out
}
