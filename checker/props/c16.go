package props

import (
	"fmt"
	"go/constant"
	"go/token"
	"go/types"
	"reflect"
	"sort"
	"strings"

	"mrocheck/an"

	"golang.org/x/tools/go/ssa"
)

func init() {
	Registry["C16"] = Entry{
		Run: runC16,
		Explanation: "Decides structural necessary conditions of 'MRO call text and invocation JSON convert into each other without loss' (thin claim): " +
			"I1 numbers travel as text: no JSON decoding reachable from the conversion entry points (BuildCallAst, convertToExp, BuildDataForAst, InvocationData.BuildCallAst, Fork.writeInvocation) has a destination type containing interface{} or a floating-point type, so an integer is never passed through float64 (large integers survive), " +
			"I2 table agreement: the object key under which SplitExp.encodeJSON writes a split value equals the JSON tag of the field convertToExp reads it from, " +
			"I3 the mapped status is carried both ways: BuildDataForAst lists an argument in SplitArgs exactly on the edge where its expression is a *SplitExp and stores the list in the result; BuildCallAst wraps the converted value of a listed argument in a SplitExp on every path on which it is not one already, " +
			"I4 the per-fork invocation is produced from this fork's resolved inputs (resolveInputs(self.forkId, …) feeds BuildCallSource, whose result is what is written to the invocation file), " +
			"I5 the expected type is walked with the value: stores that unwrap TypeId.MapDim are dominated by a type-switch arm for a map-kind value and stores that decrement ArrayDim by an arm for an array-kind value, in the function or at every call (calls passing the opposite constant for a guarding boolean parameter exempt). " +
			"I6 every binary search over a slice is dominated by a sort of the same slice. " +
			"I7 the include recorded by BuildDataForAst does not depend on SourceFile.IncludedFrom. " +
			"I8 every path-tail return of IncludeFilePath is dominated by a comparison of a path byte with '/'. " +
			"I9 in the string decoder a value other than the escape's own code point reaches the encoder only under an exact surrogate test; I10 the decoder combines surrogate pairs; I11 GetCallable runs CompileTypes (or compiled) before returning a type table; I12 the tokenizer's string rule accepts every JSON escape (the regexp constant evaluated on constant probes). " +
			"I13 integer->float conversions in the float-literal parser are bounded by 2^53; I14 the type argument of the per-entry conversion in convertToExp depends on the entry's key. " +
			"I15 StringExp.Value is used in the JSON methods only by quoteString, len and comparisons. " +
			"NOT decided: equality of values after a round trip (struct/map decisions, float printing, string escapes - the latter are C09's), that the recorded invocation compiles.",
		Assumptions: commonAssumptions,
	}
}

func runC16(c *an.Ctx) {
	p := c.P
	ruleI5(c)
	ruleI6(c)
	ruleI7(c)
	ruleI8(c)
	ruleI9(c)
	ruleI10(c)
	ruleI11(c)
	ruleI12(c)
	ruleI13(c)
	ruleI14(c)
	ruleI15(c)
	corePath := an.ModPath + pkgCore
	synPath := an.ModPath + pkgSyntax
	entryNames := []string{"BuildCallAst", "convertToExp", "BuildDataForAst", "(*InvocationData).BuildCallAst", "(*Fork).writeInvocation", "fixExpressionTypes", "InvocationDataFromSource"}
	var roots []*ssa.Function
	for _, n := range entryNames {
		if f := c.NeedFunc(pkgCore, n); f != nil {
			roots = append(roots, f)
		}
	}
	if len(roots) != len(entryNames) {
		return
	}
	// ---------------- I1 ----------------
	seen := map[*ssa.Function]bool{}
	var order []*ssa.Function
	var walk func(fn *ssa.Function, d int)
	walk = func(fn *ssa.Function, d int) {
		if fn == nil || seen[fn] || fn.Blocks == nil || d > 5 || fn.Pkg == nil {
			return
		}
		pp := fn.Pkg.Pkg.Path()
		if pp != corePath && pp != synPath {
			return
		}
		seen[fn] = true
		order = append(order, fn)
		for _, a := range fn.AnonFuncs {
			walk(a, d+1)
		}
		an.Instrs(fn, func(in ssa.Instruction) {
			if cl := an.AsCallAny(in); cl != nil {
				walk(cl.Common().StaticCallee(), d+1)
			}
		})
	}
	// the parser and the whole compiler are reachable from InvocationDataFromSource; numbers there are lexed
	// from text.  Keep the walk to the conversion code proper: stop at the parser entry points.
	stop := map[string]bool{"(*Parser).UncheckedParseIncludes": true, "(*Parser).ParseValExp": true, "(*Ast).Format": true, "GetCallableFrom": true, "GetCallable": true}
	var walk2 func(fn *ssa.Function, d int)
	walk2 = func(fn *ssa.Function, d int) {
		if fn == nil || stop[an.FnName(fn)] {
			return
		}
		walk(fn, d)
	}
	_ = walk2
	for _, r := range roots {
		// breadth limited walk with stops
		var rec func(fn *ssa.Function, d int)
		rec = func(fn *ssa.Function, d int) {
			if fn == nil || seen[fn] || fn.Blocks == nil || d > 5 || fn.Pkg == nil || stop[an.FnName(fn)] {
				return
			}
			pp := fn.Pkg.Pkg.Path()
			if pp != corePath && pp != synPath {
				return
			}
			seen[fn] = true
			order = append(order, fn)
			for _, a := range fn.AnonFuncs {
				rec(a, d+1)
			}
			an.Instrs(fn, func(in ssa.Instruction) {
				if cl := an.AsCallAny(in); cl != nil {
					rec(cl.Common().StaticCallee(), d+1)
				}
			})
		}
		rec(r, 0)
	}
	sort.Slice(order, func(i, j int) bool { return an.FnName(order[i]) < an.FnName(order[j]) })
	c.Floor("I1", "functions reachable from the conversion entry points", len(order), 5)
	nDec := 0
	for _, fn := range order {
		an.Instrs(fn, func(in ssa.Instruction) {
			cl := an.AsCallAny(in)
			if cl == nil {
				return
			}
			f := cl.Common().StaticCallee()
			if f == nil || f.Pkg == nil || f.Pkg.Pkg.Path() != "encoding/json" {
				return
			}
			var dst ssa.Value
			switch {
			case f.Name() == "Unmarshal" && len(cl.Common().Args) == 2:
				dst = cl.Common().Args[1]
			case f.Name() == "Decode" && f.Signature.Recv() != nil && len(cl.Common().Args) == 2:
				dst = cl.Common().Args[1]
			default:
				return
			}
			nDec++
			t := dst.Type()
			if mi, ok := dst.(*ssa.MakeInterface); ok {
				t = mi.X.Type()
			}
			bad := lossyNumberType(t, map[types.Type]bool{}, 0)
			key := "decode-keeps-numbers-as-text(" + types.TypeString(t, func(p *types.Package) string { return p.Name() }) + ")@" + an.FnName(fn)
			c.Check("I1", key, in.Pos(), bad == "",
				"on the conversion path a JSON document is decoded into a type containing "+bad+": numbers pass through float64 and integers beyond 2^53 change value; decode into json.RawMessage / json.Number or let the MRO value parser read the text")
		})
	}
	c.Floor("I1", "JSON decoding sites on the conversion path", nDec, 1)

	// ---------------- I2 ----------------
	conv := p.Func(pkgCore, "convertToExp")
	enc := p.Func(pkgSyntax, "(*SplitExp).encodeJSON")
	if enc == nil {
		c.Undecided("I2", "anchor((*SplitExp).encodeJSON)", token.NoPos, "writer not found")
	} else {
		// reader: tags of anonymous struct destinations in convertToExp
		readerKeys := map[string]bool{}
		scanReader := func(in ssa.Instruction) {
			cl := an.AsCallAny(in)
			if cl == nil {
				return
			}
			f := cl.Common().StaticCallee()
			if f == nil || f.Pkg == nil || f.Pkg.Pkg.Path() != "encoding/json" || f.Name() != "Unmarshal" {
				return
			}
			t := cl.Common().Args[1].Type()
			if mi, ok := cl.Common().Args[1].(*ssa.MakeInterface); ok {
				t = mi.X.Type()
			}
			if pt, ok := t.Underlying().(*types.Pointer); ok {
				t = pt.Elem()
			}
			if st, ok := t.Underlying().(*types.Struct); ok {
				for i := 0; i < st.NumFields(); i++ {
					tag := reflect.StructTag(st.Tag(i)).Get("json")
					name := strings.Split(tag, ",")[0]
					if name == "" {
						name = st.Field(i).Name()
					}
					readerKeys[name] = true
				}
			}
		}
		// convertToExp and the private helpers its arms were moved into (generic instantiations included)
		for _, m := range familyOf(p, conv, 2) {
			an.Instrs(m, scanReader)
		}
		// writer: constants of the form ..."key":  written by encodeJSON
		writerKeys := map[string]bool{}
		an.Instrs(enc, func(in ssa.Instruction) {
			cl := an.AsCallAny(in)
			if cl == nil {
				return
			}
			for _, a := range cl.Common().Args {
				if cv, ok := an.ConstVal(a); ok && cv.Kind() == constant.String {
					s := constant.StringVal(cv)
					for {
						i := strings.Index(s, `"`)
						if i < 0 {
							break
						}
						j := strings.Index(s[i+1:], `"`)
						if j < 0 {
							break
						}
						k := s[i+1 : i+1+j]
						rest := s[i+1+j+1:]
						if strings.HasPrefix(rest, ":") {
							writerKeys[k] = true
						}
						s = rest
					}
				}
			}
		})
		var common []string
		for k := range readerKeys {
			if writerKeys[k] {
				common = append(common, k)
			}
		}
		sort.Strings(common)
		c.Check("I2", "split-key-agreement(convertToExp reads what SplitExp.encodeJSON writes)", conv.Pos(), len(readerKeys) > 0 && len(common) == len(readerKeys),
			fmt.Sprintf("keys read by convertToExp's split arm: %v; keys written by SplitExp.encodeJSON: %v; every key the reader expects must be one the writer emits", keysOfBool(readerKeys), keysOfBool(writerKeys)))
	}

	// ---------------- I3 ----------------
	bd := p.Func(pkgCore, "BuildDataForAst")
	splitArgsF := p.Field(pkgCore, "InvocationData", "SplitArgs")
	if splitArgsF == nil {
		c.Undecided("I3", "anchor(InvocationData.SplitArgs)", token.NoPos, "field not found")
	} else {
		// (a) appends of binding ids guarded by the *SplitExp type assertion; the list is stored into SplitArgs
		nApp, okApp := 0, true
		var listVals []ssa.Value
		scanAppends := func(in ssa.Instruction) {
			call, ok := in.(*ssa.Call)
			if !ok {
				return
			}
			args, isApp := an.IsBuiltinCall(call, "append")
			if !isApp || len(args) != 2 {
				return
			}
			if st, ok := call.Type().Underlying().(*types.Slice); !ok || !isStringType(st.Elem()) {
				return
			}
			nApp++
			listVals = append(listVals, call)
			g, _ := an.GuardedBy(call, func(r an.Rel) bool {
				if r.Op != token.ILLEGAL || !r.Truth {
					return false
				}
				ex, ok := r.X.(*ssa.Extract)
				if !ok || ex.Index != 1 {
					return false
				}
				ta, ok := ex.Tuple.(*ssa.TypeAssert)
				return ok && strings.HasSuffix(ta.AssertedType.String(), "syntax.SplitExp")
			})
			if !g {
				okApp = false
			}
		}
		// BuildDataForAst and the private helpers its binding loop may have been moved into
		bdFam := familyOf(p, bd, 1)
		for _, m := range bdFam {
			an.Instrs(m, scanAppends)
		}
		stored := false
		for _, st := range an.StoresToField(bd, splitArgsF) {
			sl := newSlice(bd)
			sl.add(st.Val)
			for _, lv := range listVals {
				if sl.seen[lv] {
					stored = true
				}
			}
			// ... or the list is a result of such a helper
			for v := range sl.seen {
				cl, ok := v.(*ssa.Call)
				if !ok {
					continue
				}
				h := cl.Call.StaticCallee()
				if h == nil || h.Blocks == nil || h == bd {
					continue
				}
				inFam := false
				for _, m := range bdFam {
					if m == h {
						inFam = true
					}
				}
				if !inFam {
					continue
				}
				an.Instrs(h, func(in ssa.Instruction) {
					ret, ok := in.(*ssa.Return)
					if !ok {
						return
					}
					hs := newSlice(h)
					for _, r := range ret.Results {
						hs.add(r)
					}
					for _, lv := range listVals {
						if hs.seen[lv] {
							stored = true
						}
					}
				})
			}
		}
		c.Check("I3", "split-status-recorded@BuildDataForAst", bd.Pos(), nApp >= 1 && okApp && stored,
			fmt.Sprintf("an argument must be listed in SplitArgs on the edge where its expression is a *SplitExp, and the list must be stored in the returned InvocationData (guarded appends: %d, all guarded: %v, stored: %v)", nApp, okApp, stored))
		// (b) BuildCallAst: a store of a SplitExp into BindStm.Exp guarded by the split flag
		bca := p.Func(pkgCore, "BuildCallAst")
		bindExp := p.Field(pkgSyntax, "BindStm", "Exp")
		wrapped := false
		for _, st := range an.StoresToField(bca, bindExp) {
			mi, ok := st.Val.(*ssa.MakeInterface)
			if !ok || !strings.HasSuffix(mi.X.Type().String(), "syntax.SplitExp") {
				continue
			}
			if _, isAlloc := mi.X.(*ssa.Alloc); !isAlloc {
				continue
			}
			// guarded by a boolean that is set when the parameter id is found in splitargs
			// the flag: a boolean computed from the splitargs parameter (a search loop's phi, or
			// slices.Contains(splitargs, id))
			splitParams := map[ssa.Value]bool{}
			for _, prm := range bca.Params {
				if sl, ok := prm.Type().Underlying().(*types.Slice); ok && isStringType(sl.Elem()) {
					splitParams[prm] = true
				}
			}
			g, _ := an.GuardedBy(st, func(r an.Rel) bool {
				if r.Op != token.ILLEGAL || !r.Truth || !isBoolType(r.X.Type()) {
					return false
				}
				// the haystack: the parameter, or a copy/sorted copy of it (slices.Clone, append([]string(nil), p...))
				var fromParam func(v ssa.Value, d int) bool
				fromParam = func(v ssa.Value, d int) bool {
					if d > 4 {
						return false
					}
					if splitParams[v] {
						return true
					}
					switch y := v.(type) {
					case *ssa.Call:
						for _, a := range y.Call.Args {
							if fromParam(a, d+1) {
								return true
							}
						}
					case *ssa.Slice:
						return fromParam(y.X, d+1)
					case *ssa.Phi:
						for _, e := range y.Edges {
							if fromParam(e, d+1) {
								return true
							}
						}
					}
					return false
				}
				switch x := r.X.(type) {
				case *ssa.Phi:
					return true
				case *ssa.Call:
					for _, a := range x.Call.Args {
						if fromParam(a, 0) {
							return true
						}
					}
				case *ssa.Extract:
					// `_, found := slices.BinarySearch(list, id)`
					if cl, ok := x.Tuple.(*ssa.Call); ok {
						for _, a := range cl.Call.Args {
							if fromParam(a, 0) {
								return true
							}
						}
					}
				}
				return false
			})
			if g {
				wrapped = true
			}
		}
		c.Check("I3", "split-status-restored@BuildCallAst", bca.Pos(), wrapped,
			"for an argument listed in splitargs BuildCallAst must wrap the converted value in a SplitExp (store of a new SplitExp into the binding under the split flag)")
	}

	// ---------------- I4 ----------------
	wi := p.Func(pkgCore, "(*Fork).writeInvocation")
	resolveInputs := c.NeedFunc(pkgCore, "(*Node).resolveInputs")
	bcs := c.NeedFunc(pkgCore, "BuildCallSource")
	if wi != nil && resolveInputs != nil && bcs != nil {
		var ri, bc *ssa.Call
		var bcHost *ssa.Function
		for _, m := range familyOf(p, wi, 2) {
			m := m
			an.Instrs(m, func(in ssa.Instruction) {
				if call, ok := in.(*ssa.Call); ok {
					switch call.Call.StaticCallee() {
					case resolveInputs:
						if m == wi {
							ri = call
						}
					case bcs:
						bc, bcHost = call, m
					}
				}
			})
		}
		okFork, okArgs, okWrite := false, false, false
		if ri != nil && len(ri.Call.Args) >= 2 {
			forkIdF := p.Field(pkgCore, "Fork", "forkId")
			okFork = an.LoadsField(ri.Call.Args[1], forkIdF)
		}
		if ri != nil && bc != nil {
			fromRI := func(v ssa.Value) bool {
				ex, ok := v.(*ssa.Extract)
				return ok && ex.Tuple == ssa.Value(ri)
			}
			nFrom := 0
			var viaHelper *ssa.Call // the call of the helper that wraps BuildCallSource, if any
			if bcHost == wi {
				for _, a := range bc.Call.Args {
					if fromRI(a) {
						nFrom++
					}
				}
			} else {
				// the helper's parameters that reach BuildCallSource must be fed from resolveInputs at its call
				for _, cs := range callsTo(wi, bcHost) {
					hc, ok := cs.(*ssa.Call)
					if !ok {
						continue
					}
					viaHelper = hc
					for _, a := range bc.Call.Args {
						for i, prm := range bcHost.Params {
							if a == ssa.Value(prm) && i < len(hc.Call.Args) && fromRI(hc.Call.Args[i]) {
								nFrom++
							}
						}
					}
				}
			}
			okArgs = nFrom >= 2
			an.Instrs(wi, func(in ssa.Instruction) {
				if writesFile(p, in, "InvocationFile") {
					for _, a := range an.AsCall(in).Common().Args {
						sl := newSlice(wi)
						sl.add(a)
						for v := range sl.seen {
							if ex, ok := v.(*ssa.Extract); ok && ex.Tuple == ssa.Value(bc) {
								okWrite = true
							}
							if viaHelper != nil && (v == ssa.Value(viaHelper)) {
								// the helper must return BuildCallSource's text
								an.Instrs(bcHost, func(in2 ssa.Instruction) {
									if r, ok := in2.(*ssa.Return); ok {
										for i := range r.Results {
											if ex, ok := an.RetVal(r, i).(*ssa.Extract); ok && ex.Tuple == ssa.Value(bc) {
												okWrite = true
											}
										}
									}
								})
							}
							if ex, ok := v.(*ssa.Extract); ok && viaHelper != nil && ex.Tuple == ssa.Value(viaHelper) {
								okWrite = true
							}
						}
					}
				}
			})
		}
		c.Check("I4", "per-fork-invocation-from-this-forks-inputs@(*Fork).writeInvocation", wi.Pos(), okFork && okArgs && okWrite,
			fmt.Sprintf("the invocation file must hold BuildCallSource(resolveInputs(self.forkId, …)) (resolved for this fork: %v; both results passed on: %v; that text written: %v)", okFork, okArgs, okWrite))
	}
}

func keysOfBool(m map[string]bool) []string {
	var out []string
	for k := range m {
		out = append(out, k)
	}
	sort.Strings(out)
	return out
}

func isStringType(t types.Type) bool {
	b, ok := t.Underlying().(*types.Basic)
	return ok && b.Info()&types.IsString != 0
}

func isBoolType(t types.Type) bool {
	b, ok := t.Underlying().(*types.Basic)
	return ok && b.Info()&types.IsBoolean != 0
}

// lossyNumberType: t (the destination of a JSON decode) contains interface{} or a float type.
// Types implementing json.Unmarshaler by themselves (RawMessage, named types with UnmarshalJSON) are opaque.
func lossyNumberType(t types.Type, seen map[types.Type]bool, d int) string {
	if t == nil || seen[t] || d > 8 {
		return ""
	}
	seen[t] = true
	if n, ok := t.(*types.Named); ok {
		name := n.Obj().Name()
		if name == "RawMessage" || name == "Number" {
			return ""
		}
		// custom unmarshalers decide for themselves
		for i := 0; i < n.NumMethods(); i++ {
			if n.Method(i).Name() == "UnmarshalJSON" {
				return ""
			}
		}
	}
	switch u := t.Underlying().(type) {
	case *types.Pointer:
		if n, ok := u.Elem().(*types.Named); ok {
			for i := 0; i < n.NumMethods(); i++ {
				if n.Method(i).Name() == "UnmarshalJSON" {
					return ""
				}
			}
		}
		return lossyNumberType(u.Elem(), seen, d+1)
	case *types.Interface:
		if u.NumMethods() == 0 {
			return "interface{}"
		}
		return ""
	case *types.Basic:
		if u.Info()&types.IsFloat != 0 {
			return u.Name()
		}
	case *types.Slice:
		return lossyNumberType(u.Elem(), seen, d+1)
	case *types.Array:
		return lossyNumberType(u.Elem(), seen, d+1)
	case *types.Map:
		return lossyNumberType(u.Elem(), seen, d+1)
	case *types.Struct:
		for i := 0; i < u.NumFields(); i++ {
			if !u.Field(i).Exported() {
				continue
			}
			if tag := reflect.StructTag(u.Tag(i)).Get("json"); tag == "-" {
				continue
			}
			if s := lossyNumberType(u.Field(i).Type(), seen, d+1); s != "" {
				return s
			}
		}
	}
	return ""
}
