package props

import (
	"go/constant"
	"go/token"
	"sort"
	"strings"

	"mrocheck/an"

	"golang.org/x/tools/go/ssa"
)

// isState: v is the MetadataState constant named name (by value and type).
func isState(p *an.Prog, v ssa.Value, name string) bool {
	return an.IsConst(v, p.Const(pkgCore, name))
}

// isPrefixed: v is State.Prefixed(Prefix) with constant operands, or the
// equivalent constant of type MetadataState.
func isPrefixed(p *an.Prog, v ssa.Value, state, prefix string) bool {
	sc := p.Const(pkgCore, state)
	pc := p.Const(pkgCore, prefix)
	if sc == nil || pc == nil {
		return false
	}
	if call, ok := v.(*ssa.Call); ok {
		f := call.Call.StaticCallee()
		if f != nil && f.Name() == "Prefixed" && len(call.Call.Args) == 2 {
			return an.IsConst(call.Call.Args[0], sc) && an.IsConst(call.Call.Args[1], pc)
		}
	}
	if cv, ok := an.ConstVal(v); ok && cv.Kind() == constant.String {
		return constant.StringVal(cv) == constant.StringVal(pc.Val())+constant.StringVal(sc.Val())
	}
	return false
}

// relEq: relation is `a == b` where one side satisfies x and the other y.
func relEq(r an.Rel, x, y func(ssa.Value) bool) bool {
	if r.Op != token.EQL {
		return false
	}
	return (x(r.X) && y(r.Y)) || (x(r.Y) && y(r.X))
}

func relNeq(r an.Rel, x, y func(ssa.Value) bool) bool {
	if r.Op != token.NEQ {
		return false
	}
	return (x(r.X) && y(r.Y)) || (x(r.Y) && y(r.X))
}

func anyVal(ssa.Value) bool { return true }

// callsTo lists call instructions (call/defer/go) in fn (incl. closures) whose static callee is target.
func callsTo(fn *ssa.Function, target *ssa.Function) []ssa.CallInstruction {
	var out []ssa.CallInstruction
	an.InstrsDeep(fn, func(_ *ssa.Function, in ssa.Instruction) {
		if c := an.AsCall(in); c != nil && target != nil && c.Common().StaticCallee() == target {
			out = append(out, c)
		}
	})
	return out
}

// callerNames renders the caller set of fn.
func callerNames(p *an.Prog, fn *ssa.Function) []string {
	var out []string
	for c := range p.Callers(fn) {
		out = append(out, an.FnName(c))
	}
	sort.Strings(out)
	return out
}

func sameSet(a, b []string) bool {
	if len(a) != len(b) {
		return false
	}
	x := append([]string{}, a...)
	y := append([]string{}, b...)
	sort.Strings(x)
	sort.Strings(y)
	return strings.Join(x, "|") == strings.Join(y, "|")
}

func subset(a, allowed []string) (bool, string) {
	m := map[string]bool{}
	for _, x := range allowed {
		m[x] = true
	}
	for _, x := range a {
		if !m[x] {
			return false, x
		}
	}
	return true, ""
}

// writesFile: in is a call of a Metadata write method (Write, WriteRaw, WriteRawBytes, WriteTime, WriteAtomic, _writeRawNoLock)
// whose file-name argument is the MetadataFileName constant named name.
func writesFile(p *an.Prog, in ssa.Instruction, name string) bool {
	c := an.AsCall(in)
	if c == nil {
		return false
	}
	f := c.Common().StaticCallee()
	if f == nil || f.Signature.Recv() == nil {
		return false
	}
	switch f.Name() {
	case "Write", "WriteRaw", "WriteRawBytes", "WriteTime", "WriteAtomic", "_writeRawNoLock", "appendRaw":
	default:
		return false
	}
	if _, ok := an.IsMethodCall(in, corePath, "Metadata", f.Name()); !ok {
		return false
	}
	args := c.Common().Args
	if len(args) < 2 {
		return false
	}
	return an.IsConst(args[1], p.Const(pkgCore, name))
}

// mayWriteFile is writesFile where the file-name argument may also be a phi
// one of whose incoming values is the named constant.
func mayWriteFile(p *an.Prog, in ssa.Instruction, name string) bool {
	if writesFile(p, in, name) {
		return true
	}
	c := an.AsCall(in)
	if c == nil {
		return false
	}
	f := c.Common().StaticCallee()
	if f == nil || f.Signature.Recv() == nil {
		return false
	}
	switch f.Name() {
	case "Write", "WriteRaw", "WriteRawBytes", "WriteTime", "WriteAtomic":
	default:
		return false
	}
	if _, ok := an.IsMethodCall(in, corePath, "Metadata", f.Name()); !ok {
		return false
	}
	args := c.Common().Args
	if len(args) < 2 {
		return false
	}
	var has func(v ssa.Value, d int) bool
	has = func(v ssa.Value, d int) bool {
		if d > 4 {
			return false
		}
		if an.IsConst(v, p.Const(pkgCore, name)) {
			return true
		}
		if ph, ok := v.(*ssa.Phi); ok {
			for _, e := range ph.Edges {
				if has(e, d+1) {
					return true
				}
			}
		}
		return false
	}
	return has(args[1], 0)
}
